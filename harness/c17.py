"""C17 -- centroid functions locate symmetric sources exactly and act per source.

K (correspondence, exact, inside Coq):
  * centroid_com(data, mask)                      <-> C17_Model.com / com_float
  * centroid_sources(..., centroid_func=f, ...)   <-> C17_Model.sources  for
      f in {centroid_com, probe, probe without `error` keyword}; `probe` is a transparent
      function of every argument it receives (same definition here and in Coq)
  * centroid_quadratic(...)                       <-> C17_Model.quad_pre (+ post_ok on the
      recorded answer of numpy.linalg.lstsq, which is an input of the model)
V (independent oracles in plain Python on the implementation's output):
  weighted mean with Fractions, metamorphic relations, and "centroid_sources(all)[i] ==
  centroid_func(cutout_i, mask_i, error_i, ...) + origin_i" for every centroid function.
Clauses that depend on library numerics (lstsq recovery, Gaussian fitters) are tested
only (ctx.support) and are labelled partial.
The inputs of the Coq refutation theorems (sources_unrepaired_*_refuted) are replayed on
the implementation first (witnesses()).  Recorded-not-repaired findings of this property
live in fixes/C17-known.json (centroid_quadratic / centroid_1dg / centroid_2dg do not
return the symmetry centre for some classes of point-symmetric sources).
"""
import json
import math
import warnings
from fractions import Fraction
from pathlib import Path

import numpy as np

from .core import coq, Some, Raw

PID = 'C17'
FILES = ['lib/Cases.v', 'C17_Model.v', 'C17_Proofs.v', 'C17_Properties.v']
IMPORTS = ['C17_Model']
KNOWN_FILE = Path(__file__).resolve().parent.parent / 'fixes' / 'C17-known.json'


def load_own_known(ctx):
    """recorded-not-repaired findings of this property (fixes/C17-known.json): matched on
    the signature by ctx.violation exactly like /verif/known_findings.json entries (the
    central file is maintained by the driver; this keeps the check self-contained)."""
    if KNOWN_FILE.exists():
        have = {(k.get('property'), k.get('signature')) for k in ctx.known.get('findings', [])}
        for k in json.loads(KNOWN_FILE.read_text()).get('findings', []):
            if (k.get('property'), k.get('signature')) not in have:
                ctx.known.setdefault('findings', []).append(k)


# --------------------------------------------------------------------------
# value conversion
# --------------------------------------------------------------------------
def f2dy(v):
    """finite float -> (m, e) with v == m * 2**e, m odd or 0."""
    v = float(v)
    if v == 0.0:
        return (0, 0)
    m, e = math.frexp(v)
    mi = int(m * (1 << 53))
    e -= 53
    while mi % 2 == 0:
        mi //= 2
        e += 1
    return (mi, e)


def dy2frac(d):
    m, e = d
    return Fraction(m) * (Fraction(2) ** e)


def fres(x, y):
    """(x, y) floats -> Coq `fres` as python value; NaN in either -> None."""
    if not (math.isfinite(x) and math.isfinite(y)):
        if math.isnan(x) and math.isnan(y):
            return None
        return 'mixed'
    return Some((f2dy(x), f2dy(y)))


def px(v):
    v = float(v)
    return Some(int(v)) if math.isfinite(v) else None


def img_opt(a, scale=1):
    return [[(Some(int(round(float(v) * scale))) if math.isfinite(v) else None) for v in row] for row in a]


def img_bool(a):
    return [[bool(v) for v in row] for row in a]


def img_int(a):
    return [[int(v) for v in row] for row in a]


def qp(v):
    """python float (dyadic) -> (num, den) pair."""
    fr = Fraction(float(v))
    return (fr.numerator, fr.denominator)


def jimg(a):
    if a is None:
        return None
    return [[(None if (isinstance(v, float) and math.isnan(v)) else ('inf' if v == math.inf else ('-inf' if v == -math.inf else v)))
             for v in row] for row in np.asarray(a).tolist()]


def unj(a, dtype=float):
    if a is None:
        return None
    return np.array([[np.nan if v is None else (np.inf if v == 'inf' else (-np.inf if v == '-inf' else v))
                      for v in row] for row in a], dtype)


def same_float(a, b):
    a, b = float(a), float(b)
    return (math.isnan(a) and math.isnan(b)) or a == b


def rn(fr):
    """correctly rounded float of a Fraction."""
    return fr.numerator / fr.denominator


# --------------------------------------------------------------------------
# the probe centroid function (mirrors C17_Model.probe)
# --------------------------------------------------------------------------
def _lin_sum(a, b, k, im):
    ny, nx = im.shape
    w = a * np.arange(ny)[:, None] + b * np.arange(nx)[None, :] + k
    return float(np.sum(w * im))


def probe(data, mask=None, error=None, xpeak=None, ypeak=None):
    data = np.asarray(data, float)
    if error is not None and np.shape(error) != data.shape:
        raise ValueError('data and error must have the same shape.')
    d = np.where(mask, 5.0, np.where(np.isfinite(data), data, 0.0))
    ny, nx = data.shape
    x = _lin_sum(7, 3, 1, d) + (math.floor(64 * xpeak) if xpeak is not None else -1)
    y = ((_lin_sum(5, 11, 2, np.asarray(error, float)) if error is not None else 2.0)
         + (math.floor(64 * ypeak) if ypeak is not None else -3) + 1000 * ny + 100 * nx)
    return float(x), float(y)


def probe_noerr(data, mask=None, xpeak=None, ypeak=None):
    return probe(data, mask=mask, xpeak=xpeak, ypeak=ypeak)


def funcs():
    from photutils.centroids import centroid_com, centroid_quadratic, centroid_1dg, centroid_2dg
    return {'com': centroid_com, 'probe': probe, 'probe_noerr': probe_noerr,
            'quadratic': centroid_quadratic, '1dg': centroid_1dg, '2dg': centroid_2dg}


SEL = {'com': 0, 'probe': 1, 'probe_noerr': 2}
ACCEPTS = {'com': (), 'probe': ('error', 'xpeak', 'ypeak'), 'probe_noerr': ('xpeak', 'ypeak'),
           'quadratic': ('xpeak', 'ypeak', 'fit_boxsize', 'search_boxsize'), '1dg': ('error',), '2dg': ('error',)}


# --------------------------------------------------------------------------
# generators
# --------------------------------------------------------------------------
def rand_img(rng, ny, nx, kind):
    if kind == 'ints':
        a = [[rng.randint(-3, 20) for _ in range(nx)] for _ in range(ny)]
    elif kind == 'pos':
        a = [[rng.randint(0, 30) for _ in range(nx)] for _ in range(ny)]
    elif kind == 'sparse':
        a = [[(rng.randint(1, 40) if rng.random() < 0.2 else 0) for _ in range(nx)] for _ in range(ny)]
    elif kind == 'quarters':
        a = [[rng.randint(-8, 80) / 4 for _ in range(nx)] for _ in range(ny)]
    elif kind == 'zero_total':
        a = [[rng.randint(-5, 5) for _ in range(nx)] for _ in range(ny)]
        s = sum(map(sum, a))
        a[rng.randrange(ny)][rng.randrange(nx)] -= s
    elif kind == 'blob':
        cy, cx = rng.uniform(0, ny - 1), rng.uniform(0, nx - 1)
        s2 = rng.choice([1.0, 2.0, 4.0])
        amp = rng.choice([20, 50, 100])
        a = [[round(amp * math.exp(-((x - cx) ** 2 + (y - cy) ** 2) / (2 * s2))) + rng.randint(0, 1)
              for x in range(nx)] for y in range(ny)]
    else:
        raise ValueError(kind)
    return np.array(a, float)


def symmetric_img(rng, ny, nx):
    """image that is point symmetric about (cx, cy) = (ax/2, ay/2), zero elsewhere;
    returns (img, ax, ay)."""
    ax = rng.randint(0, 2 * (nx - 1))
    ay = rng.randint(0, 2 * (ny - 1))
    a = np.zeros((ny, nx))
    for y in range(ny):
        for x in range(nx):
            x2, y2 = ax - x, ay - y
            if 0 <= x2 < nx and 0 <= y2 < ny and (y, x) <= (y2, x2):
                v = float(rng.randint(0, 12))
                a[y, x] = v
                a[y2, x2] = v
    return a, ax, ay


def add_nonfinite(rng, a, p=0.3):
    if rng.random() < p:
        for _ in range(rng.randint(1, 3)):
            a[rng.randrange(a.shape[0]), rng.randrange(a.shape[1])] = rng.choice([np.nan, np.inf, -np.inf])
    return a


def rand_mask(rng, shape, dens=None):
    dens = dens if dens is not None else rng.choice([0.1, 0.3, 0.6])
    return np.array([[rng.random() < dens for _ in range(shape[1])] for _ in range(shape[0])], bool)


def gen_com(rng):
    ny, nx = rng.randint(1, 9), rng.randint(1, 9)
    kind = rng.choice(['ints', 'pos', 'sparse', 'quarters', 'zero_total', 'blob', 'symmetric', 'symmetric'])
    sym = None
    if kind == 'symmetric':
        data, ax, ay = symmetric_img(rng, ny, nx)
        sym = (ax, ay)
    else:
        data = rand_img(rng, ny, nx, kind)
    mask = None
    r = rng.random()
    if kind == 'symmetric':
        if r < 0.3:   # symmetric mask keeps the symmetry
            m0 = rand_mask(rng, data.shape, 0.2)
            mask = np.zeros(data.shape, bool)
            for y in range(ny):
                for x in range(nx):
                    x2, y2 = sym[0] - x, sym[1] - y
                    if m0[y, x]:
                        mask[y, x] = True
                        if 0 <= x2 < nx and 0 <= y2 < ny:
                            mask[y2, x2] = True
    else:
        if r < 0.5:
            mask = rand_mask(rng, data.shape)
        elif r < 0.55:
            mask = np.ones(data.shape, bool)
        elif r < 0.6:
            mask = rand_mask(rng, (ny + rng.choice([0, 1]), nx + 1))   # wrong shape
        data = add_nonfinite(rng, data)
    return dict(kind=kind, data=data, mask=mask, sym=sym)


def com_impl(data, mask):
    from photutils.centroids import centroid_com
    try:
        with warnings.catch_warnings():
            warnings.simplefilter('ignore')
            r = centroid_com(data.copy(), mask=None if mask is None else mask.copy())
    except ValueError:
        return 'raise'
    return (float(r[0]), float(r[1]))


def com_oracle(data, mask):
    """the property statement: intensity weighted mean pixel coordinate of the unmasked
    finite pixels (NaN pair when their total is zero)."""
    if mask is not None and mask.shape != data.shape:
        return 'raise'
    sx = sy = st = Fraction(0)
    for y in range(data.shape[0]):
        for x in range(data.shape[1]):
            v = data[y, x]
            if (mask is not None and mask[y, x]) or not math.isfinite(v):
                continue
            fv = Fraction(float(v))
            st += fv
            sx += x * fv
            sy += y * fv
    if st == 0:
        return (math.nan, math.nan)
    return (rn(sx / st), rn(sy / st))


def res_equal(a, b):
    if a == 'raise' or b == 'raise':
        return a == b
    return same_float(a[0], b[0]) and same_float(a[1], b[1])


def magnitude_class(lat):
    return '2^0' if lat == 0 else ('2^-60..2^-20' if lat < -20 else ('2^-20..2^20' if lat <= 20 else '2^20..2^60'))


def com_exact_with_bound(data, mask):
    """exact weighted mean of arbitrary doubles (Fractions) and a rigorous bound on what a
    floating-point evaluation in any summation order may return; None when the total is
    zero or so small relative to the summands that the bound is useless."""
    u = Fraction(1, 2 ** 53)
    n = data.size + 2
    T = X = Y = AT = AX = AY = Fraction(0)
    for y in range(data.shape[0]):
        for x in range(data.shape[1]):
            v = data[y, x]
            if (mask is not None and mask[y, x]) or not math.isfinite(v):
                continue
            fv = Fraction(float(v))
            T += fv
            X += x * fv
            Y += y * fv
            AT += abs(fv)
            AX += x * abs(fv)
            AY += y * abs(fv)
    if T == 0 or 4 * n * u * AT >= abs(T):
        return None
    tx = (4 * n * u * (AX + abs(X / T) * AT)) / abs(T) + 4 * u * abs(X / T)
    ty = (4 * n * u * (AY + abs(Y / T) * AT)) / abs(T) + 4 * u * abs(Y / T)
    return X / T, Y / T, tx, ty


def com_scale(data):
    return 4 if np.any(np.isfinite(data) & (data != np.round(data))) else 1


def com_to_coq(c, impl):
    sc = com_scale(c['data'])
    exp = None if impl == 'raise' else Some(fres(*impl))
    return 'CCom ' + coq((img_opt(c['data'], sc), None if c['mask'] is None else Some(img_bool(c['mask'])), exp))


# ---- centroid_sources ----
def gen_src(rng, fnames=('com', 'probe', 'probe', 'probe_noerr')):
    ny, nx = rng.randint(4, 13), rng.randint(4, 13)
    fname = rng.choice(fnames)
    kind = rng.choice(['pos', 'ints', 'blob', 'sparse'])
    data = rand_img(rng, ny, nx, kind)
    if fname == 'com':
        data = add_nonfinite(rng, data, 0.2)
    npos = rng.choice([1, 2, 2, 3, 3, 4, 5, 6])
    step = rng.choice([1, 2, 4, 8])

    def rpos(n):
        return rng.randint(0, (n - 1) * step) / step
    xs = [rpos(nx) for _ in range(npos)]
    ys = [rpos(ny) for _ in range(npos)]
    r = rng.random()
    if r < 0.015:
        xs, ys = [], []
    elif r < 0.03:
        k = rng.randrange(npos)
        xs[k] = rng.choice([-0.25, nx - 0.75, float(nx)])
    elif r < 0.045:
        k = rng.randrange(npos)
        ys[k] = rng.choice([-0.5, ny - 0.5])
    elif r < 0.2 and npos >= 2:
        xs[1], ys[1] = xs[0], ys[0]       # duplicate position
    elif r < 0.3:
        k = rng.randrange(npos)           # corner / border positions
        xs[k], ys[k] = rng.choice([0.0, nx - 1.0]), rng.choice([0.0, ny - 1.0])
    box = None
    foot = None
    if rng.random() < 0.6:
        box = rng.choice([1, 3, 3, 5, 5, 7, 9, (3, 5), (5, 3), (1, 7), 15])
    else:
        fy, fx = rng.randint(1, 6), rng.randint(1, 6)
        foot = ~rand_mask(rng, (fy, fx), rng.choice([0.0, 0.2, 0.4, 0.6]))
        if rng.random() < 0.04:
            foot[:] = False
    mask = None
    r = rng.random()
    if r < 0.4:
        mask = rand_mask(rng, data.shape, rng.choice([0.1, 0.3]))
    elif r < 0.44:
        mask = np.zeros(data.shape, bool)   # a masked block: may mask a source completely
        y0, x0 = rng.randrange(ny), rng.randrange(nx)
        mask[max(0, y0 - 3):y0 + 4, max(0, x0 - 3):x0 + 4] = True
    kw = {}
    if rng.random() < 0.6:
        kw['error'] = np.array([[rng.randint(1, 9) for _ in range(nx)] for _ in range(ny)], float)
    r = rng.random()
    if r < 0.5:
        kw['xpeak'] = rng.randint(0, (nx - 1) * 4) / 4
        kw['ypeak'] = rng.randint(0, (ny - 1) * 4) / 4
    elif r < 0.58:
        kw['xpeak'] = float(rng.randrange(nx))
    elif r < 0.66:
        kw['ypeak'] = float(rng.randrange(ny))
    return dict(fname=fname, data=data, xs=xs, ys=ys, box=box, foot=foot, mask=mask, kw=kw, kind=kind)


def witnesses():
    """the inputs of C17_Properties.sources_unrepaired_error_refuted / _peak_refuted
    (C17_Proofs.ones6, foot3, err6, two_pos), replayed on the implementation."""
    err6 = np.array([[1, 2, 3, 4, 5, 6], [2, 3, 4, 5, 6, 7], [3, 4, 5, 6, 7, 8], [4, 5, 6, 7, 8, 9],
                     [5, 6, 7, 8, 9, 1], [6, 7, 8, 9, 1, 2]], float)
    base = dict(fname='probe', data=np.ones((6, 6)), box=3, foot=None, mask=None, kind='witness')
    return [dict(base, xs=[1.0, 4.0], ys=[1.0, 4.0], kw={'error': err6}),
            dict(base, xs=[2.0, 4.0], ys=[2.0, 4.0], kw={'xpeak': 3.0, 'ypeak': 3.0})]


def src_impl(c, xs=None, ys=None):
    from photutils.centroids import centroid_sources
    f = funcs()[c['fname']]
    xs = c['xs'] if xs is None else xs
    ys = c['ys'] if ys is None else ys
    kw = {k: (v.copy() if isinstance(v, np.ndarray) else v) for k, v in c['kw'].items()}
    try:
        with warnings.catch_warnings():
            warnings.simplefilter('ignore')
            x, y = centroid_sources(c['data'].copy(), list(xs), list(ys),
                                    box_size=c['box'] if c['box'] is not None else 11,
                                    footprint=None if c['foot'] is None else c['foot'].copy(),
                                    mask=None if c['mask'] is None else c['mask'].copy(),
                                    centroid_func=f, **kw)
    except Exception:     # ValueError of centroid_sources, or anything the centroid function lets through
        return 'raise'
    return [(float(a), float(b)) for a, b in zip(x, y)]


def footprint_of(c):
    if c['foot'] is not None:
        return np.asarray(c['foot'], bool)
    b = c['box']
    b = (b, b) if np.isscalar(b) else b
    return np.ones(b, bool)


def src_oracle(c):
    """the property statement in plain Python: for every position, the centroid function
    on that position's cutout with the same footprint, mask, error and extra arguments,
    plus the cutout origin."""
    f = funcs()[c['fname']]
    data = c['data']
    ny, nx = data.shape
    if len(c['xs']) == 0:
        return 'raise'
    if min(c['xs']) < 0 or min(c['ys']) < 0 or max(c['xs']) > nx - 1 or max(c['ys']) > ny - 1:
        return 'raise'
    if c['foot'] is None:
        b = c['box']
        b = (b, b) if np.isscalar(b) else b
        if any(v % 2 == 0 or v <= 0 for v in b):
            return 'raise'
    foot = footprint_of(c)
    fy, fx = foot.shape
    out = []
    for xp, yp in zip(c['xs'], c['ys']):
        iy = math.ceil(Fraction(yp) - Fraction(fy, 2))
        ix = math.ceil(Fraction(xp) - Fraction(fx, 2))
        y0, y1 = max(0, iy), min(ny, iy + fy)
        x0, x1 = max(0, ix), min(nx, ix + fx)
        m = ~foot[y0 - iy:y1 - iy, x0 - ix:x1 - ix]
        if c['mask'] is not None:
            m = m | c['mask'][y0:y1, x0:x1]
        if m.all():
            return 'raise'
        kw = {}
        acc = ACCEPTS[c['fname']]
        for k, v in c['kw'].items():
            if k in acc and k not in ('xpeak', 'ypeak', 'error'):
                kw[k] = v
        if 'error' in acc and c['kw'].get('error') is not None:
            kw['error'] = c['kw']['error'][y0:y1, x0:x1].copy()
        if ('xpeak' in acc and 'ypeak' in acc and c['kw'].get('xpeak') is not None
                and c['kw'].get('ypeak') is not None):
            kw['xpeak'] = c['kw']['xpeak'] - x0
            kw['ypeak'] = c['kw']['ypeak'] - y0
        try:
            with warnings.catch_warnings():
                warnings.simplefilter('ignore')
                xc, yc = f(data[y0:y1, x0:x1].copy(), mask=m.copy(), **kw)
            xc, yc = float(xc), float(yc)
        except (ValueError, TypeError):
            xc, yc = math.nan, math.nan
        except Exception:     # centroid_sources does not catch anything else
            return 'raise'
        out.append((xc + x0, yc + y0))
    return out


def list_equal(a, b):
    if a == 'raise' or b == 'raise':
        return a == b
    return len(a) == len(b) and all(res_equal(p, q) for p, q in zip(a, b))


def src_to_coq(c, impl):
    data = c['data']
    exp = None if impl == 'raise' else Some([fres(*p) for p in impl])
    kw = c['kw']
    return 'CSrc ' + coq((SEL[c['fname']], img_opt(data), img_bool(footprint_of(c)),
                          None if c['mask'] is None else Some(img_bool(c['mask'])),
                          Some(img_int(kw['error'])) if kw.get('error') is not None else None,
                          Some(qp(kw['xpeak'])) if kw.get('xpeak') is not None else None,
                          Some(qp(kw['ypeak'])) if kw.get('ypeak') is not None else None,
                          [(qp(x), qp(y)) for x, y in zip(c['xs'], c['ys'])], exp))


def src_describe(c):
    return {'func': c['fname'], 'data': jimg(c['data']), 'xpos': list(c['xs']), 'ypos': list(c['ys']),
            'box_size': c['box'], 'footprint': None if c['foot'] is None else c['foot'].astype(int).tolist(),
            'mask': None if c['mask'] is None else c['mask'].astype(int).tolist(),
            'kwargs': {k: (jimg(v) if isinstance(v, np.ndarray) else v) for k, v in c['kw'].items()}}


def src_undescribe(d):
    box = d['box_size']
    return dict(fname=d['func'], data=unj(d['data']), xs=d['xpos'], ys=d['ypos'],
                box=tuple(box) if isinstance(box, list) else box,
                foot=None if d['footprint'] is None else np.array(d['footprint'], bool),
                mask=None if d['mask'] is None else np.array(d['mask'], bool),
                kw={k: (unj(v) if isinstance(v, list) else v) for k, v in d['kwargs'].items()})


# ---- centroid_quadratic ----
def quad_surface(rng, ny, nx):
    """integer valued exactly quadratic surface with a strict maximum; vertex dyadic."""
    a = -rng.choice([1, 2, 4])          # c20
    b = -rng.choice([1, 2, 4])          # c02
    c = rng.choice([0, 0, 1, -1])       # c11 ; 4ab - c^2 >= 3 > 0
    if rng.random() < 0.75:      # interior (incl. within one pixel of the border)
        vx = rng.randint(3, 4 * (nx - 1) - 3) / 4
        vy = rng.randint(3, 4 * (ny - 1) - 3) / 4
    else:
        vx = rng.randint(0, 4 * (nx - 1)) / 4
        vy = rng.randint(0, 4 * (ny - 1)) / 4
    y, x = np.mgrid[:ny, :nx]
    z = a * (x - vx) ** 2 + b * (y - vy) ** 2 + c * (x - vx) * (y - vy)
    z = z * 16 + rng.choice([0, 1000])
    return z.astype(float), (vx, vy)


def gen_quad(rng):
    ny, nx = rng.randint(3, 13), rng.randint(3, 13)
    if rng.random() < 0.6:
        ny, nx = max(ny, 5), max(nx, 5)
    kind = rng.choice(['quadratic', 'quadratic', 'blob', 'blob', 'ints', 'plateau', 'sparse'])
    vertex = None
    if kind == 'quadratic':
        data, vertex = quad_surface(rng, ny, nx)
    elif kind == 'plateau':
        data = np.array([[float(rng.choice([0, 1, 7, 7])) for _ in range(nx)] for _ in range(ny)])
    else:
        data = rand_img(rng, ny, nx, kind)
    nonfinite = False
    if rng.random() < 0.25:
        before = np.isfinite(data).sum()
        data = add_nonfinite(rng, data, 1.0)
        nonfinite = np.isfinite(data).sum() != before
    mask = None
    r = rng.random()
    if r < 0.25:
        mask = rand_mask(rng, data.shape, rng.choice([0.05, 0.2, 0.6]))
    elif r < 0.27:
        mask = np.ones(data.shape, bool)
    elif r < 0.29:
        mask = rand_mask(rng, (ny + 1, nx), 0.1)
    kw = {}
    r = rng.random()
    if r < 0.45:
        q = rng.choice([1, 2, 4])
        kw['xpeak'] = rng.randint(0, (nx - 1) * q) / q
        kw['ypeak'] = rng.randint(0, (ny - 1) * q) / q
        if vertex is not None and rng.random() < 0.5:
            kw['xpeak'] = float(min(nx - 1, max(0, round(vertex[0]) + rng.choice([-1, 0, 0, 1]))))
            kw['ypeak'] = float(min(ny - 1, max(0, round(vertex[1]) + rng.choice([-1, 0, 0, 1]))))
        r2 = rng.random()
        if r2 < 0.03:
            kw['xpeak'] = rng.choice([-0.25, nx - 0.75])
        elif r2 < 0.06:
            kw['ypeak'] = rng.choice([-1.0, ny - 0.5])
    elif r < 0.47:
        kw['xpeak'] = 1.0
    elif r < 0.49:
        kw['ypeak'] = 1.0
    r = rng.random()
    if r < 0.6:
        kw['fit_boxsize'] = rng.choice([3, 3, 3, 5, 5, 5, 7, 7, (3, 5), (5, 3), (3, 7), (1, 7), (7, 1), 21, (3, 21),
                                        rng.choice([(3, 1), 1, 4, 0, (5, 2), -3])])
    if rng.random() < 0.4:
        kw['search_boxsize'] = rng.choice([1, 3, 3, 5, 5, 7, (3, 7), (5, 1), 31, rng.choice([4, 0, (3, 2)])])
    return dict(kind=kind, data=data, mask=mask, kw=kw, vertex=vertex, nonfinite=nonfinite)


class LstsqSpy:
    """records the calls of numpy.linalg.lstsq made during a `with` block."""

    def __enter__(self):
        self.calls = []
        self.orig = np.linalg.lstsq

        def spy(a, b, *args, **kwargs):
            res = self.orig(a, b, *args, **kwargs)
            self.calls.append((np.array(a), np.array(b), np.array(res[0])))
            return res
        np.linalg.lstsq = spy
        return self

    def __exit__(self, *exc):
        np.linalg.lstsq = self.orig
        return False


def quad_impl(c):
    from photutils.centroids import centroid_quadratic
    with LstsqSpy() as spy:
        try:
            with warnings.catch_warnings():
                warnings.simplefilter('ignore')
                r = centroid_quadratic(c['data'].copy(), mask=None if c['mask'] is None else c['mask'].copy(),
                                       **c['kw'])
            out = (float(r[0]), float(r[1]))
        except ValueError:
            out = 'raise'
    return out, spy.calls


def pairz(v):
    return (int(v), int(v)) if np.isscalar(v) else (int(v[0]), int(v[1]))


def quad_to_coq(c, out, calls, lat=0):
    """c holds the unscaled lattice image; the implementation ran on data * 2**lat, so the
    observed right-hand side of lstsq is divided by 2**lat (exact) before it is compared
    with the model's rows; the recorded coefficients stay as returned (all tests on them
    are homogeneous)."""
    kw = c['kw']
    lsq = None
    if len(calls) == 1:
        A, b, coef = calls[0]
        rows = [(int(A[i, 1]), int(A[i, 2]), int(b[i] * 2.0 ** (-lat))) for i in range(len(b))]
        lsq = Some((rows, tuple(f2dy(v) for v in coef[1:6])))
    obs = Raw('ORaise') if out == 'raise' else Raw('(OOut ' + coq(fres(*out)) + ')')
    return 'CQuad ' + coq((img_opt(c['data']), None if c['mask'] is None else Some(img_bool(c['mask'])),
                           Some(qp(kw['xpeak'])) if 'xpeak' in kw else None,
                           Some(qp(kw['ypeak'])) if 'ypeak' in kw else None,
                           pairz(kw.get('fit_boxsize', 5)),
                           Some(pairz(kw['search_boxsize'])) if 'search_boxsize' in kw else None,
                           lsq, obs))


def det_marginal(coef):
    """C17_Model.det_marginal on the recorded lstsq answer (exact rationals)."""
    c10, c01, c11, c20, c02 = (Fraction(float(v)) for v in coef[1:6])
    return abs(4 * c20 * c02 - c11 * c11) <= Fraction(1, 2 ** 50) * (4 * abs(c20 * c02) + c11 * c11)


def quad_rows_ok(calls):
    """the design matrix handed to lstsq has the columns 1, x, y, xy, xx, yy."""
    for A, b, _ in calls:
        x, y = A[:, 1], A[:, 2]
        if A.shape[1] != 6 or not (np.array_equal(A[:, 0], np.ones_like(x)) and np.array_equal(A[:, 3], x * y)
                                   and np.array_equal(A[:, 4], x * x) and np.array_equal(A[:, 5], y * y)):
            return False
    return True


def quad_describe(c):
    return {'data': jimg(c['data']), 'mask': None if c['mask'] is None else c['mask'].astype(int).tolist(),
            'kwargs': c['kw']}


def quad_oracle(c, out):
    """independent statement for the parts of centroid_quadratic that do not depend on
    lstsq: the located peak pixel (first maximum in raster order, search box), the border
    rule, and for exactly quadratic unmasked data the vertex (tolerance 1e-7, lstsq).
    Returns (ok, text)."""
    data = np.array(c['data'], float)
    ny, nx = data.shape
    kw = c['kw']
    xp, yp = kw.get('xpeak'), kw.get('ypeak')
    fb, sb = pairz(kw.get('fit_boxsize', 5)), kw.get('search_boxsize')

    def bad_box(b):
        return any(v <= 0 or v % 2 == 0 for v in b)
    if (xp is None) != (yp is None):
        return out == 'raise', 'one of xpeak/ypeak'
    if xp is not None and not (0 <= xp <= nx - 1 and 0 <= yp <= ny - 1):
        return out == 'raise', 'peak outside'
    if c['mask'] is not None and c['mask'].shape != data.shape:
        return out == 'raise', 'mask shape'
    if bad_box(fb) or min(fb[0], ny) * min(fb[1], nx) < 6:
        return out == 'raise', 'fit box'
    w = np.where(np.isfinite(data), data, np.nan)
    if c['mask'] is not None:
        w[c['mask']] = np.nan

    def first_max(y0, y1, x0, x1):
        best = None
        for y in range(y0, y1):
            for x in range(x0, x1):
                if not math.isnan(w[y, x]) and (best is None or w[y, x] > best[0]):
                    best = (w[y, x], x, y)
        return best
    if xp is None:
        pk = first_max(0, ny, 0, nx)
    else:
        xi, yi = math.floor(xp + 0.5), math.floor(yp + 0.5)
        if sb is None:
            pk = (None, xi, yi)
        else:
            sb = pairz(sb)
            if bad_box(sb):
                return out == 'raise', 'search box'
            sy, sx = min(sb[0], ny), min(sb[1], nx)
            y0, x0 = yi - sy // 2, xi - sx // 2
            pk = first_max(max(0, y0), min(ny, y0 + sy), max(0, x0), min(nx, x0 + sx))
    if pk is None:
        return out == 'raise', 'all NaN'
    _, xi, yi = pk
    if xi in (0, nx - 1) or yi in (0, ny - 1):
        return out != 'raise' and res_equal(out, (float(xi), float(yi))), f'border peak {(xi, yi)}'
    if out == 'raise':
        return False, 'unexpected ValueError'
    # any returned value lies strictly inside the image
    if not math.isnan(out[0]) and not (0 < out[0] < nx - 1 and 0 < out[1] < ny - 1):
        return False, 'value outside the image'
    return True, 'fit'


# --------------------------------------------------------------------------
# run
# --------------------------------------------------------------------------
def run(ctx):
    ctx.build_with_translator(FILES, extra_files=['C17M_Proofs.v', 'C17M_Properties.v'],
                              extra_obligation_files=['C17M_Properties.v'])   # centre of mass lies in the hull
    pass  # known findings come from /verif/known_findings.json only
    ctx.cov['rule'] = (
        'three case families, all evaluated by the real API and by the Coq model (vm_compute): '
        'centroid_com on 1x1..9x9 integer/quarter-valued images (random, sparse, zero total, blobs, point-symmetric '
        'sources about integer and half-integer centres, NaN/inf, random/full/wrong-shape masks); '
        'centroid_sources on 4x4..13x13 images with 0..6 positions (multiples of 1/1..1/8, duplicates, corners, '
        'out of range), box sizes 1..15 / pairs / explicit odd and even footprints, masks (random, blocks that mask a '
        'source completely), error maps, xpeak/ypeak (both, one, none) for centroid_com and two probe functions; '
        'centroid_quadratic on 3x3..13x13 images (exact quadratics with dyadic vertex anywhere incl. the border, blobs, '
        'plateaus with tied maxima, NaN/inf, masks, xpeak/ypeak incl. .5 ties and out of range, fit/search box sizes '
        'incl. even, 0, too small, larger than the image). Plus (oracle tests only): centroid_sources with '
        'centroid_quadratic/1dg/2dg on 12x12..22x22 scenes of 1..4 Gaussian sources; flips/transposition/rescaling/'
        'masked values of the three fitting functions; point-symmetric non-Gaussian sources about integer and '
        'half-integer centres at the window centre, off centre and next to the border for all four functions. '
        'non-trivial = implementation returned at least one finite coordinate; distinct = distinct full input')
    ctx.assumptions += [
        'numpy.linalg.lstsq is an input of the model: its call is observed (rows, returned coefficients) and the '
        'model continues from the returned coefficients',
        'float evaluation of the vertex formula is tied by a rigorous rounding bound (2^-49 relative to the term '
        'magnitudes); decisions with an exact margin inside the bound are accepted either way and counted',
        'centroid_com sums are exact on the generated lattice (integers / quarters, |sums| < 2^53); the final '
        'quotient and the addition of the cutout origin are modelled by correct rounding (rn53)',
        'astropy.nddata.overlap_slices is modelled (ceil rule) as part of centroid_sources / centroid_quadratic',
    ]
    ctx.cov['partial_clauses'] = [
        'centroid_quadratic returns the vertex of an exactly quadratic peak (quadratic_exact_peak_partial): proved '
        'from two premises that are not derived: numpy.linalg.lstsq returns a minimiser of the sum of squared '
        'residuals, and the fitted pixels contain six points of a 3x3 block; that a least-squares solution of exact '
        'data is the quadric itself is proved (least_squares_recovers_exact_quadric). The end-to-end clause is '
        'tested (support: quadratic_vertex_lstsq, tolerance 1e-7)',
        'centroid_1dg / centroid_2dg (astropy TRFLSQFitter): symmetry centre, flips, transposition, rescaling, '
        'masked values are only tested (support: gaussian_*); their per-source behaviour inside centroid_sources '
        'is checked exactly against direct calls',
        'symmetry centre / flip / transposition / rescaling of centroid_quadratic depend on lstsq: tested only '
        '(support: quadratic_*), on data with a unique maximal pixel; masked values: proved for any lstsq '
        '(quadratic_ignores_masked_values)',
    ]
    quick = ctx.tier == 'quick'
    rng = ctx.rng
    terms, meta = [], []

    # ---------------- centroid_com ----------------
    from photutils.centroids import centroid_com
    n_com = 300 if quick else 2500
    for i in range(n_com):
        c = gen_com(rng)
        # the same lattice image at a magnitude between 2^-60 and 2^60: multiplying by a power of two is
        # exact, so the implementation must return bit-identical results; Coq sees the unscaled integers
        lat = 0 if rng.random() < 0.35 else rng.randint(-60, 60)
        cf = dict(c, data=c['data'] * 2.0 ** lat)
        impl = com_impl(cf['data'], c['mask'])
        ctx.stat('com_kind', c['kind'])
        ctx.stat('com_magnitude', magnitude_class(lat))
        ctx.stat('com_result', 'raise' if impl == 'raise' else ('nan' if math.isnan(impl[0]) else 'value'))
        desc = {'fn': 'centroid_com', 'data': jimg(cf['data']),
                'mask': None if c['mask'] is None else c['mask'].astype(int).tolist()}
        ctx.count_case(desc, impl != 'raise' and not math.isnan(impl[0]))
        if i < 1:
            ctx.sample({'case': desc, 'impl': None if impl == 'raise' else list(impl)})
        want = com_oracle(cf['data'], c['mask'])
        if not res_equal(impl, want):
            ctx.violation('centroid_com:weighted-mean', 'centroid_com differs from the intensity-weighted mean '
                          'coordinate of the unmasked finite pixels', dict(desc, impl=str(impl), want=str(want)))
        com_metamorphic(ctx, cf, impl, desc)
        if impl != 'raise' and fres(*impl) == 'mixed':
            ctx.violation('centroid_com:half-nan', f'centroid_com returned {impl}: an infinite coordinate, or one NaN '
                          'and one finite coordinate', desc)
            continue
        terms.append(com_to_coq(c, impl))
        meta.append(('com', cf, impl, desc))

    # ---------------- centroid_sources ----------------
    n_src = 300 if quick else 2500
    wit = witnesses()
    for i in range(n_src + len(wit)):
        c = wit[i] if i < len(wit) else gen_src(rng)
        lat = 0
        if i >= len(wit) and c['fname'] == 'com' and rng.random() < 0.7:
            lat = rng.randint(-60, 60)         # centroid_com is scale free: same lattice, other magnitude
        cf = dict(c, data=c['data'] * 2.0 ** lat)
        impl = src_impl(cf)
        desc = dict(src_describe(cf), fn='centroid_sources')
        src_checks(ctx, cf, impl, desc, shuffle=True)
        if c['fname'] == 'com':
            ctx.stat('src_com_magnitude', magnitude_class(lat))
        ctx.stat('src_func', c['fname'])
        ctx.stat('src_npos', str(len(c['xs'])))
        ctx.stat('src_kw', '+'.join(sorted(c['kw'])) or 'none')
        ctx.stat('src_cut', 'footprint' if c['foot'] is not None else 'box')
        ctx.stat('src_result', 'raise' if impl == 'raise' else
                 ('some_nan' if any(math.isnan(p[0]) for p in impl) else 'values'))
        ctx.count_case(desc, impl != 'raise' and any(not math.isnan(p[0]) for p in impl))
        if i == len(wit):
            ctx.sample({'case': desc, 'impl': None if impl == 'raise' else [list(p) for p in impl]})
        if impl != 'raise' and any(p == 'mixed' or fres(*p) == 'mixed' for p in impl):
            ctx.violation('centroid_sources:half-nan', 'one coordinate NaN and the other finite', desc)
            continue
        terms.append(src_to_coq(c, impl))
        meta.append(('src', cf, impl, desc))

    # ---------------- centroid_quadratic ----------------
    n_quad = 300 if quick else 2500
    for i in range(n_quad):
        c = gen_quad(rng)
        lat = 0 if rng.random() < 0.35 else rng.randint(-60, 60)
        c_lattice = c
        c = dict(c, data=c['data'] * 2.0 ** lat)     # exact rescaling; Coq sees the unscaled integers
        out, calls = quad_impl(c)
        desc = dict(quad_describe(c), fn='centroid_quadratic')
        ctx.stat('quad_magnitude', magnitude_class(lat))
        ctx.stat('quad_kind', c['kind'])
        ctx.stat('quad_result', 'raise' if out == 'raise' else ('nan' if math.isnan(out[0]) else
                                                                ('fit' if calls else 'border')))
        ctx.count_case(desc, out != 'raise' and not math.isnan(out[0]))
        if i < 1:
            ctx.sample({'case': desc, 'impl': None if out == 'raise' else list(out)})
        ok, why = quad_oracle(c, out)
        if not ok:
            ctx.violation('centroid_quadratic:peak-or-validation', 'centroid_quadratic: ' + why,
                          dict(desc, impl=str(out)))
        if not quad_rows_ok(calls) or len(calls) > 1:
            ctx.violation('correspondence:centroid_quadratic:lstsq-call', 'unexpected use of numpy.linalg.lstsq',
                          desc, found_input=False)
            continue
        # partial clause (library numerics): exactly quadratic, finite, unmasked data
        fbq = pairz(c['kw'].get('fit_boxsize', 5))
        if (c['vertex'] is not None and c['mask'] is None and not c['nonfinite'] and calls
                and min(fbq) >= 3 and min(c['data'].shape) >= 3):
            vx, vy = c['vertex']
            ny, nx = c['data'].shape
            ctx.support('quadratic_vertex_lstsq')
            inside = 0 < vx < nx - 1 and 0 < vy < ny - 1
            good = (not math.isnan(out[0]) and abs(out[0] - vx) < 1e-7 and abs(out[1] - vy) < 1e-7) if inside \
                else math.isnan(out[0]) or (abs(out[0] - vx) < 1e-7 and abs(out[1] - vy) < 1e-7)
            if not good:
                ctx.violation('centroid_quadratic:exact-quadratic-vertex', 'exactly quadratic peak: returned '
                              f'{out}, vertex {(vx, vy)}', dict(desc, impl=str(out), vertex=[vx, vy]))
        if out != 'raise' and fres(*out) == 'mixed':
            ctx.violation('centroid_quadratic:half-nan', 'one coordinate NaN and the other finite', desc)
            continue
        if calls:
            ctx.stat('quad_decision_margin', 'inside_rounding_bound' if det_marginal(calls[0][2]) else 'clear')
        terms.append(quad_to_coq(c_lattice, out, calls, lat))
        meta.append(('quad', c, out, desc))

    # ---------------- the model on the same cases ----------------
    bad = ctx.coq_eval_cases(IMPORTS, 'check_case', terms, case_type='case', shard_numerals=15000)
    ctx.stat('coq', 'disagreements', len(bad))
    for i in bad[:12]:
        fam, c, impl, desc = meta[i]
        try:
            model = ctx.coq_eval_term(IMPORTS, f'model_out ({terms[i]})')[:1500]
        except Exception as e:   # pragma: no cover
            model = 'n/a: ' + str(e)[:200]
        detail = dict(desc, impl=str(impl), model=model)
        if fam == 'com':
            holds = res_equal(impl, com_oracle(c['data'], c['mask']))
            sig = 'centroid_com:weighted-mean'
        elif fam == 'src':
            holds = list_equal(impl, src_oracle(c))
            sig = 'centroid_sources:per-source'
            try:   # does the implementation behave like the loop before the repair?
                detail['equals_model_of_unrepaired_loop'] = ctx.coq_eval_term(
                    IMPORTS, 'match (' + terms[i] + ') with CSrc c => opt_eqb (list_eqb fres_eqb) '
                    "(src_model true c) (let '(_, _, _, _, _, _, _, _, e) := c in e) | _ => false end")
            except Exception as e:   # pragma: no cover
                detail['equals_model_of_unrepaired_loop'] = 'n/a: ' + str(e)[:200]
        else:
            holds = quad_oracle(c, impl)[0]
            sig = 'centroid_quadratic:peak-or-validation'
        if not holds:
            ctx.violation(sig, 'model and implementation disagree and the independent oracle confirms that the '
                          'implementation breaks the property', detail)
        else:
            ctx.violation('correspondence:C17_Model.check_case:' + fam, 'model and implementation disagree '
                          '(cutout / fit box / rounding / lstsq rows) while the Python oracle of the property is '
                          'satisfied on this input', detail, found_input=False)
    ctx.stat('coq', 'cases', len(terms))

    # ---------------- per-source clause with the real fitting functions ----------------
    n_real = 60 if quick else 500
    for i in range(n_real):
        fname = rng.choice(['quadratic', 'quadratic', '1dg', '2dg'])
        c = gen_src_real(rng, fname)
        impl = src_impl(c)
        desc = dict(src_describe(c), fn='centroid_sources')
        ctx.stat('src_func', fname)
        ctx.stat('src_real_kw', '+'.join(sorted(c['kw'])) or 'none')
        ctx.count_case(desc, impl != 'raise' and any(not math.isnan(p[0]) for p in impl))
        src_checks(ctx, c, impl, desc, shuffle=(i % 4 == 0), suffix=':' + fname)

    # ---------------- Gaussian fits: tested only (partial) ----------------
    gaussian_support(ctx, 12 if quick else 120)
    quadratic_metamorphic(ctx, 40 if quick else 400)
    symmetric_support(ctx, 30 if quick else 300)
    scale_support(ctx, 10 if quick else 100)
    masked_input_support(ctx, 15 if quick else 150)


def com_metamorphic(ctx, c, impl, desc):
    """flips, transposition, positive rescaling, masked values, symmetry centre (all exact
    on the lattice)."""
    data, mask = c['data'], c['mask']
    if impl == 'raise':
        return
    ny, nx = data.shape
    nanres = math.isnan(impl[0])

    def rel(name, got, want):
        if not res_equal(got, want):
            ctx.violation('centroid_com:' + name, f'centroid_com {name}: got {got}, expected {want}',
                          dict(desc, relation=name))
    m = mask
    g = com_impl(data[:, ::-1], None if m is None else m[:, ::-1])
    f = com_impl(data[::-1, :], None if m is None else m[::-1, :])
    t = com_impl(data.T, None if m is None else m.T)
    s = com_impl(data * 2.0 ** ctx.rng.randint(-60, 60), m)     # exact rescaling: bit-identical result
    if nanres:
        for name, r in (('flip-x', g), ('flip-y', f), ('transpose', t), ('scale', s)):
            rel(name, r, impl)
    else:
        # exact rational statement: compare through the oracle value on the transformed data
        rel('flip-x', g, com_oracle(data[:, ::-1], None if m is None else m[:, ::-1]))
        rel('flip-y', f, com_oracle(data[::-1, :], None if m is None else m[::-1, :]))
        rel('transpose', t, (impl[1], impl[0]))
        rel('scale', s, impl)
        # the flipped centroid is the mirror image up to one rounding
        if abs((nx - 1 - g[0]) - impl[0]) > 1e-12 * max(1.0, abs(impl[0]), nx) or not same_float(g[1], impl[1]):
            rel('flip-x-mirror', g, (nx - 1 - impl[0], impl[1]))
    # non-dyadic positive factor (magnitudes 1e-15 .. 1e16): equal to the exact weighted mean of the
    # rescaled doubles up to a rigorous rounding bound
    fac = ctx.rng.uniform(1.0, 10.0) * 10.0 ** ctx.rng.randint(-15, 15)
    with np.errstate(all='ignore'):
        d3 = data * fac
    ex = com_exact_with_bound(d3, m)
    if ex is not None:
        r3 = com_impl(d3, m)
        if r3 == 'raise' or not (abs(Fraction(r3[0]) - ex[0]) <= ex[2] and abs(Fraction(r3[1]) - ex[1]) <= ex[3]
                                 if math.isfinite(r3[0]) and math.isfinite(r3[1]) else False):
            ctx.violation('centroid_com:scale', f'centroid_com of the data times {fac!r}: got {r3}, exact weighted mean '
                          f'{(float(ex[0]), float(ex[1]))}', dict(desc, relation='scale-decimal', factor=fac))
    if m is not None and m.shape == data.shape and m.any():
        d2 = data.copy()
        d2[m] = [ctx.rng.choice([1e6, -7.0, np.nan, np.inf]) for _ in range(int(m.sum()))]
        rel('masked-values-ignored', com_impl(d2, m), impl)
    if c['sym'] is not None and not nanres:
        rel('symmetry-centre', impl, (c['sym'][0] / 2, c['sym'][1] / 2))


def src_checks(ctx, c, impl, desc, shuffle=False, suffix=''):
    """the per-source clause, directly on the implementation's output."""
    want = src_oracle(c)
    if not list_equal(impl, want):
        ctx.violation('centroid_sources:per-source' + suffix, 'centroid_sources(all positions)[i] differs from centroid_func '
                      'on the cutout of position i (same footprint, mask, error, extra arguments) + cutout origin',
                      dict(desc, impl=str(impl), expected=str(want)))
        return
    if impl == 'raise':
        return
    # loop of single calls
    for k, (x, y) in enumerate(zip(c['xs'], c['ys'])):
        one = src_impl(c, [x], [y])
        if one == 'raise' or not res_equal(one[0], impl[k]):
            ctx.violation('centroid_sources:single-call', f'result {k} of the multi-position call differs from the '
                          'single-position call', dict(desc, index=k, impl=str(impl), single=str(one)))
            return
    if shuffle and len(c['xs']) >= 2:
        perm = list(range(len(c['xs'])))
        ctx.rng.shuffle(perm)
        got = src_impl(c, [c['xs'][j] for j in perm], [c['ys'][j] for j in perm])
        if got == 'raise' or not all(res_equal(got[i], impl[j]) for i, j in enumerate(perm)):
            ctx.violation('centroid_sources:order', 'results depend on the order of the positions',
                          dict(desc, perm=perm, impl=str(impl), permuted=str(got)))


def gen_src_real(rng, fname):
    """scenes of a few Gaussian-like sources for the fitting centroid functions."""
    ny, nx = rng.randint(12, 22), rng.randint(12, 22)
    y, x = np.mgrid[:ny, :nx]
    npos = rng.choice([1, 2, 2, 3, 4])
    data = np.zeros((ny, nx))
    xs, ys = [], []
    for _ in range(npos):
        cx, cy = rng.uniform(1, nx - 2), rng.uniform(1, ny - 2)
        s = rng.choice([1.0, 1.5, 2.0])
        data += rng.choice([50, 100, 200]) * np.exp(-((x - cx) ** 2 + (y - cy) ** 2) / (2 * s * s))
        xs.append(float(min(nx - 1, max(0, round(cx * 2) / 2))))
        ys.append(float(min(ny - 1, max(0, round(cy * 2) / 2))))
    data = np.round(data * 8) / 8 + 1.0
    box = rng.choice([5, 7, 7, 9, (5, 7), 3]) if rng.random() < 0.8 else None
    foot = None
    if box is None:
        foot = np.ones((rng.choice([5, 6, 7]), rng.choice([5, 7, 8])), bool)
        foot[0, 0] = False
    mask = rand_mask(rng, data.shape, 0.05) if rng.random() < 0.3 else None
    kw = {}
    if fname in ('1dg', '2dg'):
        if rng.random() < 0.75:
            kw['error'] = np.array([[rng.randint(1, 4) / 2 for _ in range(nx)] for _ in range(ny)], float)
    else:
        r = rng.random()
        if r < 0.6:
            k = rng.randrange(npos)
            kw['xpeak'], kw['ypeak'] = xs[k], ys[k]
        if rng.random() < 0.5:
            kw['fit_boxsize'] = rng.choice([3, 5, (3, 5)])
        if rng.random() < 0.3:
            kw['search_boxsize'] = rng.choice([3, 5])
    return dict(fname=fname, data=data, xs=xs, ys=ys, box=box, foot=foot, mask=mask, kw=kw, kind='gauss')


def safe(f, *args, **kwargs):
    """call a centroid function; an exception counts as (nan, nan)."""
    try:
        with warnings.catch_warnings():
            warnings.simplefilter('ignore')
            r = f(*args, **kwargs)
        return (float(r[0]), float(r[1]))
    except Exception:     # incl. astropy's NonFiniteValueError, LinAlgError, ...
        return (math.nan, math.nan)


def gaussian_support(ctx, n):
    """centroid_1dg / centroid_2dg: symmetry centre, flips, transposition, rescaling,
    masked values.  Library fitter -> tested only."""
    from photutils.centroids import centroid_1dg, centroid_2dg
    rng = ctx.rng
    tol = 2e-3
    for i in range(n):
        ny, nx = rng.randint(7, 13), rng.randint(7, 13)
        y, x = np.mgrid[:ny, :nx]
        s = rng.choice([1.2, 1.5, 2.0])
        # (A) point-symmetric, non-Gaussian source about the window centre (integer or
        # half-integer depending on the parity of the size) on a constant background
        cx, cy = (nx - 1) / 2, (ny - 1) / 2
        pert = np.array([[rng.randint(0, 8) for _ in range(nx)] for _ in range(ny)], float)
        pert = (pert + pert[::-1, ::-1]) / 2
        sym = 100 * np.exp(-((x - cx) ** 2 + (y - cy) ** 2) / (2 * s * s)) + pert + 2.0
        # (B) off-centre elliptical Gaussian, no background: flips, transposition, rescaling, masked values
        ox, oy = rng.uniform(2.5, nx - 3.5), rng.uniform(2.5, ny - 3.5)
        data = 100 * np.exp(-((x - ox) ** 2 / (2 * s * s) + (y - oy) ** 2 / (2 * 1.3 * 1.3)))
        for name, f in (('1dg', centroid_1dg), ('2dg', centroid_2dg)):
            rsym = safe(f, sym)
            r = safe(f, data)
            rf = safe(f, data[:, ::-1])
            rt = safe(f, data.T)
            rs = safe(f, data * 4.0)
            m = np.zeros(data.shape, bool)
            m[rng.randrange(ny), rng.randrange(nx)] = True
            d2 = data.copy()
            d2[m] = 1e5
            r1, r2 = safe(f, data, mask=m), safe(f, d2, mask=m)
            desc = {'fn': 'centroid_' + name, 'shape': [ny, nx], 'gaussian_centre': [ox, oy], 'sigma': s,
                    'symmetric_data': sym.tolist()}
            ctx.count_case(desc)
            checks = [
                ('symmetry-centre', abs(rsym[0] - cx) < tol and abs(rsym[1] - cy) < tol),
                ('flip-x', abs(rf[0] - (nx - 1 - r[0])) < tol and abs(rf[1] - r[1]) < tol),
                ('transpose', abs(rt[0] - r[1]) < tol and abs(rt[1] - r[0]) < tol),
                ('scale', abs(rs[0] - r[0]) < tol and abs(rs[1] - r[1]) < tol),
                ('masked-values-ignored', same_float(r1[0], r2[0]) and same_float(r1[1], r2[1])),
            ]
            for cname, ok in checks:
                ctx.support('gaussian_' + name + '_' + cname)
                if not ok:
                    ctx.violation(f'centroid_{name}:{cname}', f'centroid_{name} {cname} (tolerance {tol})',
                                  dict(desc, relation=cname, base=[float(v) for v in r],
                                       symmetric_result=[float(v) for v in rsym]))


def quadratic_metamorphic(ctx, n):
    """flip / transpose / rescale / masked values for centroid_quadratic on blobs
    (depends on lstsq: tolerance 1e-7; tested only)."""
    rng = ctx.rng
    from photutils.centroids import centroid_quadratic
    for i in range(n):
        ny, nx = rng.randint(5, 12), rng.randint(5, 12)
        data = rand_img(rng, ny, nx, 'blob') * 1.0
        # unique maximum so that flips do not change the selected peak
        yx = np.unravel_index(np.argmax(data), data.shape)
        data[yx] += 3
        fb = rng.choice([3, 5, 3, 5, (3, 5), (5, 3), (5, 7), (7, 5)])
        fbt = fb if np.isscalar(fb) else fb[::-1]
        r = safe(centroid_quadratic, data, fit_boxsize=fb)
        rf = safe(centroid_quadratic, data[:, ::-1], fit_boxsize=fb)
        ru = safe(centroid_quadratic, data[::-1, :], fit_boxsize=fb)
        rt = safe(centroid_quadratic, data.T, fit_boxsize=fbt)
        rs = safe(centroid_quadratic, data * 2.0 ** rng.randint(-60, 60), fit_boxsize=fb)
        m = np.zeros(data.shape, bool)
        far = [(yy, xx) for yy in range(ny) for xx in range(nx) if (yy, xx) != tuple(yx)]
        m[far[rng.randrange(len(far))]] = True
        d2 = data.copy()
        d2[m] = -1e4
        r1 = safe(centroid_quadratic, data, fit_boxsize=fb, mask=m)
        r2 = safe(centroid_quadratic, d2, fit_boxsize=fb, mask=m)
        desc = {'fn': 'centroid_quadratic', 'data': jimg(data), 'fit_boxsize': fb}
        ctx.count_case(desc, not math.isnan(r[0]))

        def close(a, b):
            return (math.isnan(a) and math.isnan(b)) or abs(a - b) < 1e-7
        checks = [('flip-x', close(rf[0], nx - 1 - r[0]) and close(rf[1], r[1])),
                  ('flip-y', close(ru[0], r[0]) and close(ru[1], ny - 1 - r[1])),
                  ('transpose', close(rt[0], r[1]) and close(rt[1], r[0])),
                  ('scale', all((math.isnan(a) and math.isnan(b)) or abs(a - b) <= 1e-12 for a, b in zip(rs, r))),
                  ('masked-values-ignored', same_float(r1[0], r2[0]) and same_float(r1[1], r2[1]))]
        for cname, ok in checks:
            ctx.support('quadratic_' + cname)
            if not ok:
                ctx.violation(f'centroid_quadratic:{cname}', f'centroid_quadratic {cname}',
                              dict(desc, relation=cname, base=[float(v) for v in r]))


def scale_rule(name, label):
    """(comparison, tolerance) for f(data * s) against f(data)."""
    if name == 'com':
        return ('bit-identical', 0.0) if label == 'dyadic' else ('tolerance', 1e-9)
    if name == 'quadratic':     # LAPACK gelsd is scale equivariant only up to an ulp (observed), not bit for bit
        return ('tolerance', 1e-12) if label == 'dyadic' else ('tolerance', 1e-9)
    return ('tolerance', 2e-3)


def scale_ok(name, label, a, b):
    kind, tol = scale_rule(name, label)
    if kind == 'bit-identical':
        return same_float(a[0], b[0]) and same_float(a[1], b[1])
    return all((math.isnan(p) and math.isnan(q)) or abs(p - q) <= tol for p, q in zip(a, b))


def scale_sig(name, factor):
    # Gaussian fits of faint data stop at the initial guess (absolute fitter tolerance): recorded finding
    return f'centroid_{name}:scale' + (':small-amplitude' if name in ('1dg', '2dg') and factor < 1e-5 else '')


def scale_factors(rng):
    return [('dyadic', 2.0 ** rng.randint(-60, 60)),
            ('decimal', rng.uniform(1.0, 10.0) * 10.0 ** rng.randint(-12, 11)),
            ('extreme', rng.uniform(1.0, 10.0) * 10.0 ** rng.choice([-16, -15, -14, 13, 14]))]


def scale_support(ctx, n):
    """positive rescaling over many decades (factors 2^-60..2^60, 1e-12..1e12, magnitudes
    1e-15..1e15) for every centroid function, directly and through centroid_sources.
    centroid_com: bit-identical for powers of two, 1e-9 otherwise; centroid_quadratic: 1e-12 for
    powers of two (lstsq differs in the last bit), 1e-9 otherwise; centroid_1dg / centroid_2dg: 2e-3."""
    rng = ctx.rng
    fs = funcs()
    names = ('com', 'quadratic', '1dg', '2dg')
    for i in range(n):
        ny, nx = rng.randint(7, 12), rng.randint(7, 12)
        blob = rand_img(rng, ny, nx, 'blob') + 1.0
        yx = np.unravel_index(np.argmax(blob), blob.shape)
        blob[yx] += 3
        # the Gaussian fits get a well-posed problem (what they model): a clean elliptical Gaussian well
        # inside the cutout, no background; everything else is fitter conditioning, not rescaling
        y, x = np.mgrid[:ny, :nx]
        ox, oy = rng.uniform(2.5, nx - 3.5), rng.uniform(2.5, ny - 3.5)
        clean = 100 * np.exp(-((x - ox) ** 2 / (2 * 1.5 ** 2) + (y - oy) ** 2 / (2 * 1.3 ** 2)))
        factors = scale_factors(rng)
        for name in names:
            data = blob if name in ('com', 'quadratic') else clean
            base = safe(fs[name], data)
            ctx.count_case({'fn': 'scale', 'func': name, 'data': jimg(data), 'factors': [f for _, f in factors]},
                           not math.isnan(base[0]))
            for label, fac in factors:
                got = safe(fs[name], data * fac)
                ctx.support(f'scale_{name}_{label}')
                if not scale_ok(name, label, got, base):
                    ctx.violation(scale_sig(name, fac), f'centroid_{name}(data * {fac!r}) = {got}, centroid_{name}(data) = '
                                  f'{base} ({" ".join(map(str, scale_rule(name, label)))})',
                                  {'fn': 'scale', 'func': name, 'factor': fac, 'label': label, 'data': jimg(data)})
        # through centroid_sources
        name = names[i % 4]
        c = gen_src_real(rng, name) if name in ('com', 'quadratic') else gen_src_clean(rng, name)
        base = src_impl(c)
        if base == 'raise':
            continue
        ctx.count_case(dict(src_describe(c), fn='scale_sources'))
        for label, fac in factors:
            got = src_impl(dict(c, data=c['data'] * fac))
            ctx.support(f'scale_sources_{name}_{label}')
            if got == 'raise' or len(got) != len(base) or not all(scale_ok(name, label, g, b) for g, b in zip(got, base)):
                ctx.violation(scale_sig(name, fac), f'centroid_sources(data * {fac!r}, centroid_func=centroid_{name}) = {got}, '
                              f'unscaled: {base}', dict(src_describe(c), fn='scale_sources', factor=fac, label=label))


def gen_src_clean(rng, fname):
    """1..4 well separated clean Gaussian sources (no background), 9x9 boxes."""
    ny = nx = 24
    y, x = np.mgrid[:ny, :nx]
    spots = [(6, 6), (17, 6), (6, 17), (17, 17)]
    rng.shuffle(spots)
    data = np.zeros((ny, nx))
    xs, ys = [], []
    for sx, sy in spots[:rng.randint(1, 4)]:
        cx, cy = sx + rng.uniform(-1, 1), sy + rng.uniform(-1, 1)
        data += rng.choice([50, 100, 200]) * np.exp(-((x - cx) ** 2 + (y - cy) ** 2) / (2 * 1.5 ** 2))
        xs.append(float(round(cx)))
        ys.append(float(round(cy)))
    kw = {}
    if rng.random() < 0.5:
        kw['error'] = np.array([[rng.randint(1, 4) / 2 for _ in range(nx)] for _ in range(ny)], float)
    return dict(fname=fname, data=data, xs=xs, ys=ys, box=9, foot=None, mask=None, kw=kw, kind='clean')


JUNK_DATA = [1e6, -7.0, math.nan, math.inf, -math.inf, 0.0, 1e300, -1e-300]
JUNK_ERROR = [1e6, 0.0, math.nan, math.inf, 1e-12, 1e300, 3.0, -1.0]
TAKES_ERROR = ('1dg', '2dg')


def junk_under(rng, a, where, values):
    """copy of `a` whose entries at `where` are replaced by arbitrary values."""
    b = np.array(a, float)
    b[where] = [rng.choice(values) for _ in range(int(np.count_nonzero(where)))]
    return b


def rand_error(rng, shape):
    return np.array([[rng.randint(1, 8) / 2 for _ in range(shape[1])] for _ in range(shape[0])], float)


def call_masked(name, data, mask, error):
    kw = {'error': error.copy()} if name in TAKES_ERROR else {}
    return safe(funcs()[name], data.copy(), mask=mask.copy(), **kw)


def bitwise(a, b):
    return same_float(a[0], b[0]) and same_float(a[1], b[1])


def cutout_of(c, xp, yp):
    """(y0, y1, x0, x1, iy, ix) of the cutout centroid_sources makes for one position."""
    foot = footprint_of(c)
    fy, fx = foot.shape
    ny, nx = c['data'].shape
    iy = math.ceil(Fraction(yp) - Fraction(fy, 2))
    ix = math.ceil(Fraction(xp) - Fraction(fx, 2))
    return max(0, iy), min(ny, iy + fy), max(0, ix), min(nx, ix + fx), iy, ix


NONFINITE = [math.nan, math.inf, -math.inf]


def sprinkle_nonfinite(rng, data, allowed, k=None):
    """(copy of data with 1..3 NaN/inf pixels at positions where `allowed`, boolean map of
    those positions)."""
    cand = [tuple(p) for p in np.argwhere(allowed)]
    nf = np.zeros(data.shape, bool)
    for p in rng.sample(cand, min(len(cand), k or rng.randint(1, 3))):
        nf[p] = True
    out = np.array(data, float)
    out[nf] = [rng.choice(NONFINITE) for _ in range(int(nf.sum()))]
    return out, nf


def masked_input_support(ctx, n):
    """'ignores masked pixels' values' for EVERY per-pixel input: replacing the data AND the
    error under the mask (huge, zero, negative, NaN, inf) must not change a single bit of the
    result -- for every centroid function (error= for those that accept it), directly and
    through centroid_sources (input mask; pixels excluded by a non-rectangular footprint).
    The symmetry-centre, flip and transposition relations are run with a mask and a
    non-constant error map as well (symmetric where required, arbitrary under the mask).
    About 60% of the cases additionally carry 1..3 NaN / +-inf pixels at UNMASKED positions
    (symmetric positions for the symmetry relation): these are masked automatically, so the
    expectations are unchanged and the result must equal, bit for bit, the same call with
    those pixels added to the mask."""
    rng = ctx.rng
    names = ('com', 'quadratic', '1dg', '2dg')
    for i in range(n):
        ny, nx = rng.randint(7, 12), rng.randint(7, 12)
        y, x = np.mgrid[:ny, :nx]
        ox, oy = rng.uniform(2.5, nx - 3.5), rng.uniform(2.5, ny - 3.5)
        # a source that is not exactly Gaussian (so that the weights matter)
        data = np.round(100 * np.exp(-((x - ox) ** 2 / (2 * 1.5 ** 2) + (y - oy) ** 2 / (2 * 1.3 ** 2)))) \
            + np.array([[rng.randint(0, 6) for _ in range(nx)] for _ in range(ny)], float)
        yx = np.unravel_index(np.argmax(data), data.shape)
        data[yx] += 3
        err = rand_error(rng, data.shape)
        m = rand_mask(rng, data.shape, rng.choice([0.05, 0.15, 0.3]))
        m[yx] = False
        if not m.any():
            m[(yx[0] + 1) % ny, yx[1]] = True
        finite_data, nf = data, np.zeros(data.shape, bool)
        if rng.random() < 0.6:
            ok_pos = ~m
            ok_pos[yx] = False
            data, nf = sprinkle_nonfinite(rng, data, ok_pos)
        ctx.stat('masked_inputs_unmasked_nonfinite', str(int(nf.sum())))
        d2, e2 = junk_under(rng, data, m, JUNK_DATA), junk_under(rng, err, m, JUNK_ERROR)
        for name in names:
            a = call_masked(name, data, m, err)
            b = call_masked(name, d2, m, e2)
            if nf.any():
                ref = call_masked(name, finite_data, m | nf, err)
                ctx.support(f'nonfinite_as_masked_{name}')
                if not bitwise(a, ref):
                    ctx.violation(f'centroid_{name}:nonfinite-as-masked', f'centroid_{name}: NaN/inf in unmasked pixels '
                                  f'gives {a}, the same pixels added to the mask give {ref}',
                                  {'fn': 'nonfinite_as_masked', 'func': name, 'data': jimg(data),
                                   'finite_data': jimg(finite_data), 'error': jimg(err), 'mask': m.astype(int).tolist(),
                                   'nonfinite': nf.astype(int).tolist()})
            ctx.support(f'masked_inputs_{name}')
            rec = {'fn': 'masked_inputs', 'func': name, 'data': jimg(data), 'data2': jimg(d2), 'error': jimg(err),
                   'error2': jimg(e2), 'mask': m.astype(int).tolist()}
            ctx.count_case(rec, not math.isnan(a[0]))
            if not bitwise(a, b):
                ctx.violation(f'centroid_{name}:masked-inputs-ignored', f'centroid_{name}: changing the data'
                              + (' and error' if name in TAKES_ERROR else '') + f' values under the mask changed '
                              f'the result from {a} to {b}', rec)
            # flips / transposition with mask and error (com: exact; quadratic 1e-7; fits 2e-3)
            tol = {'com': 1e-9, 'quadratic': 1e-7}.get(name, 2e-3)
            rels = [('flip-x', call_masked(name, d2[:, ::-1], m[:, ::-1], e2[:, ::-1]), (nx - 1 - a[0], a[1])),
                    ('flip-y', call_masked(name, d2[::-1, :], m[::-1, :], e2[::-1, :]), (a[0], ny - 1 - a[1])),
                    ('transpose', call_masked(name, d2.T, m.T, e2.T), (a[1], a[0]))]
            for rname, got, want in rels:
                ctx.support(f'masked_{rname}_{name}')
                if not all((math.isnan(g) and math.isnan(w)) or abs(g - w) <= tol for g, w in zip(got, want)):
                    ctx.violation(f'centroid_{name}:{rname}', f'centroid_{name} {rname} with mask'
                                  + (' and error map' if name in TAKES_ERROR else '') + f': got {got}, expected {want} '
                                  f'(tolerance {tol})', dict(rec, relation=rname))
        # ---- point-symmetric source, point-symmetric mask, error symmetric on the unmasked pixels ----
        sy, sx = rng.randint(7, 13), rng.randint(7, 13)
        sdata = sym_source(rng, sy, sx, sx - 1, sy - 1, 2.5) + 2.0
        m0 = rand_mask(rng, sdata.shape, rng.choice([0.05, 0.15]))
        sm = m0 | m0[::-1, ::-1]
        e0 = rand_error(rng, sdata.shape)
        serr = junk_under(rng, (e0 + e0[::-1, ::-1]) / 2, sm, JUNK_ERROR)
        cx, cy = (sx - 1) / 2, (sy - 1) / 2
        if rng.random() < 0.6:     # non-finite pixels at unmasked, point-symmetric positions off the core
            yy, xx = np.mgrid[:sy, :sx]
            ok_pos = ~sm & (np.hypot(xx - cx, yy - cy) > 1.6)
            _, nf1 = sprinkle_nonfinite(rng, sdata, ok_pos, k=rng.randint(1, 2))
            snf = nf1 | nf1[::-1, ::-1]
            sdata = sdata.copy()
            sdata[snf] = [rng.choice(NONFINITE) for _ in range(int(snf.sum()))]
        sd = junk_under(rng, sdata, sm, JUNK_DATA)
        for name in ('com', '1dg', '2dg'):
            r = call_masked(name, sd, sm, serr)
            tol = 1e-9 if name == 'com' else 2e-3
            ctx.support(f'masked_symmetric_centre_{name}')
            if math.isnan(r[0]) and name == 'com' and com_oracle(sd, sm) != 'raise' and math.isnan(com_oracle(sd, sm)[0]):
                continue
            if not (abs(r[0] - cx) <= tol and abs(r[1] - cy) <= tol):
                ctx.violation(f'centroid_{name}:symmetry-centre', f'centroid_{name} on a point-symmetric source with a '
                              f'point-symmetric mask' + (' and error map' if name in TAKES_ERROR else '')
                              + f': {r}, centre {(cx, cy)} (tolerance {tol})',
                              {'fn': 'masked_symmetric', 'func': name, 'centre': [cx, cy], 'data': jimg(sd),
                               'error': jimg(serr), 'mask': sm.astype(int).tolist()})
        # ---- through centroid_sources: input mask ----
        name = names[i % 4]
        c = gen_src_real(rng, name) if name in ('com', 'quadratic') else gen_src_clean(rng, name)
        gm = rand_mask(rng, c['data'].shape, rng.choice([0.03, 0.1]))
        for xp, yp in zip(c['xs'], c['ys']):
            gm[int(round(yp)), int(round(xp))] = False
        if not gm.any():
            gm[0, 0] = True
        c = dict(c, mask=gm, kw=dict(c['kw']))
        if name in TAKES_ERROR:
            c['kw']['error'] = rand_error(rng, c['data'].shape)
        c_fin = c
        near = np.zeros(c['data'].shape, bool)      # unmasked pixels inside the cutouts, not the position pixels
        for xp, yp in zip(c['xs'], c['ys']):
            near[max(0, int(yp) - 2):int(yp) + 3, max(0, int(xp) - 2):int(xp) + 3] = True
        for xp, yp in zip(c['xs'], c['ys']):
            near[int(round(yp)), int(round(xp))] = False
        near &= ~gm
        snf = np.zeros(c['data'].shape, bool)
        if rng.random() < 0.6 and near.any():
            dnf, snf = sprinkle_nonfinite(rng, c['data'], near)
            c = dict(c, data=dnf)
            sources_blind(ctx, name, c, dict(c_fin, mask=gm | snf), 'automatic mask of NaN/inf pixels (reference: the same '
                          'pixels in the input mask)', sig='nonfinite-as-masked')
        c2 = dict(c, data=junk_under(rng, c['data'], gm, JUNK_DATA), kw=dict(c['kw']))
        if 'error' in c['kw']:
            c2['kw']['error'] = junk_under(rng, c['kw']['error'], gm, JUNK_ERROR)
        sources_blind(ctx, name, c, c2, 'input mask')
        # ---- through centroid_sources: pixels excluded by a non-rectangular footprint (one position) ----
        foot = np.ones((rng.choice([5, 7]), rng.choice([5, 7])), bool)
        for _ in range(rng.randint(1, 5)):
            foot[rng.randrange(foot.shape[0]), rng.randrange(foot.shape[1])] = False
        foot[foot.shape[0] // 2, foot.shape[1] // 2] = True
        c = dict(c_fin, box=None, foot=foot, mask=None, xs=c['xs'][:1], ys=c['ys'][:1])
        y0, y1, x0, x1, iy, ix = cutout_of(c, c['xs'][0], c['ys'][0])
        excl = np.zeros(c['data'].shape, bool)
        excl[y0:y1, x0:x1] = ~foot[y0 - iy:y1 - iy, x0 - ix:x1 - ix]
        incl = np.zeros(c['data'].shape, bool)
        incl[y0:y1, x0:x1] = foot[y0 - iy:y1 - iy, x0 - ix:x1 - ix]
        incl[int(round(c['ys'][0])), int(round(c['xs'][0]))] = False
        if rng.random() < 0.6 and incl.any():
            dnf, snf = sprinkle_nonfinite(rng, c['data'], incl)
            c_ref = dict(c, mask=snf)
            c = dict(c, data=dnf)
            sources_blind(ctx, name, c, c_ref, 'automatic mask of NaN/inf pixels inside the footprint (reference: the same '
                          'pixels in the input mask)', sig='nonfinite-as-masked')
        if excl.any():
            c2 = dict(c, data=junk_under(rng, c['data'], excl, JUNK_DATA), kw=dict(c['kw']))
            if 'error' in c['kw']:
                c2['kw']['error'] = junk_under(rng, c['kw']['error'], excl, JUNK_ERROR)
            sources_blind(ctx, name, c, c2, 'footprint')


def sources_blind(ctx, name, c, c2, what, sig='masked-inputs-ignored'):
    a, b = src_impl(c), src_impl(c2)
    ctx.support(f'{sig}_sources_{name}')
    rec = dict(src_describe(c), fn='masked_inputs_sources', func=name, data2=jimg(c2['data']),
               error2=jimg(c2['kw']['error']) if 'error' in c2['kw'] else None,
               mask2=None if c2['mask'] is None else c2['mask'].astype(int).tolist())
    ctx.count_case(rec, a != 'raise')
    if (a == 'raise') != (b == 'raise') or (a != 'raise' and (len(a) != len(b) or not all(bitwise(p, q) for p, q in zip(a, b)))):
        ctx.violation(f'centroid_sources:{sig}:{name}', f'centroid_sources(centroid_func=centroid_{name}): '
                      f'changing the data' + (' and error' if 'error' in c2['kw'] else '') + f' values of pixels masked by the '
                      f'{what} changed the result from {a} to {b}', rec)


def sym_source(rng, ny, nx, cx2, cy2, radius=2.0):
    """non-Gaussian source that is point symmetric about (cx2/2, cy2/2), zero outside
    `radius`, with its maximal pixels next to the centre (dyadic values)."""
    d = np.zeros((ny, nx))
    for y in range(ny):
        for x in range(nx):
            x2, y2 = cx2 - x, cy2 - y
            if 0 <= x2 < nx and 0 <= y2 < ny and (y, x) <= (y2, x2):
                rr = math.hypot(x - cx2 / 2, y - cy2 / 2)
                if rr <= radius:
                    v = round(100 * math.exp(-rr * rr / 3)) + rng.randint(0, 5) / 4
                    d[y, x] = v
                    d[y2, x2] = v
    return d


QUAD_SYM_WITNESS = {'fn': 'centroid_quadratic_symmetric', 'fit_boxsize': 5, 'centre': [2.5, 2.5],
                    'data': [[round(100 * math.exp(-((x - 2.5) ** 2 + (y - 2.5) ** 2) / 2), 3) for x in range(6)]
                             for y in range(6)]}


def quad_sym_eval(r):
    from photutils.centroids import centroid_quadratic
    with warnings.catch_warnings():
        warnings.simplefilter('ignore')
        out = centroid_quadratic(np.array(r['data'], float), fit_boxsize=r['fit_boxsize'])
    cx, cy = r['centre']
    return (float(out[0]), float(out[1])), (abs(out[0] - cx) < 1e-7 and abs(out[1] - cy) < 1e-7)


def symmetric_support(ctx, n):
    """every centroid function on point-symmetric, non-Gaussian sources about integer and
    half-integer centres anywhere in the cutout (support lies inside the cutout).
    centroid_com: exact (also proved).  centroid_1dg/2dg: library fitter, tolerance 2e-3.
    centroid_quadratic: exact (1e-7) when the maximal pixel is unique and the fit box is
    not pushed back by the image border; otherwise the deviation is a recorded finding
    (fixes/C17-known.json)."""
    from photutils.centroids import centroid_com, centroid_1dg, centroid_2dg
    rng = ctx.rng
    recs = [dict(QUAD_SYM_WITNESS)]
    for i in range(n):
        ny, nx = rng.randint(7, 12), rng.randint(7, 12)
        r0 = rng.random()
        near_edge = r0 < 0.3
        lo = 2 if near_edge else 4
        cx2, cy2 = rng.randint(lo, 2 * (nx - 1) - lo), rng.randint(lo, 2 * (ny - 1) - lo)
        if r0 > 0.7:      # the window itself is point symmetric (source at the window centre)
            cx2, cy2 = nx - 1, ny - 1
        centred = (cx2, cy2) == (nx - 1, ny - 1)
        data = sym_source(rng, ny, nx, cx2, cy2, 1.5 if near_edge else 2.0)
        cx, cy = cx2 / 2, cy2 / 2
        desc = {'fn': 'symmetric_source', 'centre': [cx, cy], 'data': jimg(data)}
        ctx.count_case(desc)
        ctx.stat('symmetric_centre', ('half' if cx2 % 2 else 'int') + '/' + ('half' if cy2 % 2 else 'int')
                 + ('/window-centre' if centred else ('/near-edge' if near_edge else '/off-centre')))

        def call(f):
            try:
                with warnings.catch_warnings():
                    warnings.simplefilter('ignore')
                    return f(data)
            except Exception:
                return (math.nan, math.nan)
        res = {'com': (call(centroid_com), 1e-9), '1dg': (call(centroid_1dg), 2e-3),
               '2dg': (call(centroid_2dg), 2e-3)}
        for name, (r, tol) in res.items():
            ctx.support(f'symmetric_centre_{name}' + ('' if centred or name == 'com' else '_off-centre'))
            if not (abs(r[0] - cx) < tol and abs(r[1] - cy) < tol):
                # Gaussian fits of a non-Gaussian source in a window that is not symmetric about the
                # source: recorded finding; everything else is a plain violation
                sig = f'centroid_{name}:symmetry-centre' + ('' if centred or name == 'com' else ':off-centre-source')
                ctx.violation(sig, f'centroid_{name} on a point-symmetric source: '
                              f'{tuple(float(v) for v in r)}, centre {(cx, cy)} (tolerance {tol})',
                              dict(desc, relation='symmetry-centre', func=name))
        for fb in (3, 5):
            recs.append({'fn': 'centroid_quadratic_symmetric', 'fit_boxsize': fb, 'centre': [cx, cy],
                         'data': data.tolist()})
    for r in recs:
        out, ok = quad_sym_eval(r)
        cx, cy = r['centre']
        ny, nx = np.array(r['data']).shape
        h = r['fit_boxsize'] // 2
        half = cx != int(cx) or cy != int(cy)
        clipped = not (h <= cx <= nx - 1 - h and h <= cy <= ny - 1 - h)
        cls = 'half-integer-centre' if half else ('fit-box-shifted' if clipped else 'unique-peak')
        ctx.stat('quadratic_symmetric', cls + ('' if ok else ':deviates'))
        if cls == 'unique-peak':
            ctx.support('quadratic_symmetry-centre')
        if not ok:
            ctx.violation('centroid_quadratic:symmetry-centre:' + cls,
                          f'centroid_quadratic on a point-symmetric source returns {out}, symmetry centre {(cx, cy)}',
                          r)


# --------------------------------------------------------------------------
# replay
# --------------------------------------------------------------------------
def replay(obj):
    r = obj['replay']
    fn = r.get('fn')
    if fn == 'centroid_sources':
        c = src_undescribe(r)
        impl = src_impl(c)
        want = src_oracle(c)
        print('centroid_sources :', impl)
        print('per-source oracle:', want)
        ok = list_equal(impl, want)
        if ok and impl != 'raise':
            for k, (x, y) in enumerate(zip(c['xs'], c['ys'])):
                one = src_impl(c, [x], [y])
                ok = ok and one != 'raise' and res_equal(one[0], impl[k])
    elif fn == 'centroid_com':
        data = unj(r['data'])
        mask = None if r['mask'] is None else np.array(r['mask'], bool)
        impl = com_impl(data, mask)
        want = com_oracle(data, mask)
        print('centroid_com:', impl, ' weighted mean:', want)
        ok = res_equal(impl, want)
        if ok and r.get('relation'):
            class _C:   # re-run the metamorphic relations and collect failures
                rng = __import__('random').Random(0)
                bad = []

                def violation(self, sig, what, detail, found_input=True):
                    self.bad.append(sig)
            cc = _C()
            com_metamorphic(cc, dict(data=data, mask=mask, sym=None), impl, {})
            print('metamorphic failures:', cc.bad)
            ok = not cc.bad
    elif fn == 'masked_inputs':
        m = np.array(r['mask'], bool)
        a = call_masked(r['func'], unj(r['data']), m, unj(r['error']))
        b = call_masked(r['func'], unj(r['data2']), m, unj(r['error2']))
        print(f"centroid_{r['func']}: original {a};  other values under the mask {b}")
        ok = bitwise(a, b)
        if ok and r.get('relation'):
            print('relation', r['relation'], 'is re-checked by bin/check (same seed)')
    elif fn == 'nonfinite_as_masked':
        m, nf = np.array(r['mask'], bool), np.array(r['nonfinite'], bool)
        a = call_masked(r['func'], unj(r['data']), m, unj(r['error']))
        b = call_masked(r['func'], unj(r['finite_data']), m | nf, unj(r['error']))
        print(f"centroid_{r['func']}: NaN/inf in unmasked pixels {a};  those pixels masked instead {b}")
        ok = bitwise(a, b)
    elif fn == 'masked_symmetric':
        a = call_masked(r['func'], unj(r['data']), np.array(r['mask'], bool), unj(r['error']))
        print(f"centroid_{r['func']}: {a};  symmetry centre {tuple(r['centre'])}")
        tol = 1e-9 if r['func'] == 'com' else 2e-3
        ok = abs(a[0] - r['centre'][0]) <= tol and abs(a[1] - r['centre'][1]) <= tol
    elif fn == 'masked_inputs_sources':
        c = src_undescribe(r)
        c2 = dict(c, data=unj(r['data2']), kw=dict(c['kw']))
        if r.get('error2') is not None:
            c2['kw']['error'] = unj(r['error2'])
        if 'mask2' in r:
            c2['mask'] = None if r['mask2'] is None else np.array(r['mask2'], bool)
        a, b = src_impl(c), src_impl(c2)
        print(f'centroid_sources: original {a};  other values under the mask {b}')
        ok = (a == 'raise') == (b == 'raise') and (a == 'raise' or (len(a) == len(b) and all(bitwise(p, q) for p, q in zip(a, b))))
    elif fn == 'scale':
        f = funcs()[r['func']]
        data = unj(r['data'])
        a, b = safe(f, data * r['factor']), safe(f, data)
        print(f"centroid_{r['func']}(data * {r['factor']!r}) = {a};  unscaled: {b}")
        ok = scale_ok(r['func'], r['label'], a, b)
    elif fn == 'scale_sources':
        c = src_undescribe(r)
        a, b = src_impl(dict(c, data=c['data'] * r['factor'])), src_impl(c)
        print(f"centroid_sources(data * {r['factor']!r}) = {a};  unscaled: {b}")
        ok = a != 'raise' and b != 'raise' and len(a) == len(b) and \
            all(scale_ok(r['func'], r['label'], g, h) for g, h in zip(a, b))
    elif fn == 'symmetric_source':
        f = funcs()[r['func']]
        data = unj(r['data'])
        with warnings.catch_warnings():
            warnings.simplefilter('ignore')
            out = f(data)
        tol = 1e-9 if r['func'] == 'com' else 2e-3
        print(f"centroid_{r['func']}:", tuple(float(v) for v in out), ' symmetry centre:', tuple(r['centre']))
        ok = abs(out[0] - r['centre'][0]) < tol and abs(out[1] - r['centre'][1]) < tol
    elif fn == 'centroid_quadratic_symmetric':
        out, ok = quad_sym_eval(r)
        print('centroid_quadratic:', out, ' symmetry centre:', tuple(r['centre']))
    elif fn == 'centroid_quadratic' and 'kwargs' in r:
        c = dict(data=unj(r['data']), mask=None if r['mask'] is None else np.array(r['mask'], bool),
                 kw={k: (tuple(v) if isinstance(v, list) else v) for k, v in r['kwargs'].items()},
                 vertex=r.get('vertex'))
        out, calls = quad_impl(c)
        ok, why = quad_oracle(c, out)
        print('centroid_quadratic:', out, '|', why)
        if ok and c['vertex'] is not None and out != 'raise':
            vx, vy = c['vertex']
            ok = not math.isnan(out[0]) and abs(out[0] - vx) < 1e-7 and abs(out[1] - vy) < 1e-7
    else:
        print('no executable replay for this record (supporting test); see the record itself')
        return 1
    print('property holds on this input' if ok else 'property FAILS on this input')
    return 0 if ok else 1
