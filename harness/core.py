"""Shared machinery of the /verif checks (see DESIGN.md sections 2, 3, 7).

A check = build the Coq development (proof obligations) -> collect
`Print Assumptions` -> run the correspondence (K) between the Coq model and the
implementation in /repo on generated cases -> on any broken obligation or
mismatch, search for a concrete failing input (V) -> print KNOWN-FINDING /
VIOLATION lines -> write evidence/<ID>.json.
"""
import hashlib
import json
import os
import random
import re
import shutil
import subprocess
import sys
import time
from fractions import Fraction
from pathlib import Path

VERIF = Path(__file__).resolve().parent.parent
REPO = Path(os.environ.get('VERIF_REPO', '/repo'))
COQ = Path(os.environ.get('VERIF_COQ_DIR') or VERIF / 'coq')
WORK = Path(os.environ.get('VERIF_WORK_DIR') or VERIF / '.work')
EVID = Path(os.environ.get('VERIF_EVIDENCE_DIR') or VERIF / 'evidence')
REPLAYS = Path(os.environ.get('VERIF_REPLAY_DIR') or VERIF / 'replays')
KNOWN = VERIF / 'known_findings.json'
NCPU = os.cpu_count() or 4

FORBIDDEN = re.compile(
    r'\b(Admitted|admit|Axiom|Axioms|Parameter|Parameters|Conjecture|'
    r'Admit Obligations|bypass_check|native_compute)\b|Unset Guard Checking|'
    r'Unset Positivity Checking|Unset Universe Checking|-type-in-type|'
    r'-impredicative-set')

GLOBAL_TRUSTED = [
    'Coq 8.16.1 kernel (coqc); vm_compute used to evaluate the model on cases; '
    'no native_compute',
    'correspondence harness (generators, dyadic->integer scaling, '
    'canonicalisation) in /verif/harness',
    'IEEE arithmetic gap: theorems are about exact values; computed values are '
    'tied only through exact-lattice inputs or the rigorous rounding bound',
]


# --------------------------------------------------------------------------
# Python -> Coq literals
# --------------------------------------------------------------------------
class Raw(str):
    """A Coq term written verbatim."""


class Nat(int):
    pass


class Some:
    def __init__(self, x):
        self.x = x


def coq(x):
    """Render a Python value as a Coq term (Z_scope, list notations open)."""
    if isinstance(x, Raw):
        return str(x)
    if isinstance(x, bool) or type(x).__name__ == 'bool_':
        return 'true' if x else 'false'
    if isinstance(x, Nat):
        return f'{int(x)}%nat'
    if isinstance(x, int) or type(x).__module__ == 'numpy' and hasattr(x, '__index__'):
        x = int(x)
        return f'({x})' if x < 0 else str(x)
    if x is None:
        return 'None'
    if isinstance(x, Some):
        return f'(Some {coq(x.x)})'
    if isinstance(x, Fraction):
        return f'({x.numerator} # {x.denominator})'
    if isinstance(x, tuple):
        return '(' + ', '.join(coq(e) for e in x) + ')'
    if isinstance(x, list):
        return '[' + '; '.join(coq(e) for e in x) + ']'
    if isinstance(x, str):
        return '"' + x.replace('"', '""') + '"%string'
    raise TypeError(f'cannot render {type(x)} as Coq')


def count_numerals(s):
    return len(re.findall(r'\d+', s))


# --------------------------------------------------------------------------
# known findings
# --------------------------------------------------------------------------
def load_known():
    if KNOWN.exists():
        return json.loads(KNOWN.read_text())
    return {'findings': [], 'fixed': []}


# --------------------------------------------------------------------------
# the per-run context
# --------------------------------------------------------------------------
class Ctx:
    def __init__(self, pid, tier, seed):
        self.pid = pid
        self.tier = tier
        self.seed = seed
        self.rng = random.Random(seed * 1000003 + int(hashlib.sha1(pid.encode()).hexdigest()[:6], 16))
        self.t0 = time.time()
        self.work = WORK / pid
        if self.work.exists():
            shutil.rmtree(self.work)
        self.work.mkdir(parents=True)
        self.violations = []      # unlisted violations
        self.known_hits = []
        self.obligations = 0
        self.discharged = 0
        self.axioms = {}
        self.cov = {
            'evaluations': 0, 'distinct_nontrivial': 0, 'rule': '',
            'samples': [], 'correspondence': {}, 'support_tests': {},
            'partial_clauses': [], 'theorems': [],
        }
        self.assumptions = []
        self.trusted = list(GLOBAL_TRUSTED)
        self.level = 'proof'
        self._distinct = set()
        self.known = load_known()
        self.notes = []

    # ---------------- bookkeeping -----------------
    def count_case(self, key, nontrivial=True):
        """Count one evaluated case; `key` (hashable/JSON-able) identifies it."""
        self.cov['evaluations'] += 1
        if nontrivial:
            h = hashlib.sha1(json.dumps(key, sort_keys=True, default=str).encode()).hexdigest()
            self._distinct.add(h)

    def sample(self, obj, limit=4):
        if len(self.cov['samples']) < limit:
            self.cov['samples'].append(obj)

    def stat(self, group, key, n=1):
        d = self.cov['correspondence'].setdefault(group, {})
        d[key] = d.get(key, 0) + n

    def support(self, name, n=1):
        self.cov['support_tests'][name] = self.cov['support_tests'].get(name, 0) + n

    # ---------------- Coq build and obligations -----------------
    def build(self, files, generated=None, obligation_files=None):
        """Full .vo build of the hand-written development, then the
        obligations (theorems of the property file) with Print Assumptions.
        `files` = list of .v paths relative to coq/ this property depends on, in dependency order;
        the last one is the property file.
        `generated` = optional {relative path under coq/gen/...: Coq text} of definitions REGENERATED from /repo's
        current source by a translator on this run; they are (re)written only when their text changed, must also be
        listed in `files` (before the files that Require them), and every committed file that proves facts about them
        (e.g. `forall args, generated_f args = model_f args`) is thereby re-checked against the current source.
        `obligation_files` = further files of `files` whose theorems (those followed by Print Assumptions) count as
        obligations of this property besides the property file (the GenEq files of the translator tie)."""
        if generated:
            self.cov.setdefault('translated_spans', [])
            for rel, text in generated.items():
                path = COQ / rel
                path.parent.mkdir(parents=True, exist_ok=True)
                if (not path.exists()) or path.read_text() != text:
                    path.write_text(text)
                self.cov['translated_spans'].append({'file': rel, 'sha1': hashlib.sha1(text.encode()).hexdigest()[:12],
                                                     'lines': text.count('\n')})
            self.trusted.append('translator (harness/py2coq or the property\'s own extractor): a wrong translation of a '
                                'supported construct would make a theorem speak about different code; mitigated by the '
                                'correspondence run of the same definitions')
        ok, log, missing = build_files(files)
        bad_kw = forbidden_scan(files)
        # obligation files: the property file (last) plus every file that proves facts about regenerated definitions
        obl_files = [files[-1]] + [f for f in (obligation_files or []) if f != files[-1]]
        all_thms, axioms, undone = [], {}, []
        for of in obl_files:
            path = COQ / of
            thms = re.findall(r'^\s*(?:Theorem|Lemma|Corollary)\s+(\w+)', path.read_text(), re.M) if path.exists() else []
            names = re.findall(r'^\s*Print Assumptions\s+(\w+)\s*\.', path.read_text(), re.M) if path.exists() else []
            thms = [t for t in thms if t in names] if of != files[-1] else thms   # helper lemmas without Print Assumptions are not obligations
            if not path.exists():
                undone.append(of + ':<file missing>')
                self.obligations += 1
                continue
            self.obligations += len(thms)
            all_thms += thms
            ax = {}
            if of not in missing and not bad_kw:
                ax = print_assumptions(path, deps=files)
            axioms.update({t: ax[t] for t in thms if t in ax})
            undone += [t for t in thms if t not in ax]
        self.cov['theorems'] = all_thms
        self.axioms = axioms
        done = [t for t in all_thms if t in axioms]
        self.discharged += len(done)
        self.cov['checker_cmd'] = (
            'cd /verif/coq && ' + ' && '.join(f'coqc -Q . PV {g}' for g in files) + '  (full .vo compilation in dependency order; '
            + ', '.join(obl_files) + ' print Print Assumptions per theorem; bin/setup = translator + coq_makefile + make of everything)')
        used = sorted({a for v in axioms.values() for a in v})
        self.cov['axioms'] = {k: v for k, v in axioms.items()}
        self.trusted.append('axioms reported by Print Assumptions: ' +
                            (', '.join(used) if used else 'none (all theorems closed under the global context)'))
        if self.tier == 'thorough' and not missing and not bad_kw and os.environ.get('VERIF_NO_COQCHK') != '1':
            self.cov['coqchk'] = coqchk(files[-1])
            if not self.cov['coqchk'].get('ok'):
                self.broken_obligation('coqchk', self.cov['coqchk'])
            for of in obl_files[1:]:
                r = coqchk(of)
                self.cov.setdefault('coqchk_generated', []).append(r)
                if not r.get('ok'):
                    self.broken_obligation('coqchk', r)
        if bad_kw:
            self.broken_obligation('forbidden-keyword', {'hits': bad_kw[:10]})
        if missing or undone:
            self.broken_obligation('coq-build', {
                'missing_vo': missing, 'undischarged': undone,
                'log_tail': log[-3000:]})
        return not missing

    def build_with_translator(self, files, extra_files=(), extra_obligation_files=(), after_files=()):
        """`build` + the translator tie: definitions regenerated from /repo's current source by harness/translate_all
        and the committed CNN_GenEq.v that proves them equal to the model functions (inserted before the property file).
        `extra_files` (in dependency order) / `extra_obligation_files`: further committed developments whose theorems
        count as obligations of this property (e.g. the real-number files C01R_*, C07R_*).
        `after_files`: developments that Require the property file itself (they come after it; all of them that end in
        _Properties.v count as obligation files, as does the property file)."""
        from . import translate_all
        extra_files = list(extra_files)
        after_files = list(after_files)
        if after_files:
            extra_obligation_files = list(extra_obligation_files) + [files[-1]] + [f for f in after_files[:-1] if f.endswith('_Properties.v')]
        try:
            gen, extra = translate_all.generated_for(self.pid)
        except KeyError:
            gen, extra = None, []
        except Exception as e:   # the translator itself failed: fail closed
            self.broken_obligation('translator', {'error': repr(e)[:500]})
            return self.build(files[:-1] + extra_files + files[-1:] + after_files, obligation_files=list(extra_obligation_files))
        geneq = [f for f in extra if f.endswith('_GenEq.v')]
        return self.build(files[:-1] + [f for f in extra if f not in files] + extra_files + files[-1:] + after_files,
                          generated=gen, obligation_files=geneq + list(extra_obligation_files))

    def broken_obligation(self, what, detail):
        """A proof obligation does not check: V has to decide; callers normally
        continue with K so that a concrete input is searched for."""
        self.pending_broken = getattr(self, 'pending_broken', [])
        self.pending_broken.append({'what': what, 'detail': detail})

    # ---------------- running the model in Coq -----------------
    def coq_eval_cases(self, imports, check_fn, cases, case_type=None,
                       shard_numerals=20000, tag='cases', timeout=900):
        """cases: list of Coq terms (strings). Returns sorted list of indices
        whose `check_fn case` evaluates to false inside Coq (vm_compute)."""
        shards, cur, curn, start = [], [], 0, 0
        counts = [count_numerals(c) for c in cases]
        shard_numerals = max(1500, min(shard_numerals, sum(counts) // NCPU + 1))
        for i, c in enumerate(cases):
            n = counts[i]
            if cur and curn + n > shard_numerals:
                shards.append((start, cur))
                cur, curn, start = [], 0, i
            cur.append(c)
            curn += n
        if cur:
            shards.append((start, cur))
        files = []
        for k, (start, cs) in enumerate(shards):
            f = self.work / f'{tag}_{k}.v'
            ty = f' : list ({case_type})' if case_type else ''
            body = (HEADER + ''.join(f'From PV Require Import {m}.\n' for m in imports) + SCOPES +
                    f'Definition cases{ty} :=\n [ ' + '\n ; '.join(cs) + ' ].\n' +
                    f'Definition bad := PV.lib.Cases.bad_indices ({check_fn}) cases.\n'
                    'Eval vm_compute in bad.\n')
            f.write_text(body)
            files.append((start, f))
        bad = []
        results = run_coqc_many([f for _, f in files], timeout=timeout)
        for (start, f), (rc, out) in zip(files, results):
            if rc != 0:
                raise CoqEvalError(f'coqc failed on {f}: {out[-2000:]}')
            m = re.search(r'=\s*(\[.*?\])\s*:\s*list', out, re.S)
            if not m:
                raise CoqEvalError(f'cannot parse coqc output for {f}: {out[-500:]}')
            bad += [start + int(x) for x in re.findall(r'\d+', m.group(1).replace('%nat', '').replace('%N', '').replace('%Z', ''))]
        self.stat('coq', 'shards', len(files))
        self.stat('coq', 'cases_evaluated_in_coq', len(cases))
        return sorted(bad)

    def coq_eval_term(self, imports, term, tag='detail', timeout=300):
        """Evaluate one term with vm_compute and return Coq's printed text."""
        f = self.work / f'{tag}_{hashlib.sha1(term.encode()).hexdigest()[:10]}.v'
        f.write_text(HEADER + ''.join(f'From PV Require Import {m}.\n' for m in imports) + SCOPES +
                     f'Eval vm_compute in ({term}).\n')
        (rc, out), = run_coqc_many([f], timeout=timeout)
        if rc != 0:
            raise CoqEvalError(out[-2000:])
        m = re.search(r'=\s*(.*?)\n\s*:\s', out, re.S)
        return re.sub(r'\s+', ' ', m.group(1)).strip() if m else out.strip()

    # ---------------- violations -----------------
    def violation(self, signature, what, replay, found_input=True):
        """Report a property violation.  `signature` identifies the failing
        call site / input class for known-findings matching."""
        for kf in self.known.get('findings', []):
            if kf['property'] == self.pid and kf['signature'] == signature:
                if kf not in self.known_hits:
                    self.known_hits.append(kf)
                return 'known'
        REPLAYS.mkdir(exist_ok=True)
        body = {'property': self.pid, 'signature': signature, 'what': what,
                'found_input': found_input, 'seed': self.seed, 'tier': self.tier,
                'replay': replay}
        h = hashlib.sha1(json.dumps(body, sort_keys=True, default=str).encode()).hexdigest()[:12]
        path = REPLAYS / f'{self.pid}-{h}.json'
        path.write_text(json.dumps(body, indent=1, default=str))
        self.violations.append((signature, what, path, found_input))
        return 'new'

    # ---------------- finish -----------------
    def finish(self):
        # broken obligations with no concrete failing input found
        for b in getattr(self, 'pending_broken', []):
            if not any(v[3] for v in self.violations):
                self.violation('obligation:' + b['what'], 'proof obligation or correspondence no longer checks',
                               b, found_input=False)
        for kf in self.known_hits:
            print(f"KNOWN-FINDING: property={self.pid} {kf['what']}")
        seen = set()
        for sig, what, path, found in self.violations:
            if sig in seen:
                continue
            seen.add(sig)
            tail = '' if found else ' no-failing-input-found'
            print(f'VIOLATION property={self.pid} replay={path} [{sig}] {what}{tail}'
                  if found else
                  f'VIOLATION property={self.pid} replay={path} [{sig}] {what} no-failing-input-found')
        self.cov['distinct_nontrivial'] = len(self._distinct)
        self.cov['obligations'] = self.obligations
        self.cov['discharged'] = self.discharged
        self.cov['trusted_base'] = self.trusted
        self.cov['known_findings_hit'] = [k['signature'] for k in self.known_hits]
        if self.notes:
            self.cov['notes'] = self.notes
        ev = {
            'property_id': self.pid, 'tier': self.tier, 'seed': self.seed,
            'level': self.level, 'coverage': self.cov,
            'assumptions': self.assumptions,
            'wall_s': round(time.time() - self.t0, 2),
            'violations': len(seen),
        }
        EVID.mkdir(exist_ok=True)
        (EVID / f'{self.pid}.json').write_text(json.dumps(ev, indent=1, default=str))
        print(f'[{self.pid}] tier={self.tier} seed={self.seed} obligations={self.obligations} '
              f'discharged={self.discharged} evaluations={self.cov["evaluations"]} '
              f'distinct={self.cov["distinct_nontrivial"]} known={len(self.known_hits)} '
              f'violations={len(seen)} wall={ev["wall_s"]}s')
        return 1 if seen else 0


class CoqEvalError(Exception):
    pass


HEADER = ('From Coq Require Import ZArith List Bool String QArith.\n'
          'From PV Require Import lib.Cases.\n')
SCOPES = 'Import ListNotations.\nOpen Scope Z_scope.\n'


def coq_make(timeout=3000):
    """Full .vo build (never -vos) of /verif/coq."""
    mk = COQ / 'Makefile'
    cp = COQ / '_CoqProject'
    subprocess.run([str(VERIF / 'bin' / 'gencoqproject')], check=True, capture_output=True)
    if (not mk.exists()) or mk.stat().st_mtime < cp.stat().st_mtime:
        subprocess.run(['coq_makefile', '-f', '_CoqProject', '-o', 'Makefile'], cwd=COQ,
                       check=True, capture_output=True)
    try:
        p = subprocess.run(['flock', str(COQ / '.build.lock'), 'timeout', str(timeout), 'make', '-k', f'-j{NCPU}'], cwd=COQ,
                           capture_output=True, text=True)
    except Exception as e:  # pragma: no cover
        return False, str(e)
    return p.returncode == 0, p.stdout[-6000:] + p.stderr[-6000:]


_REQ = re.compile(r'(?m)^\s*(?:From\s+PV\s+)?Require\s+(?:Import|Export)?\s*([^.]*(?:\.[A-Za-z_][^.]*)*)\.\s*$')


def _stale(f, files, rebuilt):
    """A .vo is stale if missing, older than its .v, or older than the .vo of a listed file it Requires."""
    v, vo = COQ / f, (COQ / f).with_suffix('.vo')
    if (not vo.exists()) or vo.stat().st_mtime < v.stat().st_mtime:
        return True
    req = ' '.join(_REQ.findall(v.read_text()))
    for g in files:
        mod = Path(g).stem
        if g != f and re.search(r'(?<![\w])' + re.escape(mod) + r'(?![\w])', req):
            gvo = (COQ / g).with_suffix('.vo')
            if g in rebuilt or (not gvo.exists()) or vo.stat().st_mtime < gvo.stat().st_mtime - 1e-3:
                return True
    return False


def build_files(files, timeout=2400):
    """Full .vo compilation (coqc, never -vos) of exactly the files this property depends on, in the listed
    (dependency) order, re-compiling only stale ones.  One lock per file, so that concurrent checks of
    different properties never wait for each other's proofs.  Returns (ok, log, files_without_fresh_vo)."""
    log, rebuilt, failed = [], [], []
    for f in files:
        lock = COQ / ('.lock_' + f.replace('/', '_'))
        if any(g in failed for g in files if g != f and re.search(r'(?<![\w])' + re.escape(Path(g).stem) + r'(?![\w])',
                                                               ' '.join(_REQ.findall((COQ / f).read_text())))):
            failed.append(f)
            continue
        if not _stale(f, files, rebuilt):
            continue
        p = subprocess.run(['flock', str(lock), 'timeout', str(timeout), 'coqc', '-Q', '.', 'PV',
                            '-w', '-notation-overridden,-deprecated-hint-without-locality,'
                            '-deprecated-instance-without-locality,-deprecated-syntactic-definition', f],
                           cwd=COQ, capture_output=True, text=True)
        log.append(f'--- coqc {f}: rc={p.returncode}\n' + (p.stdout + p.stderr)[-3000:])
        if p.returncode == 0:
            rebuilt.append(f)
        else:
            failed.append(f)
    missing = [f for f in files if f in failed or _stale(f, files, [])]
    return (not missing), '\n'.join(log)[-6000:], missing


def forbidden_scan(files=None):
    hits = []
    for f in (sorted(COQ.rglob('*.v')) if files is None else [COQ / g for g in files]):
        txt = f.read_text()
        # strip comments (non-nested approximation is enough: we never nest)
        txt2 = re.sub(r'\(\*.*?\*\)', lambda m: ' ' * 0 + '\n' * m.group(0).count('\n'), txt, flags=re.S)
        for i, line in enumerate(txt2.splitlines(), 1):
            if FORBIDDEN.search(line):
                hits.append(f'{f.relative_to(COQ)}:{i}: {line.strip()[:100]}')
            if re.match(r'\s*(Variable|Variables|Hypothesis|Hypotheses|Context)\b', line):
                # must be inside a Section
                before = txt2.splitlines()[:i]
                depth = sum(1 for l in before if re.match(r'\s*Section\b', l)) - \
                    sum(1 for l in before if re.match(r'\s*End\b', l)) + \
                    sum(1 for l in before if re.match(r'\s*Module\b(?!.*:=)', l))
                if depth <= 0:
                    hits.append(f'{f.relative_to(COQ)}:{i}: section-less {line.strip()[:80]}')
    return hits


def print_assumptions(propfile, deps=()):
    """Re-compile the property file and collect `Print Assumptions` output:
    returns {theorem: [axioms]} for each theorem followed by Print Assumptions.
    The printed output is cached next to the build (coq/.pa_cache/) under a key made of the file's text and the
    identity (mtime, size) of the .vo of every file it may depend on, so it is re-collected whenever the file or
    anything below it was re-compiled; VERIF_NO_PA_CACHE=1 disables the cache."""
    rel = propfile.relative_to(COQ)
    text = propfile.read_text()
    keysrc = text
    # only the files this one really depends on (transitively, through its Require lines)
    def _reqs(path):
        try:
            return ' '.join(_REQ.findall(path.read_text()))
        except OSError:
            return ''
    closure, todo = [], [propfile]
    while todo:
        cur = todo.pop()
        req = _reqs(cur)
        for g in deps:
            gp = COQ / g
            if gp != propfile and g not in closure and re.search(r'(?<![\w])' + re.escape(Path(g).stem) + r'(?![\w])', req):
                closure.append(g)
                todo.append(gp)
    for g in sorted(closure):
        gvo = (COQ / g).with_suffix('.vo')
        if (COQ / g) != propfile:
            st = gvo.stat() if gvo.exists() else None
            keysrc += f'|{g}:{st.st_mtime_ns if st else 0}:{st.st_size if st else 0}'
    key = hashlib.sha1(keysrc.encode()).hexdigest()
    cdir = COQ / '.pa_cache'
    cfile = cdir / (str(rel).replace('/', '_') + '.json')
    out = None
    if os.environ.get('VERIF_NO_PA_CACHE') != '1' and cfile.exists() and propfile.with_suffix('.vo').exists():
        try:
            c = json.loads(cfile.read_text())
            if c.get('key') == key:
                out = c['out']
        except Exception:
            out = None
    if out is None:
        p = subprocess.run(['timeout', '900', 'coqc', '-Q', '.', 'PV', str(rel)], cwd=COQ,
                           capture_output=True, text=True)
        if p.returncode != 0:
            return {}
        out = p.stdout
        try:
            cdir.mkdir(exist_ok=True)
            cfile.write_text(json.dumps({'key': key, 'out': out}))
        except Exception:
            pass
    names = re.findall(r'^\s*Print Assumptions\s+(\w+)\s*\.', text, re.M)
    # Outputs come in order; each is either "Closed under the global context"
    # or "Axioms:\n name : type ..." blocks.
    blocks = re.split(r'(?m)^(?=Closed under the global context|Axioms:)', out)
    blocks = [b for b in blocks if b.startswith('Closed under') or b.startswith('Axioms:')]
    res = {}
    for n, b in zip(names, blocks):
        if b.startswith('Closed'):
            res[n] = []
        else:
            res[n] = re.findall(r'(?m)^([A-Za-z_][\w\.]*)\s*:', b[len('Axioms:'):])
    return res


def coqchk(propfile_rel, timeout=1500):
    """Independent re-check (coqchk -o) of the property file and everything it depends on."""
    mod = 'PV.' + str(Path(propfile_rel).with_suffix('')).replace('/', '.')
    t0 = time.time()
    p = subprocess.run(['timeout', str(timeout), 'coqchk', '-o', '-silent', '-Q', '.', 'PV', mod], cwd=COQ,
                       capture_output=True, text=True)
    out = p.stdout + p.stderr
    m = re.search(r'\* Axioms:(.*?)\n\s*\n\* Constants/Inductives relying on type-in-type:(.*?)\n\s*\n'
                  r'\* Constants/Inductives relying on unsafe \(co\)fixpoints:(.*?)\n\s*\n'
                  r'\* Inductives whose positivity is assumed:(.*?)\n', out, re.S)
    res = {'cmd': f'coqchk -o -silent -Q . PV {mod}', 'rc': p.returncode, 'wall_s': round(time.time() - t0, 1)}
    if m:
        ax, tit, unsafe, pos = [re.sub(r'\s+', ' ', g).strip() for g in m.groups()]
        res.update(axioms=ax, type_in_type=tit, unsafe_fixpoints=unsafe, assumed_positivity=pos)
        res['ok'] = p.returncode == 0 and tit == '<none>' and unsafe == '<none>' and pos == '<none>'
    else:
        res.update(ok=False, tail=out[-1500:])
    return res


def run_coqc_many(files, timeout=900):
    """Run coqc on several independent files in parallel; [(rc, stdout+stderr)]."""
    procs = []
    results = [None] * len(files)
    pending = list(enumerate(files))
    running = []
    while pending or running:
        while pending and len(running) < NCPU:
            i, f = pending.pop(0)
            p = subprocess.Popen(['timeout', str(timeout), 'coqc', '-Q', str(COQ), 'PV', f.name],
                                 cwd=f.parent, stdout=subprocess.PIPE, stderr=subprocess.STDOUT, text=True)
            running.append((i, p))
        i, p = running.pop(0)
        out, _ = p.communicate()
        results[i] = (p.returncode, out)
    return results


# --------------------------------------------------------------------------
# helpers shared by property harnesses
# --------------------------------------------------------------------------
def setup_repo_path():
    """Import photutils from /repo's working tree."""
    sys.path.insert(0, str(REPO))
    os.environ.setdefault('PYTHONHASHSEED', '0')
    import warnings
    warnings.simplefilter('ignore')


def img_coq(a):
    """2-D integer array -> Coq list (list Z)."""
    return '[' + '; '.join('[' + '; '.join(coq(int(v)) for v in row) + ']' for row in a) + ']'


def sha(obj):
    return hashlib.sha1(json.dumps(obj, sort_keys=True, default=str).encode()).hexdigest()[:12]
