"""C03 -- results are covariant under integer translation (embedding in a larger zero-padded canvas)
and under axis transposition.

The relation is a metamorphic oracle on the REAL API: the same call is run on a scene and on the scene
embedded at an integer offset (dy, dx) in a zero-padded canvas (mask padded False, error padded with a
positive constant, segmentation padded 0), or on the transposed scene.  Every position-like output must
move by exactly the offset (resp. swap x and y), every other output must be unchanged, restricted to
sources whose measurement footprint lies inside the original frame (the rule is stated per API group
below; the rest is skipped and counted).

The Coq side (C03_Properties.v) proves the covariance statements about code-mirroring definitions
(generic re-basing theorem, from_float / overlap slices, label bounding boxes, image moments, the
detect_sources model of C04, aperture photometry model of C02 ...).  The small self-contained definitions
are tied to /repo by exact-lattice cases evaluated inside Coq (check_case)."""
import math
import random
import warnings
from fractions import Fraction

import numpy as np

from .core import coq, img_coq

PID = 'C03'
FILES = ['lib/Cases.v', 'lib/Conn.v',
         'C02_Model.v', 'C02_Proofs.v', 'C02_Properties.v',
         'C04_Model.v', 'C04_Proofs.v', 'C04_Properties.v',
         'C07_Model.v', 'C07_Proofs.v', 'C07_Properties.v',
         'C07R_Model.v', 'C07R_Proofs.v', 'C07R_Properties.v',
         'C14_Model.v', 'C14_Proofs.v',
         'C16_Model.v', 'C16_Proofs.v', 'C16_Properties.v',
         'C17_Model.v', 'C17_Proofs.v', 'C17_Properties.v',
         'C18_Model.v', 'C18_Proofs.v', 'C18_Properties.v',
         'C19_Model.v', 'C19_Proofs.v', 'C19_Properties.v',
         'C03_Model.v', 'C03_Proofs.v', 'C03_Links.v', 'C03_Detect.v', 'C03_Peaks.v', 'C03_Properties.v']

POS_TOL = 1e-9        # float positions after subtracting the offset ("a few ulp / 1e-9")
RTOL = 1e-10          # fluxes / areas / shapes when the code path depends on the offset
ERR_PAD = 0.75        # positive constant the error map is padded with


# ======================================================================================
# scenes
# ======================================================================================
def make_scene(seed, dyadic=False):
    """Random asymmetric scene: several elliptical Gaussian blobs of different size, ellipticity,
    orientation and amplitude (one close pair, one source near the frame edge) on a positive
    background with noise; a mask, an error map.  Everything derives from `seed`."""
    rng = random.Random(seed)
    ny = rng.randint(48, 64)
    nx = rng.randint(48, 64)
    while nx == ny:
        nx = rng.randint(48, 64)
    nprng = np.random.default_rng(rng.getrandbits(32))
    yy, xx = np.mgrid[0:ny, 0:nx]
    bkg = 2.0
    data = np.full((ny, nx), bkg)
    nsrc = rng.randint(4, 6)
    srcs = []

    def add(x0, y0, sx, q, th, amp, kind):
        if dyadic:
            x0, y0 = round(x0 * 8) / 8, round(y0 * 8) / 8
        c, s = math.cos(th), math.sin(th)
        u = (xx - x0) * c + (yy - y0) * s
        v = -(xx - x0) * s + (yy - y0) * c
        nonlocal data
        data = data + amp * np.exp(-0.5 * ((u / sx) ** 2 + (v / (sx * q)) ** 2))
        srcs.append(dict(x0=x0, y0=y0, sx=sx, sy=sx * q, theta=th, amp=amp, kind=kind))

    tries = 0
    while len(srcs) < nsrc and tries < 300:
        tries += 1
        edge = (len(srcs) == nsrc - 1)
        m = 3 if edge else 14
        x0 = rng.uniform(m, nx - 1 - m)
        y0 = rng.uniform(m, ny - 1 - m)
        if edge:      # push it towards one border
            if rng.random() < 0.5:
                x0 = rng.choice([rng.uniform(2, 5), rng.uniform(nx - 6, nx - 3)])
            else:
                y0 = rng.choice([rng.uniform(2, 5), rng.uniform(ny - 6, ny - 3)])
        if any((x0 - s['x0']) ** 2 + (y0 - s['y0']) ** 2 < 14 ** 2 for s in srcs):
            continue
        add(x0, y0, rng.uniform(1.2, 2.4), rng.uniform(0.45, 0.9), rng.uniform(0.1, 3.0),
            rng.uniform(40, 150), 'edge' if edge else 'interior')
    # a close companion (blend) of the first source
    s0 = srcs[0]
    ang = rng.uniform(0, 2 * math.pi)
    sep = rng.uniform(5.0, 7.0)
    add(s0['x0'] + sep * math.cos(ang), s0['y0'] + sep * math.sin(ang), rng.uniform(1.1, 1.6),
        rng.uniform(0.6, 0.9), rng.uniform(0.1, 3.0), s0['amp'] * rng.uniform(0.5, 0.9), 'companion')
    data = data + nprng.uniform(0.0, 1.0, size=data.shape)
    error = np.sqrt(data) * 0.3 + nprng.uniform(0.05, 0.1, size=data.shape)
    mask = nprng.random(data.shape) < 0.01
    return dict(seed=seed, data=data, error=error, mask=mask, srcs=srcs, ny=ny, nx=nx, bkg=bkg,
                dyadic=dyadic)


class Shift:
    """Embedding at offset (dy, dx) with pb rows below and pr columns to the right."""
    kind = 'shift'

    def __init__(self, dy, dx, pb, pr):
        self.dy, self.dx, self.pb, self.pr = dy, dx, pb, pr

    def img(self, a, fill=0):
        return np.pad(np.asarray(a), ((self.dy, self.pb), (self.dx, self.pr)), mode='constant',
                      constant_values=fill)

    def xy(self, x, y):
        return x + self.dx, y + self.dy

    def desc(self):
        return {'kind': 'shift', 'dy': self.dy, 'dx': self.dx, 'pad_bottom': self.pb, 'pad_right': self.pr}


class Transpose:
    kind = 'transpose'
    dy = dx = 0

    def img(self, a, fill=0):
        return np.ascontiguousarray(np.asarray(a).T)

    def xy(self, x, y):
        return y, x

    def desc(self):
        return {'kind': 'transpose'}


def transform_from(d):
    if d['kind'] == 'transpose':
        return Transpose()
    return Shift(d['dy'], d['dx'], d['pad_bottom'], d['pad_right'])


def scene_images(sc, T):
    """(data, error, mask) of the transformed scene."""
    if T.kind == 'shift':
        return T.img(sc['data'], 0.0), T.img(sc['error'], ERR_PAD), T.img(sc['mask'], False)
    return T.img(sc['data']), T.img(sc['error']), T.img(sc['mask'])


# ======================================================================================
# reporting
# ======================================================================================
class Rep:
    """Collects the outcome of the relations of one (scene, transform, group)."""

    def __init__(self, group, sc, T):
        self.group, self.sc, self.T = group, sc, T
        self.n = 0
        self.fails = []       # (signature, what, detail)
        self.skips = {}
        self.counts = {}

    def ok(self, api, rel, cond, detail=None):
        self.n += 1
        key = f'{api}:{self.T.kind}'
        self.counts[key] = self.counts.get(key, 0) + 1
        if not cond:
            sig = f'{api}:{self.T.kind}:{rel}'
            if not any(f[0] == sig for f in self.fails):
                self.fails.append((sig, f'{api}: relation "{rel}" fails under {self.T.kind}',
                                   detail() if callable(detail) else detail))
        return cond

    def skip(self, api, why, n=1):
        k = f'{api}:{why}'
        self.skips[k] = self.skips.get(k, 0) + n


def val(v):
    """plain ndarray of a column / Quantity / list of scalars"""
    if hasattr(v, 'value') and not isinstance(v, np.ndarray):
        v = v.value
    if hasattr(v, 'unit'):
        v = v.value
    return np.asarray(v)


def same(a, b, exact=True, rtol=RTOL, atol=0.0):
    a, b = val(a), val(b)
    if a.shape != b.shape:
        return False
    if a.dtype.kind in 'OUS' or b.dtype.kind in 'OUS':
        return bool(np.all(a == b))
    if exact:
        return bool(np.array_equal(a, b, equal_nan=(a.dtype.kind == 'f' and b.dtype.kind == 'f')))
    return bool(np.allclose(a, b, rtol=rtol, atol=atol, equal_nan=True))


def moved(a_new, a_old, d, integer=False):
    """a_new == a_old + d (exactly for integers, to POS_TOL for floats; NaN must stay NaN)."""
    a_new, a_old = val(a_new), val(a_old)
    if a_new.shape != a_old.shape:
        return False
    if integer:
        return bool(np.array_equal(a_new - d, a_old))
    return bool(np.allclose(a_new - d, a_old, rtol=0.0, atol=POS_TOL, equal_nan=True))


def js(a):
    a = val(a)
    if a.dtype.kind == 'f':
        return [None if not np.isfinite(v) else float(v) for v in a.ravel()[:40]]
    return a.ravel()[:40].tolist()


def bbox_tuple(b):
    return (b.iymin, b.iymax, b.ixmin, b.ixmax)


def bbox_inside(b, ny, nx):
    return b.ixmin >= 0 and b.iymin >= 0 and b.ixmax <= nx and b.iymax <= ny


# ======================================================================================
# group: aperture_photometry / PixelAperture (shift + transposition)
#   footprint rule: the aperture's bounding box lies inside the original frame
# ======================================================================================
def aperture_specs(grng):
    from photutils.aperture import (CircularAnnulus, CircularAperture, EllipticalAnnulus, EllipticalAperture,
                                    RectangularAnnulus, RectangularAperture)
    u = grng.uniform
    return [
        ('CircularAperture', CircularAperture, dict(r=u(2.0, 6.0))),
        ('CircularAnnulus', CircularAnnulus, dict(r_in=u(1.5, 3.5), r_out=u(4.0, 7.0))),
        ('EllipticalAperture', EllipticalAperture, dict(a=u(3.5, 6.5), b=u(1.5, 3.4), theta=u(-1.5, 1.5))),
        ('EllipticalAnnulus', EllipticalAnnulus, dict(a_in=u(2.0, 3.5), a_out=u(4.5, 7.0), b_out=u(2.5, 4.4),
                                                      theta=u(-1.5, 1.5))),
        ('RectangularAperture', RectangularAperture, dict(w=u(3.0, 9.0), h=u(2.0, 6.0), theta=u(-1.5, 1.5))),
        ('RectangularAnnulus', RectangularAnnulus, dict(w_in=u(2.0, 4.0), w_out=u(5.0, 9.0), h_out=u(3.0, 7.0),
                                                        theta=u(-1.5, 1.5))),
    ]


def t_kwargs(T, kw):
    """aperture shape parameters under the transform (transposition: theta -> pi/2 - theta)"""
    kw = dict(kw)
    if T.kind == 'transpose' and 'theta' in kw:
        kw['theta'] = math.pi / 2 - kw['theta']
    return kw


def scene_positions(sc, grng, n_extra=3, n_edge=2):
    """source positions + random interior positions + positions whose apertures straddle the frame"""
    ny, nx = sc['ny'], sc['nx']
    pos = [(s['x0'], s['y0']) for s in sc['srcs']]
    pos += [(grng.uniform(9, nx - 10), grng.uniform(9, ny - 10)) for _ in range(n_extra)]
    pos += [(grng.choice([grng.uniform(-2, 3), grng.uniform(nx - 4, nx + 1)]), grng.uniform(0, ny - 1))
            for _ in range(n_edge)]
    if sc['dyadic']:
        pos = [(round(x * 8) / 8, round(y * 8) / 8) for x, y in pos]
    return pos


def touching_positions(cls, kw, base, ny, nx):
    """four copies of the aperture at `base`, moved by whole pixels so that its bounding box is flush with the
    left / right / bottom / top edge of the frame (footprint touches the first / last column or row)"""
    b = cls(base, **kw).bbox
    x, y = base
    return [(x - b.ixmin, y), (x + nx - b.ixmax, y), (x, y - b.iymin), (x, y + ny - b.iymax)]


def aperture_histories(R, name, cls, kw, pos, posT, fresh, sc, T, canvas, grng):
    """The SAME aperture object used on the original frame, moved by the embedding offset (in place with += / -=, or
    by assigning new positions; before or after its first use), then used on the canvas: every output must be the
    one of a fresh aperture built at the moved positions."""
    from photutils.aperture import ApertureStats, aperture_photometry
    D, E, M = canvas
    d, e, m = sc['data'], sc['error'], sc['mask']
    off = np.array([T.dx, T.dy], float)
    how = grng.choice(['iadd after use', 'assign after use', 'isub after use', 'iadd before first use',
                       'assign before first use'])
    start = np.asarray(pos, float) + (2 * off if how.startswith('isub') else 0.0)
    ap = cls([tuple(p) for p in start], **kw)
    if 'after use' in how:          # fill every cache on the original frame
        _ = ap.bbox
        _ = ap.to_mask(method='center')
        _ = aperture_photometry(d, ap, error=e, mask=m)
        _ = ap.area_overlap(d)
        _ = ApertureStats(d, ap).sum
    if how.startswith('iadd'):
        ap.positions += off
    elif how.startswith('isub'):
        ap.positions -= off
    else:
        ap.positions = np.asarray(pos, float) + off
    det = lambda: {'aperture': name, 'params': kw, 'history': how, 'offset': (T.dx, T.dy),
                   'positions_now': np.asarray(ap.positions).tolist()[:6], 'bbox_now': [bbox_tuple(b) for b in ap.bbox][:6],
                   'bbox_fresh': [bbox_tuple(b) for b in fresh.bbox][:6]}
    tag = f'aperture object moved ({how.split(" ")[0]}) = fresh aperture at the moved positions'
    R.ok('PixelAperture', tag + ': positions', same(ap.positions, np.asarray(posT, float), False, rtol=0, atol=POS_TOL), det)
    R.ok('PixelAperture', tag + ': bbox', [bbox_tuple(b) for b in ap.bbox] == [bbox_tuple(b) for b in fresh.bbox], det)
    ta, tf = aperture_photometry(D, ap, error=E, mask=M), aperture_photometry(D, fresh, error=E, mask=M)
    R.ok('PixelAperture', tag + ': aperture_photometry',
         all(same(ta[c], tf[c], False, rtol=RTOL, atol=1e-12) for c in ('xcenter', 'ycenter', 'aperture_sum', 'aperture_sum_err')),
         lambda: dict(det(), aperture_sum=js(ta['aperture_sum']), aperture_sum_fresh=js(tf['aperture_sum'])))
    pa, pf = ap.do_photometry(D, error=E, mask=M), fresh.do_photometry(D, error=E, mask=M)
    R.ok('PixelAperture', tag + ': do_photometry',
         same(pa[0], pf[0], False, rtol=RTOL, atol=1e-12) and same(pa[1], pf[1], False, rtol=RTOL, atol=1e-12),
         lambda: dict(det(), sums=js(pa[0]), sums_fresh=js(pf[0])))
    R.ok('PixelAperture', tag + ': area_overlap',
         same(np.asarray(ap.area_overlap(D, mask=M)), np.asarray(fresh.area_overlap(D, mask=M)), False, rtol=RTOL, atol=1e-12), det)
    R.ok('PixelAperture', tag + ': to_mask',
         all(bbox_tuple(a.bbox) == bbox_tuple(b.bbox) and same(a.data, b.data, False, rtol=RTOL, atol=1e-12)
             for a, b in zip(ap.to_mask(method='exact'), fresh.to_mask(method='exact'))), det)
    sa, sf = ApertureStats(D, ap, error=E, mask=M), ApertureStats(D, fresh, error=E, mask=M)
    R.ok('PixelAperture', tag + ': ApertureStats',
         all(same(getattr(sa, c), getattr(sf, c), False, rtol=RTOL, atol=1e-12)
             for c in ('sum', 'sum_err', 'xcentroid', 'ycentroid', 'bbox_xmin', 'bbox_ymax', 'max', 'median', 'sum_aper_area')),
         lambda: dict(det(), sum=js(sa.sum), sum_fresh=js(sf.sum)))


def g_aperture_photometry(sc, T, R, grng):
    from photutils.aperture import aperture_photometry
    ny, nx = sc['ny'], sc['nx']
    d, e, m = sc['data'], sc['error'], sc['mask']
    D, E, M = scene_images(sc, T)
    pos0 = scene_positions(sc, grng)
    exact = sc['dyadic'] and T.kind == 'shift'
    use_err = grng.random() < 0.8
    use_mask = grng.random() < 0.8
    for name, cls, kw in aperture_specs(grng):
        if sc['dyadic']:
            kw = {k: (round(v * 8) / 8 if k != 'theta' else v) for k, v in kw.items()}
        base = (pos0[len(sc['srcs'])][0], pos0[len(sc['srcs']) + 1][1])       # an interior position
        pos = pos0 + touching_positions(cls, kw, base, ny, nx)
        posT = [T.xy(x, y) for x, y in pos]
        ap0 = cls(pos, **kw)
        ap1 = cls(posT, **t_kwargs(T, kw))
        inside = np.array([bbox_inside(b, ny, nx) for b in ap0.bbox])
        R.skip(name, 'bbox-not-inside-frame', int((~inside).sum()))
        R.skip(name, '(not skipped) bbox flush with an edge', int(sum(
            ins and (b.ixmin == 0 or b.iymin == 0 or b.ixmax == nx or b.iymax == ny) for b, ins in zip(ap0.bbox, inside))))
        # bounding boxes and masks move with the aperture
        for b0, b1, ins in zip(ap0.bbox, ap1.bbox, inside):
            if T.kind == 'shift':
                R.ok(name, 'bbox moves by (dx,dy)',
                     bbox_tuple(b1) == (b0.iymin + T.dy, b0.iymax + T.dy, b0.ixmin + T.dx, b0.ixmax + T.dx),
                     lambda: {'bbox': bbox_tuple(b0), 'bbox_canvas': bbox_tuple(b1)})
            else:
                R.ok(name, 'bbox x/y swapped',
                     bbox_tuple(b1) == (b0.ixmin, b0.ixmax, b0.iymin, b0.iymax),
                     lambda: {'bbox': bbox_tuple(b0), 'bbox_T': bbox_tuple(b1)})
        for method in ('exact', 'center', 'subpixel'):
            kws = dict(method=method, subpixels=grng.choice([3, 5, 8]))
            t0 = aperture_photometry(d, ap0, error=e if use_err else None, mask=m if use_mask else None, **kws)
            t1 = aperture_photometry(D, ap1, error=E if use_err else None, mask=M if use_mask else None, **kws)
            det = lambda: {'aperture': name, 'params': kw, 'method': kws, 'positions': pos,
                           'inside': inside.tolist(), 'sum': js(t0['aperture_sum']),
                           'sum_transformed': js(t1['aperture_sum'])}
            if T.kind == 'shift':
                R.ok('aperture_photometry', 'xcenter/ycenter move by (dx,dy)',
                     moved(t1['xcenter'], t0['xcenter'], T.dx) and moved(t1['ycenter'], t0['ycenter'], T.dy), det)
            else:
                R.ok('aperture_photometry', 'xcenter/ycenter swapped',
                     same(t1['xcenter'], t0['ycenter'], False) and same(t1['ycenter'], t0['xcenter'], False), det)
            R.ok('aperture_photometry', f'aperture_sum unchanged ({name})',
                 same(val(t1['aperture_sum'])[inside], val(t0['aperture_sum'])[inside], exact), det)
            if use_err:
                R.ok('aperture_photometry', f'aperture_sum_err unchanged ({name})',
                     same(val(t1['aperture_sum_err'])[inside], val(t0['aperture_sum_err'])[inside], exact), det)
        # area_overlap and the mask images
        a0 = np.asarray(ap0.area_overlap(d, mask=m if use_mask else None))
        a1 = np.asarray(ap1.area_overlap(D, mask=M if use_mask else None))
        R.ok(name, 'area_overlap unchanged', same(a1[inside], a0[inside], exact),
             lambda: {'params': kw, 'area': js(a0), 'area_transformed': js(a1), 'inside': inside.tolist()})
        for k, (m0, m1) in enumerate(zip(ap0.to_mask(method='exact'), ap1.to_mask(method='exact'))):
            w1 = m1.data if T.kind == 'shift' else m1.data.T
            R.ok(name, 'mask weights unchanged', same(w1, m0.data, exact, atol=1e-12),
                 lambda: {'params': kw, 'position': pos[k]})
        if T.kind == 'shift':
            aperture_histories(R, name, cls, kw, pos, posT, ap1, sc, T, (D, E, M), grng)


# ======================================================================================
# generic comparison of catalog-like objects (ApertureStats, SourceCatalog)
# ======================================================================================
def _cut(a):
    """a cutout (possibly masked array / Quantity / None) as a plain float array with NaN for masked"""
    if a is None:
        return None
    a = getattr(a, 'value', a) if not isinstance(a, np.ma.MaskedArray) else a
    if isinstance(a, np.ma.MaskedArray):
        return np.asarray(np.ma.filled(a.astype(float), np.nan), dtype=float)
    return np.asarray(a, dtype=float)


def ang_diff_deg(a, b):
    """difference of two orientations modulo 180 degrees"""
    d = np.mod(val(a) - val(b), 180.0)
    return np.minimum(d, 180.0 - d)


def compare_props(R, api, c0, c1, T, kinds, sel_of, exact, ttol=(1e-9, 1e-11), detail=None):
    """kinds: {property name: kind or (kind, partner)}; sel_of(name) -> boolean selection of the sources
    the relation applies to.  c0 = original object, c1 = transformed one."""
    shift = T.kind == 'shift'
    rt, at = (RTOL, 0.0) if shift else ttol

    def eq(a, b, sel):
        a, b = val(a), val(b)
        if a.shape != b.shape:
            return False
        return same(a[sel], b[sel], exact and shift, rtol=rt, atol=at)

    for name, kind in kinds.items():
        partner = None
        if isinstance(kind, tuple):
            kind, partner = kind
        sel = sel_of(name)
        if not np.any(sel):
            continue
        try:
            v0 = getattr(c0, name)
            v1 = getattr(c1, name)
            vp = getattr(c1, partner) if (partner and not shift) else None
        except Exception as exc:       # a property that cannot be evaluated on one side only is a failure
            R.ok(api, f'{name} evaluates', False, {'error': repr(exc)[:300]})
            continue
        det = (lambda name=name, v0=v0, v1=v1: dict(detail() if detail else {}, property=name,
                                                    selected=np.asarray(sel).tolist(),
                                                    original=js(_first(v0)), transformed=js(_first(v1))))
        if kind == 'same':
            R.ok(api, f'{name} unchanged', eq(v1, v0, sel), det)
        elif kind == 'swap':          # x-quantity <-> y-quantity (no position meaning)
            R.ok(api, f'{name} unchanged' if shift else f'{name} <-> {partner}',
                 eq(v1 if shift else vp, v0, sel), det)
        elif kind in ('x', 'y', 'ix', 'iy'):
            integer = kind[0] == 'i'
            if shift:
                d = T.dx if kind[-1] == 'x' else T.dy
                R.ok(api, f'{name} moves by d{kind[-1]}', moved(val(v1)[sel], val(v0)[sel], d, integer), det)
            else:
                R.ok(api, f'{name} <-> {partner}',
                     same(val(vp)[sel], val(v0)[sel], integer, rtol=0.0, atol=1e-7), det)
        elif kind in ('xy', 'yx', 'iyx'):
            a0, a1 = val(v0), val(v1)
            if a0.ndim == 1:
                a0, a1 = a0[None, :], a1[None, :]
            integer = kind == 'iyx'
            if shift:
                d = np.array([T.dx, T.dy] if kind == 'xy' else [T.dy, T.dx])
                R.ok(api, f'{name} moves by (dx,dy)', moved(a1[sel], a0[sel], d, integer), det)
            else:
                R.ok(api, f'{name} x/y swapped',
                     same(a1[sel][:, ::-1], a0[sel], integer, rtol=0.0, atol=1e-7), det)
        elif kind in ('cutxy', 'icutyx'):   # cutout-relative position: unchanged / swapped
            a0, a1 = val(v0), val(v1)
            if a0.ndim == 1:
                a0, a1 = a0[None, :], a1[None, :]
            integer = kind == 'icutyx'
            if shift:
                R.ok(api, f'{name} unchanged', same(a1[sel], a0[sel], integer or exact, rtol=0.0, atol=POS_TOL), det)
            else:
                R.ok(api, f'{name} x/y swapped', same(a1[sel][:, ::-1], a0[sel], integer, rtol=0.0, atol=1e-7), det)
        elif kind == 'orientation':
            if shift:
                R.ok(api, f'{name} unchanged', eq(v1, v0, sel), det)
            else:
                a0, a1 = val(v0)[sel], val(v1)[sel]
                fin = np.isfinite(a0) & np.isfinite(a1)
                if hasattr(c0, 'semimajor_sigma'):     # isotropic second moments: the orientation is undefined
                    sa, sb = val(c0.semimajor_sigma)[sel], val(c0.semiminor_sigma)[sel]
                    with np.errstate(invalid='ignore'):
                        fin &= ~(np.abs(sa - sb) <= 1e-9 * np.abs(sa))
                R.ok(api, f'{name} -> 90deg - {name} (mod 180)',
                     bool(np.array_equal(np.isfinite(a0), np.isfinite(a1)))
                     and bool(np.all(ang_diff_deg(a1[fin], 90.0 - a0[fin]) < 1e-6)), det)
        elif kind in ('mat2', 'momT'):       # matrices indexed by (y-power, x-power) or 2x2 (x,y) matrices
            a0, a1 = val(v0), val(v1)
            if a0.ndim == 2:
                a0, a1 = a0[None], a1[None]
            if shift:
                R.ok(api, f'{name} unchanged', same(a1[sel], a0[sel], exact, rtol=rt, atol=at), det)
            elif kind == 'momT':
                R.ok(api, f'{name} transposed', same(np.swapaxes(a1[sel], 1, 2), a0[sel], False, rtol=1e-8, atol=1e-6),
                     det)
            else:
                R.ok(api, f'{name} x/y swapped', same(a1[sel][:, ::-1, ::-1], a0[sel], False, rtol=rt, atol=at), det)
        elif kind == 'cutouts':
            l0 = v0 if isinstance(v0, (list, tuple)) else [v0]
            l1 = v1 if isinstance(v1, (list, tuple)) else [v1]
            good = len(l0) == len(l1)
            for k in range(len(l0) if good else 0):
                if not sel[k]:
                    continue
                a, b = _cut(l0[k]), _cut(l1[k])
                if a is None or b is None:
                    good &= (a is None) == (b is None)
                    continue
                b = b if shift else b.T
                if (exact and shift) or 'sumcutout' not in name:
                    good &= a.shape == b.shape and bool(np.array_equal(a, b, equal_nan=True))
                else:     # weights differ by rounding: a weight of 1e-17 instead of 0 un-masks a pixel
                    # (error cutouts carry sqrt(weight): a weight of 1e-16 shows up as 1e-8)
                    good &= a.shape == b.shape and bool(np.allclose(np.nan_to_num(a), np.nan_to_num(b), rtol=1e-9,
                                                                    atol=1e-6 if name.startswith('error') else 1e-9))
            R.ok(api, f'{name} unchanged' if shift else f'{name} transposed', good, det)
        elif kind == 'bbox':
            l0 = v0 if isinstance(v0, (list, tuple)) else [v0]
            l1 = v1 if isinstance(v1, (list, tuple)) else [v1]
            good = len(l0) == len(l1)
            for k in range(len(l0) if good else 0):
                if sel[k]:
                    b0, b1 = bbox_tuple(l0[k]), bbox_tuple(l1[k])
                    want = ((b0[0] + T.dy, b0[1] + T.dy, b0[2] + T.dx, b0[3] + T.dx) if shift
                            else (b0[2], b0[3], b0[0], b0[1]))
                    good &= b1 == want
            R.ok(api, f'{name} moves by (dx,dy)' if shift else f'{name} x/y swapped', good,
                 lambda: dict(detail() if detail else {}, property=name,
                              original=[bbox_tuple(b) for b in l0], transformed=[bbox_tuple(b) for b in l1]))
        elif kind == 'slices':
            good = len(v0) == len(v1)
            for k in range(len(v0) if good else 0):
                if sel[k]:
                    (sy0, sx0), (sy1, sx1) = v0[k], v1[k]
                    if shift:
                        good &= ((sy1.start, sy1.stop, sx1.start, sx1.stop) ==
                                 (sy0.start + T.dy, sy0.stop + T.dy, sx0.start + T.dx, sx0.stop + T.dx))
                    else:
                        good &= (sy1.start, sy1.stop, sx1.start, sx1.stop) == (sx0.start, sx0.stop, sy0.start, sy0.stop)
            R.ok(api, f'{name} move by (dx,dy)' if shift else f'{name} x/y swapped', good,
                 lambda: dict(detail() if detail else {}, property=name, original=str(v0), transformed=str(v1)))
        elif kind == 'aperture':
            l0 = list(v0) if isinstance(v0, (list, tuple, np.ndarray)) else [v0]
            l1 = list(v1) if isinstance(v1, (list, tuple, np.ndarray)) else [v1]
            good = len(l0) == len(l1)
            for k in range(len(l0) if good else 0):
                if not sel[k]:
                    continue
                a, b = l0[k], l1[k]
                if a is None or b is None:
                    good &= (a is None) == (b is None)
                    continue
                good &= type(a) is type(b)
                pa, pb = np.asarray(a.positions, float), np.asarray(b.positions, float)
                want = pa + [T.dx, T.dy] if shift else pa[::-1]
                good &= bool(np.allclose(pb, want, rtol=0, atol=POS_TOL if shift else 1e-7))
                if not shift and hasattr(a, 'w_in') and float(a.theta.value if hasattr(a.theta, 'value') else a.theta) == 0.0:
                    # an axis-aligned rectangle is transposed by swapping width and height
                    good &= bool(np.allclose([b.w_in, b.w_out, b.h_in, b.h_out], [a.h_in, a.h_out, a.w_in, a.w_out],
                                             rtol=1e-8)) and float(val(b.theta)) == 0.0
                    continue
                for prm in a._params:
                    if prm == 'positions':
                        continue
                    x0, x1 = float(val(getattr(a, prm))), float(val(getattr(b, prm)))
                    if prm == 'theta' and not shift:
                        if hasattr(a, 'a') and abs(float(val(a.a)) - float(val(a.b))) <= 1e-9 * float(val(a.a)):
                            continue      # a circle: theta is meaningless
                        dd = (x1 - (math.pi / 2 - x0)) % math.pi
                        good &= min(dd, math.pi - dd) < 1e-8
                    else:
                        good &= bool(np.isclose(x1, x0, rtol=RTOL if shift else 1e-8, atol=0))
            R.ok(api, f'{name} moves by (dx,dy), same shape' if shift else f'{name} transposed', good,
                 lambda: dict(detail() if detail else {}, property=name, original=str(l0)[:400],
                              transformed=str(l1)[:400]))
        else:
            raise ValueError(kind)


def _first(v):
    if isinstance(v, (list, tuple)):
        return np.array([0.0]) if (not v or v[0] is None or not np.isscalar(v[0])) else np.array(v)
    return v


# ======================================================================================
# group: ApertureStats  (footprint rule: aperture bounding box inside the original frame)
# ======================================================================================
APSTATS_KINDS = {
    'id': 'same', 'centroid': 'xy', 'xcentroid': ('x', 'ycentroid'), 'ycentroid': ('y', 'xcentroid'),
    'cutout_centroid': 'cutxy',
    'bbox': 'bbox', 'bbox_xmin': ('ix', 'bbox_ymin'), 'bbox_xmax': ('ix', 'bbox_ymax'),
    'bbox_ymin': ('iy', 'bbox_xmin'), 'bbox_ymax': ('iy', 'bbox_xmax'),
    'sum': 'same', 'sum_err': 'same', 'sum_aper_area': 'same', 'center_aper_area': 'same',
    'min': 'same', 'max': 'same', 'mean': 'same', 'median': 'same', 'mode': 'same', 'std': 'same',
    'mad_std': 'same', 'var': 'same', 'biweight_location': 'same', 'biweight_midvariance': 'same',
    'fwhm': 'same', 'semimajor_sigma': 'same', 'semiminor_sigma': 'same', 'eccentricity': 'same',
    'elongation': 'same', 'ellipticity': 'same', 'gini': 'same', 'covariance_eigvals': 'same',
    'orientation': 'orientation',
    'covar_sigx2': ('swap', 'covar_sigy2'), 'covar_sigy2': ('swap', 'covar_sigx2'), 'covar_sigxy': 'same',
    'cxx': ('swap', 'cyy'), 'cyy': ('swap', 'cxx'), 'cxy': 'same',
    'covariance': 'mat2', 'inertia_tensor': 'mat2', 'moments': 'momT', 'moments_central': 'momT',
    'data_cutout': 'cutouts', 'data_sumcutout': 'cutouts', 'error_sumcutout': 'cutouts',
}


def g_aperture_stats(sc, T, R, grng):
    from astropy.stats import SigmaClip
    from photutils.aperture import ApertureStats
    ny, nx = sc['ny'], sc['nx']
    d, e, m = sc['data'], sc['error'], sc['mask']
    D, E, M = scene_images(sc, T)
    pos0 = scene_positions(sc, grng, n_extra=2, n_edge=2)
    specs = aperture_specs(grng)
    grng.shuffle(specs)
    for name, cls, kw in specs[:3]:
        if sc['dyadic']:
            kw = {k: (round(v * 8) / 8 if k != 'theta' else v) for k, v in kw.items()}
        base = (pos0[len(sc['srcs'])][0], pos0[len(sc['srcs']) + 1][1])
        pos = pos0 + touching_positions(cls, kw, base, ny, nx)
        posT = [T.xy(x, y) for x, y in pos]
        ap0, ap1 = cls(pos, **kw), cls(posT, **t_kwargs(T, kw))
        inside = np.array([bbox_inside(b, ny, nx) for b in ap0.bbox])
        R.skip('ApertureStats', 'bbox-not-inside-frame', int((~inside).sum()))
        opts = dict(sum_method=grng.choice(['exact', 'center', 'subpixel']), subpixels=grng.choice([3, 5]),
                    sigma_clip=grng.choice([None, None, 3.0]))
        # ApertureStats masks pixels whose weight is exactly 0; with real-valued positions x + dx is rounded, an
        # 'exact' annulus weight can come out as 1e-15 instead of 0, the pixel then votes in the sigma clipping and
        # the clipped set changes discontinuously.  Sigma clipping is therefore exercised only where the
        # translation is exact (1/8-lattice scenes under shift).
        if not (sc['dyadic'] and T.kind == 'shift'):
            opts['sigma_clip'] = None
        lb = grng.choice([None, 'array'])
        local_bkg = None if lb is None else np.array([grng.uniform(1.5, 2.5) for _ in pos])
        kws = dict(sum_method=opts['sum_method'], subpixels=opts['subpixels'],
                   sigma_clip=None if opts['sigma_clip'] is None else SigmaClip(sigma=opts['sigma_clip'], maxiters=5),
                   local_bkg=local_bkg)
        use_err, use_mask = grng.random() < 0.8, grng.random() < 0.8
        s0 = ApertureStats(d, ap0, error=e if use_err else None, mask=m if use_mask else None, **kws)
        s1 = ApertureStats(D, ap1, error=E if use_err else None, mask=M if use_mask else None, **kws)
        compare_props(R, 'ApertureStats', s0, s1, T, APSTATS_KINDS, lambda nm: inside,
                      exact=sc['dyadic'], ttol=(1e-8, 1e-9),
                      detail=lambda: {'aperture': name, 'params': kw, 'options': opts, 'positions': pos,
                                      'local_bkg': None if local_bkg is None else local_bkg.tolist()})


# ======================================================================================
# group: find_peaks (shift).  Zero padding of the canvas coincides with the mode='constant', cval=0
#   border handling of the maximum filter, so without border_width EVERY peak must move with the frame.
#   With border_width the comparison is restricted to the zone further than border_width from the
#   original frame edges (peaks nearer are dropped in the original but may survive in the canvas).
#   Centroids (centroid_func): only peaks whose centroid box lies inside the original frame.
# ======================================================================================
def peaks_table(tbl):
    if tbl is None:
        return np.zeros((0, 3))
    return np.transpose([val(tbl['x_peak']).astype(float), val(tbl['y_peak']).astype(float), val(tbl['peak_value'])])


def g_find_peaks(sc, T, R, grng):
    from photutils.centroids import centroid_com, centroid_quadratic
    from photutils.detection import find_peaks
    ny, nx = sc['ny'], sc['nx']
    d, e, m = sc['data'], sc['error'], sc['mask']
    D, E, M = scene_images(sc, T)
    thr0 = sc['bkg'] + grng.uniform(1.2, 6.0)
    d_clean, D_clean = d, D
    for it in range(6):
        box = grng.choice([3, 5, 7, (3, 7), (5, 3), 4])
        # threshold regimes: above the sky; inside the noise; between 0 (the padding) and the data minimum
        thr = thr0 if it < 4 else grng.choice([thr0, sc['bkg'] + grng.uniform(0.5, 0.95), grng.uniform(0.0, sc['bkg'] - 0.1)])
        d, D = d_clean, D_clean
        nan_desc = None
        if it >= 3 and grng.random() < 0.75:
            # non-finite data: isolated NaN pixels next to the sources (inside the centroid boxes of their peaks) and
            # NaN blocks at least as large as the search box, well inside the frame; padding stays 0
            d = d_clean.copy()
            nan_desc = {'pixels': [], 'blocks': []}
            for s_ in sc['srcs']:
                if grng.random() < 0.6:
                    yy_, xx_ = int(round(s_['y0'])) + grng.choice([-2, -1, 1, 2]), int(round(s_['x0'])) + grng.choice([-2, -1, 1, 2])
                    if 0 <= yy_ < ny and 0 <= xx_ < nx:
                        d[yy_, xx_] = np.nan
                        nan_desc['pixels'].append((yy_, xx_))
            for _ in range(grng.randint(1, 2)):
                hb, wb = grng.randint(4, 10), grng.randint(4, 10)
                yb, xb = grng.randint(4, ny - hb - 4), grng.randint(4, nx - wb - 4)
                d[yb:yb + hb, xb:xb + wb] = np.nan
                nan_desc['blocks'].append((yb, xb, hb, wb))
            D = T.img(d, 0.0)
        fp = None
        if it in (3, 5):
            fp = np.ones((grng.choice([3, 5]), grng.choice([3, 5, 7])), bool)
            fp[0, 0] = False
        bw = grng.choice([None, None, 1, 3, (2, 5)])
        use_mask = grng.random() < (0.5 if nan_desc is None else 0.3)
        cf = grng.choice([None, centroid_com, centroid_quadratic])
        if thr < sc['bkg'] + 1.0 and cf is not None:     # hundreds of noise peaks: keep the centroiding cheap
            cf = centroid_com if grng.random() < 0.5 else None
        if cf is not None and box == 4:      # centroid_sources wants odd boxes
            box = 5
        npk = grng.choice([np.inf, np.inf, 2, 3]) if bw is None else np.inf     # brightest-N selection
        kw = dict(box_size=box, footprint=fp, border_width=bw, mask=m if use_mask else None, centroid_func=cf,
                  npeaks=npk)
        kwT = dict(kw, mask=M if use_mask else None)
        def call(img, k):
            try:
                return find_peaks(img, thr, **k), None
            except Exception as exc:           # must behave alike in both frames
                return None, repr(exc)[:300]
        (t0, ex0), (t1, ex1) = call(d, kw), call(D, kwT)
        if ex0 or ex1:
            R.ok('find_peaks', 'raises in both frames or in none', bool(ex0) == bool(ex1),
                 {'threshold': thr, 'box_size': box, 'border_width': bw, 'mask': use_mask,
                  'centroid_func': getattr(cf, '__name__', None), 'nan': nan_desc, 'original': ex0, 'canvas': ex1})
            continue
        p0, p1 = peaks_table(t0), peaks_table(t1)
        p1s = p1 - [T.dx, T.dy, 0]
        if bw is not None:      # restrict the canvas peaks to the zone the original call looks at
            by, bx = (bw, bw) if np.isscalar(bw) else bw
            keep = (p1s[:, 0] >= bx) & (p1s[:, 0] < nx - bx) & (p1s[:, 1] >= by) & (p1s[:, 1] < ny - by)
            R.skip('find_peaks', 'canvas-peak-within-border_width-of-original-edge', int((~keep).sum()))
        else:
            keep = np.ones(len(p1s), bool)
        det = lambda: {'threshold': thr, 'box_size': box, 'footprint': None if fp is None else fp.astype(int).tolist(),
                       'border_width': bw, 'mask': use_mask, 'centroid_func': getattr(cf, '__name__', None),
                       'nan': nan_desc,
                       'npeaks': None if npk == np.inf else npk,
                       'peaks': p0.tolist()[:30], 'canvas_peaks_minus_offset': p1s[keep].tolist()[:30]}
        R.ok('find_peaks', 'x_peak/y_peak move by (dx,dy), same peaks, same values, same order',
             p0.shape == p1s[keep].shape and bool(np.array_equal(p0, p1s[keep])), det)
        if bw is None and t0 is not None and t1 is not None:
            R.ok('find_peaks', 'id unchanged', same(t1['id'], t0['id']), det)
        if cf is not None and t0 is not None and t1 is not None and p0.shape == p1s[keep].shape:
            hy, hx = ((box, box) if np.isscalar(box) else box) if fp is None else fp.shape
            hy, hx = hy // 2, hx // 2        # inclusive: the box may touch the first / last row or column
            ins = (p0[:, 0] >= hx) & (p0[:, 0] <= nx - 1 - hx) & (p0[:, 1] >= hy) & (p0[:, 1] <= ny - 1 - hy)
            R.skip('find_peaks', 'centroid-box-not-inside-frame', int((~ins).sum()))
            xc0, yc0 = val(t0['x_centroid']), val(t0['y_centroid'])
            xc1, yc1 = val(t1['x_centroid'])[keep], val(t1['y_centroid'])[keep]
            R.ok('find_peaks', 'x_centroid/y_centroid move by (dx,dy)' + (' [NaN pixels in the data]' if nan_desc else ''),
                 moved(xc1[ins], xc0[ins], T.dx) and moved(yc1[ins], yc0[ins], T.dy),
                 lambda: dict(det(), x_centroid=js(xc0), x_centroid_canvas=js(xc1), inside=ins.tolist()))


# ======================================================================================
# group: DAOStarFinder / IRAFStarFinder / StarFinder (shift).
#   footprint rule, PER AXIS: a source belongs to the compared zone when its centroid lies at least
#   m_axis + 1.5 pixels from both edges of that axis of the original frame, where m_axis = the kernel
#   half-size along the axis (= the peak-finding footprint, the measurement cutout and the border removed
#   by exclude_border=True), or the min_separation radius if larger.  There the convolved image (zero
#   padding = mode='constant'), the peak-finding neighbourhood and the cutout see only original pixels,
#   and the excluded border does not reach.  Relation, both directions: every zone source of one frame must
#   be reported in the other frame (anywhere) at the shifted position, with all other columns unchanged.
#   Extra compact stars are injected in the band between the two kernel half-sizes from the edges
#   (elongated kernels: DAO ratio < 1 at theta 0 / 90, non-square StarFinder kernels).
# ======================================================================================
def zone_rows(t, ddx, ddy, ny, nx, mx, my):
    if t is None:
        return {}
    x, y = val(t['xcentroid']) - ddx, val(t['ycentroid']) - ddy
    return {i: (x[i], y[i]) for i in range(len(x))
            if mx + 1.5 <= x[i] <= nx - 1 - mx - 1.5 and my + 1.5 <= y[i] <= ny - 1 - my - 1.5}


def compare_finder(R, api, t0, t1, T, ny, nx, margins, detail, srcs=(), injected=(), conv=None):
    mx, my = margins
    # sanity (keeps the relation from being vacuous when the reported positions are nonsense, e.g. cutout-relative):
    # at least one of the bright blobs of the scene is reported within 2.5 pixels, in both frames
    for t, ddx, ddy, which in ((t0, 0, 0, 'original'), (t1, T.dx, T.dy, 'canvas')):
        if t is not None and len(t) >= 2 and srcs:
            x, y = val(t['xcentroid']) - ddx, val(t['ycentroid']) - ddy
            near = min(np.min(np.hypot(x - s['x0'], y - s['y0'])) for s in srcs)
            R.ok(api, 'reported positions lie on the scene sources (sanity)', near <= 2.5,
                 lambda: dict(detail, frame=which, xcentroid=js(x), ycentroid=js(y),
                              scene_sources=[(s['x0'], s['y0']) for s in srcs]))
    z0 = zone_rows(t0, 0, 0, ny, nx, mx, my)
    z1 = zone_rows(t1, T.dx, T.dy, ny, nx, mx, my)
    R.skip(api, 'source-outside-the-per-axis-zone', (0 if t0 is None else len(t0)) - len(z0))
    all0 = {} if t0 is None else {i: (val(t0['xcentroid'])[i], val(t0['ycentroid'])[i]) for i in range(len(t0))}
    all1 = {} if t1 is None else {i: (val(t1['xcentroid'])[i] - T.dx, val(t1['ycentroid'])[i] - T.dy)
                                  for i in range(len(t1))}

    def find(p, table):
        for k, q in table.items():
            if abs(p[0] - q[0]) <= 1e-6 and abs(p[1] - q[1]) <= 1e-6:
                return k
        return None
    det = lambda: dict(detail, margins_xy=(mx, my), frame=(ny, nx),
                       original=sorted((round(float(a), 3), round(float(b), 3)) for a, b in all0.values()),
                       canvas_minus_offset=sorted((round(float(a), 3), round(float(b), 3)) for a, b in all1.values()))
    # injected compact stars: the peak pixel is known (the rounded position), so the footprint rule can be applied
    # INCLUSIVELY (kernel footprint touching the first / last row or column): reported in one frame iff in the other
    for (x0, y0) in injected:
        px, py = int(math.floor(x0 + 0.5)), int(math.floor(y0 + 0.5))
        if conv is not None:
            # the detection peak = the maximum of the convolved image next to the star (near an edge the truncated
            # wings move it off the nominal position); computed here with scipy, independently of the finder
            ya, xa = max(py - 2, 0), max(px - 2, 0)
            win = conv[ya:py + 3, xa:px + 3]
            jj, ii = np.unravel_index(np.argmax(win), win.shape)
            px, py = xa + int(ii), ya + int(jj)
        if not (mx <= px <= nx - 1 - mx and my <= py <= ny - 1 - my):
            R.skip(api, 'injected-star-footprint-not-inside-frame')
            continue
        n0 = [q for q in all0.values() if math.hypot(q[0] - x0, q[1] - y0) <= 1.0]
        n1 = [q for q in all1.values() if math.hypot(q[0] - x0, q[1] - y0) <= 1.0]
        touching = px in (mx, nx - 1 - mx) or py in (my, ny - 1 - my)
        if touching:
            R.skip(api, '(not skipped) injected star whose kernel footprint touches an edge')
        R.ok(api, 'a star whose kernel footprint lies inside (or touches the edge of) the original frame is reported '
                  'in both frames or in none',
             bool(n0) == bool(n1) and (not n0 or find(n0[0], {0: n1[0]}) is not None),
             lambda: dict(det(), star=(x0, y0), peak_pixel=(px, py), touching=touching,
                          reported_original=[(float(a), float(b)) for a, b in n0],
                          reported_canvas_minus_offset=[(float(a), float(b)) for a, b in n1]))
    pairs = []
    miss0 = [p for i, p in z0.items() if find(p, all1) is None]
    miss1 = [p for i, p in z1.items() if find(p, all0) is None]
    R.ok(api, 'every source of the original frame inside the zone is reported in the canvas', not miss0,
         lambda: dict(det(), missing_in_canvas=[(float(a), float(b)) for a, b in miss0]))
    R.ok(api, 'every canvas source inside the zone of the original frame is reported in the original frame', not miss1,
         lambda: dict(det(), missing_in_original=[(float(a), float(b)) for a, b in miss1]))
    for i, p in z0.items():
        k = find(p, all1)
        if k is not None:
            pairs.append((i, k))
    if not pairs:
        return
    i0, i1 = [a for a, _ in pairs], [b for _, b in pairs]
    for col in t0.colnames:
        if col == 'id':
            continue
        a0, a1 = val(t0[col])[i0], val(t1[col])[i1]
        dd = lambda col=col, a0=a0, a1=a1: dict(det(), column=col, original_values=js(a0), canvas_values=js(a1))
        if col == 'xcentroid':
            R.ok(api, 'xcentroid moves by dx', moved(a1, a0, T.dx), dd)
        elif col == 'ycentroid':
            R.ok(api, 'ycentroid moves by dy', moved(a1, a0, T.dy), dd)
        else:
            R.ok(api, f'{col} unchanged', same(a1, a0, False, rtol=RTOL, atol=1e-13), dd)
    R.ok(api, 'order of the zone sources preserved', i1 == sorted(i1) if i0 == sorted(i0) else True, det)


def inject_band_stars(d, srcs, grng, xr, yr, sx, sy, theta):
    """compact stars shaped like the kernel, with their peak pixel in the band between the two kernel
    half-sizes (+2) from an edge: inside the zone of the short axis, nearer than the long half-size"""
    ny, nx = d.shape
    d = d.copy()
    yy, xx = np.mgrid[0:ny, 0:nx]
    placed = [(s['x0'], s['y0']) for s in srcs]
    lo, hi = min(xr, yr), max(xr, yr) + 1       # lo: the kernel footprint TOUCHES the first / last row or column
    injected = []
    for _ in range(4):
        dist = grng.choice([lo, lo, lo + 1, grng.randint(lo, max(lo, hi))])
        if yr <= xr:       # short axis = y: top / bottom bands
            y0 = grng.choice([dist, ny - 1 - dist]) + grng.uniform(-0.2, 0.2)
            x0 = grng.uniform(xr + 4, nx - 1 - xr - 4)
        else:
            x0 = grng.choice([dist, nx - 1 - dist]) + grng.uniform(-0.2, 0.2)
            y0 = grng.uniform(yr + 4, ny - 1 - yr - 4)
        if any(math.hypot(x0 - a, y0 - b) < 12 for a, b in placed):
            continue
        placed.append((x0, y0))
        injected.append((x0, y0))
        c, s_ = math.cos(theta), math.sin(theta)
        u = (xx - x0) * c + (yy - y0) * s_
        v = -(xx - x0) * s_ + (yy - y0) * c
        d += grng.uniform(90, 160) * np.exp(-0.5 * ((u / sx) ** 2 + (v / sy) ** 2))
    return d, [{'x0': a, 'y0': b} for a, b in placed], injected


def g_starfinders(sc, T, R, grng):
    from photutils.detection import DAOStarFinder, IRAFStarFinder, StarFinder
    from scipy.ndimage import convolve as ndi_convolve
    ny, nx = sc['ny'], sc['nx']
    m = sc['mask']
    M = T.img(m, False)
    use_mask = grng.random() < 0.4
    mk = dict(mask=m if use_mask else None)
    mkT = dict(mask=M if use_mask else None)
    # DAOStarFinder: round and elongated kernels (theta 0 / 90 / random), exclude_border on and off
    kw = dict(threshold=grng.uniform(3.0, 8.0), fwhm=grng.uniform(3.0, 8.0),
              ratio=grng.choice([1.0, grng.uniform(0.4, 0.8), grng.uniform(0.4, 0.6)]),
              theta=grng.choice([0.0, 90.0, 0.0, 90.0, grng.uniform(0, 180)]), sigma_radius=grng.choice([1.5, 2.0]),
              exclude_border=grng.random() < 0.6, sharplo=-5.0, sharphi=5.0, roundlo=-5.0, roundhi=5.0)
    f = DAOStarFinder(**kw)
    k = f.kernel
    d, srcs, inj = inject_band_stars(sc['data'], sc['srcs'], grng, k.xradius, k.yradius, k.xsigma, k.ysigma, math.radians(kw['theta']))
    D = T.img(d, 0.0)
    compare_finder(R, 'DAOStarFinder', f(d, **mk), DAOStarFinder(**kw)(D, **mkT), T, ny, nx, (k.xradius, k.yradius),
                   {'params': kw, 'kernel_radii_xy': (k.xradius, k.yradius), 'mask': use_mask}, srcs, inj,
                   ndi_convolve(d, k.data, mode='constant', cval=0.0))
    # IRAFStarFinder (circular kernel; min_separation footprint)
    kw = dict(threshold=grng.uniform(3.0, 8.0), fwhm=grng.uniform(2.5, 4.0), sigma_radius=grng.choice([1.5, 2.0]),
              minsep_fwhm=grng.choice([1.5, 2.5]), exclude_border=grng.random() < 0.6,
              sharplo=0.0, sharphi=5.0, roundlo=0.0, roundhi=5.0)
    f = IRAFStarFinder(**kw)
    k = f.kernel
    ms = int(math.ceil(f.min_separation))
    d, srcs, inj = inject_band_stars(sc['data'], sc['srcs'], grng, max(k.xradius, ms), max(k.yradius, ms), k.xsigma, k.ysigma, 0.0)
    D = T.img(d, 0.0)
    compare_finder(R, 'IRAFStarFinder', f(d, **mk), IRAFStarFinder(**kw)(D, **mkT), T, ny, nx,
                   (max(k.xradius, ms), max(k.yradius, ms)), {'params': kw, 'mask': use_mask}, srcs, inj,
                   ndi_convolve(d, k.data, mode='constant', cval=0.0))
    # StarFinder with a non-square, elongated Gaussian kernel
    ky, kx = grng.choice([(5, 13), (13, 5), (7, 11), (11, 7), (7, 7)])
    yy, xx = np.mgrid[0:ky, 0:kx]
    sgx, sgy = kx / 5.0, ky / 5.0
    kern = np.exp(-0.5 * (((xx - kx // 2) / sgx) ** 2 + ((yy - ky // 2) / sgy) ** 2))
    kw = dict(threshold=grng.uniform(3.0, 10.0), min_separation=grng.choice([0, 1.5, 2, 5]),
              exclude_border=grng.random() < 0.6)
    ms = int(math.ceil(kw['min_separation']))
    mx, my = max(kx // 2, ms), max(ky // 2, ms)
    d, srcs, inj = inject_band_stars(sc['data'], sc['srcs'], grng, mx, my, sgx, sgy, 0.0)
    D = T.img(d, 0.0)
    kn = kern / kern.max()          # the documented normalisation of the StarFinder kernel (zero sum, unit response)
    den = np.sum(kn ** 2) - np.sum(kn) ** 2 / kn.size
    kn = (kn - np.sum(kn) / kn.size) / den
    t0 = StarFinder(kernel=kern.copy(), **kw)(d.copy(), **mk)
    t1 = StarFinder(kernel=kern.copy(), **kw)(D.copy(), **mkT)
    compare_finder(R, 'StarFinder', t0, t1, T, ny, nx, (mx, my),
                   {'params': kw, 'kernel_shape': (ky, kx), 'mask': use_mask}, srcs, inj,
                   ndi_convolve(d, kn, mode='constant', cval=0.0))


# ======================================================================================
# group: detect_sources / deblend_sources / SegmentationImage (shift): the whole label image of
#   the canvas must equal the padded label image (theorem detect_shift); footprint = the segment,
#   always inside the frame.  Padding (0) is below the positive threshold.
# ======================================================================================
def segm_of(sc, thr=None, npixels=5, connectivity=8, use_mask=True):
    from photutils.segmentation import detect_sources
    thr = sc['bkg'] + 2.5 if thr is None else thr
    return detect_sources(sc['data'], thr, npixels, connectivity=connectivity, mask=sc['mask'] if use_mask else None)


def g_segmentation(sc, T, R, grng):
    from photutils.segmentation import SegmentationImage, deblend_sources, detect_sources
    d, m = sc['data'], sc['mask']
    D, _, M = scene_images(sc, T)
    for it in range(3):
        thr = sc['bkg'] + grng.uniform(1.1, 8.0)
        if it == 1:      # inside the noise: many small speckle components all over the frame
            thr = sc['bkg'] + grng.uniform(0.88, 0.99)
        npix = grng.choice([1, 3, 5, 12, 40]) if it != 1 else grng.choice([1, 2, 3, 4])
        conn = grng.choice([4, 8])
        use_mask = grng.random() < 0.6
        thr2d = it == 2
        if thr2d:        # a threshold image, padded with a positive value
            tmap = thr + 0.5 * np.sin(np.arange(d.shape[1]) / 5.0)[None, :] * np.ones(d.shape)
            th0, th1 = tmap, T.img(tmap, float(thr))
        else:
            th0 = th1 = thr
        s0 = detect_sources(d, th0, npix, connectivity=conn, mask=m if use_mask else None)
        s1 = detect_sources(D, th1, npix, connectivity=conn, mask=M if use_mask else None)
        det = lambda: {'threshold': thr, 'threshold_2d': thr2d, 'npixels': npix, 'connectivity': conn, 'mask': use_mask,
                       'nlabels': None if s0 is None else int(s0.nlabels),
                       'nlabels_canvas': None if s1 is None else int(s1.nlabels)}
        if s0 is None or s1 is None:
            R.ok('detect_sources', 'no detection iff no detection', s0 is None and s1 is None, det)
            continue
        R.ok('detect_sources', 'label image of the canvas = padded label image', same(s1.data, T.img(s0.data, 0)), det)
        R.ok('detect_sources', 'labels and areas unchanged', same(s1.labels, s0.labels) and same(s1.areas, s0.areas), det)
        compare_props(R, 'SegmentationImage', s0, s1, T, {'bbox': 'bbox', 'slices': 'slices'},
                      lambda nm: np.ones(s0.nlabels, bool), exact=True, detail=det)
        if it == 0:
            kw = dict(npixels=max(2, min(npix, 8)), nlevels=grng.choice([8, 16, 32]), contrast=grng.choice([0.001, 0.01, 0.1]),
                      mode=grng.choice(['exponential', 'linear', 'sinh']), connectivity=conn, progress_bar=False)
            b0 = deblend_sources(d, s0, **kw)
            b1 = deblend_sources(D, SegmentationImage(T.img(s0.data, 0)), **kw)
            dd = lambda: dict(det(), deblend=kw, nlabels_deblended=int(b0.nlabels), nlabels_deblended_canvas=int(b1.nlabels))
            R.ok('deblend_sources', 'deblended label image of the canvas = padded deblended label image',
                 same(b1.data, T.img(b0.data, 0)), dd)
            R.ok('deblend_sources', 'labels and areas unchanged',
                 same(b1.labels, b0.labels) and same(b1.areas, b0.areas), dd)
            compare_props(R, 'deblend_sources', b0, b1, T, {'bbox': 'bbox', 'slices': 'slices'},
                          lambda nm: np.ones(b0.nlabels, bool), exact=True, detail=dd)
            R.ok('deblend_sources', 'deblended_labels / parent map unchanged',
                 sorted(b0.deblended_labels) == sorted(b1.deblended_labels)
                 and {int(k): np.atleast_1d(v).tolist() for k, v in b0.deblended_labels_map.items()} ==
                 {int(k): np.atleast_1d(v).tolist() for k, v in b1.deblended_labels_map.items()}, dd)


# ======================================================================================
# group: SourceCatalog (shift + transposition)
#   segment-based quantities (centroid, bbox, min/max indices, fluxes, areas, shapes, moments,
#   cutouts ...): footprint = the segment's bounding box: always inside the frame -> all sources.
#   quantities that look beyond the segment (Kron apertures, windowed centroid, local background):
#   only sources for which a disc of radius max(6*semimajor_sigma, Kron aperture extent,
#   3.4*half-light radius) + 4 (+ 1.5*bbox size + localbkg_width for the local background)
#   around the centroid lies inside the original frame.
# ======================================================================================
CAT_SEGMENT = {
    'label': 'same', 'labels': 'same',
    'centroid': 'xy', 'xcentroid': ('x', 'ycentroid'), 'ycentroid': ('y', 'xcentroid'),
    'centroid_quad': 'xy', 'xcentroid_quad': ('x', 'ycentroid_quad'), 'ycentroid_quad': ('y', 'xcentroid_quad'),
    'cutout_centroid': 'cutxy', 'cutout_centroid_quad': 'cutxy',
    'bbox': 'bbox', 'slices': 'slices',
    'bbox_xmin': ('ix', 'bbox_ymin'), 'bbox_xmax': ('ix', 'bbox_ymax'),
    'bbox_ymin': ('iy', 'bbox_xmin'), 'bbox_ymax': ('iy', 'bbox_xmax'),
    'minval_index': 'iyx', 'maxval_index': 'iyx',
    'minval_xindex': ('ix', 'minval_yindex'), 'minval_yindex': ('iy', 'minval_xindex'),
    'maxval_xindex': ('ix', 'maxval_yindex'), 'maxval_yindex': ('iy', 'maxval_xindex'),
    'cutout_minval_index': 'icutyx', 'cutout_maxval_index': 'icutyx',
    'area': 'same', 'segment_area': 'same', 'equivalent_radius': 'same', 'perimeter': 'same',
    'min_value': 'same', 'max_value': 'same', 'segment_flux': 'same', 'segment_fluxerr': 'same',
    'background_mean': 'same', 'background_sum': 'same',
    'semimajor_sigma': 'same', 'semiminor_sigma': 'same', 'fwhm': 'same', 'eccentricity': 'same',
    'elongation': 'same', 'ellipticity': 'same', 'gini': 'same', 'covariance_eigvals': 'same',
    'orientation': 'orientation',
    'covar_sigx2': ('swap', 'covar_sigy2'), 'covar_sigy2': ('swap', 'covar_sigx2'), 'covar_sigxy': 'same',
    'cxx': ('swap', 'cyy'), 'cyy': ('swap', 'cxx'), 'cxy': 'same',
    'covariance': 'mat2', 'inertia_tensor': 'mat2', 'moments': 'momT', 'moments_central': 'momT',
    'data': 'cutouts', 'error': 'cutouts', 'segment': 'cutouts', 'background': 'cutouts', 'convdata': 'cutouts',
    'data_ma': 'cutouts', 'error_ma': 'cutouts', 'segment_ma': 'cutouts', 'background_ma': 'cutouts',
    'convdata_ma': 'cutouts',
}
CAT_BEYOND = {
    'centroid_win': 'xy', 'xcentroid_win': ('x', 'ycentroid_win'), 'ycentroid_win': ('y', 'xcentroid_win'),
    'cutout_centroid_win': 'cutxy',
    'kron_radius': 'same', 'kron_flux': 'same', 'kron_fluxerr': 'same', 'kron_aperture': 'aperture',
    'local_background': 'same', 'local_background_aperture': 'aperture',
}


TINY_SHAPES = {
    'dot': [(0, 0)], 'pair_h': [(0, 0), (0, 1)], 'pair_v': [(0, 0), (1, 0)],
    'line_h': [(0, 0), (0, 1), (0, 2), (0, 3), (0, 4)], 'line_v': [(0, 0), (1, 0), (2, 0), (3, 0)],
    'diag': [(0, 0), (1, 1), (2, 2), (3, 3)], 'L4': [(0, 0), (1, 0), (2, 0), (2, 1)],
    'L5': [(0, 0), (1, 0), (2, 0), (2, 1), (2, 2)], 'T5': [(0, 0), (0, 1), (0, 2), (1, 1), (2, 1)],
}


def add_tiny_segments(seg, grng, n=5):
    seg = np.array(seg)
    ny, nx = seg.shape
    lab = int(seg.max())
    names = list(TINY_SHAPES)
    grng.shuffle(names)
    for name in names[:n]:
        pts = TINY_SHAPES[name]
        h = max(p[0] for p in pts) + 1
        w = max(p[1] for p in pts) + 1
        big = np.argwhere(seg > 0)
        for _ in range(40):
            y0, x0 = grng.randint(3, ny - h - 4), grng.randint(3, nx - w - 4)
            if names.index(name) >= 2 and len(big) and grng.random() < 0.8:
                # next to an existing segment (any side): a neighbour inside its Kron / circular apertures
                by_, bx_ = big[grng.randrange(len(big))]
                y0 = min(max(int(by_) + grng.randint(-7, 7), 1), ny - h - 1)
                x0 = min(max(int(bx_) + grng.randint(-7, 7), 1), nx - w - 1)
            if names.index(name) < 2:       # flush with one of the four edges (segment touches the first/last row/column)
                side = grng.choice(['left', 'right', 'bottom', 'top'])
                y0 = 0 if side == 'bottom' else (ny - h if side == 'top' else y0)
                x0 = 0 if side == 'left' else (nx - w if side == 'right' else x0)
            if not seg[max(y0 - 1, 0):y0 + h + 1, max(x0 - 1, 0):x0 + w + 1].any():
                lab += 1
                for (j, i) in pts:
                    seg[y0 + j, x0 + i] = lab
                break
    return seg


def g_source_catalog(sc, T, R, grng):
    from astropy.convolution import Gaussian2DKernel, convolve
    from photutils.segmentation import SegmentationImage, SourceCatalog
    ny, nx = sc['ny'], sc['nx']
    d, e, m = sc['data'], sc['error'], sc['mask']
    D, E, M = scene_images(sc, T)
    thr = sc['bkg'] + grng.uniform(1.5, 4.0)
    s0 = segm_of(sc, thr, npixels=grng.choice([5, 9]), connectivity=grng.choice([4, 8]))
    if s0 is None:
        R.skip('SourceCatalog', 'no-segments')
        return
    # tiny / thin segments (1 pixel, 2 pixels, 1xN and Nx1 lines, diagonal chain, L of 4-5 pixels) stamped on
    # free background away from the array corner: their quadratic-fit / shape fall-back paths are exercised
    s0 = SegmentationImage(add_tiny_segments(s0.data, grng))
    s1 = SegmentationImage(T.img(s0.data, 0))
    bkgmap = 0.5 + 0.01 * np.add.outer(np.arange(ny), 2.0 * np.arange(nx))
    conv = convolve(d, Gaussian2DKernel(1.2, x_size=5, y_size=5), boundary='fill', fill_value=0.0)
    opts = dict(use_error=grng.random() < 0.8, use_mask=grng.random() < 0.7, use_bkg=grng.random() < 0.5,
                use_conv=grng.random() < 0.5, localbkg_width=grng.choice([0, 0, 6, 10]),
                apermask_method=grng.choice(['correct', 'correct', 'mask', 'none']),
                kron_params=grng.choice([(2.5, 1.4, 0.0), (2.0, 1.0, 0.0), (2.5, 1.4, 3.0)]))
    kw = dict(localbkg_width=opts['localbkg_width'], apermask_method=opts['apermask_method'],
              kron_params=opts['kron_params'], progress_bar=False)
    use_wcs = T.kind == 'shift' and grng.random() < 0.5
    w0 = w1 = None
    if use_wcs:       # a linear WCS; the canvas WCS has its reference pixel moved by the offset
        from astropy.wcs import WCS
        w0, w1 = WCS(naxis=2), WCS(naxis=2)
        for w, ox, oy in ((w0, 0, 0), (w1, T.dx, T.dy)):
            w.wcs.ctype = ['RA---TAN', 'DEC--TAN']
            w.wcs.crval = [150.1, 2.2]
            w.wcs.crpix = [20.5 + ox, 17.25 + oy]
            w.wcs.cdelt = [-2.0e-4, 2.0e-4]
    c0 = SourceCatalog(d, s0, error=e if opts['use_error'] else None, mask=m if opts['use_mask'] else None, wcs=w0,
                       background=bkgmap if opts['use_bkg'] else None, convolved_data=conv if opts['use_conv'] else None, **kw)
    c1 = SourceCatalog(D, s1, error=E if opts['use_error'] else None, mask=M if opts['use_mask'] else None,
                       background=T.img(bkgmap, 0.0) if opts['use_bkg'] else None, wcs=w1,
                       convolved_data=T.img(conv, 0.0) if opts['use_conv'] else None, **kw)
    n = c0.nlabels
    allsel = np.ones(n, bool)
    # footprints of the quantities that look beyond the segment: INCLUSIVE rule on the bounding boxes of the
    # apertures actually used (a box may be flush with the first / last row or column)
    from photutils.aperture import CircularAperture, EllipticalAperture
    xc, yc = val(c0.xcentroid), val(c0.ycentroid)
    sa, sb = val(c0.semimajor_sigma), val(c0.semiminor_sigma)
    th = np.deg2rad(val(c0.orientation))
    rhl = np.atleast_1d(val(c0.fluxfrac_radius(0.5)))
    kaps = c0.kron_aperture
    if not isinstance(kaps, (list, tuple, np.ndarray)):
        kaps = [kaps]
    lbaps = c0.local_background_aperture
    if not isinstance(lbaps, (list, tuple, np.ndarray)):
        lbaps = [lbaps]
    lbw = opts['localbkg_width'] > 0

    def ins(ap):
        return ap is not None and bbox_inside(ap.bbox, ny, nx)
    lb_sel = np.array([(not lbw) or ins(lbaps[k]) for k in range(n)])
    kron_sel = np.zeros(n, bool)      # kron_radius is measured in the ellipse of 6 sigma, the flux in the Kron aperture
    ff_sel = np.zeros(n, bool)        # fluxfrac_radius: circles up to the Kron semi-major axis
    win_sel = np.zeros(n, bool)       # windowed centroid: circle of 4 sigma_w = 3.4 half-light radii (+ its own motion)
    for k in range(n):
        if not (np.isfinite(xc[k]) and np.isfinite(sa[k]) and np.isfinite(sb[k]) and sa[k] > 0 and sb[k] > 0
                and kaps[k] is not None):
            continue
        meas = EllipticalAperture((xc[k], yc[k]), 6.0 * sa[k], 6.0 * sb[k], theta=th[k])
        kron_sel[k] = ins(meas) and ins(kaps[k]) and lb_sel[k]
        amax = float(val(getattr(kaps[k], 'a', getattr(kaps[k], 'r', 0.0))))
        ff_sel[k] = kron_sel[k] and ins(CircularAperture((xc[k], yc[k]), amax + 0.5))
        win_sel[k] = ff_sel[k] and np.isfinite(rhl[k]) and ins(CircularAperture((xc[k], yc[k]), 3.4 * rhl[k] + 1.5))
    interior = kron_sel
    R.skip('SourceCatalog', 'kron-footprint-not-inside-frame', int((~kron_sel).sum()))
    R.skip('SourceCatalog', '(not skipped) kron-footprint-inside-frame', int(kron_sel.sum()))
    R.skip('SourceCatalog', '(not skipped) windowed-centroid-footprint-inside-frame', int(win_sel.sum()))
    sel_map = {'centroid_win': win_sel, 'xcentroid_win': win_sel, 'ycentroid_win': win_sel, 'cutout_centroid_win': win_sel,
               'local_background': lb_sel, 'local_background_aperture': lb_sel,
               'min_value': lb_sel, 'max_value': lb_sel, 'segment_flux': lb_sel}
    det = lambda: {'threshold': thr, 'options': opts, 'nlabels': int(n), 'kron_footprint_inside': kron_sel.tolist(),
                   'win_footprint_inside': win_sel.tolist(), 'local_bkg_footprint_inside': lb_sel.tolist(),
                   'xcentroid': js(xc), 'ycentroid': js(yc)}
    # with a local background, min_value / max_value / segment_flux subtract it: they see its annulus too
    compare_props(R, 'SourceCatalog', c0, c1, T, CAT_SEGMENT, lambda nm: sel_map.get(nm, allsel) if nm in
                  ('min_value', 'max_value', 'segment_flux') else allsel, exact=True, ttol=(1e-8, 1e-9), detail=det)
    compare_props(R, 'SourceCatalog', c0, c1, T, CAT_BEYOND, lambda nm: sel_map.get(nm, kron_sel), exact=False,
                  ttol=(1e-6, 1e-7), detail=det)
    # direct oracle: background_centroid = bilinear interpolation of the background at (row, col) =
    # (ycentroid, xcentroid) (the centroid lies inside the segment's bounding box, hence inside the frame)
    if opts['use_bkg']:
        for cat, bk, frame in ((c0, bkgmap, 'original'), (c1, T.img(bkgmap, 0.0), 'transformed')):
            xx, yy = val(cat.xcentroid), val(cat.ycentroid)
            want = np.full(len(xx), np.nan)
            for k in range(len(xx)):
                if np.isfinite(xx[k]) and np.isfinite(yy[k]):
                    j0, i0 = int(math.floor(yy[k])), int(math.floor(xx[k]))
                    j1, i1 = min(j0 + 1, bk.shape[0] - 1), min(i0 + 1, bk.shape[1] - 1)
                    fy, fx = yy[k] - j0, xx[k] - i0
                    want[k] = ((1 - fy) * (1 - fx) * bk[j0, i0] + (1 - fy) * fx * bk[j0, i1]
                               + fy * (1 - fx) * bk[j1, i0] + fy * fx * bk[j1, i1])
            got = np.atleast_1d(val(cat.background_centroid))
            R.ok('SourceCatalog', 'background_centroid = background interpolated at (ycentroid, xcentroid)',
                 same(got, want, False, rtol=1e-9, atol=1e-9),
                 lambda: dict(det(), frame=frame, background_centroid=js(got), interpolated=js(want)))
    # bilinear interpolation of the background at the (float) centroid: weights differ by rounding
    compare_props(R, 'SourceCatalog', c0, c1, T, {'background_centroid': 'same'}, lambda nm: allsel, exact=False,
                  ttol=(1e-8, 1e-9), detail=det)
    if ff_sel.any():
        for frac in (0.5, 0.9):
            f0, f1 = val(c0.fluxfrac_radius(frac)), val(c1.fluxfrac_radius(frac))
            R.ok('SourceCatalog', f'fluxfrac_radius({frac}) unchanged',
                 same(np.atleast_1d(f1)[ff_sel], np.atleast_1d(f0)[ff_sel], False, rtol=1e-6, atol=1e-6),
                 lambda: dict(det(), original=js(f0), transformed=js(f1)))
    rr = grng.uniform(2.0, 9.0)
    circ_sel = np.array([bool(np.isfinite(xc[k])) and lb_sel[k] and ins(CircularAperture((xc[k], yc[k]), rr)) if
                         np.isfinite(xc[k]) else False for k in range(n)])
    interior = circ_sel
    if circ_sel.any():
        p0, p1 = c0.circular_photometry(rr), c1.circular_photometry(rr)
        R.ok('SourceCatalog', 'circular_photometry unchanged',
             same(np.atleast_1d(val(p1[0]))[interior], np.atleast_1d(val(p0[0]))[interior], False, rtol=1e-8, atol=1e-9)
             and same(np.atleast_1d(val(p1[1]))[interior], np.atleast_1d(val(p0[1]))[interior], False, rtol=1e-8, atol=1e-9),
             lambda: dict(det(), radius=rr, original=js(p0[0]), transformed=js(p1[0])))
    if use_wcs:
        for nm, sel in (('sky_centroid', allsel), ('sky_centroid_icrs', allsel), ('sky_centroid_quad', allsel),
                        ('sky_centroid_win', win_sel), ('sky_bbox_ll', allsel), ('sky_bbox_ul', allsel),
                        ('sky_bbox_lr', allsel), ('sky_bbox_ur', allsel)):
            if not sel.any():
                continue
            a, b = getattr(c0, nm), getattr(c1, nm)
            ra0, de0 = np.atleast_1d(a.spherical.lon.deg), np.atleast_1d(a.spherical.lat.deg)
            ra1, de1 = np.atleast_1d(b.spherical.lon.deg), np.atleast_1d(b.spherical.lat.deg)
            R.ok('SourceCatalog', f'{nm} unchanged (WCS reference pixel moved with the frame)',
                 bool(np.allclose(ra1[sel], ra0[sel], rtol=0, atol=1e-11, equal_nan=True))
                 and bool(np.allclose(de1[sel], de0[sel], rtol=0, atol=1e-11, equal_nan=True)),
                 lambda: dict(det(), property=nm, original=[js(ra0), js(de0)], transformed=[js(ra1), js(de1)]))
    # the table and a sliced catalog
    t0, t1 = c0.to_table(), c1.to_table()
    R.ok('SourceCatalog', 'to_table: same columns and labels', t0.colnames == t1.colnames and same(t1['label'], t0['label']), det)


# ======================================================================================
# group: RadialProfile / CurveOfGrowth (shift + transposition)
#   footprint rule: the largest aperture (centre +- max radius, + 1 pixel) inside the original frame
# ======================================================================================
def g_profiles(sc, T, R, grng):
    from photutils.aperture import CircularAperture
    from photutils.profiles import CurveOfGrowth, RadialProfile
    ny, nx = sc['ny'], sc['nx']
    d, e, m = sc['data'], sc['error'], sc['mask']
    D, E, M = scene_images(sc, T)
    exact = sc['dyadic'] and T.kind == 'shift'
    q = (lambda v: round(v * 8) / 8) if sc['dyadic'] else (lambda v: v)
    cands = [(s['x0'] + grng.uniform(-0.6, 0.6), s['y0'] + grng.uniform(-0.6, 0.6), None) for s in sc['srcs']]
    cands += [(grng.uniform(0, nx - 1), grng.uniform(0, ny - 1), None)]
    # centres whose largest aperture TOUCHES the first / last row or column (bounding box flush with the edge)
    cands += [(None, None, side) for side in ('left', 'right', 'bottom', 'top')]
    for (x, y, side) in cands:
        # non-round maximum radius: no pixel centre sits exactly at distance rmax (data_profile uses <=)
        rmax = grng.choice([6.0, 9.0, 12.5]) if sc['dyadic'] else grng.choice([5.03, 6.17, 9.41, 12.53])
        if side is not None:
            u = grng.uniform(-0.45, 0.45)
            x, y = grng.uniform(rmax + 1, nx - 2 - rmax), grng.uniform(rmax + 1, ny - 2 - rmax)
            if side == 'left':
                x = rmax + u
            elif side == 'right':
                x = nx - 1 - rmax + u
            elif side == 'bottom':
                y = rmax + u
            else:
                y = ny - 1 - rmax + u
        x, y = q(x), q(y)
        if not bbox_inside(CircularAperture((x, y), rmax).bbox, ny, nx):
            R.skip('profiles', 'largest-aperture-not-inside-frame')
            continue
        if side is not None:
            R.skip('profiles', f'(not skipped) largest aperture touches the {side} edge')
        nr = grng.randint(5, 12)
        edges = np.linspace(0.0, rmax, nr + 1) if grng.random() < 0.5 else np.sort(
            np.array([0.0, rmax] + [grng.uniform(0.3, rmax) for _ in range(nr - 1)]))
        if sc['dyadic']:
            edges = np.unique(np.round(edges * 8) / 8)
        method = grng.choice(['exact', 'exact', 'center', 'subpixel'])
        use_err, use_mask = grng.random() < 0.8, grng.random() < 0.7
        kw = dict(method=method, subpixels=grng.choice([3, 5]))
        xT, yT = T.xy(x, y)
        det0 = {'xycen': (x, y), 'edge_radii': edges.tolist(), 'options': kw, 'error': use_err, 'mask': use_mask,
                'touches': side}
        rp0 = RadialProfile(d, (x, y), edges, error=e if use_err else None, mask=m if use_mask else None, **kw)
        rp1 = RadialProfile(D, (xT, yT), edges, error=E if use_err else None, mask=M if use_mask else None, **kw)
        names = ['radius', 'area', 'profile'] + (['profile_error'] if use_err else [])
        for nm in names:
            R.ok('RadialProfile', f'{nm} unchanged',
                 same(getattr(rp1, nm), getattr(rp0, nm), exact, rtol=RTOL if T.kind == 'shift' else 1e-9, atol=1e-12),
                 lambda nm=nm: dict(det0, property=nm, original=js(getattr(rp0, nm)), transformed=js(getattr(rp1, nm))))
        # the raw data profile: the multiset of (radius, value) pairs of the pixels within the largest radius
        yy, xx = np.mgrid[0:ny, 0:nx]
        dist = np.hypot(xx - x, yy - y)
        if np.min(np.abs(dist - edges.max())) < 1e-9:
            R.skip('RadialProfile', 'pixel-exactly-at-the-largest-radius (data_profile tie not compared)')
        else:
            def pairs(rp):
                r_, v_ = np.asarray(rp.data_radius, float), np.asarray(rp.data_profile, float)
                o = np.lexsort((v_, r_))
                return r_[o], v_[o]
            (r0, v0), (r1, v1) = pairs(rp0), pairs(rp1)
            # the mask is not applied to the raw profile, padding pixels lie outside the largest radius
            n_in = int(np.count_nonzero(dist <= edges.max()))
            dd = lambda: dict(det0, n_pixels_within_rmax=n_in, n_original=len(r0), n_transformed=len(r1),
                              data_radius=js(r0), data_radius_transformed=js(r1))
            R.ok('RadialProfile', 'data_radius/data_profile: one point per pixel within the largest radius',
                 len(r0) == n_in and len(r1) == n_in, dd)
            R.ok('RadialProfile', 'data_radius/data_profile: same multiset of (radius, value) pairs',
                 len(r0) == len(r1) and bool(np.allclose(r1, r0, rtol=0, atol=1e-9))
                 and bool(np.array_equal(np.sort(v1), np.sort(v0)))
                 and bool(np.array_equal(v1, v0) or len(np.unique(np.round(r0, 7))) < len(r0)), dd)
        try:
            g0, g1 = rp0.gaussian_fit, rp1.gaussian_fit
            f0, f1 = rp0.gaussian_fwhm, rp1.gaussian_fwhm
            p0_, p1_ = np.array(g0.parameters), np.array(g1.parameters)
            R.ok('RadialProfile', 'gaussian_fit parameters / gaussian_fwhm unchanged',
                 same(f1, f0, exact, rtol=1e-7, atol=1e-9) and same(p1_, p0_, exact, rtol=1e-6, atol=1e-8),
                 lambda: dict(det0, original=p0_.tolist(), transformed=p1_.tolist()))
            R.ok('RadialProfile', 'gaussian_profile unchanged',
                 same(rp1.gaussian_profile, rp0.gaussian_profile, exact, rtol=1e-6, atol=1e-8),
                 lambda: dict(det0, original=js(rp0.gaussian_profile), transformed=js(rp1.gaussian_profile)))
        except Exception:     # the fit itself is library numerics
            R.skip('RadialProfile', 'gaussian-fit-raised')
        radii = edges[1:] if edges[0] == 0 else edges
        cg0 = CurveOfGrowth(d, (x, y), radii, error=e if use_err else None, mask=m if use_mask else None, **kw)
        cg1 = CurveOfGrowth(D, (xT, yT), radii, error=E if use_err else None, mask=M if use_mask else None, **kw)
        for nm in names:
            R.ok('CurveOfGrowth', f'{nm} unchanged',
                 same(getattr(cg1, nm), getattr(cg0, nm), exact, rtol=RTOL if T.kind == 'shift' else 1e-9, atol=1e-12),
                 lambda nm=nm: dict(det0, property=nm, original=js(getattr(cg0, nm)), transformed=js(getattr(cg1, nm))))
        for api, o0, o1 in (('RadialProfile', rp0, rp1), ('CurveOfGrowth', cg0, cg1)):
            good = len(o0.apertures) == len(o1.apertures)
            for a, b in zip(o0.apertures, o1.apertures):
                if a is None or b is None:
                    good &= (a is None) == (b is None)
                    continue
                want = np.asarray(a.positions) + [T.dx, T.dy] if T.kind == 'shift' else np.asarray(a.positions)[::-1]
                good &= bool(np.allclose(np.asarray(b.positions), want, rtol=0, atol=POS_TOL))
                good &= type(a) is type(b)
            R.ok(api, 'apertures centred on the moved xycen', good, det0)


# ======================================================================================
# group: make_model_image (shift): parameters table moved by (dx, dy).
#   Every pixel of the original frame must keep its value in the canvas (rendering windows clipped by the
#   original frame spill into the padding of the canvas, which is legitimate); when every window lies
#   inside the original frame the canvas is the padded image.
# ======================================================================================
def g_model_image(sc, T, R, grng):
    from astropy.modeling.models import Gaussian2D
    from astropy.table import QTable
    from photutils.datasets import make_model_image
    from photutils.psf import CircularGaussianPRF, GaussianPSF
    ny, nx = sc['ny'], sc['nx']
    shape0 = (ny, nx)
    shape1 = (ny + T.dy + T.pb, nx + T.dx + T.pr)
    exact = sc['dyadic']
    for which in ('Gaussian2D', 'GaussianPSF', 'CircularGaussianPRF'):
        n = grng.randint(3, 7)
        interior_only = grng.random() < 0.5
        # windows: model_shape <= 15, bbox_factor 3 -> <= 2*3*2 sigma, default Gaussian2D bounding box 5.5 sigma
        lo = (14 if which == 'Gaussian2D' else 9) if interior_only else -3
        xs = np.array([grng.uniform(lo, nx - 1 - lo) for _ in range(n)])
        ys = np.array([grng.uniform(lo, ny - 1 - lo) for _ in range(n)])
        if sc['dyadic']:
            xs, ys = np.round(xs * 8) / 8, np.round(ys * 8) / 8
        tbl = QTable()
        kw = {}
        if which == 'Gaussian2D':
            model = Gaussian2D()
            tbl['x_mean'], tbl['y_mean'] = xs, ys
            tbl['amplitude'] = [grng.uniform(5, 50) for _ in range(n)]
            tbl['x_stddev'] = [grng.uniform(0.8, 2.0) for _ in range(n)]
            tbl['y_stddev'] = [grng.uniform(0.8, 2.0) for _ in range(n)]
            tbl['theta'] = [grng.uniform(0, 3.0) for _ in range(n)]
            kw = dict(x_name='x_mean', y_name='y_mean')
            xn, yn = 'x_mean', 'y_mean'
            kw['bbox_factor'] = grng.choice([None, 3.0])
            if grng.random() < 0.5:
                kw = dict(kw, model_shape=grng.choice([(9, 11), 7, (15, 9)]), bbox_factor=None)
        elif which == 'GaussianPSF':
            model = GaussianPSF()
            tbl['x_0'], tbl['y_0'] = xs, ys
            tbl['flux'] = [grng.uniform(50, 500) for _ in range(n)]
            tbl['x_fwhm'] = [grng.uniform(1.5, 4.0) for _ in range(n)]
            tbl['y_fwhm'] = [grng.uniform(1.5, 4.0) for _ in range(n)]
            tbl['theta'] = [grng.uniform(0, 180.0) for _ in range(n)]
            xn, yn = 'x_0', 'y_0'
            kw = dict(model_shape=grng.choice([(9, 11), (11, 7), 13]))
        else:
            model = CircularGaussianPRF()
            tbl['x_0'], tbl['y_0'] = xs, ys
            tbl['flux'] = [grng.uniform(50, 500) for _ in range(n)]
            tbl['fwhm'] = [grng.uniform(1.5, 4.0) for _ in range(n)]
            xn, yn = 'x_0', 'y_0'
            tbl['model_shape'] = [grng.choice([5, 7, 9, 11]) for _ in range(n)]
        if grng.random() < 0.5:
            tbl['local_bkg'] = [grng.uniform(0.0, 2.0) for _ in range(n)]
        kw['discretize_method'] = grng.choice(['center', 'center', 'interp', 'oversample'])
        if kw['discretize_method'] == 'oversample':
            kw['discretize_oversample'] = grng.choice([2, 3])
        tbl1 = tbl.copy()
        tbl1[xn] = tbl[xn] + T.dx
        tbl1[yn] = tbl[yn] + T.dy
        im0 = make_model_image(shape0, model, tbl, **kw)
        im1 = make_model_image(shape1, model, tbl1, **kw)
        det = lambda: {'model': which, 'options': {k: (v if not isinstance(v, np.generic) else v.item()) for k, v in kw.items()},
                       'table': {c: js(tbl[c]) for c in tbl.colnames}, 'interior_only': interior_only,
                       'max_abs_diff_in_frame': float(np.max(np.abs(im1[T.dy:T.dy + ny, T.dx:T.dx + nx] - im0)))}
        sub = im1[T.dy:T.dy + ny, T.dx:T.dx + nx]
        # sub-pixel sampling grids (linspace over the window) are not offset-independent to the last bit
        exact = sc['dyadic'] and kw['discretize_method'] == 'center'
        R.ok('make_model_image', f'pixels of the original frame unchanged ({which})',
             same(sub, im0, exact, rtol=1e-9, atol=1e-9), det)
        if interior_only:
            R.ok('make_model_image', f'canvas = padded image when all windows are inside ({which})',
                 same(im1, T.img(im0, 0.0), exact, rtol=1e-9, atol=1e-9), det)
        else:
            R.skip('make_model_image', 'window-clipped-by-frame (outside region not compared)')


# ======================================================================================
# group: centroid functions (shift + transposition)
#   centroid_com on a whole stamp: zero padding adds nothing to sum(d), sum(x d): all stamps.
#   centroid_quadratic with xpeak/ypeak: the fit box inside the stamp.
#   centroid_sources (all four centroid functions): the cutout box inside the original frame.
#   centroid_1dg / centroid_2dg called on a whole stamp fit ALL pixels, so zero padding is new data for
#   the fit: under translation they are checked with the padding masked (counted as support only).
# ======================================================================================
def g_centroids(sc, T, R, grng):
    from photutils.centroids import centroid_1dg, centroid_2dg, centroid_com, centroid_quadratic, centroid_sources
    ny, nx = sc['ny'], sc['nx']
    d, e, m = sc['data'], sc['error'], sc['mask']
    D, E, M = scene_images(sc, T)
    shift = T.kind == 'shift'
    dxy = np.array([T.dx, T.dy])

    def rel(api, name, c1, c0, tol, det, shape=None):
        c0, c1 = np.asarray(c0, float), np.asarray(c1, float)
        if shape is not None and shift:
            # centroid_quadratic returns NaN when the vertex of the fitted surface falls outside the array it was
            # given (documented sanity check): a vertex outside the original stamp but inside the canvas is a
            # legitimate difference; a fitter result far outside the stamp is a diverged fit (library numerics)
            p = c1 - dxy if np.all(np.isfinite(c1)) else c0
            if np.all(np.isfinite(p)) and not (0.0 < p[0] < shape[1] - 1.0 and 0.0 < p[1] < shape[0] - 1.0):
                R.skip(api, 'result-outside-the-original-stamp')
                return
        if shift:
            R.ok(api, f'{name} moves by (dx,dy)', bool(np.allclose(c1 - dxy, c0, rtol=0, atol=tol, equal_nan=True)), det)
        else:
            R.ok(api, f'{name} x/y swapped', bool(np.allclose(c1[::-1], c0, rtol=0, atol=tol, equal_nan=True)), det)

    interior = [s for s in sc['srcs'] if s['kind'] == 'interior']
    for s in interior[:3]:
        hx, hy = grng.randint(6, 9), grng.randint(6, 9)
        x0, y0 = int(round(s['x0'])), int(round(s['y0']))
        sl = (slice(y0 - hy, y0 + hy + 1), slice(x0 - hx, x0 + hx + 1))
        st = d[sl] - sc['bkg']
        stm = m[sl]
        ste = e[sl]
        use_mask = grng.random() < 0.5
        if shift:
            ST, STM, STE = T.img(st, 0.0), T.img(stm, False), T.img(ste, ERR_PAD)
        else:
            ST, STM, STE = T.img(st), T.img(stm), T.img(ste)
        det = {'source': {k: s[k] for k in ('x0', 'y0')}, 'stamp_slices': str(sl), 'mask': use_mask}
        mk0 = dict(mask=stm) if use_mask else {}
        mk1 = dict(mask=STM) if use_mask else {}
        c0, c1 = centroid_com(st, **mk0), centroid_com(ST, **mk1)
        rel('centroid_com', 'centroid', c1, c0, POS_TOL, lambda: dict(det, original=js(c0), transformed=js(c1)))
        # quadratic with an explicit peak: the fit box is inside the stamp
        fb = grng.choice([3, 5, (3, 5), (5, 3)])
        fbT = fb if (shift or np.isscalar(fb)) else fb[::-1]
        xp, yp = hx + grng.choice([-1, 0, 1]), hy + grng.choice([-1, 0, 1])
        xpT, ypT = T.xy(xp, yp)
        sb = grng.choice([None, 3, 5, (3, 5), (5, 3)])
        sbT = sb if (shift or sb is None or np.isscalar(sb)) else sb[::-1]
        q0 = centroid_quadratic(st, xpeak=xp, ypeak=yp, fit_boxsize=fb, search_boxsize=sb, **mk0)
        q1 = centroid_quadratic(ST, xpeak=xpT, ypeak=ypT, fit_boxsize=fbT, search_boxsize=sbT, **mk1)
        rel('centroid_quadratic', 'centroid (xpeak/ypeak given)', q1, q0, 1e-7,
            lambda: dict(det, fit_boxsize=fb, search_boxsize=sb, peak=(xp, yp), original=js(q0), transformed=js(q1)),
            shape=st.shape)
        if shift:
            # whole-stamp Gaussian fits: only with the padding masked (support)
            pm = np.ones(ST.shape, bool)
            pm[T.dy:T.dy + st.shape[0], T.dx:T.dx + st.shape[1]] = stm if use_mask else False
            # (centroid_1dg fits the marginal sums, where a fully masked row still contributes a zero sample:
            #  no clean relation; centroid_2dg drops masked pixels from the fit)
            g0 = centroid_2dg(st, **mk0)
            g1 = centroid_2dg(ST, mask=pm)
            rel('centroid_2dg[masked padding]', 'centroid', g1, g0, 2e-3,
                lambda: dict(det, original=js(g0), transformed=js(g1)), shape=st.shape)
        else:
            # library fitters (Levenberg-Marquardt): agreement to the convergence tolerance only
            for f, nm, tol in ((centroid_1dg, 'centroid_1dg', 1e-4), (centroid_2dg, 'centroid_2dg', 2e-3)):
                g0 = f(st, **mk0)
                g1 = f(ST, **mk1)
                if not (0 <= g0[0] <= st.shape[1] - 1 and 0 <= g0[1] <= st.shape[0] - 1):
                    R.skip(nm, 'gaussian-fit-left-the-stamp')      # chaotic (library numerics): not compared
                    continue
                rel(nm, 'centroid', g1, g0, tol, lambda: dict(det, original=js(g0), transformed=js(g1)))
            q0 = centroid_quadratic(st, **mk0)
            q1 = centroid_quadratic(ST, **mk1)
            rel('centroid_quadratic', 'centroid (peak searched)', q1, q0, 1e-7, lambda: dict(det, original=js(q0), transformed=js(q1)))
    # centroid_sources forwarding xpeak / ypeak / fit_boxsize / search_boxsize to centroid_quadratic (the peak
    # keywords are scalars: one source per call), non-square box_size or footprint
    d0 = d - sc['bkg']
    D0 = T.img(d0, 0.0) if shift else T.img(d0)
    for s_ in sc['srcs'][:4]:
        box = grng.choice([(7, 11), (11, 7), (9, 13), 9])
        by, bx = (box, box) if np.isscalar(box) else box
        x_, y_ = s_['x0'] + grng.uniform(-0.8, 0.8), s_['y0'] + grng.uniform(-0.8, 0.8)
        if not (round(x_) - bx // 2 >= 0 and round(x_) + bx // 2 <= nx - 1 and round(y_) - by // 2 >= 0
                and round(y_) + by // 2 <= ny - 1):
            R.skip('centroid_sources', 'box-not-inside-frame')
            continue
        xp_, yp_ = round(s_['x0']) + grng.choice([-1, 0, 0, 1]), round(s_['y0']) + grng.choice([-1, 0, 0, 1])
        fb = grng.choice([3, 5, (3, 5), (5, 3)])
        sb = grng.choice([None, 3, (3, 5), (5, 3)])
        use_fp = grng.random() < 0.4
        fp = np.ones((by, bx), bool)
        fp[0, 0] = fp[-1, 0] = False
        sw = (lambda v: v if (shift or v is None or np.isscalar(v)) else v[::-1])
        xpT_, ypT_ = T.xy(xp_, yp_)
        xT_, yT_ = T.xy(x_, y_)
        geo0 = dict(footprint=fp) if use_fp else dict(box_size=box)
        geo1 = dict(footprint=fp if shift else np.ascontiguousarray(fp.T)) if use_fp else dict(box_size=sw(box))
        use_mask = grng.random() < 0.4
        a = centroid_sources(d0, [x_], [y_], centroid_func=centroid_quadratic, xpeak=xp_, ypeak=yp_, fit_boxsize=fb,
                             search_boxsize=sb, mask=m if use_mask else None, **geo0)
        b = centroid_sources(D0, [xT_], [yT_], centroid_func=centroid_quadratic, xpeak=xpT_, ypeak=ypT_, fit_boxsize=sw(fb),
                             search_boxsize=sw(sb), mask=M if use_mask else None, **geo1)
        c0_, c1_ = np.array([a[0][0], a[1][0]]), np.array([b[0][0], b[1][0]])
        # (the vertex test of centroid_quadratic is relative to the CUTOUT here, which moves with the source)
        rel('centroid_sources', 'centroid with xpeak/ypeak/fit_boxsize/search_boxsize forwarded to centroid_quadratic',
            c1_, c0_, 1e-7, lambda: dict(position=(x_, y_), peak=(xp_, yp_), box_size=box, footprint=use_fp, fit_boxsize=fb,
                                         search_boxsize=sb, mask=use_mask, original=js(c0_), transformed=js(c1_)))
    # centroid_sources on the full scene
    pos = [(s['x0'] + grng.uniform(-1, 1), s['y0'] + grng.uniform(-1, 1)) for s in sc['srcs']]
    xs0, ys0 = np.array([p[0] for p in pos]), np.array([p[1] for p in pos])
    for f, nm, tol in ((centroid_com, 'centroid_com', POS_TOL), (centroid_quadratic, 'centroid_quadratic', 1e-7),
                       (centroid_1dg, 'centroid_1dg', 1e-4 if not shift else POS_TOL),
                       (centroid_2dg, 'centroid_2dg', 2e-3 if not shift else POS_TOL)):
        box = grng.choice([7, 9, 11, (7, 11), (9, 5)])
        boxT = box if (shift or np.isscalar(box)) else box[::-1]
        by, bx = (box, box) if np.isscalar(box) else box
        # plus positions whose cutout box TOUCHES each of the four edges (box flush with the first / last row / column)
        tx, ty = grng.uniform(bx, nx - 1 - bx), grng.uniform(by, ny - 1 - by)
        xs = np.concatenate([xs0, [bx // 2 + grng.uniform(-0.4, 0.4), nx - 1 - bx // 2 + grng.uniform(-0.4, 0.4), tx, tx]])
        ys = np.concatenate([ys0, [ty, ty, by // 2 + grng.uniform(-0.4, 0.4), ny - 1 - by // 2 + grng.uniform(-0.4, 0.4)]])
        if f in (centroid_1dg, centroid_2dg):      # Gaussian fits on pure noise are slow: one touching box only
            keep = np.ones(len(xs), bool)
            keep[len(xs0):] = False
            keep[len(xs0) + grng.randrange(4)] = True
            xs, ys = xs[keep], ys[keep]
        pos = list(zip(xs.tolist(), ys.tolist()))
        xsT, ysT = T.xy(xs, ys)
        # centroid_sources cuts the box around the ROUNDED position
        ins = ((np.round(xs) - bx // 2 >= 0) & (np.round(xs) + bx // 2 <= nx - 1)
               & (np.round(ys) - by // 2 >= 0) & (np.round(ys) + by // 2 <= ny - 1))
        R.skip('centroid_sources', 'box-not-inside-frame', int((~ins).sum()))
        if not ins.any():
            continue
        use_mask = grng.random() < 0.5
        kw0 = dict(mask=m) if use_mask else {}
        kw1 = dict(mask=M) if use_mask else {}
        if f in (centroid_1dg, centroid_2dg) and grng.random() < 0.5:
            kw0['error'], kw1['error'] = e, E
        d0 = d - sc['bkg']
        D0 = T.img(d0, 0.0) if shift else T.img(d0)
        x0c, y0c = centroid_sources(d0, xs[ins], ys[ins], box_size=box, centroid_func=f, **kw0)
        x1c, y1c = centroid_sources(D0, np.asarray(xsT)[ins], np.asarray(ysT)[ins], box_size=boxT, centroid_func=f, **kw1)
        det = lambda: {'centroid_func': nm, 'box_size': box, 'positions': [pos[i] for i in np.nonzero(ins)[0]],
                       'options': sorted(kw0), 'original': [js(x0c), js(y0c)], 'transformed': [js(x1c), js(y1c)]}
        if shift:
            R.ok('centroid_sources', f'centroids move by (dx,dy) ({nm})',
                 bool(np.allclose(x1c - T.dx, x0c, rtol=0, atol=tol, equal_nan=True))
                 and bool(np.allclose(y1c - T.dy, y0c, rtol=0, atol=tol, equal_nan=True)), det)
        else:
            okf = np.ones(len(x0c), bool)
            if f in (centroid_1dg, centroid_2dg):
                # a fit that ran away from its box is chaotic (library numerics): not compared
                okf = (np.abs(x0c - xs[ins]) <= bx / 2) & (np.abs(y0c - ys[ins]) <= by / 2)
                R.skip('centroid_sources', 'gaussian-fit-left-its-box', int((~okf).sum()))
            R.ok('centroid_sources', f'centroids x/y swapped ({nm})',
                 bool(np.allclose(x1c[okf], y0c[okf], rtol=0, atol=tol, equal_nan=True))
                 and bool(np.allclose(y1c[okf], x0c[okf], rtol=0, atol=tol, equal_nan=True)), det)


# ======================================================================================
# exact-lattice correspondence of the small definitions of C03_Model.v (check_case)
# ======================================================================================
def q8(rng, lo, hi):
    return Fraction(rng.randint(lo * 8, hi * 8), 8)


def lattice_cases(ctx, n):
    """returns (coq terms, descriptions, python-level failures)"""
    from photutils.aperture import BoundingBox
    from photutils.segmentation import SegmentationImage, SourceCatalog
    from photutils.utils._moments import _moments
    rng = ctx.rng
    terms, descs = [], []

    def box_term(b):
        return coq(tuple(int(v) for v in b))

    for _ in range(n):
        # ---- BoundingBox.from_float, original and translated (half-integer ties included)
        xmin, ymin = q8(rng, -6, 40), q8(rng, -6, 40)
        xmax, ymax = xmin + q8(rng, 0, 12), ymin + q8(rng, 0, 12)
        dx, dy = rng.randint(0, 7), rng.randint(0, 7)
        b0 = BoundingBox.from_float(float(xmin), float(xmax), float(ymin), float(ymax))
        b1 = BoundingBox.from_float(float(xmin + dx), float(xmax + dx), float(ymin + dy), float(ymax + dy))
        for (a, b, c, d, bb) in ((xmin, xmax, ymin, ymax, b0), (xmin + dx, xmax + dx, ymin + dy, ymax + dy, b1)):
            terms.append(f'(CFromFloat {coq(a)} {coq(b)} {coq(c)} {coq(d)} {box_term(bbox_tuple(bb))})')
            descs.append({'kind': 'from_float', 'args': [str(a), str(b), str(c), str(d)], 'impl': bbox_tuple(bb)})
        if bbox_tuple(b1) != (b0.iymin + dy, b0.iymax + dy, b0.ixmin + dx, b0.ixmax + dx):
            ctx.violation('BoundingBox.from_float:shift:box moves by (dx,dy)', 'from_float is not translation covariant',
                          {'args': [str(xmin), str(xmax), str(ymin), str(ymax)], 'offset': (dy, dx),
                           'box': bbox_tuple(b0), 'box_shifted': bbox_tuple(b1)})
        ctx.stat('lattice', 'from_float', 2)
        # ---- get_overlap_slices: boxes inside / straddling / off the frame, and the translated box in a canvas
        ny, nx = rng.randint(1, 9), rng.randint(1, 9)
        kind = rng.choice(['inside', 'inside', 'any'])
        if kind == 'inside':
            y0 = rng.randint(0, ny - 1); y1 = rng.randint(y0 + 1, ny)
            x0 = rng.randint(0, nx - 1); x1 = rng.randint(x0 + 1, nx)
        else:
            y0 = rng.randint(-4, ny + 2); y1 = y0 + rng.randint(0, 6)
            x0 = rng.randint(-4, nx + 2); x1 = x0 + rng.randint(0, 6)
        pb, pr = rng.randint(0, 9), rng.randint(0, 9)

        def ov(b, shape):
            lg, sm = BoundingBox(b[2], b[3], b[0], b[1]).get_overlap_slices(shape)
            if lg is None:
                return None
            return (((lg[0].start, lg[0].stop), (lg[1].start, lg[1].stop)),
                    ((sm[0].start, sm[0].stop), (sm[1].start, sm[1].stop)))

        def ov_term(r):
            return 'None' if r is None else f'(Some {coq(r)})'
        r0 = ov((y0, y1, x0, x1), (ny, nx))
        r1 = ov((y0 + dy, y1 + dy, x0 + dx, x1 + dx), (ny + dy + pb, nx + dx + pr))
        terms.append(f'(COverlap {box_term((y0, y1, x0, x1))} {coq(ny)} {coq(nx)} {ov_term(r0)})')
        descs.append({'kind': 'overlap', 'box': (y0, y1, x0, x1), 'shape': (ny, nx), 'impl': r0})
        terms.append(f'(COverlap {box_term((y0 + dy, y1 + dy, x0 + dx, x1 + dx))} {coq(ny + dy + pb)} {coq(nx + dx + pr)} {ov_term(r1)})')
        descs.append({'kind': 'overlap', 'box': (y0 + dy, y1 + dy, x0 + dx, x1 + dx), 'shape': (ny + dy + pb, nx + dx + pr), 'impl': r1})
        if kind == 'inside':
            want = (((y0 + dy, y1 + dy), (x0 + dx, x1 + dx)), r0[1]) if r0 else None
            if r0 is None or r1 != want:
                ctx.violation('BoundingBox.get_overlap_slices:shift:large slices move, small slices unchanged',
                              'get_overlap_slices is not translation covariant for a box inside the frame',
                              {'box': (y0, y1, x0, x1), 'shape': (ny, nx), 'offset': (dy, dx), 'pads': (pb, pr),
                               'slices': r0, 'slices_canvas': r1})
        ctx.stat('lattice', 'overlap_slices', 2)
        # ---- numpy.pad / slicing vs embed / crop
        a = np.array([[rng.randint(-9, 9) for _ in range(nx)] for _ in range(ny)])
        z = rng.choice([0, 0, 7])
        NY, NX = ny + dy + pb, nx + dx + pr
        canvas = np.pad(a, ((dy, pb), (dx, pr)), constant_values=z)
        cy0 = rng.randint(dy, dy + ny); cy1 = rng.randint(cy0, dy + ny)
        cx0 = rng.randint(dx, dx + nx); cx1 = rng.randint(cx0, dx + nx)
        cut = canvas[cy0:cy1, cx0:cx1]
        if not np.array_equal(cut, a[cy0 - dy:cy1 - dy, cx0 - dx:cx1 - dx]):
            raise AssertionError('numpy slicing of a padded array')
        cut_l = [] if cut.shape[1] == 0 else cut.tolist()      # numpy keeps empty rows, the model drops nothing
        if cut.shape[1] == 0:
            cut_l = [[] for _ in range(cut.shape[0])]
        terms.append(f'(CEmbedCrop {coq(z)} {coq(dy)} {coq(dx)} {coq(NY)} {coq(NX)} {img_coq(a)} '
                     f'{box_term((cy0, cy1, cx0, cx1))} {img_coq(canvas)} {coq([[int(v) for v in r] for r in cut_l])})')
        descs.append({'kind': 'embed_crop', 'a': a.tolist(), 'fill': z, 'offset': (dy, dx), 'canvas_shape': (NY, NX),
                      'box': (cy0, cy1, cx0, cx1)})
        terms.append(f'(CTranspose {coq(nx)} {img_coq(a)} {img_coq(a.T)})')
        descs.append({'kind': 'transpose', 'a': a.tolist()})
        ctx.stat('lattice', 'embed_crop_transpose', 2)
        # ---- image moments: _moments(a, 3), SourceCatalog.moments on one whole-image segment
        pos = np.abs(a) + (1 if rng.random() < 0.5 else 0)
        if rng.random() < 0.5 or pos.sum() == 0:
            mom = _moments(pos, order=3)
            src = '_moments'
        else:
            seg = SegmentationImage((pos > 0).astype(int))
            mom = np.asarray(SourceCatalog(pos.astype(float), seg).moments)
            src = 'SourceCatalog.moments'
            # the catalogue works on the segment's cutout: compare on that cutout
            sy, sx = seg.slices[0]
            pos = pos[sy, sx] * (seg.data[sy, sx] > 0)
        mom = np.asarray(mom, float).reshape(-1, 4, 4)[0]
        mom_i = [[int(round(v)) for v in row] for row in mom]
        if not np.array_equal(np.asarray(mom_i, float), np.asarray(mom, float)):
            ctx.violation('correspondence:moments-not-integers', 'moments of an integer image are not integers',
                          {'a': pos.tolist(), 'moments': np.asarray(mom).tolist()}, found_input=False)
        terms.append(f'(CMoments {img_coq(pos)} {coq(mom_i)})')
        descs.append({'kind': 'moments', 'source': src, 'a': pos.tolist(), 'impl': mom_i})
        ctx.stat('lattice', 'moments:' + src)
        # ---- bounding box of a label
        s = np.array([[rng.choice([0, 0, 1, 2, 5]) for _ in range(nx)] for _ in range(ny)])
        labs = [l for l in (1, 2, 5) if (s == l).any()]
        if labs:
            segm = SegmentationImage(s)
            l = rng.choice(labs)
            bb = segm.bbox[list(segm.labels).index(l)]
            terms.append(f'(CSegBBox {coq(l)} {img_coq(s)} {box_term(bbox_tuple(bb))})')
            descs.append({'kind': 'seg_bbox', 'label': l, 's': s.tolist(), 'impl': bbox_tuple(bb)})
            segm1 = SegmentationImage(np.pad(s, ((dy, pb), (dx, pr))))
            bb1 = segm1.bbox[list(segm1.labels).index(l)]
            terms.append(f'(CSegBBox {coq(l)} {img_coq(segm1.data)} {box_term(bbox_tuple(bb1))})')
            descs.append({'kind': 'seg_bbox', 'label': l, 's': segm1.data.tolist(), 'impl': bbox_tuple(bb1)})
            ctx.stat('lattice', 'seg_bbox', 2)
        # ---- SourceCatalog.background_centroid on a block of equal pixels (centroid on the half-pixel lattice)
        by, bx = rng.randint(2, 8), rng.randint(2, 8)
        while bx == by:
            bx = rng.randint(2, 8)
        bkg = np.array([[rng.randint(-9, 9) for _ in range(bx)] for _ in range(by)])
        hh, ww = rng.choice([1, 2]), rng.choice([1, 2])
        y0, x0 = rng.randint(0, by - hh - (0 if hh == 2 else 1)), rng.randint(0, bx - ww - (0 if ww == 2 else 1))
        seg2 = np.zeros((by, bx), int)
        seg2[y0:y0 + hh, x0:x0 + ww] = 1
        got = float(np.ravel(val(SourceCatalog(seg2.astype(float), SegmentationImage(seg2),
                                               background=bkg.astype(float)).background_centroid))[0])
        terms.append(f'(CBilinear {img_coq(bkg)} {coq(y0)} {coq(x0)} {coq(hh - 1)} {coq(ww - 1)} 2 {coq(int(round(4 * got)))})')
        descs.append({'kind': 'background_centroid', 'background': bkg.tolist(), 'block': (y0, x0, hh, ww), 'impl': got})
        ctx.stat('lattice', 'background_centroid')
    return terms, descs


def background_centroid_relation(desc, dy=1, dx=3):
    """the covariance relation on a lattice case of background_centroid: True if it holds"""
    from photutils.segmentation import SegmentationImage, SourceCatalog
    bkg = np.array(desc['background'], float)
    y0, x0, hh, ww = desc['block']
    seg = np.zeros(bkg.shape, int)
    seg[y0:y0 + hh, x0:x0 + ww] = 1
    T = Shift(dy, dx, 2, 1)
    a = SourceCatalog(seg.astype(float), SegmentationImage(seg), background=bkg).background_centroid
    b = SourceCatalog(T.img(seg).astype(float), SegmentationImage(T.img(seg)), background=T.img(bkg, 0.0)).background_centroid
    return same(b, a, False, rtol=1e-9, atol=1e-9), js(a), js(b)


# ======================================================================================
# driver
# ======================================================================================
GROUPS = [
    ('aperture_photometry', g_aperture_photometry, ('shift', 'transpose')),
    ('aperture_stats', g_aperture_stats, ('shift', 'transpose')),
    ('find_peaks', g_find_peaks, ('shift',)),
    ('starfinders', g_starfinders, ('shift',)),
    ('segmentation', g_segmentation, ('shift',)),
    ('source_catalog', g_source_catalog, ('shift', 'transpose')),
    ('profiles', g_profiles, ('shift', 'transpose')),
    ('model_image', g_model_image, ('shift',)),
    ('centroids', g_centroids, ('shift', 'transpose')),
]
GROUP_FN = {g[0]: g for g in GROUPS}
# APIs whose relation is backed by a Coq covariance theorem (C03_Properties.v); the others are tests only
THEOREM_BACKED = ('aperture_photometry', 'CircularAperture', 'CircularAnnulus', 'EllipticalAperture', 'EllipticalAnnulus',
                  'RectangularAperture', 'RectangularAnnulus', 'detect_sources', 'SegmentationImage', 'SourceCatalog',
                  'RadialProfile', 'CurveOfGrowth', 'make_model_image', 'centroid_com', 'ApertureStats', 'find_peaks')


def run_group(name, sc, T, gseed):
    _, fn, kinds = GROUP_FN[name]
    R = Rep(name, sc, T)
    if T.kind in kinds:
        with warnings.catch_warnings():
            warnings.simplefilter('ignore')
            fn(sc, T, R, random.Random(gseed))
    return R


def random_shift(rng):
    return Shift(rng.randint(0, 7), rng.randint(0, 7), rng.randint(0, 9), rng.randint(0, 9))


def run(ctx):
    ctx.build(FILES)
    ctx.cov['rule'] = (
        'random asymmetric scenes (48..64 pixels a side, never square; 4-6 rotated elliptical Gaussian blobs of different '
        'size / ellipticity / amplitude incl. one close pair and one source near the frame edge, positive background + '
        'uniform noise, 1% random mask, error map); every third scene has positions / radii on the 1/8 lattice (then '
        'offset-independent code paths are compared bitwise); transforms: embedding at (dy,dx) in [0,7]^2 with 0..9 '
        'padding rows/columns after (data padded 0, mask False, error 0.75, segmentation 0) and transposition; '
        'thorough adds all 64 offsets on one scene; one evaluation = one (scene, transform, API group); '
        'non-trivial = at least one relation was evaluated; plus exact-lattice cases of from_float / overlap '
        'slices / embed-crop / transpose / moments / label bbox evaluated inside Coq')
    ctx.assumptions += [
        'the covariance theorems of C02 / C04 / C07 / C07R / C14 / C16 / C17 / C18 / C19 are cited from those properties\' stable models; their '
        'tie to /repo is the correspondence check of those properties',
        'float positions are compared after subtracting the offset with atol 1e-9; fluxes bitwise on 1/8-lattice scenes, '
        'rtol 1e-10 otherwise; library fitters (centroid_1dg/2dg, lstsq) to their convergence tolerance']
    ctx.cov['partial_clauses'] = [
        'star finders (beyond their find_peaks stage), deblend_sources, centroid_quadratic/1dg/2dg, Kron / windowed-centroid '
        'quantities of SourceCatalog, the npeaks / border_width / centroid_func options of find_peaks: no covariance '
        'theorem (library numerics) -- metamorphic test only (support_tests)',
        'orientation_transposes_R / shape_invariants_transpose_R are statements over the classical reals of Coq '
        '(standard-library axioms of Reals, listed by Print Assumptions); every other theorem is axiom-free',
        'sources whose measurement footprint is not inside the original frame are skipped and counted (skipped:*)']
    quick = ctx.tier == 'quick'
    # ---- exact-lattice correspondence
    terms, descs = lattice_cases(ctx, 50 if quick else 400)
    bad = ctx.coq_eval_cases(['C03_Model'], 'check_case', terms, case_type='case')
    ctx.stat('coq', 'disagreements', len(bad))
    for d in descs:
        ctx.count_case(d, True)
    nbc = 0
    for i in bad[:10]:
        if descs[i]['kind'] == 'background_centroid':
            nbc += 1
            if nbc > 2:
                continue
            holds, a, b = background_centroid_relation(descs[i])
            if not holds:
                ctx.violation('SourceCatalog:shift:background_centroid unchanged',
                              'SourceCatalog: relation "background_centroid unchanged" fails under shift',
                              {'lattice_case': descs[i], 'offset': (1, 3), 'original': a, 'canvas': b,
                               'model': ctx.coq_eval_term(['C03_Model'], f'model_out {terms[i]}')})
                continue
        ctx.violation('correspondence:C03_Model.check_case:' + descs[i]['kind'],
                      'model and implementation disagree on an exact-lattice case',
                      {'case': descs[i], 'model': ctx.coq_eval_term(['C03_Model'], f'model_out {terms[i]}')},
                      found_input=False)
    ctx.sample({'lattice_case': descs[0]})
    # ---- metamorphic relations on the real API
    nscenes = 13 if quick else 60
    nshifts = 3 if quick else 5
    per_sig = {}

    def harvest(R, sc, T, gseed):
        ctx.count_case([sc['seed'], T.desc(), R.group], R.n > 0)
        ctx.stat('evaluations', f'{R.group}:{T.kind}')
        for k, v in R.counts.items():
            ctx.stat('relations', k, v)
            api = k.split(':')[0].split('[')[0]
            if api not in THEOREM_BACKED:
                ctx.support(k, v)
        for k, v in R.skips.items():
            ctx.stat('skipped', k, v)
        for sig, what, detail in R.fails:
            per_sig[sig] = per_sig.get(sig, 0) + 1
            if per_sig[sig] > 2:
                continue
            ctx.violation(sig, what, {'group': R.group, 'scene_seed': sc['seed'], 'dyadic': sc['dyadic'],
                                      'transform': T.desc(), 'group_seed': gseed, 'detail': detail,
                                      'cmd': 'bin/check C03 --replay <this file>'})

    for i in range(nscenes):
        seed = ctx.rng.getrandbits(40)
        sc = make_scene(seed, dyadic=(i % 3 == 2))
        Ts = [random_shift(ctx.rng) for _ in range(nshifts)]
        if i % 4 == 0:
            Ts[0] = Shift(ctx.rng.choice([0, 7]), ctx.rng.choice([0, 7]), ctx.rng.choice([0, 9]), ctx.rng.choice([0, 9]))
        Ts.append(Transpose())
        if i == 0:
            ctx.sample({'scene': {'seed': seed, 'shape': (sc['ny'], sc['nx']),
                                  'sources': [{k: (round(v, 3) if isinstance(v, float) else v) for k, v in s.items()}
                                              for s in sc['srcs']]},
                        'transforms': [T.desc() for T in Ts]})
        for gi, (name, fn, kinds) in enumerate(GROUPS):
            gseed = seed * 64 + gi
            for T in Ts:
                if T.kind in kinds:
                    harvest(run_group(name, sc, T, gseed), sc, T, gseed)
    if not quick:
        # every offset of [0,7]^2 on one scene for the inexpensive groups
        seed = ctx.rng.getrandbits(40)
        for dyadic in (False, True):
            sc = make_scene(seed, dyadic=dyadic)
            for dy in range(8):
                for dx in range(8):
                    T = Shift(dy, dx, ctx.rng.randint(0, 9), ctx.rng.randint(0, 9))
                    for gi, (name, fn, kinds) in enumerate(GROUPS):
                        if name in ('aperture_photometry', 'find_peaks', 'starfinders', 'segmentation', 'source_catalog',
                                    'profiles', 'model_image'):
                            gseed = seed * 64 + gi
                            harvest(run_group(name, sc, T, gseed), sc, T, gseed)
        ctx.stat('generator', 'all_64_offsets_sweeps', 2)


def replay(obj):
    r = obj['replay']
    if 'lattice_case' in r and r['lattice_case'].get('kind') == 'background_centroid':
        holds, a, b = background_centroid_relation(r['lattice_case'])
        print('background_centroid original', a, 'canvas', b)
        print('the recorded relation holds on this input' if holds else 'property FAILS on this input')
        return 0 if holds else 1
    if 'group' not in r:
        print('no scene to replay (lattice / correspondence finding):', obj.get('what'))
        print(str(r)[:3000])
        return 1
    sc = make_scene(r['scene_seed'], dyadic=r['dyadic'])
    T = transform_from(r['transform'])
    R = run_group(r['group'], sc, T, r['group_seed'])
    print(f"group {r['group']} on scene {r['scene_seed']} under {r['transform']}: {R.n} relations, {len(R.fails)} failing")
    hit = False
    for sig, what, detail in R.fails:
        print(' FAILS', sig)
        if sig == obj['signature']:
            hit = True
            print('   ', str(detail)[:1500])
    print('property FAILS on this input' if hit else 'the recorded relation holds on this input')
    return 1 if hit else 0
