"""C20H (stretch of C20): the HARMONIC ANALYSIS and the GEOMETRY CORRECTORS of the isophote fitter.

Tie between the Coq model coq/C20H_Model.v (exact arithmetic over Q; the fitter loop itself is
C20_Model.fit_loop, instantiated) and the real code
  photutils.isophote.harmonics.fit_first_and_second_harmonics / fit_upper_harmonic /
  first_and_second_harmonic_function,
  photutils.isophote.fitter._CORRECTORS (the four corrector classes), EllipseFitter.fit.

`run_harmonics_correspondence(ctx, n_cases)` is meant to be called from the C20 harness after its build
(with the C20H files among the built files).  It draws from its OWN PRNG (derived from ctx.seed), so the
stream of the C20 harness is unchanged.  Groups:

  ls    random angle sets (the fitter's near-uniform walk, random, clustered) and intensities on an exact
        dyadic lattice (constant ring, exactly harmonic, harmonic + lattice noise, random) -> the real
        fit_first_and_second_harmonics / fit_upper_harmonic (order 3, 4).  The arrays np.sin(phi),
        np.cos(phi), np.sin(2 phi), np.cos(2 phi) the code evaluates are RECORDED (proxy for the name `np` of
        harmonics.py) and are the design matrix handed to Coq as exact rationals.  scipy's leastsq is an
        iterative Levenberg-Marquardt with ftol = xtol = 1.49e-8: its answer is NOT exact, so Coq checks
          * the implementation's coefficients satisfy every normal equation up to
            2^-20 * scale (2^-26 for constant / exactly harmonic data), scale = sum_i |A_i|_1 (|y_i| + |A_i| . |c|)
            (measured on the unchanged code: worst 2^-23.9 resp. 2^-30.5 over 1500 fits);
          * (FULL cases: about one in sixteen, the exact inversion of a Gram matrix of 53-bit rationals costs
            ~8 s in vm_compute) the model's solution (checked inverse of the Gram matrix) satisfies them
            EXACTLY, and the implementation is within (sum_j |G^-1 l j|) * that tolerance of it
            (c_impl - c_model = G^-1 grad(c_impl): conditioning);  in the other (LIGHT) cases the row sums of
            |G^-1| are computed by the harness in exact Fractions and only scale the recovery tolerance;
          * exactly harmonic inputs are recovered (both by the implementation and by the model) within
            2^-24 (|c*|_1 + 1)(1 + |G^-1 row|_1).
  corr  the real corrector objects fitter._CORRECTORS[k].correct(sample, harmonic) called directly on an
        EllipseSample with a prescribed gradient; math.sin/cos(pa) recorded (proxy for `math` of fitter.py).
        Coq compares with the transcribed formulas: equality where every binary64 operation is exact
        (zero harmonic; lattice cases for the position and ellipticity correctors), else 2^-40 relative;
        parameters outside the corrector's group must be handed over bit-for-bit.
  fit   the real EllipseFitter.fit on EXACTLY ELLIPTICAL, noise-free galaxies (an analytic sampler replaces
        the bilinear interpolation: the intensity is a function of the true elliptical radius, evaluated at
        the very positions the integrator computes), started AT the truth (and, for the trace only, near it),
        for every fix mask / minit / maxit / direction.  Every iteration's numerics are recorded (harmonic
        coefficients, np.std(residual), sector_area, gradient, sin/cos(pa), the gradient flags of
        _check_conditions) and Coq runs the model loop (C20_Model.fit_loop on C20H_Model.obs_along) on them:
        stop code and validity must be equal, the returned geometry within 2^-36 relative.
        Directly on the implementation (C20 text: "centre, ellipticity, position angle ... equal to the
        truth"): started at the truth the returned geometry must equal the truth within the displacement
        the recorded harmonics justify (sum of |correction| over the iterations, + 1e-9).

Model/code disagreements are reported as correspondence:C20H_Model... (found_input=False); violations of
the fixed-point clause with a precise signature and the input.
"""
import math
import random
import warnings
from fractions import Fraction

import numpy as np

from .core import Raw, Some, coq

IMPORTS = ['C20_Model', 'C20H_Model']
COQ_FILES = ['C20H_Model.v', 'C20H_Proofs.v', 'C20H_Properties.v']
OBLIGATION_FILES = ['C20H_Properties.v']

TOL_GENERAL = 20       # bits: normal equations of arbitrary data
TOL_EXACT = 26         # bits: constant / exactly harmonic data
TOL_RECOVER = 24       # bits: recovery of the generating coefficients
FIT_BITS = 36


def dy(x):
    """binary64 -> (m, e) with x = m * 2**e exactly."""
    x = float(x)
    if x == 0.0:
        return (0, 0)
    if not math.isfinite(x):
        raise ValueError('non-finite value')
    n, d = x.as_integer_ratio()
    e = -(d.bit_length() - 1)
    if d == 1:
        tz = (n & -n).bit_length() - 1
        n >>= tz
        e = tz
    return (int(n), int(e))


def pos(n):
    return Raw(f'{int(n)}%positive')


# --------------------------------------------------------------------------
# instrumentation (restored in `finally` / __exit__)
# --------------------------------------------------------------------------
class _NpProxy:
    """Stands for the name `np` inside photutils/isophote/harmonics.py: records sin / cos."""

    def __init__(self):
        self.log = []

    def sin(self, x):
        v = np.sin(x)
        self.log.append(('sin', np.array(x, dtype=float), np.array(v, dtype=float)))
        return v

    def cos(self, x):
        v = np.cos(x)
        self.log.append(('cos', np.array(x, dtype=float), np.array(v, dtype=float)))
        return v

    def __getattr__(self, name):
        return getattr(np, name)


class _MathProxy:
    """Stands for the name `math` inside photutils/isophote/fitter.py: records sin / cos."""

    def __init__(self):
        self.log = []

    def sin(self, x):
        v = math.sin(x)
        self.log.append(('sin', float(x), v))
        return v

    def cos(self, x):
        v = math.cos(x)
        self.log.append(('cos', float(x), v))
        return v

    def __getattr__(self, name):
        return getattr(math, name)


def _find(log, fn, arg):
    for (f, a, v) in log:
        if f == fn and a.shape == arg.shape and np.array_equal(a, arg):
            return v
    return None


# --------------------------------------------------------------------------
# group `ls`
# --------------------------------------------------------------------------
ANGLE_KINDS = ['walk', 'walk', 'random', 'clustered', 'five']
DATA_KINDS = ['constant', 'harmonic', 'harmonic+noise', 'random', 'offset']


def gen_ls_case(rng):
    akind = rng.choice(ANGLE_KINDS)
    if akind == 'five':
        n = 5
    else:
        n = rng.choice([6, 7, 8, 10, 13]) if rng.random() < 0.5 else rng.randint(6, 36)
    if akind == 'walk':          # what EllipseSample._extract produces: a fixed step from phi_min/2 on
        step = (2 * math.pi + 0.05) / n
        phi = [0.025 + step * i for i in range(n)]
    elif akind == 'clustered':
        lo = rng.uniform(0, 5)
        phi = sorted(lo + rng.randint(0, 4096) / 4096 for _ in range(n))
    else:
        phi = sorted(rng.randint(0, 6 * 4096) / 4096 for _ in range(n))
    # distinct angles only (the rank condition)
    if len(set(phi)) < n:
        phi = sorted(set(phi))
        while len(phi) < 5:
            phi.append(phi[-1] + 0.125)
        n = len(phi)
    which = rng.choices(['first_second', 'upper3', 'upper4'], [6, 1, 1])[0]
    dkind = rng.choice(DATA_KINDS)
    k = 5 if which == 'first_second' else 3
    cstar = None
    if dkind == 'constant':
        cstar = [Fraction(rng.randint(1, 4000), 8)] + [Fraction(0)] * (k - 1)
    elif dkind in ('harmonic', 'harmonic+noise'):
        cstar = [Fraction(rng.randint(-400, 400), 8)] + [Fraction(rng.randint(-80, 80), 16) for _ in range(k - 1)]
    return dict(akind=akind, dkind=dkind, which=which, phi=[float(p) for p in phi], cstar=cstar,
                noise=[rng.randint(-16, 16) for _ in range(n)], rnd=[rng.randint(-4000, 4000) for _ in range(n)],
                off=rng.choice([10000, 100000]))


def run_ls_case(c):
    """Run the real fit.  Returns (rows as float lists, data floats, coefficient floats or None, error, protocol_ok)."""
    import photutils.isophote.harmonics as hm
    phi = np.array(c['phi'], dtype=float)
    n = len(phi)
    order = {'first_second': None, 'upper3': 3, 'upper4': 4}[c['which']]
    # the design the data are generated from uses the SAME numpy values the code will evaluate
    if order is None:
        args = [phi, phi, 2 * phi, 2 * phi]
    else:
        args = [order * phi, order * phi]
    cols = [np.sin(args[0]), np.cos(args[1])] + ([np.sin(args[2]), np.cos(args[3])] if order is None else [])
    rows = [[1.0] + [float(col[i]) for col in cols] for i in range(n)]
    if c['cstar'] is not None:
        # exactly harmonic in Q, each datum rounded once to binary64
        y = [float(sum(cs * Fraction(a) for cs, a in zip(c['cstar'], rows[i]))) for i in range(n)]
        if c['dkind'] == 'harmonic+noise':
            y = [yi + z / 64 for yi, z in zip(y, c['noise'])]
    elif c['dkind'] == 'offset':
        y = [c['off'] + z / 8 for z in c['rnd']]
    else:
        y = [z / 8 for z in c['rnd']]
    proxy = _NpProxy()
    saved = hm.np
    hm.np = proxy
    err = None
    co = None
    try:
        with warnings.catch_warnings():
            warnings.simplefilter('ignore')
            if order is None:
                co = hm.fit_first_and_second_harmonics(phi, np.array(y))[0]
            else:
                co = hm.fit_upper_harmonic(phi, np.array(y), order)[0]
    except Exception as e:      # RuntimeError of _least_squares_fit, or anything else
        err = repr(e)[:200]
    finally:
        hm.np = saved
    # the values the code evaluated, identified by (function, argument)
    rec = [_find(proxy.log, 'sin', args[0]), _find(proxy.log, 'cos', args[1])]
    if order is None:
        rec += [_find(proxy.log, 'sin', args[2]), _find(proxy.log, 'cos', args[3])]
    protocol_ok = all(r is not None for r in rec)
    if protocol_ok:
        rows = [[1.0] + [float(col[i]) for col in rec] for i in range(n)]
    return rows, y, (None if co is None else [float(v) for v in co]), err, protocol_ok


def inverse_row_sums(rows):
    """Row sums of |G^-1| for G = A^T A, in exact Fractions (Gauss-Jordan); None if singular."""
    k = len(rows[0])
    a = [[Fraction(v) for v in r] for r in rows]
    g = [[sum(r[i] * r[j] for r in a) for j in range(k)] + [Fraction(int(i == j)) for j in range(k)] for i in range(k)]
    for col in range(k):
        piv = next((r for r in range(col, k) if g[r][col] != 0), None)
        if piv is None:
            return None
        g[col], g[piv] = g[piv], g[col]
        pv = g[col][col]
        g[col] = [v / pv for v in g[col]]
        for r in range(k):
            if r != col and g[r][col] != 0:
                f = g[r][col]
                g[r] = [x - f * yv for x, yv in zip(g[r], g[col])]
    return [sum(abs(v) for v in g[i][k:]) for i in range(k)]


def ls_term(c, rows, y, co, full):
    exact = c['dkind'] in ('constant', 'harmonic')
    expect = None
    if exact:
        expect = Some(([dy(float(v)) for v in c['cstar']], pos(TOL_RECOVER)))
    light = None
    if not full:
        ms = inverse_row_sums(rows)
        if ms is None:
            raise ZeroDivisionError('singular design')
        light = Some([dy(float(m) * (1 + 2.0 ** -40)) for m in ms])
    return coq(([[dy(v) for v in r] for r in rows], [dy(v) for v in y], [dy(v) for v in co],
                pos(TOL_EXACT if exact else TOL_GENERAL), expect, light))


def describe_ls(c):
    d = {k: c[k] for k in ('akind', 'dkind', 'which', 'phi')}
    d['cstar'] = None if c['cstar'] is None else [str(v) for v in c['cstar']]
    if c['dkind'] == 'harmonic+noise':
        d['noise/64'] = c['noise']
    if c['dkind'] in ('random', 'offset'):
        d['data*8'] = c['rnd']
        d['offset'] = c['off'] if c['dkind'] == 'offset' else 0
    return d


# --------------------------------------------------------------------------
# group `corr`
# --------------------------------------------------------------------------
_IMG = np.zeros((64, 64))


def gen_corr_case(rng):
    k = rng.randrange(4)
    kind = rng.choices(['zero', 'lattice', 'general'], [2, 3, 6])[0]
    if kind == 'lattice':
        grad = rng.choice([-1, 1]) * 2.0 ** rng.randint(-3, 3)
        sma = 2.0 ** rng.randint(0, 5)
        eps = rng.choice([0.25, 0.5, 0.75])
        pa = 0.0
        h = rng.randint(-64, 64) / 16
        x0, y0 = 20 + rng.randint(0, 160) / 8, 20 + rng.randint(0, 160) / 8
    else:
        grad = -rng.uniform(0.01, 50.0) if rng.random() < 0.85 else rng.uniform(0.01, 5.0)
        sma = rng.uniform(1.0, 60.0)
        eps = rng.choice([rng.uniform(0.05, 0.9), rng.uniform(0.001, 0.05), rng.uniform(0.9, 0.95)])
        pa = rng.choice([rng.uniform(0.0, math.pi), rng.uniform(-3.0, 6.0), 1e-9, math.pi - 1e-9])
        h = 0.0 if kind == 'zero' else rng.choice([rng.uniform(-5, 5), rng.uniform(-1e-3, 1e-3), rng.uniform(-200, 200)])
        x0, y0 = rng.uniform(1.0, 63.0), rng.uniform(1.0, 63.0)
    if kind == 'zero':
        h = rng.choice([0.0, -0.0])
    # exact: every binary64 operation of the corrector is exact (or the harmonic is zero and 0 <= pa < pi)
    exact = (kind == 'zero' and 0.0 <= pa < math.pi) or (kind == 'lattice' and k != 2)
    return dict(k=k, kind=kind, grad=float(grad), sma=float(sma), eps=float(eps), pa=float(pa), h=float(h),
                x0=float(x0), y0=float(y0), exact=bool(exact))


def run_corr_case(c):
    import photutils.isophote.fitter as fit
    from photutils.isophote.sample import EllipseSample
    s = EllipseSample(_IMG, c['sma'], x0=c['x0'], y0=c['y0'], astep=0.1, eps=c['eps'], position_angle=c['pa'])
    s.gradient = c['grad']
    proxy = _MathProxy()
    saved = fit.math
    fit.math = proxy
    try:
        with warnings.catch_warnings():
            warnings.simplefilter('ignore')
            with np.errstate(all='ignore'):
                new = fit._CORRECTORS[c['k']].correct(s, np.float64(c['h']))
    finally:
        fit.math = saved
    g = new.geometry
    sn = [v for (f, a, v) in proxy.log if f == 'sin']
    cs = [v for (f, a, v) in proxy.log if f == 'cos']
    args_ok = all(a == c['pa'] for (_, a, _) in proxy.log) and len(sn) <= 1 and len(cs) <= 1 and (
        c['k'] > 1 or (len(sn) == 1 and len(cs) == 1))
    return dict(res=(float(g.x0), float(g.y0), float(g.pa), float(g.eps)), sma=float(g.sma),
                sin=sn[0] if sn else math.sin(c['pa']), cos=cs[0] if cs else math.cos(c['pa']),
                args_ok=args_ok, maxeps=float(fit.MAX_EPS))


def corr_term(c, ob):
    return coq((int(c['k']), dy(c['h']), dy(c['grad']), dy(c['sma']),
                (dy(c['x0']), dy(c['y0']), dy(c['pa']), dy(c['eps'])), dy(ob['sin']), dy(ob['cos']),
                dy(float(np.pi)), dy(ob['maxeps']), tuple(dy(v) for v in ob['res']), bool(c['exact'])))


def corr_oracle(c, ob):
    """Plain-Python statements of the fixed-point / frame clauses on the implementation's output."""
    g = (c['x0'], c['y0'], c['pa'], c['eps'])
    r = ob['res']
    keep = {0: (2, 3), 1: (2, 3), 2: (0, 1, 3), 3: (0, 1, 2)}[c['k']]
    bad = []
    if any(r[i] != g[i] for i in keep):
        bad.append(('frame', f'corrector {c["k"]} changed a parameter outside its group: {g} -> {r}'))
    if c['h'] == 0.0 and 0.0 <= c['pa'] < math.pi and c['eps'] <= ob['maxeps'] and tuple(r) != tuple(g):
        bad.append(('zero-harmonic', f'corrector {c["k"]} moved the geometry for a zero harmonic: {g} -> {r}'))
    return bad


# --------------------------------------------------------------------------
# group `fit`
# --------------------------------------------------------------------------
LATTICE = 65536.0


def make_profile(law, i0, scale, truth, lattice):
    x0, y0, pa, eps = truth
    cp, sp = math.cos(pa), math.sin(pa)
    q = 1.0 - eps

    def prof(x, y):
        dx, dy_ = x - x0, y - y0
        xp = dx * cp + dy_ * sp
        yp = (-dx * sp + dy_ * cp) / q
        r = math.hypot(xp, yp)
        if lattice:
            r = round(r * LATTICE) / LATTICE         # exactly constant rings
        if law == 'exp':
            return i0 * math.exp(-r / scale)
        if law == 'gauss':
            return i0 * math.exp(-0.5 * (r / scale) ** 2)
        return i0 / (1.0 + r / scale) ** 2           # 'power'
    return prof


def gen_fit_case(rng):
    shape = rng.choice([(160, 200), (200, 160), (180, 180)])
    x0 = shape[1] / 2 + rng.randint(-160, 160) / 8
    y0 = shape[0] / 2 + rng.randint(-160, 160) / 8
    eps = rng.choice([0.05, 0.1, 0.25, 0.3, 0.5, 0.65, 0.8, rng.uniform(0.05, 0.8)])
    pa = rng.choice([0.0, rng.uniform(0.0, math.pi), rng.uniform(0.0, math.pi), math.pi / 2, 3.0])
    sma = rng.randint(16, 400) / 8
    law = rng.choice(['exp', 'gauss', 'power'])
    scale = rng.uniform(0.4, 1.5) * sma
    start = rng.choices(['truth', 'near'], [7, 3])[0]
    fixes = rng.choice([(False, False, False)] * 4 + [(True, False, False), (False, True, False), (False, False, True),
                                                      (True, True, False), (True, False, True), (False, True, True)])
    d = dict(shape=shape, truth=(float(x0), float(y0), float(pa), float(eps)), sma=float(sma), law=law,
             i0=float(rng.choice([1.0, 100.0, 2.0 ** 12])), scale=float(scale), lattice=rng.random() < 0.5,
             start=start, fixes=fixes, minit=rng.choice([1, 1, 2, 5]), maxit=rng.choice([3, 6, 12, 12]),
             inwards=rng.random() < 0.3, conver=rng.choice([0.05, 0.05, 0.01, 0.5]), astep=rng.choice([0.1, 0.2]),
             lin=rng.random() < 0.2)
    if start == 'near':
        d['g'] = (float(x0 + rng.uniform(-0.6, 0.6)), float(y0 + rng.uniform(-0.6, 0.6)),
                  float((pa + rng.uniform(-0.08, 0.08)) % math.pi),
                  float(min(max(eps + rng.uniform(-0.05, 0.05), 0.02), 0.9)))
        # fixed parameters stay at the truth
        g = list(d['g'])
        if fixes[0]:
            g[0], g[1] = d['truth'][0], d['truth'][1]
        if fixes[1]:
            g[2] = d['truth'][2]
        if fixes[2]:
            g[3] = d['truth'][3]
        d['g'] = tuple(g)
    else:
        d['g'] = d['truth']
    return d


def gtuple(g):
    return (float(g.x0), float(g.y0), float(g.pa), float(g.eps))


def run_fit_case(c):
    """Run the real EllipseFitter.fit with every iteration recorded."""
    import photutils.isophote.fitter as fit
    import photutils.isophote.integrator as im
    from photutils.isophote.sample import EllipseSample
    prof = make_profile(c['law'], c['i0'], c['scale'], c['truth'], c['lattice'])
    img = np.zeros(c['shape'])
    real_bl = im.INTEGRATORS['bilinear']

    class Analytic(real_bl):
        """The positions are those of the real bilinear integrator; the intensity is the galaxy itself."""

        def integrate(self, radius, phi):
            self._r = radius
            x_ = radius * math.cos(phi + self._geometry.pa) + self._geometry.x0
            y_ = radius * math.sin(phi + self._geometry.pa) + self._geometry.y0
            self._store_results(phi, radius, prof(x_, y_))

    recs = []
    fflag = fit.DEFAULT_FFLAG
    real_harm = fit.fit_first_and_second_harmonics
    real_hfun = fit.first_and_second_harmonic_function
    real_corr = list(fit._CORRECTORS)
    real_check = fit.EllipseFitter.__dict__['_check_conditions']
    proxy = _MathProxy()
    saved_math = fit.math
    x0, y0, pa, eps = c['g']
    state = {}

    def rec_harm(phi, intens):
        cur = state['cur']
        r = dict(area=float(cur.sector_area), fewpts=bool(cur.actual_points < cur.total_points * fflag),
                 grad=cur.gradient, g=gtuple(cur.geometry), fitfail=False, n=int(len(intens)))
        recs.append(r)
        try:
            out = real_harm(phi, intens)
        except Exception:
            r['fitfail'] = True
            raise
        r['coeffs'] = [float(v) for v in out[0]]
        r['std'] = float(np.std(intens - real_hfun(phi, out[0])))
        return out

    class RecCorr:
        def __init__(self, k, inner):
            self.k, self.inner = k, inner

        def correct(self, sample, harmonic):
            r = recs[-1]
            n0 = len(proxy.log)
            new = self.inner.correct(sample, harmonic)
            log = proxy.log[n0:]
            sn = [v for (f, a, v) in log if f == 'sin']
            cs = [v for (f, a, v) in log if f == 'cos']
            r.update(k=self.k, harm=float(harmonic), cgrad=sample.gradient, sin=sn[0] if sn else None,
                     cos=cs[0] if cs else None, gc=gtuple(new.geometry), same_sample=sample is state['cur'])
            state['cur'] = new
            return new

    def rec_check(sample, maxgerr, going_inwards, lexceed):
        ge, gre, gr = sample.gradient_error, sample.gradient_relative_error, sample.gradient
        ok = bool(ge and gre)
        recs[-1]['grad_ok'] = ok
        recs[-1]['grad_bad'] = bool(ok and (gre > maxgerr or gr >= 0.0))
        return real_check.__func__(sample, maxgerr, going_inwards, lexceed)

    out = dict(exc=None)
    im.INTEGRATORS['bilinear'] = Analytic
    fit.fit_first_and_second_harmonics = rec_harm
    fit._CORRECTORS[:] = [RecCorr(k, cc) for k, cc in enumerate(real_corr)]
    fit.EllipseFitter._check_conditions = staticmethod(rec_check)
    fit.math = proxy
    try:
        sample = EllipseSample(img, c['sma'], x0=x0, y0=y0, astep=c['astep'], eps=eps, position_angle=pa,
                               linear_growth=c['lin'], integrmode='bilinear')
        sample.geometry.fix = np.array([c['fixes'][0], c['fixes'][0], c['fixes'][1], c['fixes'][2]])
        state['cur'] = sample
        with warnings.catch_warnings():
            warnings.simplefilter('ignore')
            with np.errstate(all='ignore'):
                iso = fit.EllipseFitter(sample).fit(conver=c['conver'], minit=c['minit'], maxit=c['maxit'],
                                                    going_inwards=c['inwards'])
        out.update(code=int(iso.stop_code), valid=bool(iso.valid), niter=int(iso.niter),
                   res=gtuple(iso.sample.geometry), sma=float(iso.sample.geometry.sma))
    except Exception as e:
        import traceback
        tb = traceback.extract_tb(e.__traceback__)[-1]
        out['exc'] = f'{type(e).__name__}: {e} ({tb.filename.split("/")[-1]}:{tb.lineno})'
    finally:
        im.INTEGRATORS['bilinear'] = real_bl
        fit.fit_first_and_second_harmonics = real_harm
        fit._CORRECTORS[:] = real_corr
        fit.EllipseFitter._check_conditions = real_check
        fit.math = saved_math
    out['recs'] = recs
    out['consts'] = (float(fit.MAX_EPS), float(fit.MIN_EPS), float(fit.PI2), float(np.pi))
    return out


def fit_term(c, ob):
    maxe, mine, pi2, pi_ = ob['consts']
    hs = []
    for r in ob['recs']:
        pa = r['g'][2]
        grad = r['grad'] if r['grad'] is not None else 0.0
        hs.append((False, bool(r['fitfail']), [dy(v) for v in r.get('coeffs', [0.0] * 5)[1:]], dy(r.get('std', 0.0)),
                   dy(r['area']), bool(r['fewpts']), dy(grad),
                   dy(r['sin'] if r.get('sin') is not None else math.sin(pa)),
                   dy(r['cos'] if r.get('cos') is not None else math.cos(pa)),
                   bool(r.get('grad_ok', True)), bool(r.get('grad_bad', False))))
    return coq(((dy(c['conver']), dy(maxe), dy(mine), dy(pi2), dy(pi_), dy(c['sma']), dy(float(c['shape'][1])),
                 dy(float(c['shape'][0]))),
                (bool(c['fixes'][0]), bool(c['fixes'][1]), bool(c['fixes'][2]), bool(c['inwards'])), int(c['minit']), hs,
                tuple(dy(v) for v in c['g']), (int(ob['code']), bool(ob['valid']), tuple(dy(v) for v in ob['res'])),
                pos(FIT_BITS)))


def justified_drift(c, ob):
    """Sum over the iterations of the |correction| the recorded harmonic produces (plain Python, the formulas
    of the property's mechanism), per parameter (x, y, pa, eps)."""
    d = [0.0, 0.0, 0.0, 0.0]
    for r in ob['recs']:
        if 'k' not in r or not r.get('cgrad'):
            continue
        h, g = abs(r['harm']), abs(r['cgrad'])
        eps = r['g'][3]
        if r['k'] == 0:
            a = h * (1 - eps) / g
            d[0] += a
            d[1] += a
        elif r['k'] == 1:
            a = h / g
            d[0] += a
            d[1] += a
        elif r['k'] == 2:
            d[2] += abs(h * 2 * (1 - eps) / c['sma'] / g / ((1 - eps) ** 2 - 1))
        else:
            d[3] += abs(h * 2 * (1 - eps) / c['sma'] / g)
    return d


def describe_fit(c):
    return {k: (list(v) if isinstance(v, tuple) else v) for k, v in c.items()}


# --------------------------------------------------------------------------
def _detail(ctx, fn, term, tag):
    try:
        return ctx.coq_eval_term(IMPORTS, f'{fn} {term}', tag=tag)
    except Exception as e:      # diagnostics only
        return repr(e)[:300]


def run_harmonics_correspondence(ctx, n_cases):
    """Returns a dict of counts; disagreements are reported through ctx.violation."""
    rng = random.Random((int(ctx.seed) + 1) * 1000003 + 0xC20)
    out = {'ls_cases': 0, 'ls_full': 0, 'ls_exact_data': 0, 'ls_disagreements': 0, 'ls_leastsq_errors': 0,
           'corr_cases': 0, 'corr_exact': 0, 'corr_disagreements': 0,
           'fit_cases': 0, 'fit_at_truth': 0, 'fit_iterations': 0, 'fit_disagreements': 0, 'fit_skipped_nonfinite': 0,
           'truth_fixed_point_checked': 0, 'truth_fixed_point_violations': 0}
    n_ls = max(16, int(n_cases * 0.55))
    n_corr = max(16, int(n_cases * 0.37))
    n_fit = max(6, int(n_cases * 0.08))

    # ---------------- ls ----------------
    terms, kept = [], []
    n_full = max(4, n_ls // 16)
    for _ in range(n_ls):
        c = gen_ls_case(rng)
        rows, y, co, err, protocol_ok = run_ls_case(c)
        ctx.stat('harmonics', 'angles:' + c['akind'])
        ctx.stat('harmonics', 'data:' + c['dkind'])
        ctx.stat('harmonics', 'function:' + c['which'])
        ctx.stat('harmonics', 'n:' + ('5' if len(y) == 5 else '6-10' if len(y) <= 10 else '>10'))
        ctx.count_case(('harmonics', describe_ls(c)), nontrivial=True)
        if err is not None:
            out['ls_leastsq_errors'] += 1
            ctx.violation('correspondence:C20H_Model:leastsq-raises',
                          'the harmonic fit raised on a full-rank design with finite dyadic data: ' + err,
                          {'case': describe_ls(c)}, found_input=False)
            continue
        if not protocol_ok:
            ctx.violation('correspondence:C20H_Model:harmonic-protocol',
                          'the harmonic function did not evaluate sin/cos at phi and 2*phi (order*phi for the upper '
                          'harmonic): the design matrix of the model cannot be recorded', {'case': describe_ls(c)},
                          found_input=False)
            continue
        # the FULL check (Coq inverts the Gram matrix of 53-bit rationals: ~8 s per case) on a subset
        full = n_full > 0 and (c['which'] != 'first_second' or len(y) <= 8)
        try:
            t = ls_term(c, rows, y, co, full)
        except ZeroDivisionError:
            ctx.stat('harmonics', 'skipped:singular-design')
            continue
        except ValueError:
            ctx.violation('correspondence:C20H_Model:non-finite', 'the harmonic fit returned a non-finite coefficient',
                          {'case': describe_ls(c), 'impl': repr(co)}, found_input=False)
            continue
        n_full -= full
        out['ls_full'] += full
        out['ls_cases'] += 1
        out['ls_exact_data'] += c['dkind'] in ('constant', 'harmonic')
        terms.append(t)
        kept.append((c, y, co))
    bad = ctx.coq_eval_cases(IMPORTS, 'check_ls_case', terms, case_type='ls_case', tag='c20h_ls')
    out['ls_disagreements'] = len(bad)
    for i in bad[:8]:
        c, y, co = kept[i]
        detail = {'case': describe_ls(c), 'data': y, 'impl_coefficients': co,
                  'model (solution, gradient at impl, tolerance)': _detail(ctx, 'ls_model_out', terms[i], 'c20h_ls_detail')}
        scale = max(abs(v) for v in y) + 1e-300
        if c['dkind'] == 'constant' and max(abs(v) for v in co[1:]) > 1e-6 * scale:
            ctx.violation('fit_harmonics:constant-ring-nonzero-amplitude',
                          'a ring of constant intensity (an exact isophote) gets a non-zero harmonic amplitude: the fit '
                          'would move away from the true geometry', detail)
        elif c['dkind'] == 'harmonic' and max(abs(a - float(b)) for a, b in zip(co, c['cstar'])) > 1e-6 * (
                1 + sum(abs(float(b)) for b in c['cstar'])) and c['akind'] != 'clustered':
            ctx.violation('fit_harmonics:harmonic-data-not-recovered',
                          'data generated by the harmonic function itself are not fitted by their own coefficients',
                          detail)
        else:
            ctx.violation('correspondence:C20H_Model.check_ls_case',
                          'the coefficients returned by the harmonic fit do not satisfy the normal equations of the '
                          'recorded design within the leastsq tolerance / differ from the exact solution by more than '
                          'the conditioning allows', detail, found_input=False)
    if kept:
        c, y, co = kept[-1]
        ctx.sample({'c20h_harmonics_case': describe_ls(c), 'impl': co}, limit=8)

    # ---------------- corr ----------------
    terms, kept = [], []
    for _ in range(n_corr):
        c = gen_corr_case(rng)
        try:
            ob = run_corr_case(c)
        except Exception as e:
            ctx.violation('correspondence:C20H_Model:corrector-raises', 'corrector.correct raised ' + repr(e)[:200],
                          {'case': c}, found_input=False)
            continue
        ctx.stat('corrector', 'k:' + str(c['k']))
        ctx.stat('corrector', 'kind:' + c['kind'])
        ctx.stat('corrector', 'exact' if c['exact'] else 'relative-2^-40')
        ctx.count_case(('corrector', c), nontrivial=True)
        out['corr_cases'] += 1
        out['corr_exact'] += c['exact']
        if not ob['args_ok'] or ob['sma'] != c['sma']:
            ctx.violation('correspondence:C20H_Model:corrector-protocol',
                          'a corrector evaluated sin/cos at something else than geometry.pa / changed the sma',
                          {'case': c}, found_input=False)
            continue
        for sig, msg in corr_oracle(c, ob):
            ctx.violation('EllipseFitter.corrector:' + sig, msg, {'mode': 'corrector', 'case': c})
        try:
            terms.append(corr_term(c, ob))
        except ValueError:
            ctx.violation('correspondence:C20H_Model:non-finite', 'a corrector returned a non-finite geometry',
                          {'case': c, 'impl': ob['res']}, found_input=False)
            continue
        kept.append((c, ob))
    bad = ctx.coq_eval_cases(IMPORTS, 'check_corr_case', terms, case_type='corr_case', tag='c20h_corr')
    out['corr_disagreements'] = len(bad)
    for i in bad[:8]:
        c, ob = kept[i]
        ctx.violation('correspondence:C20H_Model.check_corr_case',
                      'the geometry returned by a real corrector differs from the transcribed formula',
                      {'case': c, 'sin': ob['sin'], 'cos': ob['cos'], 'impl (x0, y0, pa, eps)': ob['res'],
                       'model': _detail(ctx, 'corr_model_out', terms[i], 'c20h_corr_detail')}, found_input=False)
    if kept:
        c, ob = kept[-1]
        ctx.sample({'c20h_corrector_case': c, 'impl': ob['res']}, limit=8)

    # ---------------- fit ----------------
    terms, kept = [], []
    for _ in range(n_fit):
        c = gen_fit_case(rng)
        ob = run_fit_case(c)
        ctx.stat('fit', 'start:' + c['start'])
        ctx.stat('fit', 'fix:' + ''.join('1' if f else '0' for f in c['fixes']))
        ctx.stat('fit', 'ring:' + ('lattice-constant' if c['lattice'] else 'binary64-noise'))
        ctx.count_case(('fit', describe_fit(c)), nontrivial=True)
        if ob['exc'] is not None:
            ctx.violation('EllipseFitter.fit:raises', 'EllipseFitter.fit raised on an exactly elliptical galaxy: ' + ob['exc'],
                          {'mode': 'fit', 'case': describe_fit(c)})
            continue
        ctx.stat('fit', 'stop_code:' + str(ob['code']))
        ctx.stat('fit', 'iterations:' + ('1' if ob['niter'] == 1 else '2-10' if ob['niter'] <= 10 else '>10'))
        protocol = (len(ob['recs']) == ob['niter'] and all(r.get('same_sample', True) for r in ob['recs'])
                    and all(r.get('cgrad', r['grad']) == r['grad'] for r in ob['recs']) and ob['sma'] == c['sma'])
        if not protocol:
            ctx.violation('correspondence:C20H_Model:fit-protocol',
                          'EllipseFitter.fit does not follow the recorded protocol (one harmonic fit per iteration on the '
                          'current sample, corrector applied to it with the gradient of that iteration, sma unchanged)',
                          {'case': describe_fit(c), 'niter': ob['niter'], 'records': len(ob['recs'])}, found_input=False)
            continue
        try:
            t = fit_term(c, ob)
        except (ValueError, TypeError):
            out['fit_skipped_nonfinite'] += 1
            continue
        out['fit_cases'] += 1
        out['fit_iterations'] += ob['niter']
        terms.append(t)
        kept.append((c, ob))
        # the C20 clause, directly: started at the truth, the truth is returned
        if c['start'] == 'truth':
            out['fit_at_truth'] += 1
            out['truth_fixed_point_checked'] += 1
            drift = justified_drift(c, ob)
            tol = [2 * drift[0] + 1e-9, 2 * drift[1] + 1e-9, 2 * drift[2] + 1e-9, 2 * drift[3] + 1e-9]
            dev = [abs(a - b) for a, b in zip(ob['res'], c['truth'])]
            dev[2] = min(dev[2], abs(dev[2] - math.pi))
            moved = [i for i in range(4) if dev[i] > tol[i]]
            amp = max([abs(v) for r in ob['recs'] for v, m in zip(r.get('coeffs', [0] * 5)[1:],
                                                                 (c['fixes'][0], c['fixes'][0], c['fixes'][1], c['fixes'][2]))
                       if not m] + [0.0])
            mean = max(abs(ob['recs'][0].get('coeffs', [1.0])[0]), 1e-300) if ob['recs'] else 1.0
            ctx.stat('fit', 'truth:max|amplitude|/mean ' + ('<=1e-12' if amp <= 1e-12 * mean else '<=1e-7' if amp <= 1e-7 * mean else '>1e-7'))
            if moved or not ob['valid'] or ob['code'] == 3 or amp > 1e-6 * mean:
                out['truth_fixed_point_violations'] += 1
                ctx.violation('EllipseFitter.fit:truth-not-a-fixed-point',
                              'started AT the true geometry of an exactly elliptical noise-free galaxy, fit() '
                              + ('returns an invalid isophote / stop code 3' if (not ob['valid'] or ob['code'] == 3) else
                                 f'finds a harmonic amplitude {amp:.3g} (mean {mean:.3g}) on the true ellipse' if not moved else
                                 f'returns a geometry that differs from the truth in {[("x0","y0","pa","eps")[i] for i in moved]}: '
                                 f'deviation {dev}, justified by the recorded harmonics {tol}'),
                              {'mode': 'fit', 'case': describe_fit(c), 'returned': ob['res'], 'stop_code': ob['code'],
                               'niter': ob['niter']})
    bad = ctx.coq_eval_cases(IMPORTS, 'check_fit_case', terms, case_type='fit_case', tag='c20h_fit')
    out['fit_disagreements'] = len(bad)
    for i in bad[:6]:
        c, ob = kept[i]
        ctx.violation('correspondence:C20H_Model.check_fit_case',
                      'EllipseFitter.fit: stop code / validity / returned geometry differ from the model loop run on the '
                      'recorded per-iteration numerics',
                      {'case': describe_fit(c), 'impl': {'stop_code': ob['code'], 'valid': ob['valid'], 'geometry': ob['res'],
                                                         'niter': ob['niter']},
                       'iterations': [{k: r.get(k) for k in ('g', 'coeffs', 'std', 'area', 'grad', 'k', 'harm', 'gc', 'fewpts',
                                                              'grad_ok', 'grad_bad')} for r in ob['recs'][:6]],
                       'model (stop_code, valid, geometry)': _detail(ctx, 'fit_model_out', terms[i], 'c20h_fit_detail')},
                      found_input=False)
    if kept:
        c, ob = kept[-1]
        ctx.sample({'c20h_fit_case': describe_fit(c), 'impl': {'stop_code': ob['code'], 'geometry': ob['res'],
                                                                'niter': ob['niter']}}, limit=8)
    for k, v in out.items():
        ctx.stat('c20h_totals', k, v)
    ctx.support('truth_is_fixed_point_of_real_fit', out['truth_fixed_point_checked'])
    return out


def replay(obj):
    """Replay of a found_input violation of this helper (mode 'fit' / 'corrector')."""
    r = obj['replay']
    c = r['case']
    if r.get('mode') == 'corrector':
        ob = run_corr_case(c)
        bad = corr_oracle(c, ob)
        print('impl:', ob['res'])
    else:
        c = dict(c)
        for k in ('shape', 'truth', 'g', 'fixes'):
            c[k] = tuple(c[k])
        ob = run_fit_case(c)
        print('impl:', {k: ob.get(k) for k in ('code', 'valid', 'niter', 'res', 'exc')})
        bad = []
        if ob['exc'] is not None:
            bad.append(ob['exc'])
        elif c['start'] == 'truth':
            drift = justified_drift(c, ob)
            dev = [abs(a - b) for a, b in zip(ob['res'], c['truth'])]
            dev[2] = min(dev[2], abs(dev[2] - math.pi))
            bad = [i for i in range(4) if dev[i] > 2 * drift[i] + 1e-9]
            if not ob['valid'] or ob['code'] == 3:
                bad.append('invalid')
    print('property holds on this input' if not bad else f'property FAILS on this input: {bad[:3]}')
    return 0 if not bad else 1


def main(argv=None):
    """Standalone: python -m harness.c20h [n_cases] [seed]  (private pid C20H; VERIF_REPO selects the tree)."""
    import json
    import sys
    from . import core
    argv = sys.argv[1:] if argv is None else argv
    n = int(argv[0]) if argv else 150
    seed = int(argv[1]) if len(argv) > 1 else 0
    core.setup_repo_path()
    ctx = core.Ctx('C20H', 'quick', seed)
    ok, log, missing = core.build_files(['lib/Cases.v', 'C20_Model.v', 'C20H_Model.v'])
    if missing:
        print(log[-2000:])
        return 2
    import time
    t0 = time.time()
    out = run_harmonics_correspondence(ctx, n)
    print(json.dumps({'result': out, 'seconds': round(time.time() - t0, 1),
                      'distribution': ctx.cov['correspondence']}, indent=1))
    for v in ctx.violations:
        print('VIOLATION', v)
    return 1 if ctx.violations else 0


if __name__ == '__main__':
    raise SystemExit(main())
