"""Entry point: python -m harness.main <ID> [--tier T] [--replay FILE]"""
import argparse
import importlib
import json
import os
import sys
import traceback

from . import core


def main():
    ap = argparse.ArgumentParser()
    ap.add_argument('pid')
    ap.add_argument('--tier', default=os.environ.get('VERIF_TIER', 'quick'))
    ap.add_argument('--replay')
    a = ap.parse_args()
    tier = a.tier if a.tier in ('quick', 'thorough') else 'quick'
    seed = int(os.environ.get('VERIF_SEED', '0') or 0)
    core.setup_repo_path()
    mod = importlib.import_module(f'harness.{a.pid.lower()}')
    if a.replay:
        obj = json.load(open(a.replay))
        rc = mod.replay(obj)
        sys.exit(rc)
    ctx = core.Ctx(a.pid, tier, seed)
    try:
        mod.run(ctx)
    except Exception as e:  # the harness itself failed: fail closed
        tb = traceback.format_exc()
        print(tb, file=sys.stderr)
        ctx.violation('harness-error:' + type(e).__name__, 'check could not complete: ' + str(e)[:200],
                      {'traceback': tb[-3000:]}, found_input=False)
    sys.exit(ctx.finish())


if __name__ == '__main__':
    main()
