"""C20 — isophote fitting: sma schedule / control skeleton of Ellipse.fit_image driven by
an oracle stream of fit outcomes, scalar/array polar-transform twins, fixed-parameter
masking in EllipseFitter.fit.  Recovery of the geometry (numerics of an iterative fitter)
is only *tested* (ctx.support), not proved."""
import math
import warnings

import numpy as np

from .core import coq, Some, Raw

PID = 'C20'
FILES = ['lib/Cases.v', 'C20_Model.v', 'C20_Proofs.v', 'C20_Properties.v']
IMPORTS = ['C20_Model']


# --------------------------------------------------------------------------
# floats <-> (m, e)
# --------------------------------------------------------------------------
def fl(x):
    """Exact (m, e) with x == m * 2**e, |m| < 2**53."""
    x = float(x)
    if x == 0.0:
        return (0, 0)
    if not math.isfinite(x):
        raise ValueError('non-finite float in a case')
    m, e = math.frexp(x)
    m = int(m * (1 << 53))
    e -= 53
    while m % 2 == 0:
        m //= 2
        e += 1
    return (m, e)


def ofl(x):
    return None if x is None else Some(fl(x))


# --------------------------------------------------------------------------
# images
# --------------------------------------------------------------------------
def galaxy(ny, nx, x0, y0, eps, pa, law, scale, i0=1000.0):
    """Noise-free image with concentric elliptical isophotes, sampled at pixel centres."""
    y, x = np.mgrid[0:ny, 0:nx].astype(float)
    dx, dy = x - x0, y - y0
    xr = dx * math.cos(pa) + dy * math.sin(pa)
    yr = -dx * math.sin(pa) + dy * math.cos(pa)
    r = np.sqrt(xr ** 2 + (yr / (1.0 - eps)) ** 2)
    return radial(law, scale, i0)(r)


def radial(law, scale, i0=1000.0):
    if law == 'gauss':
        return lambda r: i0 * np.exp(-0.5 * (r / scale) ** 2)
    n = {'sersic1': 1.0, 'sersic2': 2.0, 'sersic4': 4.0}[law]
    b = 2.0 * n - 1.0 / 3.0
    return lambda r: i0 * np.exp(-b * ((r / scale) ** (1.0 / n) - 1.0))


_SCRIPT_IMG = None


def script_image():
    global _SCRIPT_IMG
    if _SCRIPT_IMG is None:
        _SCRIPT_IMG = galaxy(48, 48, 24.0, 24.0, 0.2, 0.5, 'sersic1', 8.0)
    return _SCRIPT_IMG


# --------------------------------------------------------------------------
# running the real fit_image with an instrumented fitter
# --------------------------------------------------------------------------
class _Starved(Exception):
    pass


class _CallCap(Exception):
    pass


KINDS = ['returned', 'IndexError', 'stream-exhausted', 'call-cap', 'other-exception']
TOKEN_X0, TOKEN_SCALE = 24.0, 256.0   # scripted runs: geometry.x0 = 24 + (call number)/256 (script image centre: 24)
SMA_CAP = 1.0e4         # a run whose sma passes this is cut as well (sampling there takes forever)
CALL_CAP = 250          # fit_isophote calls per fit_image run; the model's fuel is 400 per loop


def run_fit_image(image, geom_args, kwargs, script=None, minit=10, record_steps=False, gfix=None, gmode=None,
                  second=None):
    """Run the real Ellipse.fit_image.  `script` = list of (stop_code, valid): the
    EllipseFitter is replaced by an oracle that returns these outcomes in turn
    (everything else — fit_image, fit_isophote, _non_iterative, _fix_last_isophote,
    EllipseSample, Isophote, IsophoteList.sort — is the real code).  With script=None the
    real fitter runs and its outcomes are recorded.  `second` = (kwargs, script) of a SECOND fit_image call on
    the same Ellipse object (its observation is returned under 'second').
    Returns dict(kind, isos, calls, stream, steps, geometry)."""
    import photutils.isophote.ellipse as ell
    import photutils.isophote.fitter as fit
    from photutils.isophote.geometry import EllipseGeometry
    from photutils.isophote.isophote import Isophote

    calls, stream, steps, fixflags = [], [], [], []
    pending = list(script) if script is not None else None
    real_fitter = ell.EllipseFitter

    class OracleFitter:
        def __init__(self, sample):
            self._sample = sample

        def fit(self, **kw):
            # the fix flags every fitter call receives (geometry.fix of the sample it is handed)
            fixflags.append(('fitter', float(self._sample.geometry.sma),
                             tuple(bool(v) for v in self._sample.geometry.fix)))
            if pending is not None:
                if not pending:
                    raise _Starved()
                code, valid = pending.pop(0)
                # the scripted "fit" stamps the geometry with the number of this fit_isophote call (an exact
                # dyadic shift of x0), so that the provenance of every returned geometry is observable:
                # non-iterative / central / repaired isophotes must carry a COPY of the right isophote's geometry
                self._sample.geometry.x0 = TOKEN_X0 + len(calls) / TOKEN_SCALE
                self._sample.update(self._sample.geometry.fix)
                iso = Isophote(self._sample, 1, valid, code)
            else:
                iso = real_fitter(self._sample).fit(**kw)
            stream.append((int(iso.stop_code), bool(iso.valid)))
            return iso

    class RecEllipse(ell.Ellipse):
        def fit_isophote(self, sma, *a, **kw):
            mi = a[2] if len(a) > 2 else kw.get('minit', fit.DEFAULT_MINIT)
            if len(calls) >= CALL_CAP or sma > SMA_CAP:
                raise _CallCap()
            calls.append((float(sma), bool(kw.get('noniterate', False)),
                          bool(kw.get('going_inwards', False)), mi == 2 * minit))
            return super().fit_isophote(sma, *a, **kw)

    # fitter instrumentation: which corrector is applied to which harmonic
    last = {}
    real_harm = fit.fit_first_and_second_harmonics
    real_corr = list(fit._CORRECTORS)

    def rec_harm(phi, intens):
        r = real_harm(phi, intens)
        last['coeffs'] = [float(v) for v in r[0]]
        return r

    def gtuple(g):
        return (float(g.x0), float(g.y0), float(g.pa), float(g.eps))

    class RecCorr:
        def __init__(self, k, inner):
            self.k, self.inner = k, inner

        def correct(self, sample, harmonic):
            before = gtuple(sample.geometry)
            fixm = [bool(v) for v in sample.geometry.fix]
            new = self.inner.correct(sample, harmonic)
            steps.append(dict(k=self.k, fix=fixm, g=before, coeffs=list(last['coeffs'][1:]),
                              harm=float(harmonic), gc=gtuple(new.geometry), new=new))
            return new

    real_check = fit.EllipseFitter.__dict__['_check_conditions']

    def rec_check(sample, *a, **kw):
        r = real_check.__func__(sample, *a, **kw)
        # geometry after the eps-sign / eps-zero normalisation of this very step (the sample object
        # may be modified later by Isophote.fix_geometry, so it is read now)
        if steps and steps[-1].get('new') is sample:
            steps[-1]['gn'] = gtuple(sample.geometry)
        return r

    # a fix request may also be carried by the geometry: constructor flags or the .fix attribute.  A fresh
    # geometry / Ellipse is built for every run (fit_image overrides the instance "for good")
    if gmode == 'ctor':
        geometry = EllipseGeometry(*geom_args, fix_center=gfix[0], fix_pa=gfix[1], fix_eps=gfix[2])
    else:
        geometry = EllipseGeometry(*geom_args)
        if gmode == 'attr':
            geometry.fix = np.array([gfix[0], gfix[0], gfix[1], gfix[2]])
    img0 = image.copy()
    ell.EllipseFitter = OracleFitter
    if record_steps:
        fit.fit_first_and_second_harmonics = rec_harm
        fit._CORRECTORS[:] = [RecCorr(k, c) for k, c in enumerate(real_corr)]
        fit.EllipseFitter._check_conditions = staticmethod(rec_check)
    ellipse = RecEllipse(image, geometry)

    def one_call(kwargs_, script_):
        nonlocal calls, stream, fixflags, pending
        calls, stream, fixflags = [], [], []
        pending = list(script_) if script_ is not None else None
        kind, isos, isolist, exc, geoms = 0, [], None, None, []
        try:
            with warnings.catch_warnings():
                warnings.simplefilter('ignore')
                with np.errstate(all='ignore'):
                    isolist = ellipse.fit_image(minit=minit, **kwargs_)
            isos = [(float(i.sma), int(i.stop_code), bool(i.valid)) for i in isolist]
            if pending is not None:
                geoms = [(float(i.sample.geometry.x0) - TOKEN_X0) * TOKEN_SCALE for i in isolist]
                if any(g != int(g) for g in geoms):
                    raise RuntimeError(f'geometry token not recovered exactly: {geoms}')
                geoms = [int(g) for g in geoms]
            else:
                geoms = [-1] * len(isos)             # real fitter: provenance checked by fixed_geometry_oracle
            # ... and the flags every returned isophote carries (non-iterative ones never see a fitter)
            fixflags += [('isophote', float(i.sma), tuple(bool(v) for v in i.sample.geometry.fix))
                         for i in isolist if i.sma > 0]
        except IndexError:
            kind = 1
        except _Starved:
            kind = 2
        except _CallCap:
            kind = 3
        except RuntimeError:
            raise
        except Exception as e:                       # anything else escaping from fit_image
            import traceback
            tb = traceback.extract_tb(e.__traceback__)[-1]
            kind, exc = 4, f'{type(e).__name__}: {e} ({tb.filename.split("/")[-1]}:{tb.lineno} {tb.name})'
        return dict(kind=kind, isos=isos, geoms=geoms, calls=calls, stream=stream, exc=exc, fixflags=fixflags,
                    isolist=isolist, untouched=bool(np.array_equal(image, img0)))

    try:
        first = one_call(kwargs, script)
        if second is not None:
            first['second'] = one_call(*second)
    finally:
        ell.EllipseFitter = real_fitter
        fit.fit_first_and_second_harmonics = real_harm
        fit._CORRECTORS[:] = real_corr
        fit.EllipseFitter._check_conditions = real_check
    steps = [s for s in steps if 'gn' in s]        # a step whose update() raised has no 'gn'
    for s in steps:
        s.pop('new')
    first.update(steps=steps, geometry=geometry)
    return first


# --------------------------------------------------------------------------
# schedule cases
# --------------------------------------------------------------------------
def gen_sched(rng, allow_second=True, geom_lin=None):
    """Parameters of one scripted fit_image run (control skeleton under an adversarial
    oracle stream).  `geom_lin`: geometry.linear_growth left by an earlier call on the same Ellipse (used
    when this call passes linear=None)."""
    lin_arg = rng.random() < 0.7
    lin = rng.random() < 0.4
    if geom_lin is not None and not lin_arg:
        lin = geom_lin
    if lin:
        step = rng.choice([0.5, 1.0, 1.5, 2.0, 0.7, 3.0])
    else:
        step = rng.choice([0.1, 0.1, 0.2, 0.25, 0.5, 1.0, 0.05, 0.3])
    sma0 = rng.choice([2.0, 3.0, 4.0, 5.0, 0.6, 1.0, 1.1, 6.5, 8.0, 10.0])
    r = rng.random()
    if r < 0.35:
        minsma = 0.0
    elif r < 0.5:                                   # first inward step lands at/below minsma
        first_in = sma0 - step if lin else sma0 / (1.0 + step)
        minsma = rng.choice([first_in, (first_in + sma0) / 2, sma0, first_in - 0.01])
    else:
        minsma = rng.choice([0.3, 0.5, 1.0, 1.5, 2.0, sma0 / 2, sma0 * 0.9])
    minsma = max(minsma, 0.0) if rng.random() < 0.9 else minsma
    r = rng.random()
    if r < 0.25:
        maxsma = None
    elif r < 0.3:
        maxsma = 0.0                                # falsy
    else:
        maxsma = rng.choice([sma0, sma0 * 1.05, sma0 + 1, sma0 * 2, sma0 * 3, 12.0, 20.0, sma0 + step])
    maxrit = None if rng.random() < 0.7 else rng.choice([0.0, sma0 * 0.5, sma0 * 1.2, sma0 * 2, 3.0])
    if maxrit and not maxsma and rng.random() < 0.97:
        # maxrit without a (truthy) maxsma: beyond maxrit nothing is fitted and nothing can fail, so
        # the real outward loop never ends (observation, see run()); generated rarely and cut by CALL_CAP
        maxrit = None
    # oracle stream: mostly real outcomes, sometimes adversarial
    n = rng.choice([0, 1, 2, 3, 5, 8, 12, 20, 30])
    adv = rng.random() < 0.25
    stream = []
    style = rng.choice(['good', 'mixed', 'fail-late', 'bad'])
    for k in range(n):
        if k == 0 and rng.random() < 0.6:
            stream.append((0, True))                # most runs get past the very first fit
            continue
        if adv:
            # outcomes no real fitter produces (invalid with a code other than 3, codes 4/5/-2): the
            # skeleton then pops / repairs isophotes other than the one just fitted
            stream.append((rng.choice([-2, -1, -1, 0, 0, 0, 1, 2, 3, 4, 5]), rng.random() < 0.6))
            continue
        p = {'good': 0.03, 'mixed': 0.3, 'fail-late': 0.6 if k > n // 2 else 0.0, 'bad': 0.7}[style]
        if rng.random() < p:
            stream.append(rng.choice([(-1, True), (-1, True), (1, True), (1, True), (2, True), (3, False)]))
        else:
            stream.append(rng.choice([(0, True), (0, True), (0, True), (2, True)]))
    # most scripts get a tail that lets the run END (so that the returned list, and not only the call
    # sequence, is compared): failures stop the outward loop and let the inward one run down to minsma;
    # with a truthy maxsma a tail of successes ends as well.  The rest starve the oracle.
    r = rng.random()
    pad = []
    if r < 0.45:
        pad = [(-1, True)] * 70
    elif r < 0.7 and maxsma:
        pad = [(rng.choice([0, 0, 2]), True)] * 70
    if not maxsma:
        # without a (truthy) maxsma the growth stops only on failures: keep the largest reachable sma
        # below ~300 pixels (every scripted outcome still samples the real image at that radius)
        a0 = sma0 if sma0 else 7.0
        while stream and (a0 + len(stream) * step if lin else a0 * (1.0 + step) ** len(stream)) > 300.0:
            stream.pop()
    stream = stream + pad
    fixes = rng.choice([(False, False, False)] * 6 + [(True, False, False), (False, True, True),
                                                      (True, True, True)])
    use_sma0 = rng.random() < 0.8
    gsma = sma0 if not use_sma0 or rng.random() < 0.5 else 7.0
    # request channel: keywords only, or (also) flags carried by the geometry (constructor / .fix attribute)
    gfix, gmode = None, None
    if rng.random() < 0.35:
        gfix = tuple(rng.random() < 0.45 for _ in range(3))
        gmode = rng.choice(['ctor', 'attr'])
    p = dict(lin=lin, step=step, sma0=(sma0 if use_sma0 else rng.choice([None, 0.0])), gsma=gsma,
             minsma=minsma, maxsma=maxsma, maxrit=maxrit, stream=stream, fixes=fixes,
             lin_arg=lin_arg, gfix=gfix, gmode=gmode, second=None)
    # a SECOND fit_image call on the same Ellipse object, with other arguments: its result must satisfy the
    # property on its own (nothing of the first call's list, schedule, minsma/maxsma may leak into it).  What
    # the first call documents to override "for good" (geometry.fix, geometry.linear_growth) is carried over.
    if allow_second and rng.random() < 0.3:
        q = gen_sched(rng, allow_second=False, geom_lin=lin)   # linear=None: growth mode as left by call 1
        q['gsma'] = gsma                                   # the same geometry object
        # (with all three keywords set the first call returns before it touches the geometry)
        carried = tuple(p.get('gfix') or NOFIX) if all(fixes) else eff_fixes(p)
        q['gfix'], q['gmode'] = (carried if any(carried) else None), ('carried-over' if any(carried) else None)
        p['second'] = q
    return p


NOFIX = (False, False, False)


def eff_fixes(p):
    """The fix flags the call must work with (ellipse.py:400-407, C20_Model.effective_fix): the keywords
    if any keyword is set (they REPLACE the geometry's flags), else the flags carried by the geometry."""
    return tuple(p['fixes']) if any(p['fixes']) else tuple(p.get('gfix') or NOFIX)


def fix_term(p, obs):
    """Correspondence case for effective_fix: distinct geometry.fix arrays seen at fitter calls / on isophotes."""
    seen = sorted({fl_ for _, _, fl_ in obs['fixflags']})
    g = tuple(p.get('gfix') or NOFIX)
    return 'CFix ' + ' '.join(coq(v) for v in [p['fixes'][0], p['fixes'][1], p['fixes'][2],
                                               [g[0], g[0], g[1], g[2]], [list(f) for f in seen]])


def run_sched(p):
    """Scripted run: returns the observation dict."""
    lin_arg = p['lin'] if p['lin_arg'] else None
    geom_args = (24.0, 24.0, p['gsma'], 0.2, 0.5, 0.1, p['lin'])
    kw = dict(sma0=p['sma0'], minsma=p['minsma'], maxsma=p['maxsma'], step=p['step'], linear=lin_arg,
              maxrit=p['maxrit'], fix_center=p['fixes'][0], fix_pa=p['fixes'][1], fix_eps=p['fixes'][2])
    second = None
    if p.get('second'):
        q = p['second']
        second = (dict(sma0=q['sma0'], minsma=q['minsma'], maxsma=q['maxsma'], step=q['step'],
                       linear=(q['lin'] if q['lin_arg'] else None), maxrit=q['maxrit'],
                       fix_center=q['fixes'][0], fix_pa=q['fixes'][1], fix_eps=q['fixes'][2]), q['stream'])
    return run_fit_image(script_image(), geom_args, kw, script=p['stream'], gfix=p.get('gfix'), gmode=p.get('gmode'),
                         second=second)


def sched_term(p, obs, stream, repaired=True):
    res = (obs['kind'], [(fl(s), c, v, g) for (s, c, v), g in zip(obs['isos'], obs['geoms'])])
    calls = [(fl(s), ni, inw, first) for (s, ni, inw, first) in obs['calls']]
    return ('CSched ' + ' '.join(coq(v) for v in [
        repaired, p['lin'], fl(p['step']), fl(p['minsma']), ofl(p['maxsma']), ofl(p['maxrit']),
        ofl(p['sma0']), fl(p['gsma']), all(p['fixes']), [(int(c), bool(v)) for c, v in stream]])
        + ' ' + coq(res) + ' ' + coq(calls))


def sched_hyps(p, stream):
    """Premises of theorem sma_schedule."""
    a0 = p['sma0'] if p['sma0'] else p['gsma']
    return (p['step'] > 0 and a0 > 0 and p['minsma'] <= a0
            and (p['maxsma'] is None or a0 <= p['maxsma'])
            and all(v or c == 3 for c, v in stream))


def sched_oracle(p, obs):
    """The schedule clause of the property on the implementation's output.  Returns a
    list of (signature-suffix, message)."""
    if obs['kind'] != 0:
        return []
    smas = [s for s, _, _ in obs['isos']]
    a0 = p['sma0'] if p['sma0'] else p['gsma']
    bad = []
    if not smas:
        return bad
    if any(b <= a for a, b in zip(smas, smas[1:])):
        bad.append(('not-strictly-increasing', f'sma list not strictly increasing: {smas}'))
    if a0 not in smas:
        bad.append(('sma0-missing', f'sma0={a0} not in {smas}'))
    if (0.0 in smas) != (p['minsma'] == 0.0):
        bad.append(('central-isophote', f'sma 0 present={0.0 in smas} but minsma={p["minsma"]}'))
    low = [s for s in smas if s < p['minsma']]
    if low:
        bad.append(('isophote-below-minsma', f'isophote(s) at sma {low} fitted below minsma={p["minsma"]}'))
    if p['maxsma'] is not None:
        # property text: "within [minsma, maxsma]" (closed); the code itself stops strictly below maxsma,
        # which is what the model and the theorem say (a difference there is a correspondence finding)
        high = [s for s in smas if not (s <= p['maxsma'] or s == a0)]
        if high:
            bad.append(('isophote-above-maxsma', f'isophote(s) at sma {high} above maxsma={p["maxsma"]}'))
    return bad


def describe_sched(p):
    return {'mode': 'scripted', 'lin': p['lin'], 'lin_arg': p['lin_arg'], 'step': p['step'], 'sma0': p['sma0'],
            'gsma': p['gsma'], 'minsma': p['minsma'], 'maxsma': p['maxsma'], 'maxrit': p['maxrit'],
            'stream': [list(x) for x in p['stream']], 'fixes': list(p['fixes']),
            'gfix': list(p['gfix']) if p.get('gfix') else None, 'gmode': p.get('gmode'),
            'second': describe_sched(p['second']) if p.get('second') else None}


# --------------------------------------------------------------------------
# real fits
# --------------------------------------------------------------------------
def gen_real(rng, thorough=False, force=None):
    """One real fit.  `force` selects a structured family that must occur in every run:
    'maxrit' / 'offframe' (nothing fixed, first guess away from the truth, outward pass ending non-iteratively
    beyond maxrit / beyond the frame: stop-code-4 isophotes inside the model-image region),
    'large' (a 232-256 pixel frame, fitted region out to ~100 pixels, for the model image),
    'pa0' (true PA exactly 0 or pi: the fitted PAs straddle the seam, for the model image),
    'wide' / 'tall' (frame aspect 1:2-1:3 with the galaxy centre beyond the shorter dimension along the
    long axis, nothing fixed, bilinear: for the model image), 'fix-offframe' / 'fix-maxrit' / 'fix-none'
    (a fix_* request whose value differs from the truth, with an outward pass that ends non-iteratively
    beyond the frame / beyond maxrit / with maxsma=None)."""
    size = rng.choice([64, 72, 80] + ([96, 112] if thorough else []))
    if force == 'large':
        size = rng.choice([232, 256])               # fitted region reaching 80-110 pixels
    shape = rng.random()
    if force in ('wide', 'tall') or (force is None and shape > 0.6):
        # frame aspect ratios from 1:3 to 3:1
        long = int(size * rng.choice([1.5, 2.0, 2.5, 3.0] if force is None else [2.0, 2.5, 3.0]))
        tall = (force == 'tall') or (force is None and rng.random() < 0.5)
        ny, nx = (long, size) if tall else (size, long)
    else:
        ny, nx = size, size + rng.choice([0, 0, 8, -8])
    # centre anywhere well inside the frame (at least 3/8 of the short side from every edge)
    m = 0.375 * size if force != 'large' else 0.46 * size
    x0 = rng.uniform(m, nx - 1 - m)
    y0 = rng.uniform(m, ny - 1 - m)
    if force == 'wide':
        x0 = rng.uniform(ny + 4, nx - 1 - m)        # beyond min(ny, nx) along the long axis
        y0 = ny / 2 + rng.uniform(-size / 16, size / 16)
    if force == 'tall':
        y0 = rng.uniform(nx + 4, ny - 1 - m)
        x0 = nx / 2 + rng.uniform(-size / 16, size / 16)
    eps = rng.choice([0.05, 0.1, 0.2, 0.3, 0.4, 0.5, 0.6, 0.7, 0.8, rng.uniform(0.05, 0.8)])
    if force is not None:
        eps = rng.choice([0.2, 0.3, 0.4, 0.5])
    pa = rng.choice([0.0, math.pi / 2, math.pi / 4, 3 * math.pi / 4, rng.uniform(0, math.pi),
                     rng.uniform(0, math.pi), rng.uniform(0, math.pi)])
    law = rng.choice(['sersic1', 'sersic1', 'sersic2', 'sersic4', 'gauss'])
    scale = rng.uniform(size / 10, size / 5)
    lin = rng.random() < 0.35
    step = rng.choice([1.0, 1.5, 2.0]) if lin else rng.choice([0.1, 0.1, 0.15, 0.2])
    sma0 = rng.choice([6.0, 8.0, 10.0, rng.uniform(5, 12)])
    sma0 = max(sma0, 2.5 / (1.0 - eps))             # the first ellipse is itself resolved (semi-minor axis >= 2.5)
    minsma = rng.choice([0.0, 0.0, 2.0, 3.0, sma0 - 0.3, sma0 * 0.93])
    if force == 'pa0':
        pa = rng.choice([0.0, math.pi])             # major axis along the image x axis: fitted PAs straddle the 0/pi seam
    if force in ('maxrit', 'offframe'):
        scale = rng.uniform(size / 6, size / 5)     # the comparable region reaches beyond maxrit
    if force == 'large':
        # smooth, well-resolved law; few, widely spaced isophotes (the fit is the expensive part)
        law, scale = rng.choice(['sersic1', 'gauss']), rng.uniform(size / 7, size / 5.5)
        lin, step, sma0, minsma = False, 0.25, 20.0, 10.0
    if force in ('wide', 'tall', 'pa0', 'maxrit', 'offframe'):
        lin, step, minsma = False, 0.1, 0.0         # a long list, so that the model image has a region to test
    # outward pass: unbounded (ends on failures), bounded inside the frame, bounded BEYOND the frame (fits
    # fail on off-frame ellipses, the tail is extracted non-iteratively), or non-iterative beyond maxrit
    maxrit = None
    out = rng.choice(['none', 'in', 'in', 'in', 'off', 'maxrit'])
    out = {'fix-offframe': 'off', 'fix-maxrit': 'maxrit', 'fix-none': 'none', 'wide': 'in', 'tall': 'in',
           'chan-ctor': 'in', 'chan-attr': 'off', 'chan-disagree': 'in', 'pa0': 'in', 'maxrit': 'maxrit',
           'offframe': 'off', 'large': 'in'}.get(force, out)
    if out == 'none':
        maxsma = None
    elif out == 'in':
        maxsma = rng.choice([size / 4, size / 3, size / 3.5]) if force != 'large' else 0.42 * size
    elif out == 'off':
        maxsma = rng.choice([0.8, 1.0]) * size
    else:
        maxsma, maxrit = size / 3, size / 5
    fixes = rng.choice([(False, False, False)] * 4 + [(True, False, False), (False, True, False),
                                                      (False, False, True), (True, True, False),
                                                      (False, True, True), (True, False, True)])
    if force in ('wide', 'tall', 'pa0', 'maxrit', 'offframe', 'large'):
        fixes = (False, False, False)
    elif force is not None:
        fixes = rng.choice([(True, False, False), (False, True, False), (False, False, True),
                            (True, True, False), (False, True, True), (True, False, True)])
    # initial geometry within the basin of convergence
    # the basin shrinks with the semi-minor axis of the first ellipse: offsets of the centre stay below
    # a quarter of it (at most 1.5 pixel), those of the PA below what moves the tip by a quarter of it
    b0 = sma0 * (1.0 - eps)
    dmax = min(1.5, 0.25 * b0)
    amax = min(0.35, 0.25 * (1.0 - eps) / max(eps, 0.1))
    # a fixed parameter is requested either at the truth (then the other parameters must be recovered) or at
    # a value deliberately DIFFERENT from the truth (then a parameter that is silently freed visibly moves)
    off = (force is not None and force.startswith(('fix', 'chan'))) or rng.random() < 0.5

    def away(lo, hi):
        return rng.choice([-1, 1]) * rng.uniform(lo, hi)
    far = force in ('maxrit', 'offframe')           # a first guess visibly different from the truth
    if fixes[0]:
        gx, gy = (x0 + away(0.4 * dmax, dmax), y0 + away(0.4 * dmax, dmax)) if off else (x0, y0)
    elif far:
        gx, gy = x0 + away(0.4 * dmax, dmax), y0 + away(0.4 * dmax, dmax)
    else:
        gx, gy = x0 + rng.uniform(-dmax, dmax), y0 + rng.uniform(-dmax, dmax)
    if fixes[1]:
        gpa = pa + away(0.4 * amax, amax) if off else pa
    elif far:
        gpa = pa + away(0.4 * amax, amax)
    else:
        gpa = pa + rng.uniform(-amax, amax)
    if fixes[2]:
        geps = min(0.85, max(0.05, eps + away(0.04, 0.08))) if off else eps
    else:
        geps = min(0.85, max(0.05, eps + rng.uniform(-0.15, 0.15)))
    if fixes[0] and not off and rng.random() < 0.5:
        gx, gy = float(round(gx)), float(round(gy))          # exact-lattice fixed centre
        x0, y0 = gx, gy
    integr = rng.choice(['bilinear', 'bilinear', 'bilinear', 'nearest_neighbor', 'mean', 'median'])
    if force is not None:
        integr = 'bilinear'
    # REQUEST CHANNEL of the (effective) fix flags `fixes`: fit_image keywords; EllipseGeometry constructor
    # flags; geometry.fix assigned before the call; both channels agreeing; both disagreeing (the keywords
    # replace the geometry's flags, so the geometry then carries some OTHER combination)
    kw, gfix, gmode = fixes, None, None
    if any(fixes):
        chan = rng.choice(['kw', 'kw', 'ctor', 'attr', 'agree', 'disagree'])
        chan = {'chan-ctor': 'ctor', 'chan-attr': 'attr', 'chan-disagree': 'disagree'}.get(force, chan)
        if chan in ('ctor', 'attr'):
            kw, gfix, gmode = NOFIX, fixes, chan
        elif chan == 'agree':
            gfix, gmode = fixes, rng.choice(['ctor', 'attr'])
        elif chan == 'disagree':
            others = [c for c in [(True, False, False), (False, True, False), (False, False, True),
                                  (True, True, False), (False, True, True), (True, False, True)] if c != fixes]
            gfix, gmode = rng.choice(others), rng.choice(['ctor', 'attr'])
    elif rng.random() < 0.3:
        gfix, gmode = NOFIX, rng.choice(['ctor', 'attr'])
    return dict(ny=ny, nx=nx, x0=x0, y0=y0, eps=eps, pa=pa, law=law, scale=scale, lin=lin, step=step,
                sma0=sma0, gsma=sma0, minsma=minsma, maxsma=maxsma, maxrit=maxrit, fixes=kw, gfix=gfix, gmode=gmode,
                g=(gx, gy, gpa, geps), integr=integr, lin_arg=True)


def fixed_at_truth(p):
    gx, gy, gpa, geps = p['g']
    fx = eff_fixes(p)
    return ((not fx[0] or (gx == p['x0'] and gy == p['y0'])) and (not fx[1] or gpa == p['pa'])
            and (not fx[2] or geps == p['eps']))


def fixflag_oracle(p, obs):
    """Every fitter call and every returned isophote (sma > 0) carries exactly the requested fix flags
    [fix_center, fix_center, fix_pa, fix_eps] of eff_fixes (all False when nothing is requested)."""
    fx = eff_fixes(p)
    want = (fx[0], fx[0], fx[1], fx[2])
    return [f'{where} at sma {sma}: geometry.fix = {list(fl_)} but {list(want)} was requested'
            for where, sma, fl_ in obs['fixflags'] if fl_ != want]


def run_real(p, record_steps=True):
    img = galaxy(p['ny'], p['nx'], p['x0'], p['y0'], p['eps'], p['pa'], p['law'], p['scale'])
    gx, gy, gpa, geps = p['g']
    geom_args = (gx, gy, p['gsma'], geps, gpa, 0.1, p['lin'])
    kw = dict(sma0=p['sma0'], minsma=p['minsma'], maxsma=p['maxsma'], step=p['step'], linear=p['lin'],
              maxrit=p['maxrit'], integrmode=p['integr'],
              fix_center=p['fixes'][0], fix_pa=p['fixes'][1], fix_eps=p['fixes'][2])
    obs = run_fit_image(img, geom_args, kw, script=None, record_steps=record_steps, gfix=p.get('gfix'),
                        gmode=p.get('gmode'))
    obs['image'] = img
    return obs


# structured families generated in every run (see gen_real)
FORCED_REAL = ['wide', 'tall', 'large', 'pa0', 'maxrit', 'offframe', 'fix-offframe', 'fix-maxrit', 'fix-none', 'chan-ctor', 'chan-attr', 'chan-disagree']

# inputs that once exposed a defect; run first in every tier
PINNED_REAL = [
    # fixes/C20-2: nearest-neighbour sampling at sma ~ 1 pixel gives a zero gradient; the position
    # corrector divides by it and the integrator raises OverflowError (int(inf))
    dict(ny=80, nx=88, x0=34.98828509077568, y0=46.0078691431007, eps=0.05, pa=0.18272307295944987,
         law='sersic1', scale=10.082400250111355, lin=False, step=0.1, sma0=10.0, gsma=10.0, minsma=0.0,
         maxsma=22.857142857142858, maxrit=None, integr='nearest_neighbor', lin_arg=True,
         fixes=(False, False, False),
         g=(34.99650196113973, 45.12410311772379, 0.47884898515686336, 0.05279603924666661)),
    # fixes/C20-1: the first inward step (9.09) lies below minsma = 9.5
    dict(ny=64, nx=64, x0=32.0, y0=31.0, eps=0.3, pa=0.7, law='sersic1', scale=9.0, lin=False, step=0.1,
         sma0=10.0, gsma=10.0, minsma=9.5, maxsma=16.0, maxrit=None, integr='bilinear', lin_arg=True,
         fixes=(False, False, False), g=(32.3, 30.8, 0.8, 0.25)),
    # fixes/C20-3: nearest-neighbour sampling truncates instead of rounding: centre off by (+0.5, +0.5)
    dict(ny=80, nx=88, x0=43.91872110607849, y0=38.30983430440296, eps=0.4, pa=0.0, law='gauss',
         scale=15.686647441593863, lin=True, step=1.0, sma0=10.471944078468393, gsma=10.471944078468393,
         minsma=4.0, maxsma=22.857142857142858, maxrit=None, integr='nearest_neighbor', lin_arg=True,
         fixes=(False, True, True), g=(44.09966729093242, 37.54024950563301, 0.0, 0.4)),
    # fixes/C20-4: fix_pa=True, but at sma 0.5-0.6 the fitted eps changes sign and the fixed PA is rotated
    dict(ny=64, nx=64, x0=30.0, y0=32.0, eps=0.2, pa=1.5707963267948966, law='sersic4',
         scale=10.337294864970845, lin=False, step=0.1, sma0=8.0, gsma=8.0, minsma=0.0, maxsma=None,
         maxrit=None, integr='bilinear', lin_arg=True, fixes=(True, True, False),
         g=(30.0, 32.0, 1.5707963267948966, 0.2836444526282703)),
    # fixes/C20-5: PA = 0: the fitted angles jump between 0 and pi, build_ellipse_model interpolates them
    dict(ny=72, nx=64, x0=31.210348406647505, y0=32.85728302887482, eps=0.5, pa=0.0, law='gauss',
         scale=14.075634265630157, lin=False, step=0.1, sma0=5.237991388358552, gsma=5.237991388358552,
         minsma=2.0, maxsma=20.571428571428573, maxrit=None, integr='bilinear', lin_arg=True,
         fixes=(False, False, False), g=(30.79795173528395, 33.375465652199914, 0.13683576609473797,
                                         0.4151169456851164)),
    # fixes/C20-6: maxsma beyond the frame: the outermost non-iterative isophote has no data (NaN intensity) and
    # turns the whole build_ellipse_model image into NaN
    dict(ny=64, nx=64, x0=32.50637649185829, y0=34.05223763100625, eps=0.3, pa=1.5707963267948966, law='gauss',
         scale=12.567893575147425, lin=False, step=0.1, sma0=6.0, gsma=6.0, minsma=0.0, maxsma=64.0, maxrit=None,
         integr='bilinear', lin_arg=True, fixes=(False, False, False),
         g=(33.32557089033317, 35.03652990722335, 1.7171328384387714, 0.20714559121467405)),
]


MODEL_MEDIAN_TOL = 0.03      # observed on the repaired tree (quick seeds 0-2, thorough): median <= 0.019, 90th percentile <= 0.04
MODEL_P90_TOL = 0.07


MODEL_PIX_ABS, MODEL_PIX_SLOPE = 0.03, 0.5    # worst-pixel bound: 3 % + half the change of the law over one pixel
                                              # (observed worst pixel: <= 0.25 of this bound)
MODEL_COVERAGE_TOL = 1.0     # EVERY pixel of the region must be filled by the model


def sector_bias(p, sma):
    """For the area integrators ('mean', 'median') an isophote's intensity is the law averaged over sectors of
    the annulus between the bounding ellipses of geometry.bounding_ellipses (sma -+ astep/2, linear growth;
    sma (1 -+ astep/2), geometric), area-weighted; on an exactly elliptical galaxy the angular width is
    irrelevant.  Returns the rigorous relative difference |<f>_annulus - f(sma)| / f(sma) computed from the known
    law (0 for the point samplers 'bilinear' / 'nearest_neighbor'); it is ADDED to the intensity tolerance, which
    also covers the integrators' fall-back to bilinear sampling on small sectors; for the median: the law at the
    radius that halves the annulus area."""
    if p.get('integr') not in ('mean', 'median') or sma <= 0:
        return 0.0
    f = radial(p['law'], p['scale'])
    h = p['step'] / 2.0 if p['lin'] else sma * p['step'] / 2.0
    a = np.linspace(max(sma - h, 0.0), sma + h, 401)
    fa = f(a)
    mean = float(np.sum(fa * a) / np.sum(a))
    f0 = float(f(sma))
    # mean: the area-weighted average; median of a monotone law: its value at the radius that halves the area
    a_med = math.sqrt((a[0] ** 2 + a[-1] ** 2) / 2.0)
    dev = abs(mean - f0) if p['integr'] == 'mean' else abs(float(f(a_med)) - f0)
    return dev / f0


def describes_image(p, iso):
    """The isophote agrees with the true galaxy (centre, eps, PA, mean intensity) within the tolerances of the
    recovery clause, max(small absolute tolerance, 5 x reported error) - whatever its stop code."""
    def z(v):
        return float(v) if v is not None and np.isfinite(v) else 0.0
    truth = float(radial(p['law'], p['scale'])(iso.sma))
    if not (np.isfinite(iso.intens) and truth > 0):
        return False
    e0 = max(p['eps'], 0.05)
    return (math.hypot(iso.x0 - p['x0'], iso.y0 - p['y0']) <= max(0.25, 5 * math.hypot(z(iso.x0_err), z(iso.y0_err)))
            and abs(iso.eps - p['eps']) <= max(0.03, 5 * z(iso.ellip_err))
            and angdiff(iso.pa, p['pa']) <= max(0.02 / e0, 5 * z(iso.pa_err))
            and abs(iso.intens - truth) / truth <= max(0.03 + sector_bias(p, iso.sma),
                                                       5 * z(iso.int_err) / abs(iso.intens)))


def model_residual(p, obs):
    """build_ellipse_model against the image on the pixels well inside the fitted region: elliptical radius
    between max(5 pixels, smallest fitted sma + 1) and 0.8 x min(largest fitted sma, 3 scale radii, distance
    of the centre to the nearest frame edge - 1) (build_ellipse_model abandons an ellipse at its first sample
    outside the frame, so only ellipses that lie inside the frame count), profile resolved by the pixel grid,
    out of reach of every non-converged isophote of the list.
    Returns (relative residuals on the filled pixels of the region, filled fraction of the region) or None
    when the region has fewer than 50 pixels."""
    from photutils.isophote import build_ellipse_model
    with warnings.catch_warnings():
        warnings.simplefilter('ignore')
        model = build_ellipse_model(obs['image'].shape, obs['isolist'])
    img = obs['image']
    y, x = np.mgrid[0:p['ny'], 0:p['nx']].astype(float)
    dx, dy = x - p['x0'], y - p['y0']
    xr = dx * math.cos(p['pa']) + dy * math.sin(p['pa'])
    yr = -dx * math.sin(p['pa']) + dy * math.cos(p['pa'])
    r = np.sqrt(xr ** 2 + (yr / (1 - p['eps'])) ** 2)
    smas = [s for s, _, _ in obs['isos']]
    edge = min(p['x0'], p['y0'], p['nx'] - 1 - p['x0'], p['ny'] - 1 - p['y0'])
    region = (r > max(5.0, min(smas) + 1.0)) & (r < 0.8 * min(max(smas), 3 * p['scale'], edge - 1.0))
    # well-sampled pixels only (same rule as for the isophotes): logarithmic slope along the minor axis
    # at most 0.5 per pixel
    f = radial(p['law'], p['scale'])
    rr = np.maximum(r, 1.0)
    slope = np.abs(np.log(f(rr * 1.01)) - np.log(f(rr))) / (0.01 * rr) / (1.0 - p['eps'])
    region &= slope <= 0.5
    # ... and of small curvature there: bilinear interpolation between pixel centres misses a law f by about
    # (1/8) |f''|/f per pixel^2; pixels where that exceeds 1 % across the minor axis are not resolved either
    # (e.g. a Gaussian whose minor-axis sigma is ~2 pixels)
    curv = np.abs(f(rr + 0.5) - 2.0 * f(rr) + f(np.maximum(rr - 0.5, 0.0))) / (0.25 * f(rr)) / (1.0 - p['eps']) ** 2
    region &= curv / 8.0 <= 0.01
    # ... and only pixels that no ellipse drawn from an isophote that does NOT DESCRIBE THE IMAGE can touch: one
    # the fitter itself flags as not converged (stop code 2: iteration limit, geometry = best so far; 1: too few
    # points; 5: failed, geometry copied; 4 only when the geometry it copies is itself not a converged one) AND
    # whose centre / eps / PA / intensity are outside the recovery tolerances of the truth (a best-so-far isophote
    # that agrees with the galaxy stays in).  No model of the list can reproduce the image there.  Isophotes extracted non-iteratively (stop code 4)
    # along a converged geometry are NOT left out: on an elliptical galaxy they must reproduce the image.  The
    # model between consecutive fitted sma is a cubic spline through the list, so a non-converged isophote j
    # influences the ellipses with sma in [sma_(j-2), sma_(j+2)], drawn with geometries between the true one and
    # that of j.  In terms of the TRUE elliptical radius r these ellipses cover the band from the smallest r on
    # the ellipse (geometry_j, sma_(j-2)) to the largest r on the ellipse (geometry_j, sma_(j+2)), joined with
    # [sma_(j-2), sma_(j+2)] itself; pixels with r in such a band are left out.  Nothing is left out of a fit whose
    # isophotes all converged; that the fitter DOES converge inside the basin is the business of the
    # convergence-rate and recovery tests, not of this one.
    il = list(obs['isolist'])
    n = len(il)
    order = append_order(p, obs)
    trusted = {id(i): t for i, t in zip(order, trusted_chain(order))}
    cpa, spa = math.cos(p['pa']), math.sin(p['pa'])
    phi = np.linspace(0.0, 2 * math.pi, 180, endpoint=False)
    unsupported = np.zeros(r.shape, bool)
    for j, iso in enumerate(il):
        if iso.sma <= 0 or trusted.get(id(iso), False) or describes_image(p, iso):
            continue
        lo_sma, hi_sma = il[max(0, j - 2)].sma, il[min(n - 1, j + 2)].sma
        band_lo, band_hi = lo_sma, hi_sma
        for a_ in (lo_sma, hi_sma):
            ex = a_ * np.cos(phi)
            ey = a_ * (1.0 - iso.eps) * np.sin(phi)
            px = iso.x0 + ex * math.cos(iso.pa) - ey * math.sin(iso.pa) - p['x0']
            py = iso.y0 + ex * math.sin(iso.pa) + ey * math.cos(iso.pa) - p['y0']
            tr = np.sqrt((px * cpa + py * spa) ** 2 + ((-px * spa + py * cpa) / (1 - p['eps'])) ** 2)
            band_lo, band_hi = min(band_lo, float(tr.min())), max(band_hi, float(tr.max()))
        unsupported |= (r >= band_lo - 1.0) & (r <= band_hi + 1.0)      # one pixel of bilinear spreading
    model_residual.last_unsupported = int((region & unsupported).sum())
    region &= ~unsupported
    if region.sum() < 50:
        return None
    model_residual.last_nonfinite = int((region & ~np.isfinite(model)).sum())
    inside = region & (model != 0) & np.isfinite(model)
    rel = np.abs(model[inside] - img[inside]) / img[inside]
    # worst pixel, relative to the per-pixel bound MODEL_PIX_ABS + MODEL_PIX_SLOPE x (logarithmic slope of the true
    # law per pixel along the minor axis): a model pixel is a bilinear-weighted mean of ellipse samples lying
    # within one pixel of it, so it cannot differ from the image by more than the law changes over one pixel
    model_residual.last_worst = float(np.max(rel / (MODEL_PIX_ABS + MODEL_PIX_SLOPE * slope[inside]))) if rel.size else 0.0
    model_residual.last_unfilled = int((region & (model == 0)).sum())
    return rel, float(inside.sum()) / float(region.sum())


def gen_synth(rng):
    """A large frame and an isophote list built (cheaply, no fit) by sampling the image along the TRUE ellipses
    at geometrically spaced sma out to 90-125 pixels: build_ellipse_model of a list that describes the image
    must reproduce it; this reaches the radii where the angular step of the model's ellipse scan is clamped."""
    ny, nx = rng.choice([(200, 300), (300, 210), (260, 260), (230, 280)])
    eps = rng.choice([0.1, 0.2, 0.3, 0.4, 0.5])
    pa = rng.choice([0.0, math.pi / 2, rng.uniform(0, math.pi), rng.uniform(0, math.pi)])
    x0 = rng.uniform(0.42 * nx, 0.58 * nx)
    y0 = rng.uniform(0.42 * ny, 0.58 * ny)
    law = rng.choice(['sersic1', 'gauss', 'sersic2'])
    scale = rng.uniform(35.0, 50.0)
    edge = min(x0, y0, nx - 1 - x0, ny - 1 - y0)
    smas, a, ratio = [], rng.uniform(5.0, 7.0), rng.choice([1.12, 1.2, 1.25])
    while a < edge - 3.0:
        smas.append(a)
        a *= ratio
    return dict(mode='synth', ny=ny, nx=nx, x0=x0, y0=y0, eps=eps, pa=pa, law=law, scale=scale, smas=smas,
                sma0=smas[0], gsma=smas[0], integr='bilinear', fixes=NOFIX)


def run_synth(p):
    from photutils.isophote.isophote import Isophote, IsophoteList
    from photutils.isophote.sample import EllipseSample
    img = galaxy(p['ny'], p['nx'], p['x0'], p['y0'], p['eps'], p['pa'], p['law'], p['scale'])
    isos = []
    with warnings.catch_warnings():
        warnings.simplefilter('ignore')
        for a in p['smas']:
            smp = EllipseSample(img, a, x0=p['x0'], y0=p['y0'], astep=0.1, eps=p['eps'], position_angle=p['pa'])
            smp.update()
            isos.append(Isophote(smp, 0, True, 0))
    il = IsophoteList(isos)
    return dict(kind=0, image=img, isolist=il, isos=[(float(i.sma), 0, True) for i in il])


def model_verdict(p, res):
    """The clauses of the model-image test on one case; returns a list of (signature, message)."""
    rel, coverage = res
    out = []
    if getattr(model_residual, 'last_nonfinite', 0):
        out.append(('build_ellipse_model:non-finite', f'{model_residual.last_nonfinite} pixels of the model inside the '
                    'fitted region are NaN/inf'))
    if model_residual.last_unfilled:
        out.append(('build_ellipse_model:coverage', f'{model_residual.last_unfilled} pixels ({100 * (1 - coverage):.2f} %) '
                    f'inside the fitted region (ellipses entirely inside the {p["ny"]}x{p["nx"]} frame) are not '
                    'filled by the model'))
    if rel.size:
        med, p90 = float(np.median(rel)), float(np.percentile(rel, 90))
        if med > MODEL_MEDIAN_TOL or p90 > MODEL_P90_TOL:
            out.append(('build_ellipse_model:residual', f'relative residual of the model image inside the fitted '
                        f'region: median {med:.3f} (tol {MODEL_MEDIAN_TOL}), 90th percentile {p90:.3f} '
                        f'(tol {MODEL_P90_TOL})'))
        elif model_residual.last_worst > 1.0:
            out.append(('build_ellipse_model:worst-pixel', f'a pixel inside the fitted region deviates from the image '
                        f'by {model_residual.last_worst:.1f} x the per-pixel bound ({MODEL_PIX_ABS} + {MODEL_PIX_SLOPE} x '
                        'logarithmic slope of the law per pixel along the minor axis); largest relative deviation '
                        f'{float(rel.max()):.3f}'))
    return out


def angdiff(a, b):
    """Difference of two position angles modulo pi."""
    d = (a - b) % math.pi
    return min(d, math.pi - d)


def recovery(p, obs):
    """Support test of the (unprovable) recovery clause on WELL-SAMPLED isophotes: converged
    (stop code 0) or extracted non-iteratively (stop code 4) along the geometry of a converged one, sma >= 5, semi-minor axis >= 3 pixels, logarithmic intensity slope along the
    minor axis <= 0.5 per pixel (the image is the profile sampled at pixel centres: steeper
    profiles are not resolved by any interpolation), inside the frame and within 3.5 scale radii.
    Tolerance rule of the property: |fit - truth| <= max(small absolute tolerance, 5 x reported
    error), absolute tolerances 0.25 pixel (centre), 0.03 (eps), 0.02/eps rad (PA), 3 % (intensity);
    nearest-neighbour mode (whole-pixel sampling): 0.5 pixel, 0.05, 3 % + a quarter pixel of minor-axis slope;
    mean / median modes: 3 % + sector_bias (the law averaged over the integration annulus vs the law at sma).
    Also returns the numbers of converged / all isophotes at well-sampled radii.
    Returns (n_checked, gross, worst ratios)."""
    il = obs['isolist']
    f = radial(p['law'], p['scale'])
    gross, n = [], 0
    worst = dict(cen=0.0, eps=0.0, pa=0.0, intens=0.0)
    edge = min(p['x0'], p['y0'], p['nx'] - 1 - p['x0'], p['ny'] - 1 - p['y0'])
    e0 = max(p['eps'], 0.05)
    worst['radii'] = 0
    order = append_order(p, obs)
    trusted = {id(i): t for i, t in zip(order, trusted_chain(order))}
    for iso in il:
        if iso.sma < 5 or iso.sma > 0.8 * edge or iso.sma > 3.5 * p['scale']:
            continue
        truth = float(f(iso.sma))
        slope = abs(math.log(float(f(iso.sma * 1.01))) - math.log(truth)) / (0.01 * iso.sma) / (1.0 - p['eps'])
        if iso.sma * (1.0 - p['eps']) < 3.0 or slope > 0.5:
            continue
        if iso.stop_code == 4:
            # extracted non-iteratively along a copy of a converged geometry: must describe the galaxy as well
            # (not a fit: it counts neither for nor against the convergence rate)
            if not trusted.get(id(iso), False):
                continue
            worst['noniter'] = worst.get('noniter', 0) + 1
        else:
            worst['radii'] += 1
            if iso.stop_code != 0:
                continue
        n += 1
        dc = math.hypot(iso.x0 - p['x0'], iso.y0 - p['y0'])
        de = abs(iso.eps - p['eps'])
        dp = angdiff(iso.pa, p['pa'])
        di = abs(iso.intens - truth) / truth
        # nearest-neighbour sampling reads whole pixels: half a pixel of discretisation
        nn = p['integr'] == 'nearest_neighbor'
        rc = dc / max(0.5 if nn else 0.25, 5 * math.hypot(iso.x0_err, iso.y0_err))
        re_ = de / max(0.05 if nn else 0.03, 5 * iso.ellip_err)
        rp = dp / max(0.02 / e0, 5 * iso.pa_err)
        ri = di / max(0.03 + (0.25 * slope if nn else 0.0) + sector_bias(p, iso.sma), 5 * iso.int_err / abs(iso.intens))
        worst['cen'] = max(worst['cen'], rc)
        worst['eps'] = max(worst['eps'], re_)
        worst['pa'] = max(worst['pa'], rp)
        worst['intens'] = max(worst['intens'], ri)
        if max(rc, re_, rp, ri) > 1.0:
            gross.append(dict(sma=float(iso.sma), dcentre=dc, deps=de, dpa=dp, dintens=float(di),
                              ratio_to_tolerance=[round(float(v), 2) for v in (rc, re_, rp, ri)]))
    return n, gross, worst


def fixed_honoured(p, obs):
    """Fixed parameters keep the requested value exactly on every fitted ellipse (sma > 0)."""
    gx, gy, gpa, geps = p['g']
    fx = eff_fixes(p)
    bad = []
    for iso in obs['isolist']:
        if iso.sma <= 0:
            continue
        if fx[0] and (iso.x0 != gx or iso.y0 != gy):
            bad.append(('centre', float(iso.sma), float(iso.x0), float(iso.y0)))
        if fx[1] and iso.pa != gpa:
            bad.append(('pa', float(iso.sma), float(iso.pa)))
        if fx[2] and iso.eps != geps:
            bad.append(('eps', float(iso.sma), float(iso.eps)))
    return bad


def append_order(p, obs):
    """The returned isophotes (sma > 0) in the order fit_image appended them: outward pass (sma >= sma0,
    increasing), then inward pass (decreasing)."""
    a0 = p['sma0'] if p['sma0'] else p['gsma']
    il = [i for i in obs['isolist'] if i.sma > 0]
    return sorted([i for i in il if i.sma >= a0], key=lambda i: i.sma) + \
        sorted([i for i in il if i.sma < a0], key=lambda i: -i.sma)


def trusted_chain(order):
    """ok[k]: the geometry of order[k] was produced by a CONVERGED fit: stop code 0, or stop code 4
    (extracted non-iteratively along a copy of the previous isophote's geometry) after such an isophote."""
    ok = []
    for k, iso in enumerate(order):
        ok.append(iso.stop_code == 0 or (iso.stop_code == 4 and k > 0 and ok[k - 1]))
    return ok


def fixed_geometry_oracle(p, obs):
    """Provenance of copied geometries on real fits (the scripted runs check the same through the geometry
    tokens and the Coq model):
    * stop code 4 (ellipse.py:634-644: extracted non-iteratively) - the geometry of the most recent isophote of
      the list at that call = the previous one in the pass (for the very first call: the caller's first guess);
    * stop code 5 (_fix_last_isophote) - the previous isophote when going outwards (index -1), the FIRST
      fitted isophote (sma0, index 0) when going inwards.
    Returns a list of messages."""
    order = append_order(p, obs)
    a0 = p['sma0'] if p['sma0'] else p['gsma']
    gx, gy, gpa, geps = p['g']
    bad = []
    for k, iso in enumerate(order):
        if iso.stop_code == 4:
            gr, what = ((order[k - 1].x0, order[k - 1].y0, order[k - 1].eps, order[k - 1].pa),
                        f'the previous isophote of the pass (sma {order[k - 1].sma})') if k > 0 else \
                       ((gx, gy, geps, gpa), 'the first guess')
        elif iso.stop_code == 5 and k > 0 and order[0].sma == a0:
            ref = order[k - 1] if iso.sma > a0 else order[0]
            gr, what = (ref.x0, ref.y0, ref.eps, ref.pa), f'the isophote at sma {ref.sma}'
        else:
            continue
        g = (iso.x0, iso.y0, iso.eps, iso.pa)
        if g != gr:
            bad.append(f'isophote at sma {iso.sma} (stop code {iso.stop_code}) has geometry {g}, expected that of '
                       f'{what}: {gr}')
    return bad


def describe_real(p):
    d = {k: p[k] for k in ('ny', 'nx', 'x0', 'y0', 'eps', 'pa', 'law', 'scale', 'lin', 'step', 'sma0', 'gsma',
                           'minsma', 'maxsma', 'maxrit', 'integr', 'lin_arg')}
    d.update(mode='real', fixes=list(p['fixes']), g=list(p['g']),
             gfix=list(p['gfix']) if p.get('gfix') else None, gmode=p.get('gmode'))
    return d


def step_term(s):
    fc, _, fpa, feps = s['fix']
    return ('CStep ' + ' '.join(coq(v) for v in [
        fc, fpa, feps, tuple(fl(v) for v in s['g']), [fl(v) for v in s['coeffs']], int(s['k']),
        fl(s['harm']), tuple(fl(v) for v in s['gc']), tuple(fl(v) for v in s['gn'])]))


# --------------------------------------------------------------------------
# polar twins
# --------------------------------------------------------------------------
def gen_polar(rng):
    """Exact-lattice geometry and points (squares, sums and differences are exact, so
    pow(x, 2) and x*x coincide): centre, axes, all quadrants, negative / large pa."""
    q = rng.choice([1, 2, 4, 8, 64])
    x0 = rng.randint(-40 * q, 40 * q) / q
    y0 = rng.randint(-40 * q, 40 * q) / q
    pa = rng.choice([0.0, -0.0, math.pi / 2, -math.pi / 2, math.pi, -math.pi, 2 * math.pi, 1.0, -1.0, 0.25,
                     rng.uniform(-2 * math.pi, 2 * math.pi), rng.uniform(-7, 7), rng.uniform(0, math.pi)])
    pts = [(x0, y0)]
    for _ in range(rng.randint(2, 7)):
        kind = rng.choice(['any', 'any', 'xaxis', 'yaxis', 'near', 'diag'])
        dx = rng.randint(-30 * q, 30 * q) / q
        dy = rng.randint(-30 * q, 30 * q) / q
        if kind == 'xaxis':
            dy = 0.0
        elif kind == 'yaxis':
            dx = 0.0
        elif kind == 'near':
            dx, dy = rng.choice([-1, 0, 1]) / q, rng.choice([-1, 0, 1]) / q
        elif kind == 'diag':
            dy = dx * rng.choice([-1, 1])
        pts.append((x0 + dx, y0 + dy))
    return dict(x0=x0, y0=y0, pa=pa, pts=pts)


def run_polar(p):
    from photutils.isophote.geometry import EllipseGeometry
    g = EllipseGeometry(p['x0'], p['y0'], 10.0, 0.2, p['pa'])
    sc = [g.to_polar(float(x), float(y)) for x, y in p['pts']]
    xs = np.array([x for x, _ in p['pts']], float)
    ys = np.array([y for _, y in p['pts']], float)
    with np.errstate(all='ignore'):
        rv, av = g.to_polar(xs, ys)
    vec = list(zip(np.ravel(rv).tolist(), np.ravel(av).tolist()))
    sc = [(float(r), float(a)) for r, a in sc]
    # tables of the two arcsine implementations, built on the arguments the code forms
    x1, y1 = xs - p['x0'], ys - p['y0']
    r2 = x1 ** 2 + y1 ** 2
    m = r2 > 0
    args = np.abs(y1[m]) / np.sqrt(r2[m])
    tv = dict(zip(args.tolist(), np.arcsin(args).tolist()))
    ts = {a: math.asin(a) for a in args.tolist()}
    return sc, vec, ts, tv


def polar_term(p, sc, vec, ts, tv):
    return ('CPolar ' + ' '.join(coq(v) for v in [
        fl(p['x0']), fl(p['y0']), fl(p['pa']), [(fl(x), fl(y)) for x, y in p['pts']],
        [(fl(k), fl(v)) for k, v in ts.items()], [(fl(k), fl(v)) for k, v in tv.items()],
        [(fl(r), fl(a)) for r, a in sc], [(fl(r), fl(a)) for r, a in vec]]))


def polar_oracle(p, sc, vec, tol=1e-9):
    """Independent statement: radius = distance from the centre, angle = direction of the
    point measured from the position angle, in [0, 2 pi); twins agree."""
    bad = []
    for (x, y), (rs, as_), (rv, av) in zip(p['pts'], sc, vec):
        dx, dy = x - p['x0'], y - p['y0']
        r = math.hypot(dx, dy)
        if abs(rs - r) > tol * max(1, r) or abs(rv - r) > tol * max(1, r):
            bad.append(('radius', x, y, rs, rv, r))
        if abs(as_ - av) > tol and abs(abs(as_ - av) - 2 * math.pi) > tol:
            bad.append(('twins', x, y, as_, av))
        if r > 0:
            want = math.atan2(dy, dx) - p['pa']
            for a in (as_, av):
                if abs(math.remainder(a - want, 2 * math.pi)) > tol:
                    bad.append(('angle', x, y, a, want % (2 * math.pi)))
                # range [0, 2pi) holds for pa in (-2pi, 2pi]
                if -2 * math.pi < p['pa'] <= 2 * math.pi and not (-tol <= a < 2 * math.pi + tol):
                    bad.append(('range', x, y, a))
    return bad


# --------------------------------------------------------------------------
def _t(ctx, label):
    import os
    import time
    if os.environ.get('C20_TIMING'):
        print(f'[C20 timing] {label}: {time.time() - ctx.t0:.1f}s', flush=True)


def run(ctx):
    from . import c20i, c20h
    # C20I: the sample integrators, the extraction walk and the sigma clip of isophote/integrator.py + sample.py
    # C20H: the harmonic least squares, the four geometry correctors and the convergence test of fitter.py
    #       (the truth is a fixed point of the fit)
    ctx.build_with_translator(FILES, extra_files=c20i.COQ_FILES + c20h.COQ_FILES,
                              extra_obligation_files=['C20I_Properties.v'] + c20h.OBLIGATION_FILES)
    _t(ctx, 'build')
    quick = ctx.tier == 'quick'
    ctx.level = 'proof'
    ctx.cov['rule'] = (
        'scripted: real Ellipse.fit_image/fit_isophote/_fix_last_isophote/_non_iterative on a fixed 48x48 '
        'galaxy with EllipseFitter replaced by a scripted oracle stream of (stop_code, valid) (good / mixed / '
        'late-failing / bad / adversarial streams, linear and geometric growth, minsma at/around the first '
        'inward step, maxsma None/0/at sma0/above, maxrit, sma0 None/0, all-fixed); real: noise-free '
        'Sersic(n=1,2,4)/Gaussian galaxies (eps 0.05-0.8, any PA, off-centre), all integration modes, fix_* '
        'flags, with the real fitter recorded; polar: exact-lattice centres and points (centre, axes, '
        'quadrants, negative/large PA); six pinned real inputs (one per repaired defect) run first; '
        'non-trivial = at least one fit call; distinct = distinct parameters')
    ctx.assumptions += [
        'EllipseFitter.fit (harmonic least squares, gradients, convergence tests) is NOT modelled: it is the '
        'oracle stream of (stop_code, valid) outcomes of the schedule model and the per-iteration observation '
        'list of the fitter model',
        'theorems are about the model instantiated with exact rationals (twins: any carrier); the same polymorphic '
        'model instantiated with IEEE binary64 (Coq primitive floats, vm_compute) is what is compared with Python',
        'the schedule theorem is partial correctness: it speaks about streams and fuels on which fit_image returns '
        '(the real outward loop need not terminate for an adversarial fitter; fit_image_fuel_independent_thm shows '
        'the fuel never changes a run that ends)',
        'schedule theorem premises: step > 0, sma0 > 0, minsma <= sma0 <= maxsma, and an invalid fit outcome has '
        'stop code 3 (true of every return statement of EllipseFitter.fit; proved of the fitter model as '
        'fit_invalid_only_code3)',
        'twins theorem premise: both twins use the same sqrt/asin/square; math.asin vs numpy.arcsin and '
        'pow(x,2) vs x*x differ by rounding in CPython/numpy, so twin agreement on arbitrary floats is '
        'tested to 1e-9 only (support), and compared bit-exactly against the model with per-twin arcsine tables',
        'the model mirrors the REPAIRED code: fixes/C20-1 (inward loop tests the sma before each fit), C20-2 '
        '(zero-gradient exit of the fitter), C20-4 (a fixed position angle is not rotated when eps changes sign), '
        'C20-3 (nearest-neighbour integrator rounds) and C20-5 (build_ellipse_model unwraps PA): not modelled, tested',
        'observation (outside the quantifier of the property): fit_image(maxrit=x) without a truthy maxsma never '
        'returns (beyond maxrit nothing is fitted, so nothing fails and the outward loop has no exit); such runs are '
        'cut by a cap on calls / sma and must coincide with the model running out of fuel',
    ]
    ctx.cov['partial_clauses'] = [
        'recovery of centre/eps/PA/intensity within the reported errors: numerics of an iterative fitter, '
        'tested only (support:recovery_well_sampled) with the rule |fit - truth| <= max(small absolute tolerance, '
        '5 x reported error) at converged well-sampled isophotes; deviations are reported as violations',
        'convergence inside the basin (support:convergence_rate): at least 60 % of the well-sampled radii of the '
        'non-nearest-neighbour fits end with stop code 0 (observed ~ 90-99 %); an empty result counts as 8 failures',
        'build_ellipse_model reproduces the image inside the fitted region: spline numerics, tested only '
        '(support:model_image; frames of aspect 1:3 to 3:1 with the galaxy centred beyond the shorter dimension; '
        'pixels within reach of an isophote the fitter reports as not converged (stop code != 0) are left out - the '
        'list does not describe the image there -; in the remaining region of ellipses inside the frame (fitted lists '
        'reaching ~100 pixels and lists built along the true ellipses out to 90-125 pixels included) NO pixel may be '
        'unfilled or non-finite or deviate by more than 3 % + half the change of the law over one pixel, and median relative residual <= 3 %, 90th '
        'percentile <= 7 %)',
        'fixed parameters: proved of the fitter model for the whole iteration (fixed_params_kept; fixed eps for a '
        'start eps > 0); fix_geometry / non-iterative paths are tested only: on real fits every fix_* request (at '
        'the truth or deliberately away from it; outward pass unbounded / bounded / ending non-iteratively beyond '
        'the frame or beyond maxrit; requested through the fit_image keywords, the EllipseGeometry constructor, the '
        'geometry.fix attribute, both agreeing, both disagreeing) is compared exactly with every returned isophote '
        'of both passes, and every fitter call and returned isophote must carry geometry.fix = effective_fix '
        '(keywords if any keyword is set - they replace the geometry flags -, else the geometry flags; scripted '
        'runs too; also evaluated by the Coq model, case CFix)',
        'sma_schedule: partial correctness (returns) and outcome-stream premise invalid => code 3',
        'provenance of copied geometries (stop code 4: the previous isophote of the pass / the first guess; stop '
        'code 5: previous isophote outwards, first isophote inwards; central isophote): part of the schedule model '
        '(i_geom) and compared exactly on scripted runs through geometry tokens; on real fits by direct comparison; '
        'non-iterative isophotes copied from a converged one are held to the recovery tolerances and stay inside '
        'the model-image region',
    ]
    terms, meta = [], []

    # ---- scripted schedule cases ------------------------------------------------
    n_script = 500 if quick else 4000
    for _ in range(n_script):
        p = gen_sched(ctx.rng)
        obs = run_sched(p)
        desc = describe_sched(p)
        ctx.count_case(desc, len(obs['calls']) > 0)
        two = [('first', p, obs)]
        if p.get('second') and 'second' in obs:
            p['second']['_whole'] = p
            two.append(('second', p['second'], obs['second']))
            ctx.stat('scripted', 'second-fit_image-call-on-the-same-Ellipse')
        for which, pc, oc in two:
            if oc['kind'] == 4:
                ctx.violation('Ellipse.fit_image:exception', f'fit_image ({which} call) raised {oc["exc"]}', desc)
                continue
            # the oracle outcomes the run consumed are a prefix of the script
            consumed = oc['stream']
            if consumed != [tuple(x) for x in pc['stream'][:len(consumed)]]:
                raise RuntimeError('scripted stream was not consumed in order')
            terms.append(sched_term(pc, oc, pc['stream']))
            meta.append(('sched', pc, oc))
            ctx.stat('scripted', 'result:' + KINDS[oc['kind']])
            ctx.stat('scripted', 'growth:' + ('linear' if pc['lin'] else 'geometric'))
            if oc['kind'] == 0:
                ctx.stat('scripted', 'returned-empty' if not oc['isos'] else 'returned-nonempty')
                codes = {c for _, c, _ in oc['isos']}
                for c in sorted(codes):
                    ctx.stat('scripted-final-codes', str(c))
            if any(ni for _, ni, _, _ in oc['calls']):
                ctx.stat('scripted', 'non-iterative-mode-reached')
            hyp = sched_hyps(pc, pc['stream'])
            ctx.stat('scripted', 'theorem-premises-hold' if hyp else 'outside-premises')
            if not oc['untouched']:
                ctx.violation('Ellipse.fit_image:image-modified', 'fit_image modified the input image', desc)
            if hyp:
                for sig, msg in sched_oracle(pc, oc):
                    ctx.violation('Ellipse.fit_image:' + sig, (msg if which == 'first' else
                                  'second fit_image call on the same Ellipse: ' + msg), desc)
            if pc.get('gfix'):
                ctx.stat('scripted', 'request-channel:geometry-flags' + ('+keywords' if any(pc['fixes']) else ''))
            if oc['fixflags']:
                terms.append(fix_term(pc, oc))
                meta.append(('fix', pc, oc))
            ff = fixflag_oracle(pc, oc) if not all(pc['fixes']) else []
            if ff:
                ctx.violation('Ellipse.fit_image:fix-flags-lost', f'{len(ff)} fitter calls / isophotes ({which} call) '
                              f'lost the requested fix flags, e.g. {ff[0]}', desc)
    ctx.sample({'scripted_case': describe_sched(meta[3][1]), 'impl': {k: meta[3][2][k] for k in ('kind', 'isos', 'calls')}})

    _t(ctx, 'scripted')
    # ---- real fits ----------------------------------------------------------------
    n_real = 40 if quick else 300
    all_steps = []
    conv = [0, 0]
    forced = list(FORCED_REAL) * (1 if quick else 4)
    for j in range(len(PINNED_REAL) + len(forced) + n_real):
        if j < len(PINNED_REAL):
            p = dict(PINNED_REAL[j])
            ctx.stat('real', 'pinned')
        elif j < len(PINNED_REAL) + len(forced):
            p = gen_real(ctx.rng, thorough=not quick, force=forced[j - len(PINNED_REAL)])
            ctx.stat('real', 'structured:' + forced[j - len(PINNED_REAL)])
        else:
            p = gen_real(ctx.rng, thorough=not quick)
        ctx.stat('real', 'frame:' + ('near-square' if max(p['ny'], p['nx']) < 1.3 * min(p['ny'], p['nx']) else
                                     'tall' if p['ny'] > p['nx'] else 'wide'))
        if (p['nx'] > p['ny'] and p['x0'] > p['ny']) or (p['ny'] > p['nx'] and p['y0'] > p['nx']):
            ctx.stat('real', 'centre-beyond-shorter-dimension')
        ctx.stat('real', 'outward:' + ('maxrit<maxsma' if p['maxrit'] else 'maxsma=None' if p['maxsma'] is None else
                                       'maxsma-beyond-frame' if p['maxsma'] > 0.6 * min(p['ny'], p['nx']) else
                                       'maxsma-inside-frame'))
        if any(eff_fixes(p)):
            ctx.stat('real', 'fixed-value:' + ('truth' if fixed_at_truth(p) else 'away-from-truth'))
        obs = run_real(p)
        ctx.count_case(describe_real(p), True)
        if obs['kind'] == 4:
            ctx.stat('real', 'result:' + KINDS[4])
            ctx.violation('Ellipse.fit_image:exception', f'fit_image raised {obs["exc"]} on a noise-free '
                          f'elliptical galaxy (integrmode={p["integr"]})', describe_real(p))
            continue
        terms.append(sched_term(p, obs, obs['stream']))
        meta.append(('real', p, obs))
        ctx.stat('real', 'law:' + p['law'])
        ctx.stat('real', 'integr:' + p['integr'])
        fx = eff_fixes(p)
        ctx.stat('real', 'fix:' + ''.join('CPE'[i] for i in range(3) if fx[i]) if any(fx) else 'fix:none')
        g_ = tuple(p.get('gfix') or NOFIX)
        ctx.stat('real', 'request-channel:' + (
            'none' if not any(fx) and not any(g_) else
            'keywords' if not any(g_) else
            ('geometry-' + str(p.get('gmode'))) if not any(p['fixes']) else
            'both-agree' if g_ == tuple(p['fixes']) else 'both-disagree(keywords-win)'))
        ctx.stat('real', 'growth:' + ('linear' if p['lin'] else 'geometric'))
        ctx.stat('real', 'result:' + KINDS[obs['kind']])
        for c, v in obs['stream']:
            ctx.stat('real-outcomes', f'{c}/{"valid" if v else "invalid"}')
        if not obs['untouched']:
            ctx.violation('Ellipse.fit_image:image-modified', 'fit_image modified the input image', describe_real(p))
        if obs['kind'] != 0:
            continue
        if sched_hyps(p, obs['stream']):
            for sig, msg in sched_oracle(p, obs):
                ctx.violation('Ellipse.fit_image:' + sig, msg, describe_real(p))
        fg = fixed_geometry_oracle(p, obs)
        ctx.stat('real', 'stop-code-5-isophotes', sum(1 for _, c, _ in obs['isos'] if c == 5))
        if fg:
            ctx.violation('correspondence:copied-geometry', fg[0], describe_real(p), found_input=False)
        if obs['fixflags']:
            terms.append(fix_term(p, obs))
            meta.append(('fix', p, obs))
        ff = fixflag_oracle(p, obs)
        if ff:
            ctx.violation('Ellipse.fit_image:fix-flags-lost', f'{len(ff)} fitter calls / isophotes lost the '
                          f'requested fix flags, e.g. {ff[0]}', describe_real(p))
        if any(c == 4 for _, c, _ in obs['isos']):
            ctx.stat('real', 'non-iterative-isophotes-returned')
        bad = fixed_honoured(p, obs)
        if bad:
            ctx.violation('Ellipse.fit_image:fixed-parameter-changed',
                          f'a fixed parameter differs from the requested value: {bad[:3]}', describe_real(p))
        if not fixed_at_truth(p):
            # a parameter fixed away from the truth biases the others: only the schedule, the fix flags and
            # the exact fixed values are checked on this fit
            n, gross, worst = 0, [], dict(radii=0)
        else:
            n, gross, worst = recovery(p, obs)
        ctx.support('recovery_well_sampled', n)
        ctx.stat('real', 'well-sampled-isophotes', n)
        radii = worst.pop('radii')
        ctx.stat('real', 'well-sampled-non-iterative-isophotes-checked', worst.pop('noniter', 0))
        if not obs['isos'] and fixed_at_truth(p):
            # "No meaningful fit was possible" although the initial geometry is inside the basin of
            # convergence: counted as 8 well-sampled radii that did not converge
            ctx.stat('real', 'returned-empty')
            radii = 8
        if p['integr'] != 'nearest_neighbor' or not obs['isos']:
            conv[0] += n
            conv[1] += radii
        for k, v in worst.items():
            key = 'worst_ratio_to_tolerance_' + k
            d = ctx.cov['correspondence'].setdefault('recovery', {})
            d[key] = max(d.get(key, 0.0), round(v, 5))
        if gross:
            ctx.violation('Ellipse.fit_image:recovery:' + p['integr'],
                          f'well-sampled isophote differs from the truth by more than max(abs tol, 5 x reported '
                          f'error) [centre, eps, pa, intensity]: {gross[:2]}', describe_real(p))
        st = obs['steps']
        ctx.stat('real', 'corrector-steps-observed', len(st))
        # direct oracle on EVERY corrector step: the corrected harmonic is free and the largest free one,
        # and the corrector changes only its own parameter group
        for s_ in st:
            amps = [abs(c) for c, m in zip(s_['coeffs'], s_['fix']) if not m]
            if s_['fix'][s_['k']] or abs(s_['coeffs'][s_['k']]) < max(amps):
                ctx.violation('EllipseFitter.fit:corrector-choice', 'a fixed (masked) or non-maximal harmonic was '
                              f'corrected: index {s_["k"]}, fix {s_["fix"]}, coeffs {s_["coeffs"]}',
                              {'mode': 'step', 'case': describe_real(p),
                               'step': {k: s_[k] for k in ('k', 'fix', 'g', 'coeffs', 'harm', 'gc', 'gn')}})
                break
            if _frame_broken(s_):
                ctx.violation('EllipseFitter.fit:corrector-frame', f'corrector {s_["k"]} changed a parameter '
                              f'outside its group: {_frame_broken(s_)}',
                              {'mode': 'step', 'case': describe_real(p),
                               'step': {k: s_[k] for k in ('k', 'fix', 'g', 'coeffs', 'harm', 'gc', 'gn')}})
                break
        nonfin = [s_ for s_ in st if not all(math.isfinite(v) for v in s_['g'] + s_['gc'] + s_['gn'] + tuple(s_['coeffs']) + (s_['harm'],))]
        ctx.stat('real', 'steps-with-non-finite-geometry(not compared)', len(nonfin))
        st = [s_ for s_ in st if s_ not in nonfin]
        pick = st if len(st) <= 30 else [st[i] for i in sorted(ctx.rng.sample(range(len(st)), 30))]
        flips = [s for s in st if s['gc'] != s['gn']]
        ctx.stat('real', 'eps-normalisation-steps', len(flips))
        for s in (pick + [s for s in flips if s not in pick][:10]):
            all_steps.append((p, s))
    # support: inside the basin of convergence the fitter converges (stop code 0) at the great majority
    # of well-sampled radii (observed: 95 %); a fitter that does not converge would make the recovery
    # clause vacuous.  Nearest-neighbour fits are left out (pixel noise: most end with code 2).
    ctx.stat('real', 'well-sampled-radii(non-NN)', conv[1])
    ctx.stat('real', 'converged-at-well-sampled-radii(non-NN)', conv[0])
    ctx.support('convergence_rate', conv[1])
    if conv[1] >= 40 and conv[0] < 0.6 * conv[1]:
        ctx.violation('Ellipse.fit_image:convergence-rate',
                      f'only {conv[0]} of {conv[1]} well-sampled isophotes of noise-free galaxies converged '
                      '(stop code 0) from initial geometries inside the basin of convergence', {'mode': 'aggregate'})
    for p, s in all_steps:
        terms.append(step_term(s))
        meta.append(('step', p, s))
        ctx.count_case(['step', s['k'], s['fix'], s['g'], s['coeffs']])
        ctx.stat('steps', f'corrector:{s["k"]}')
        ctx.stat('steps', 'mask:' + ''.join('1' if b else '0' for b in s['fix']))

    _t(ctx, 'real')
    # ---- model image / misc support (few: slow) ----------------------------------------
    def beyond(p):
        return (p['nx'] > p['ny'] and p['x0'] > p['ny']) or (p['ny'] > p['nx'] and p['y0'] > p['nx'])
    elig = [(p, obs) for kind, p, obs in meta
            if kind == 'real' and obs['kind'] == 0 and len(obs['isos']) >= 12 and p['integr'] == 'bilinear'
            and not any(eff_fixes(p))]
    # galaxies centred beyond the shorter frame dimension first (image axes must not be interchangeable)
    def seam(p):
        return p['pa'] in (0.0, math.pi)
    def noniter(e):
        return any(c == 4 for _, c, _ in e[1]['isos'])
    elig = ([e for e in elig if max(e[0]['ny'], e[0]['nx']) >= 200][:(2 if quick else 8)]
            + [e for e in elig if beyond(e[0]) and max(e[0]['ny'], e[0]['nx']) < 200][:(3 if quick else 10)]
            + [e for e in elig if seam(e[0]) and not beyond(e[0]) and max(e[0]['ny'], e[0]['nx']) < 200][:(3 if quick else 10)]
            + [e for e in elig if noniter(e) and not beyond(e[0]) and not seam(e[0]) and max(e[0]['ny'], e[0]['nx']) < 200][:(3 if quick else 10)]
            + [e for e in elig if not beyond(e[0]) and not seam(e[0]) and not noniter(e) and max(e[0]['ny'], e[0]['nx']) < 200][:(2 if quick else 10)])
    def large(p):
        return max(p['ny'], p['nx']) >= 200
    # lists built along the true ellipses on large frames (no fit), out to 90-125 pixels
    synth = []
    for _ in range(2 if quick else 8):
        ps = gen_synth(ctx.rng)
        synth.append((ps, run_synth(ps)))
        ctx.count_case(ps, True)
    for p, obs in elig + synth:
        desc = p if p.get('mode') == 'synth' else describe_real(p)
        try:
            res = model_residual(p, obs)
        except Exception as e:                       # spline failures are numerics
            ctx.stat('model_image', 'raised:' + type(e).__name__)
            continue
        ctx.stat('model_image', 'pixels-within-reach-of-a-non-converged-isophote(left out)',
                 getattr(model_residual, 'last_unsupported', 0))
        if res is None:
            ctx.stat('model_image', 'region-too-small')
            continue
        rel, coverage = res
        ctx.stat('model_image', 'pixels-compared', int(rel.size))
        ctx.stat('model_image', 'list:' + ('built-along-the-true-ellipses' if p.get('mode') == 'synth' else 'fitted'))
        ctx.stat('model_image', 'centre-beyond-shorter-dimension' if beyond(p) else 'centre-within-shorter-dimension')
        if large(p):
            ctx.stat('model_image', 'region-reaching-beyond-60-pixels')
        if seam(p):
            ctx.stat('model_image', 'pa-on-the-0/pi-seam')
        if noniter((p, obs)):
            ctx.stat('model_image', 'list-with-non-iterative-isophotes')
        d = ctx.cov['correspondence'].setdefault('model_image', {})
        d['least_filled_fraction'] = min(d.get('least_filled_fraction', 1.0), round(coverage, 5))
        if rel.size:
            ctx.support('model_image', int(rel.size))
            d['worst_median_rel_residual'] = max(d.get('worst_median_rel_residual', 0.0), round(float(np.median(rel)), 5))
            d['worst_p90_rel_residual'] = max(d.get('worst_p90_rel_residual', 0.0), round(float(np.percentile(rel, 90)), 5))
            d['worst_pixel_over_bound'] = max(d.get('worst_pixel_over_bound', 0.0), round(model_residual.last_worst, 4))
        for sig, msg in model_verdict(p, res):
            ctx.violation(sig, msg, desc)
    _t(ctx, 'model image')
    # ---- polar twins ---------------------------------------------------------------------
    n_pol = 250 if quick else 2500
    for _ in range(n_pol):
        p = gen_polar(ctx.rng)
        sc, vec, ts, tv = run_polar(p)
        terms.append(polar_term(p, sc, vec, ts, tv))
        meta.append(('polar', p, (sc, vec)))
        ctx.count_case(['polar', p['x0'], p['y0'], p['pa'], p['pts']])
        ctx.stat('polar', 'points', len(p['pts']))
        ctx.stat('polar', 'arcsine-implementations-differ', sum(1 for k in ts if ts[k] != tv[k]))
        ctx.stat('polar', 'pa-negative' if p['pa'] < 0 else 'pa-nonnegative')
        for b in polar_oracle(p, sc, vec):
            ctx.violation('EllipseGeometry.to_polar:' + b[0], f'polar transform wrong/twins disagree: {b}',
                          {'mode': 'polar', 'x0': p['x0'], 'y0': p['y0'], 'pa': p['pa'], 'pts': p['pts']})
    # random full-precision floats: tolerance only (support)
    for _ in range(200 if quick else 2000):
        p = dict(x0=ctx.rng.uniform(-50, 50), y0=ctx.rng.uniform(-50, 50), pa=ctx.rng.uniform(-6.2, 6.2),
                 pts=[(ctx.rng.uniform(-90, 90), ctx.rng.uniform(-90, 90)) for _ in range(4)])
        sc, vec, _, _ = run_polar(p)
        ctx.support('polar_twins_random_floats', len(p['pts']))
        for b in polar_oracle(p, sc, vec):
            ctx.violation('EllipseGeometry.to_polar:' + b[0], f'polar transform wrong/twins disagree: {b}',
                          {'mode': 'polar', 'x0': p['x0'], 'y0': p['y0'], 'pa': p['pa'], 'pts': p['pts']})

    _t(ctx, 'polar')
    # ---- the model in Coq --------------------------------------------------------------------
    bad = ctx.coq_eval_cases(IMPORTS, 'check_case', terms, case_type='case')
    _t(ctx, 'coq')
    ctx.stat('coq', 'disagreements', len(bad))
    for i in bad[:12]:
        kind, p, obs = meta[i]
        model = ctx.coq_eval_term(IMPORTS, f'model_out ({terms[i]})') if len(bad) < 40 else None
        if kind in ('sched', 'real'):
            desc = describe_sched(p.get('_whole', p)) if kind == 'sched' else describe_real(p)
            detail = {'case': desc, 'impl': {k: obs[k] for k in ('kind', 'isos', 'calls', 'stream')}, 'model': model,
                      'cmd': 'bin/check C20 --replay <this file>'}
            hyp = sched_hyps(p, p['stream'] if kind == 'sched' else obs['stream'])
            fails = sched_oracle(p, obs) if hyp else []
            if fails:
                for sig, msg in fails:
                    ctx.violation('Ellipse.fit_image:' + sig, msg, desc)
            else:
                ctx.violation('correspondence:C20_Model.fit_image', 'sma schedule / call sequence of fit_image '
                              'differs from the model (property clauses hold on this input)', detail, found_input=False)
        elif kind == 'fix':
            desc = describe_real(p) if 'law' in p else describe_sched(p.get('_whole', p))
            ff = fixflag_oracle(p, obs)
            ctx.violation('Ellipse.fit_image:fix-flags-lost' if ff else 'correspondence:C20_Model.effective_fix',
                          (ff[0] if ff else 'geometry.fix seen by the fitter differs from effective_fix of the model'),
                          desc if ff else {'case': desc, 'seen': sorted({f for _, _, f in obs['fixflags']}), 'model': model},
                          found_input=bool(ff))
        elif kind == 'polar':
            sc, vec = obs
            desc = {'mode': 'polar', 'x0': p['x0'], 'y0': p['y0'], 'pa': p['pa'], 'pts': p['pts']}
            fails = polar_oracle(p, sc, vec)
            if fails:
                ctx.violation('EllipseGeometry.to_polar:' + fails[0][0], f'polar transform: {fails[0]}', desc)
            else:
                ctx.violation('correspondence:C20_Model.to_polar', 'to_polar differs bitwise from the model',
                              {'case': desc, 'scalar': sc, 'vector': vec, 'model': model}, found_input=False)
        else:
            s = obs
            desc = {'mode': 'step', 'case': describe_real(p), 'step': {k: s[k] for k in ('k', 'fix', 'g', 'coeffs', 'harm', 'gc', 'gn')}}
            amps = [abs(c) for c, m in zip(s['coeffs'], s['fix']) if not m]
            wrong = s['fix'][s['k']] or abs(s['coeffs'][s['k']]) < max(amps)
            frame = _frame_broken(s)
            if wrong or frame:
                ctx.violation('EllipseFitter.fit:corrector-choice' if wrong else 'EllipseFitter.fit:corrector-frame',
                              'a fixed (masked) or non-maximal harmonic was corrected' if wrong else
                              f'corrector {s["k"]} changed a parameter outside its group: {frame}', desc)
            else:
                ctx.violation('correspondence:C20_Model.fit_step', 'fitter step differs from the model',
                              {**desc, 'model': model}, found_input=False)

    # ---- integrators / extraction walk / sigma clip (C20I), own PRNG: the stream above is unchanged ------------
    c20i.run_integrator_correspondence(ctx, 300 if quick else 3000)
    _t(ctx, 'c20i')
    c20h.run_harmonics_correspondence(ctx, 100 if quick else 1500)
    _t(ctx, 'c20h')


def _frame_broken(s):
    g, gc, k = s['g'], s['gc'], s['k']
    keep = {0: (2, 3), 1: (2, 3), 2: (0, 1, 3), 3: (0, 1, 2)}[k]
    return [i for i in keep if g[i] != gc[i]]


def replay(obj):
    r = obj['replay']
    c = r.get('case', r)
    mode = c.get('mode')
    if mode == 'synth':
        obs = run_synth(c)
        res = model_residual(c, obs)
        bad = [m for _, m in model_verdict(c, res)] if res is not None else []
        print('model image:', None if res is None else f'{res[0].size} pixels compared, filled fraction {res[1]:.4f}')
    elif mode == 'polar':
        sc, vec, _, _ = run_polar(c)
        bad = polar_oracle(c, sc, vec)
        print('scalar:', sc, '\nvector:', vec)
    elif mode == 'step':
        p = dict(c['case'])
        p['fixes'], p['g'] = tuple(p['fixes']), tuple(p['g'])
        obs = run_real(p)
        bad = [(_s['k'], _s['fix']) for _s in obs['steps']
               if _s['fix'][_s['k']] or _frame_broken(_s)
               or abs(_s['coeffs'][_s['k']]) < max(abs(v) for v, m in zip(_s['coeffs'], _s['fix']) if not m)]
    else:
        p = dict(c)
        p['fixes'] = tuple(p['fixes'])
        if mode == 'scripted':
            p['stream'] = [tuple(x) for x in p['stream']]
            if p.get('second'):
                p['second'] = dict(p['second'])
                p['second']['stream'] = [tuple(x) for x in p['second']['stream']]
                p['second']['fixes'] = tuple(p['second']['fixes'])
            obs = run_sched(p)
            stream = p['stream']
        else:
            p['g'] = tuple(p['g'])
            obs = run_real(p)
            stream = obs['stream']
        print('impl:', {k: obs[k] for k in ('kind', 'isos')})
        bad = [m for _, m in sched_oracle(p, obs)] if sched_hyps(p, stream) else []
        if not obs['untouched']:
            bad.append('image modified')
        if obs['kind'] == 4:
            bad.append('fit_image raised ' + str(obs['exc']))
        if obs['kind'] == 0 and not all(p['fixes']):
            bad += fixflag_oracle(p, obs)[:2]
        if mode == 'scripted' and p.get('second') and 'second' in obs:
            q, o2 = p['second'], obs['second']
            print('impl (second call):', {k: o2[k] for k in ('kind', 'isos')})
            if sched_hyps(q, q['stream']):
                bad += ['second call: ' + m for _, m in sched_oracle(q, o2)]
            if o2['kind'] == 4:
                bad.append('second call raised ' + str(o2['exc']))
            if o2['kind'] == 0 and not all(q['fixes']):
                bad += fixflag_oracle(q, o2)[:2]
        if mode == 'real' and obs['kind'] == 0:
            bad += [str(b) for b in fixed_honoured(p, obs)]
            if fixed_at_truth(p):
                bad += [str(g) for g in recovery(p, obs)[1]]
            if len(obs['isos']) >= 12 and p['integr'] == 'bilinear' and not any(eff_fixes(p)):
                res = model_residual(p, obs)
                if res is not None:
                    print(f'model image: {res[0].size} pixels compared, filled fraction {res[1]:.4f}')
                    bad += [m for _, m in model_verdict(p, res)]
    print('property holds on this input' if not bad else f'property FAILS on this input: {bad[:3]}')
    return 0 if not bad else 1
