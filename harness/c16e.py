"""C16E (stretch of C16): the per-aperture statistics that C16 leaves to "astropy on the proved value list".

Tie between coq/C16E_Model.v (exact arithmetic over Q: min, max, mean, median, mode = 3*median - 2*mean,
var = std^2 (ddof 0), mad_std^2 = (k*MAD)^2, biweight_location (c = 6), biweight_midvariance (c = 9) of the
CENTRE-method value list of C16_Model, optionally sigma-clipped by the SigmaClip model of C11S_Model) and the
real `photutils.aperture.ApertureStats`.

`run_statistics_correspondence(ctx, n_cases)` is meant to be called from harness/c16.py after its build (with
the C16E files among the built files so that C16E_Model.vo exists).  It
  * generates small images on the exact lattice 1/8 (integers, dyadics, ramps, blobs, outliers, constants,
    few distinct values, mostly-constant frames with MAD = 0; NaN / inf pixels), masks, apertures of all six
    pixel classes (and their sky forms) at 1..4 positions inside / over the edge / off the image / on masked
    pixels, scalar and per-position local_bkg (multiples of 1/8, so that data - bkg is exact), every
    sum_method, sigma_clip None or a SigmaClip (median / mean, std / mad_std, sigma, maxiters),
  * runs the REAL ApertureStats and reads the ten statistics of every position,
  * hands Coq the image, mask, the implementation's own to_mask('center') weights and bounding boxes (C01's
    subject), local_bkg, and the sigma clip EITHER as SigmaClip's output mask on the masked cutout (any
    SigmaClip; the model only selects) OR as the clip parameters (cenfunc in {median, mean}, stdfunc = 'std':
    the model of coq/C11S_Model.v clips the value list itself; used when no clipping decision of any iteration
    is within 1e-9 of a tie, decided with Fractions by harness/c11s.exact_clip),
  * `check_case` recomputes every statistic inside Coq (vm_compute) and compares: exact equality for min, max,
    median, and for mean / mode / biweight location where the float computation is exact (constant lists,
    MAD = 0), zero scales exactly zero, otherwise |impl - model| <= 2^-40 * scale by cross-multiplication
    (std and mad_std on their squares, 2^-38 relative; the biweight quotients scaled by their denominators).
    NaN must agree in kind (empty selection <-> NaN).
  * biweight_midvariance cases whose exact denominator sum_inside (1-u^2)(1-5u^2) is 0 or below 2^-10 are not
    compared for that statistic (the float sum need not vanish); they are counted.
A disagreement is decided by a plain-Python oracle of the C16 text (exact Fractions on the explicitly
enumerated pixel set; the given SigmaClip applied by the oracle to the 1-D value list): if the
implementation's number is not the direct statistic, it is reported as a violation of C16 with the input;
otherwise as a model/implementation correspondence failure.
"""
import hashlib
import math
import random
import re
import warnings
from fractions import Fraction

import numpy as np

from .core import Raw, Some, coq

IMPORTS = ['C11_Model', 'C11S_Model', 'C11E_Model', 'C16_Model', 'C16E_Model']
# in dependency order, to be placed after C16_Model.v / C16_Proofs.v
COQ_FILES = ['C11_Model.v', 'C11_Proofs.v', 'C11_Properties.v', 'C11S_Model.v', 'C11S_Proofs.v',
             'C11E_Model.v', 'C11E_Proofs.v', 'C16E_Model.v', 'C16E_Proofs.v', 'C16E_Properties.v']
OBLIGATION_FILES = ['C16E_Properties.v']

KD = 8
STATS = ['min', 'max', 'mean', 'median', 'mode', 'std', 'var', 'mad_std', 'biweight_location',
         'biweight_midvariance']
MADSTD_K = Fraction(1.482602218505602)        # the constant of astropy.stats.mad_std, as the double it is
BW_LOC_C, BW_VAR_C = Fraction(6), Fraction(9)
SINGULAR = Fraction(1, 2 ** 10)
ORACLE_RTOL = Fraction(1, 10 ** 9)

EVIDENCE = {
    'model': 'coq/C16E_Model.v: statistics of the centre-method value list of C16_Model over Q (C11E definitions); '
             'std and mad_std as squares; sigma clip as given mask or through the SigmaClip model of C11S',
    'proved_for_all_value_lists': [
        'statistics_permutation_invariant', 'location_within_hull (mode refuted)', 'extrema_attained',
        'scale_nonnegative', 'variance_zero_iff_constant (refuted for mad_std / biweight_midvariance)',
        'location_affine_nonneg / location_affine_nonpos (every a; min and max swap for a < 0)',
        'scale_affine_square (every a, b) + root_scales_by_abs_value', 'constant_selection',
        'biweight_location_c6_defined', 'clip_keeps_sublist', 'clip_never_empties'],
    'proved_for_all_scenes': [
        'selected_pixels_center_rule', 'statistics_of_the_pixel_set', 'values_of_the_pixel_set_clipped',
        'statistics_ignore_sum_method (sum-footprint selection refuted)', 'empty_selection_is_nan',
        'statistics_no_overlap_is_nan', 'local_bkg_shifts_location_only',
        'given_clip_mask_is_model_clip (the two ways of giving the sigma clip agree)'],
    'not_modelled': ['square roots (std, mad_std compared on squares)', 'units',
                     'stdfunc = mad_std or callables inside SigmaClip (mask taken from the implementation)',
                     'which pixel centres are inside the aperture (to_mask, C01)'],
}


# --------------------------------------------------------------------------
# generators (own PRNG; helper generators of harness/c16.py are called with it)
# --------------------------------------------------------------------------
def gen_image(rng, ny, nx):
    from . import c16
    kind = rng.choice(['c16', 'c16', 'c16', 'constant', 'few-values', 'mad0', 'noise+outliers'])
    if kind == 'c16':
        d, _, k = c16.gen_image(rng, ny, nx, True)
        return d, 'c16:' + k
    if kind == 'constant':
        c = rng.randint(-80, 200) / KD
        d = [[c] * nx for _ in range(ny)]
    elif kind == 'few-values':
        pool = [rng.randint(-80, 160) / KD for _ in range(rng.randint(2, 4))]
        d = [[rng.choice(pool) for _ in range(nx)] for _ in range(ny)]
    elif kind == 'mad0':          # mostly one value: MAD = 0 with std != 0
        c = rng.randint(-40, 80) / KD
        d = [[(c if rng.random() < 0.75 else c + rng.choice([-1, 1]) * rng.randint(1, 300) / KD)
              for _ in range(nx)] for _ in range(ny)]
    else:
        d = [[(rng.randint(-8, 8) + rng.randint(-8, 8)) / KD + 5.0 for _ in range(nx)] for _ in range(ny)]
        for _ in range(rng.randint(1, 4)):
            d[rng.randrange(ny)][rng.randrange(nx)] = float(rng.choice([300, 500, -250, 60, -40]))
    return d, kind


def gen_spec(rng):
    from . import c16
    ny = rng.choice([1, 2, 3]) if rng.random() < 0.08 else rng.randint(5, 11)
    nx = rng.choice([1, 2, 3]) if rng.random() < 0.08 else rng.randint(5, 11)
    d, dkind = gen_image(rng, ny, nx)
    cls = rng.choice(c16.PIXEL_CLASSES)
    params = c16.gen_params(rng, cls)
    ext = c16.extent_of(cls, params)
    scalar = rng.random() < 0.15
    npos = 1 if scalar else rng.randint(1, 4)
    positions, kinds = [], []
    for _ in range(npos):
        p, k = c16.gen_position(rng, ny, nx, ext)
        positions.append(list(p))
        kinds.append(k)

    def near_a_position():
        # a pixel next to an aperture centre (so that it is likely to be selected), else anywhere
        if rng.random() < 0.6:
            px, py = rng.choice(positions)
            y, x = int(round(py)) + rng.randint(-2, 2), int(round(px)) + rng.randint(-2, 2)
            if 0 <= y < ny and 0 <= x < nx:
                return y, x
        return rng.randrange(ny), rng.randrange(nx)

    if rng.random() < 0.35:
        for _ in range(rng.randint(1, 3)):
            y, x = near_a_position()
            d[y][x] = rng.choice([math.nan, math.inf, -math.inf])
    r = rng.random()
    if r < 0.3:
        method, subpixels = 'center', 5
    elif r < 0.65:
        method, subpixels = 'subpixel', rng.choice([1, 2, 3, 5, 8])
    else:
        method, subpixels = 'exact', 5
    sig = None
    if rng.random() < 0.5:
        sig = {'sigma': rng.choice([1.0, 1.5, 2.0, 2.5, 3.0]), 'maxiters': rng.choice([1, 1, 2, 5, None]),
               'cenfunc': rng.choice(['median', 'median', 'mean']), 'stdfunc': rng.choice(['std', 'std', 'std', 'mad_std'])}
        if rng.random() < 0.5:      # outliers of several sizes next to the apertures: the clip needs several iterations
            for amp in rng.sample([2000.0, 400.0, 90.0, 25.0, -1500.0, -60.0], rng.randint(2, 5)):
                y, x = near_a_position()
                if isinstance(d[y][x], float) and math.isfinite(d[y][x]):
                    d[y][x] = amp
            dkind += '+multi-scale-outliers'
    r = rng.random()
    if r < 0.25:
        lb = None
    elif r < 0.5:
        lb = rng.randint(-40, 80) / KD
    else:
        lb = [rng.randint(-40, 80) / KD for _ in range(npos)]
    spec = {'data': [[c16._enc(v) for v in row] for row in d], 'err': None,
            'mask': c16.gen_mask(rng, ny, nx), 'aper': {'cls': cls, 'params': params, 'positions': positions,
                                                        'scalar': scalar},
            'sum_method': method, 'subpixels': subpixels, 'sigma_clip': sig, 'local_bkg': lb,
            'kinds': kinds, 'dkind': dkind, 'lattice': True, 'wcs': None}
    if rng.random() < 0.12:
        s = rng.choice([0.05, 0.2, 1.0]) / 3600
        spec['wcs'] = {'crpix': [nx / 2 + rng.uniform(-2, 2), ny / 2 + rng.uniform(-2, 2)],
                       'cdelt': [-s, s], 'crval': [rng.uniform(0, 359), rng.uniform(-70, 70)],
                       'rot': rng.choice([0.0, 0.0, rng.uniform(-3, 3)])}
        spec['aper']['positions'] = [[min(max(p[0], -60.0), nx + 60.0), min(max(p[1], -60.0), ny + 60.0)]
                                     for p in positions]
    return spec


LANDMARKS = [   # hand-made: the measure-zero behaviours named in C16E_Properties.v
    # a constant frame: MAD == 0 branches, std == 0
    dict(data=[[2.5] * 6 for _ in range(6)], mask=None, cls='CircularAperture', params={'r': 2.0},
         positions=[[2.5, 2.5], [0.0, 0.0], [30.0, 30.0]], lb=[0.5, -1.0, 0.0], sig=None, method='exact'),
    # more than half of the selected values equal: MAD = 0, std != 0
    dict(data=[[1.0, 1.0, 1.0, 1.0], [1.0, 1.0, 9.0, 1.0], [1.0, 1.0, 1.0, 1.0], [1.0, -3.0, 1.0, 1.0]], mask=None,
         cls='RectangularAperture', params={'w': 4.0, 'h': 4.0, 'theta': 0.0}, positions=[[1.5, 1.5]], lb=0.25,
         sig=None, method='center'),
    # mode below the minimum: values 0, 0, 1
    dict(data=[[0.0, 0.0, 1.0]], mask=None, cls='RectangularAperture', params={'w': 3.0, 'h': 1.0, 'theta': 0.0},
         positions=[[1.0, 0.0]], lb=None, sig=None, method='subpixel'),
    # everything masked / only NaN: NaN results
    dict(data=[[1.0, 2.0], [3.0, 4.0]], mask=[[True, True], [True, True]], cls='CircularAperture', params={'r': 1.5},
         positions=[[0.5, 0.5]], lb=None, sig=None, method='exact'),
    dict(data=[['nan', 'inf'], ['-inf', 'nan']], mask=None, cls='CircularAperture', params={'r': 1.5},
         positions=[[0.5, 0.5]], lb=2.0, sig=None, method='exact'),
    # one selected pixel
    dict(data=[[1.0, 2.0, 3.0], [4.0, 5.5, 6.0], [7.0, 8.0, 9.0]], mask=None, cls='CircularAperture', params={'r': 0.4},
         positions=[[1.0, 1.0]], lb=1.5, sig=None, method='exact'),
    # sigma clip rejecting an outlier (median, sigma 2) with a per-position background
    dict(data=[[5.0, 5.125, 4.875, 5.0, 5.25], [5.0, 300.0, 5.0, 4.75, 5.0], [5.125, 5.0, 5.0, 5.0, 4.875],
               [5.0, 5.0, 5.25, 5.0, 5.0], [4.875, 5.0, 5.0, 5.125, 5.0]], mask=None,
         cls='CircularAperture', params={'r': 2.2}, positions=[[2.0, 2.0], [1.0, 1.0]], lb=[1.0, 2.0],
         sig={'sigma': 2.0, 'maxiters': 5, 'cenfunc': 'median', 'stdfunc': 'std'}, method='exact'),
]


def landmark_spec(c):
    return {'data': c['data'], 'err': None, 'mask': c['mask'],
            'aper': {'cls': c['cls'], 'params': c['params'], 'positions': c['positions'], 'scalar': False},
            'sum_method': c['method'], 'subpixels': 5, 'sigma_clip': c['sig'], 'local_bkg': c['lb'],
            'kinds': ['landmark'] * len(c['positions']), 'dkind': 'landmark', 'lattice': True, 'wcs': None}


# --------------------------------------------------------------------------
# the implementation
# --------------------------------------------------------------------------
def run_impl(spec):
    """-> {stat: array with one float per position} of the real ApertureStats"""
    from . import c16
    s = c16.make_stats(spec)
    out = {}
    with warnings.catch_warnings():
        warnings.simplefilter('ignore')
        with np.errstate(all='ignore'):
            for name in STATS:
                out[name] = c16._vals(getattr(s, name))
    return out


def _fl(x):
    """float -> Coq `fl`: Some (m, e) with x = m * 2^e exactly, None for NaN / inf."""
    x = float(x)
    if not math.isfinite(x):
        return None
    if x == 0.0:
        return Some((0, 0))
    m, e = math.frexp(x)
    m = int(m * (1 << 53))
    e -= 53
    while m % 2 == 0:
        m //= 2
        e += 1
    return Some((m, e))


# --------------------------------------------------------------------------
# exact reference (Fractions): the C16 text on the explicitly enumerated pixel set
# --------------------------------------------------------------------------
def _median(vals):
    s = sorted(vals)
    n = len(s)
    return s[n // 2] if n % 2 else (s[n // 2 - 1] + s[n // 2]) / 2


def set_values(spec, p):
    """data[y, x] - local_bkg over the pixels whose centre is in the aperture (implementation's centre mask),
    inside the image, unmasked, finite; raster order; exact Fractions"""
    from . import c16
    data = c16.arr_of(spec['data'])
    mask = None if spec.get('mask') is None else np.array(spec['mask'], dtype=bool)
    ny, nx = data.shape
    x0, x1, y0, y1 = p.bbox
    vals = []
    for y in range(max(y0, 0), min(y1, ny)):
        for x in range(max(x0, 0), min(x1, nx)):
            if p.Wc[y - y0, x - x0] != 0 and math.isfinite(data[y, x]) and not (mask is not None and mask[y, x]):
                vals.append(Fraction(float(data[y, x])) - Fraction(float(p.bkg)))
    return vals


def exact_statistics(vals):
    """dict stat -> Fraction (std, mad_std as SQUARES) or None (NaN / undefined)"""
    if not vals:
        return {k: None for k in STATS}
    n = len(vals)
    mean = sum(vals) / n
    med = _median(vals)
    var = sum((x - mean) ** 2 for x in vals) / n
    mad = _median([abs(x - med) for x in vals])
    out = {'min': min(vals), 'max': max(vals), 'mean': mean, 'median': med, 'mode': 3 * med - 2 * mean,
           'std': var, 'var': var, 'mad_std': (MADSTD_K * mad) ** 2}
    if mad == 0:
        out['biweight_location'] = med
        out['biweight_midvariance'] = Fraction(0)
        out['_s2'] = None
    else:
        us = [(x - med) / (BW_LOC_C * mad) for x in vals]
        ws = [((1 - u * u) ** 2 if abs(u) < 1 else Fraction(0)) for u in us]
        out['biweight_location'] = med + sum((x - med) * w for x, w in zip(vals, ws)) / sum(ws)
        us = [(x - med) / (BW_VAR_C * mad) for x in vals]
        f1 = sum((x - med) ** 2 * (1 - u * u) ** 4 for x, u in zip(vals, us) if abs(u) < 1)
        s2 = sum((1 - u * u) * (1 - 5 * u * u) for u in us if abs(u) < 1)
        out['_s2'] = s2
        out['biweight_midvariance'] = None if s2 == 0 else n * f1 / (s2 * s2)
    return out


def oracle_clip(spec, vals):
    """the given SigmaClip applied by the oracle to the 1-D value list: surviving values"""
    from . import c16
    if spec.get('sigma_clip') is None or not vals:
        return vals
    sc = c16.make_sigclip(spec['sigma_clip'])
    with warnings.catch_warnings():
        warnings.simplefilter('ignore')
        r = sc(np.array([float(v) for v in vals]), masked=True)
    keep = ~np.ma.getmaskarray(r)
    return [v for v, k in zip(vals, keep) if k]


def oracle_mismatches(spec, infos, impl):
    """[(position, stat, implementation value, direct statistic)] where the implementation's number is not the
    direct statistic of the pixel set (1e-9 relative; std / mad_std on squares)"""
    bad = []
    for i, p in enumerate(infos):
        ex = exact_statistics(oracle_clip(spec, set_values(spec, p)))
        for name in STATS:
            v = float(impl[name][i])
            q = ex[name]
            if name == 'biweight_midvariance' and ex.get('_s2') is not None and abs(ex['_s2']) < SINGULAR:
                continue
            if q is None:
                if math.isfinite(v):
                    bad.append((i, name, v, 'nan'))
                continue
            if not math.isfinite(v):
                bad.append((i, name, v, float(q)))
                continue
            fv = Fraction(v)
            if name in ('std', 'mad_std'):
                if fv < 0:
                    bad.append((i, name, v, float(q)))
                    continue
                fv = fv * fv
            scale = max(abs(q), abs(fv))
            if name in ('mean', 'mode', 'biweight_location', 'min', 'max', 'median'):
                vals = set_values(spec, p)
                scale = max([scale] + [abs(x) for x in vals])
            if abs(fv - q) > ORACLE_RTOL * scale:
                bad.append((i, name, v, float(q)))
    return bad


# --------------------------------------------------------------------------
# Coq terms
# --------------------------------------------------------------------------
def _zq(fr):
    return (int(fr.numerator), int(fr.denominator))


def clip_mode(spec, infos):
    """'none' | 'mask' (SigmaClip output mask as input) | 'model' (C11S model clips), and the reason"""
    from . import c11s
    sg = spec.get('sigma_clip')
    if sg is None:
        return 'none', None
    if sg['stdfunc'] != 'std':
        return 'mask', 'stdfunc=' + sg['stdfunc']
    med = sg['cenfunc'] == 'median'
    s = Fraction(sg['sigma'])
    for p in infos:
        vals = set_values(spec, p)
        if not vals:
            continue
        _, _, tie = c11s.exact_clip(vals, med, s, s, sg['maxiters'])
        if tie is not None:
            return 'mask', 'clip-decision-' + tie + '-tie'
    return 'model', None


def to_coq(spec, infos, impl, mode, skips):
    from . import c16
    data = c16.arr_of(spec['data'])
    mask = None if spec.get('mask') is None else np.array(spec['mask'], dtype=bool)
    ny, nx = data.shape
    scene = Raw('(mkscene %d %d %s %s None %s)' % (
        ny, nx, coq(c16.vimg(data, KD)),
        coq(None if mask is None else Some([[bool(v) for v in r] for r in mask])),
        coq(spec['sum_method'] == 'center')))
    cs = None
    if mode == 'model':
        sg = spec['sigma_clip']
        cs = Some((sg['cenfunc'] == 'median', _zq(Fraction(sg['sigma'])), None, None,
                   None if sg['maxiters'] is None else Some(int(sg['maxiters']))))
    ps = []
    for i, p in enumerate(infos):
        clipc = None
        if mode == 'mask' and p.clipc is not None:
            clipc = Some([[bool(v) for v in r] for r in p.clipc])
        wc = coq(c16.zimg(p.Wc, 1))
        aper = Raw('(mkaper (mkbox %s %s %s %s) %s %s %s None)' % (
            coq(p.bbox[0]), coq(p.bbox[1]), coq(p.bbox[2]), coq(p.bbox[3]), wc, wc, coq(clipc)))
        vals = [impl[name][i] for name in STATS]
        im = Raw('(mkimpl ' + ' '.join(coq(_fl(v)) for v in vals[:9]) + ' ' + coq(bool(skips[i])) + ' '
                 + coq(_fl(vals[9])) + ')')
        ps.append((aper, int(round(float(p.bkg) * KD)), im))
    return coq((KD, _zq(MADSTD_K), cs, scene, ps))


# --------------------------------------------------------------------------
def describe(spec):
    return {k: spec[k] for k in ('data', 'mask', 'aper', 'sum_method', 'subpixels', 'sigma_clip', 'local_bkg', 'wcs')}


def _classify(ctx, spec, infos, mode, why):
    for p in infos:
        if not p.overlap:
            ctx.stat('statistics', 'position:no-overlap')
            continue
        n = len(set_values(spec, p))
        ctx.stat('statistics', 'position:selected=' + ('0' if n == 0 else '1' if n == 1 else '2' if n == 2 else
                                                      '3-10' if n <= 10 else '11+'))
        x0, x1, y0, y1 = p.bbox
        ny, nx = len(spec['data']), len(spec['data'][0])
        ctx.stat('statistics', 'position:' + ('inside' if (x0 >= 0 and y0 >= 0 and x1 <= nx and y1 <= ny) else 'over-the-edge'))
    ctx.stat('statistics', 'class:' + spec['aper']['cls'] + ('(sky)' if spec.get('wcs') else ''))
    ctx.stat('statistics', 'sum_method:' + spec['sum_method'])
    ctx.stat('statistics', 'sigma_clip:' + ('None' if spec['sigma_clip'] is None else
                                            f"{spec['sigma_clip']['cenfunc']}/{spec['sigma_clip']['stdfunc']}->" + mode
                                            + ('' if why is None else '(' + why + ')')))
    lb = spec['local_bkg']
    ctx.stat('statistics', 'local_bkg:' + ('None' if lb is None else 'scalar' if np.isscalar(lb) else 'per-position'))
    ctx.stat('statistics', 'mask:' + ('yes' if spec['mask'] is not None else 'no'))
    ctx.stat('statistics', 'image:' + spec['dkind'])
    flat = [v for row in spec['data'] for v in row]
    ctx.stat('statistics', 'non-finite-pixels:' + ('yes' if any(isinstance(v, str) for v in flat) else 'no'))


def run_statistics_correspondence(ctx, n_cases, rng=None):
    """Returns a dict of counts; disagreements are reported through ctx.violation.  Random choices come from a
    PRNG derived from ctx.seed (so the case stream of the calling C16 harness is unchanged) unless `rng` is given."""
    from . import c16
    if rng is None:
        rng = random.Random(int(hashlib.sha1(f'C16E:{ctx.seed}:{ctx.tier}'.encode()).hexdigest()[:12], 16))
    specs = [landmark_spec(c) for c in LANDMARKS]
    while len(specs) < n_cases:
        spec = gen_spec(rng)
        # three specs out of four must have a position with at least three selected values
        if rng.random() < 0.75:
            try:
                if not any(p.overlap and len(set_values(spec, p)) >= 3 for p in c16.position_info(spec)):
                    continue
            except Exception:       # noqa  (counted below when the spec is kept)
                continue
        specs.append(spec)
    out = {'cases': 0, 'positions': 0, 'statistics_compared': 0, 'coq_cases': 0, 'disagreements': 0,
           'nan_positions': 0, 'skipped_midvariance_singular': 0, 'skipped_midvariance_near_singular': 0,
           'clip_by_model(C11S)': 0, 'clip_mask_as_input': 0, 'clip_near_tie_fallback_to_mask': 0,
           'clip_hypothesis_failed': 0, 'generator_errors': 0, 'oracle_violations': 0}
    terms, keep = [], []
    for spec in specs:
        try:
            infos = c16.position_info(spec)
        except Exception as e:      # to_mask itself failed: not this property's subject
            out['generator_errors'] += 1
            ctx.stat('statistics', 'to_mask-error:' + type(e).__name__)
            continue
        try:
            impl = run_impl(spec)
        except Exception as e:      # noqa
            ctx.violation('ApertureStats:exception', f'{type(e).__name__}: {str(e)[:160]}', describe(spec))
            continue
        mode, why = clip_mode(spec, infos)
        if mode == 'model':
            out['clip_by_model(C11S)'] += 1
        elif mode == 'mask':
            out['clip_mask_as_input'] += 1
            if why and why.startswith('clip-decision'):
                out['clip_near_tie_fallback_to_mask'] += 1
            if not all(p.clip_hyp for p in infos):
                out['clip_hypothesis_failed'] += 1
        _classify(ctx, spec, infos, mode, why)
        skips = []
        for p in infos:
            vals = oracle_clip(spec, set_values(spec, p)) if p.overlap else []
            ex = exact_statistics(vals)
            s2 = ex.get('_s2')
            skip = s2 is not None and abs(s2) < SINGULAR
            if skip:
                out['skipped_midvariance_singular' if s2 == 0 else 'skipped_midvariance_near_singular'] += 1
                ctx.stat('statistics', 'skipped:midvariance-' + ('singular' if s2 == 0 else 'near-singular'))
            skips.append(skip)
            out['positions'] += 1
            out['statistics_compared'] += len(STATS) - (1 if skip else 0)
            if not vals:
                out['nan_positions'] += 1
            else:
                var, mad = ex['var'], ex['mad_std']
                ctx.stat('statistics', 'values:std' + ('=0' if var == 0 else '>0') + ',mad' + ('=0' if mad == 0 else '>0'))
        out['cases'] += 1
        nontrivial = any(len(set(set_values(spec, p))) > 1 for p in infos if p.overlap)
        ctx.count_case(('C16E', describe(spec)), nontrivial)
        terms.append(to_coq(spec, infos, impl, mode, skips))
        keep.append((spec, infos, impl, mode))
    if keep and len(ctx.cov['samples']) < 6:
        spec, infos, impl, mode = keep[min(len(keep) - 1, len(LANDMARKS))]
        ctx.sample({'C16E_case': describe(spec), 'clip': mode,
                    'impl': {k: [c16._enc(v) for v in impl[k]] for k in STATS}}, limit=6)
    bad = ctx.coq_eval_cases(IMPORTS, 'check_case', terms, case_type='stat_case', tag='c16e')
    out['coq_cases'] = len(terms)
    out['disagreements'] = len(bad)
    for j in bad[:12]:
        spec, infos, impl, mode = keep[j]
        failed = ['?']
        model = None
        try:
            txt = ctx.coq_eval_term(IMPORTS, f'check_detail {terms[j]}', tag='c16e_detail')
            rows = re.findall(r'\[([^\[\]]*)\]', txt)
            failed = sorted({STATS[k] for row in rows for k, b in enumerate(re.findall(r'true|false', row))
                             if b == 'false' and k < len(STATS)}, key=STATS.index)
            if len(bad) < 40:
                model = ctx.coq_eval_term(IMPORTS, f'model_out {terms[j]}', tag='c16e_detail')[:3000]
        except Exception as e:      # diagnostics only
            model = repr(e)[:300]
        detail = dict(describe(spec), clip=mode, impl={k: [c16._enc(v) for v in impl[k]] for k in STATS},
                      model=model)
        mism = oracle_mismatches(spec, infos, impl)
        if mism:
            out['oracle_violations'] += 1
            for name in sorted({m[1] for m in mism}, key=STATS.index)[:3]:
                ctx.violation('ApertureStats.' + name + ':not-the-direct-statistic-of-the-pixel-set',
                              'C16: ' + name + ' differs from the statistic computed directly (exact rationals) from the '
                              'unmasked finite pixels whose centres lie in the aperture, after the given sigma clip and '
                              'after subtracting the local background (std / mad_std compared on squares)',
                              dict(detail, mismatches=[m for m in mism if m[1] == name][:4],
                                   cmd='bin/check C16 --replay <this file>  (or: python -m harness.c16e --replay <this file>)'))
        else:
            for name in (failed or ['?'])[:3]:
                ctx.violation('correspondence:C16E_Model.check_case:' + name,
                              'ApertureStats.' + name + ' differs from the exact-arithmetic model (beyond 2^-40 of the scale) '
                              'although the Python oracle of the C16 text accepts the output',
                              dict(detail, failed=failed), found_input=False)
    for k, v in out.items():
        ctx.stat('statistics_totals', k, v)
    ctx.support('aperture_statistics_vs_exact_model (positions)', out['positions'])
    ctx.cov['aperture_statistics'] = dict(EVIDENCE, correspondence=dict(out))
    ctx.assumptions.append(
        'C16E: min / max / median exactly, mean / mode / var / std^2 / mad_std^2 / biweight statistics of every position '
        'to 2^-40 of the scale against the exact-arithmetic model on the 1/8 lattice; the centre-method weights are the '
        "implementation's to_mask('center'); the SigmaClip is either its own output mask (any SigmaClip) or the C11S model "
        '(median / mean with std; clipping decisions within 1e-9 of a tie fall back to the mask); biweight_midvariance '
        'positions with |sum_inside (1-u^2)(1-5u^2)| < 2^-10 are skipped and counted; square roots are not modelled '
        '(std, mad_std compared on squares)')
    return out


def replay(obj):
    """python -m harness.c16e --replay file.json : re-run the oracle of the C16 text on the recorded input"""
    from . import c16
    r = obj['replay']
    spec = {k: r.get(k) for k in ('data', 'mask', 'aper', 'sum_method', 'subpixels', 'sigma_clip', 'local_bkg', 'wcs')}
    spec.update(err=None, kinds=[], lattice=True)
    infos = c16.position_info(spec)
    impl = run_impl(spec)
    mism = oracle_mismatches(spec, infos, impl)
    for m in mism:
        print(f'position {m[0]}: {m[1]} = {m[2]!r}, direct statistic = {m[3]!r}')
    print('property holds on this input' if not mism else 'property FAILS on this input')
    return 1 if mism else 0


def main(argv=None):
    """Standalone: python -m harness.c16e [n_cases] [seed] | --replay file  (uses a private work directory)."""
    import json
    import sys
    from . import core
    argv = sys.argv[1:] if argv is None else argv
    core.setup_repo_path()
    if argv and argv[0] == '--replay':
        return replay(json.loads(open(argv[1]).read()))
    n = int(argv[0]) if argv else 150
    seed = int(argv[1]) if len(argv) > 1 else 0
    ctx = core.Ctx('C16E', 'quick', seed)
    ok, log, missing = core.build_files(['lib/Cases.v', 'C11_Model.v', 'C11S_Model.v', 'C11E_Model.v', 'C16_Model.v',
                                         'C16E_Model.v'])
    if missing:
        print(log[-2000:])
        return 2
    out = run_statistics_correspondence(ctx, n)
    print(json.dumps({'result': out, 'distribution': ctx.cov['correspondence']}, indent=1))
    for sig, what, path, found in ctx.violations:
        print('VIOLATION', sig, '| found_input=%s |' % found, what[:100], path)
    return 1 if ctx.violations else 0


if __name__ == '__main__':
    raise SystemExit(main())
