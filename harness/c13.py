"""C13 — PSF/PRF models are flux-normalised and interpolate their data faithfully.

K (exact, Coq model vs real API):
  * ImagePSF(data, origin, oversampling, fill_value)(x, y) and .bounding_box on the exact
    lattice (dyadic coordinates, integer stamps), after random evaluation/copy histories;
  * GriddedPSFModel(nddata)(x, y), .bounding_box and the key set of the interpolator
    cache over histories of evaluations / copy() / deepcopy(), all grid layouts incl.
    one-row / one-column / one-point grids, reference points on grid nodes, on cell
    edges, inside cells and outside the grid;
  * the evaluate() bodies of the five Gaussian PRF/PSF classes, run through the public
    call model(x, y) with the transcendental primitives of functional_models.py (erf,
    exp, cos, sin, deg2rad, sqrt(2), pi, the FWHM constant) replaced by exact dyadic
    stand-ins; the Coq model is instantiated at the same stand-ins (its theorems hold
    for all functions/constants), so outputs must agree exactly.
V / direct clauses (plain Python on the real models, real erf): PRF grid sums = flux,
non-negativity, linearity in flux, point symmetry about (x_0, y_0), circular = elliptical
with equal widths, sigma/FWHM forms agree, history-freeness against a fresh object,
grid-node / bilinear / nearest-edge statements for the gridded model.
Support only (numerical quadrature): continuous integrals of the analytic PSFs.
"""
import copy
import json
import math
import warnings
from fractions import Fraction as F
from pathlib import Path

import numpy as np

from .core import Raw, VERIF

PID = 'C13'
FILES = ['lib/Cases.v', 'C13_Model.v', 'C13_Proofs.v', 'C13_ProofsB.v', 'C13_Properties.v']
KNOWN_FILE = VERIF / 'fixes' / 'C13-known.json'
SIG_ROT = 'GaussianPRF.evaluate:theta-not-multiple-of-90'
NAN = float('nan')


# --------------------------------------------------------------------------
# rendering
# --------------------------------------------------------------------------
def q(v):
    v = F(v)
    n = f'({v.numerator})' if v.numerator < 0 else str(v.numerator)
    return f'(Qmake {n} {v.denominator})'


def qpair(a, b):
    return f'({q(a)}, {q(b)})'


def fill_coq(fill):
    if fill is None:
        return 'None'
    if isinstance(fill, float) and math.isnan(fill):
        return '(Some None)'
    return f'(Some (Some {q(fill)}))'


def lst(items):
    return '[' + '; '.join(items) + ']'


def zimg(a):
    return lst(lst(str(int(v)) for v in row) for row in a)


def bbox_coq(bb):
    return f'({qpair(*bb[0])}, {qpair(*bb[1])})'


def same_as_fill(v, fill):
    if fill is None:
        return False
    if isinstance(fill, float) and math.isnan(fill):
        return math.isnan(v)
    return v == fill


def observe(v, fill, D):
    """Classify one implementation value: identical to fill_value, on the exact lattice
    Z/D (within spline rounding noise), or something else."""
    v = float(v)
    if same_as_fill(v, fill):
        return 'OFill'
    if not math.isfinite(v):
        return 'OOther'
    t = v * D
    r = round(t)
    if abs(t - r) <= 1e-3 and abs(t) < 2 ** 52:
        return f'(OVal {q(F(r, D))})'
    return 'OOther'


def snap(v, D):
    """Exact rational of a float that should lie on Z/D (a quotient rounded once or twice)."""
    v = float(v)
    t = v * D
    r = round(t)
    if abs(t - r) <= 1e-6 * max(1.0, abs(t)) * 1e-3 + 1e-7:
        return F(r, D)
    return F(v)


def dy(fr, maxden=4096):
    """True if the Fraction is a dyadic with a small denominator (exact in every float op used)."""
    d = fr.denominator
    return d & (d - 1) == 0 and d <= maxden and abs(fr.numerator) < 2 ** 30


def lcm(*a):
    r = 1
    for v in a:
        r = r * v // math.gcd(r, v)
    return r


# --------------------------------------------------------------------------
# ImagePSF
# --------------------------------------------------------------------------
FILLS = [0.0, NAN, -3.5, 1000.25, None]
FLUXES = [F(1), F(2), F(1, 2), F(3), F(5, 4), F(-1), F(7, 4), F(0)]


def gen_points(rng, nx, ny, osx, osy, ox, oy, x_0, y_0, allknots):
    """Evaluation points on the exact lattice: sample points, just outside / on the border
    of the sampled range, random fractional points."""
    pts = []

    def back(xi, o, os_, c0):
        return c0 + (F(xi) - o) / os_

    xs_k = [back(i, ox, osx, x_0) for i in range(nx)]
    ys_k = [back(j, oy, osy, y_0) for j in range(ny)]
    kn = [(x, y) for y in ys_k for x in xs_k if dy(x) and dy(y)]
    rng.shuffle(kn)
    pts += kn if allknots else kn[:6]
    for _ in range(6):   # borders, just inside/outside
        xi = rng.choice([F(0), F(nx - 1), F(-1, 8), F(nx - 1) + F(1, 8), F(-1), F(nx), F(1, 8), F(nx - 1) - F(1, 8),
                         F(rng.randint(0, nx - 1))])
        yi = rng.choice([F(0), F(ny - 1), F(-1, 8), F(ny - 1) + F(1, 8), F(-1), F(ny), F(1, 4), F(ny - 1) - F(1, 4),
                         F(rng.randint(0, ny - 1))])
        x, y = back(xi, ox, osx, x_0), back(yi, oy, osy, y_0)
        if dy(x) and dy(y):
            pts.append((x, y))
    for _ in range(4):   # arbitrary lattice points around the model
        pts.append((x_0 + F(rng.randint(-8 * nx, 8 * nx), 8), y_0 + F(rng.randint(-8 * ny, 8 * ny), 8)))
    if not pts:
        pts.append((x_0, y_0))
    return pts


def gen_image_case(rng):
    ny, nx = rng.randint(4, 7), rng.randint(4, 7)
    data = [[rng.randint(1, 60) for _ in range(nx)] for _ in range(ny)]
    osk = rng.choice(['scalar', 'pair', 'pair'])
    if osk == 'scalar':
        osy = osx = rng.choice([1, 1, 2, 3, 4, 8])
    else:
        osy, osx = rng.choice([1, 2, 3, 4, 5, 8]), rng.choice([1, 2, 3, 4, 5, 8])
    ok = rng.choice(['none', 'none', 'int', 'half', 'quarter', 'outside'])
    if ok == 'none':
        origin = None
    elif ok == 'int':
        origin = (F(rng.randint(0, nx - 1)), F(rng.randint(0, ny - 1)))
    elif ok == 'half':
        origin = (F(rng.randint(0, 2 * nx), 2), F(rng.randint(0, 2 * ny), 2))
    elif ok == 'quarter':
        origin = (F(rng.randint(0, 4 * nx), 4), F(rng.randint(0, 4 * ny), 4))
    else:
        origin = (F(rng.choice([-3, -1, nx, nx + 2])), F(rng.choice([-2, ny + 1, 1])))
    fill = rng.choice(FILLS)
    flux = rng.choice(FLUXES)
    ck = rng.choice(['int', 'eighth', 'zero'])
    if ck == 'int':
        x_0, y_0 = F(rng.randint(-20, 20)), F(rng.randint(-20, 20))
    elif ck == 'eighth':
        x_0, y_0 = F(rng.randint(-160, 160), 8), F(rng.randint(-160, 160), 8)
    else:
        x_0, y_0 = F(0), F(0)
    ox, oy = origin if origin is not None else (F(nx - 1, 2), F(ny - 1, 2))
    pts = gen_points(rng, nx, ny, osx, osy, ox, oy, x_0, y_0, allknots=rng.random() < 0.4)
    hist = [rng.choice(['eval', 'eval', 'copy', 'deepcopy', 'evalcopy']) for _ in range(rng.choice([0, 0, 1, 2, 4]))]
    return dict(kind='image', data=data, os=(osy, osx), os_scalar=(osk == 'scalar'), origin=origin, fill=fill,
                flux=flux, x_0=x_0, y_0=y_0, pts=pts, hist=hist, shape2d=rng.random() < 0.25,
                stats=dict(origin=ok, centre=ck))


def make_image(c):
    from photutils.psf import ImagePSF
    kw = {}
    if c['origin'] is not None:
        kw['origin'] = (float(c['origin'][0]), float(c['origin'][1]))
    osy, osx = c['os']
    return ImagePSF(np.array(c['data'], float), oversampling=(osy if c['os_scalar'] else (osy, osx)),
                    fill_value=c['fill'], **kw)


class CallerArraysModified(Exception):
    """model(x, y) changed the coordinate arrays handed to it."""


def snapshot(a):
    a = np.asarray(a)
    return (a.dtype.str, a.shape, a.tobytes())


def eval_model(m, flux, x_0, y_0, pts, shape2d=False):
    m.flux = float(flux)
    m.x_0 = float(x_0)
    m.y_0 = float(y_0)
    x = np.array([float(p[0]) for p in pts])
    y = np.array([float(p[1]) for p in pts])
    if shape2d and len(pts) % 2 == 0 and len(pts) >= 2:
        x, y = x.reshape(2, -1), y.reshape(2, -1)
    before = (snapshot(x), snapshot(y))
    out = np.asarray(m(x, y), float)
    if (snapshot(x), snapshot(y)) != before:
        raise CallerArraysModified('model(x, y) modified the float64 coordinate arrays passed by the caller')
    if out.shape != x.shape:
        raise ValueError(f'model output has shape {out.shape} for input of shape {x.shape}')
    return out.ravel()


def exc_sig(cls, e):
    if isinstance(e, CallerArraysModified):
        return f'{cls}:caller-arrays-modified'
    return f'{cls}:exception:{type(e).__name__}'


def bbox_of(m):
    bb = m.bounding_box.bounding_box()
    return ((float(bb[0][0]), float(bb[0][1])), (float(bb[1][0]), float(bb[1][1])))


def play_history(rng_seed, m, hist, span):
    """Random prior evaluations / copies of the same model (does not touch the data)."""
    import random
    r = random.Random(rng_seed)
    for h in hist:
        if h in ('eval', 'evalcopy'):
            tgt = m.copy() if h == 'evalcopy' else m
            tgt.x_0 = r.randint(-40, 40) / 8
            tgt.y_0 = r.randint(-40, 40) / 8
            tgt.flux = r.choice([1.0, 2.5, 0.25])
            xs = np.array([r.randint(-8 * span, 8 * span) / 8 for _ in range(5)])
            ys = np.array([r.randint(-8 * span, 8 * span) / 8 for _ in range(5)])
            with np.errstate(all='ignore'):
                tgt(xs + tgt.x_0.value, ys + tgt.y_0.value)
        elif h == 'copy':
            m = m.copy()
        elif h == 'deepcopy':
            m = m.deepcopy()
    return m


def run_image(c, seed):
    m = make_image(c)
    m = play_history(seed, m, c['hist'], 6)
    vals = eval_model(m, c['flux'], c['x_0'], c['y_0'], c['pts'], c['shape2d'])
    bb = bbox_of(m)
    fresh = make_image(c)
    vals_fresh = eval_model(fresh, c['flux'], c['x_0'], c['y_0'], c['pts'], c['shape2d'])
    return vals, bb, vals_fresh


def image_to_coq(c, vals, bb):
    osy, osx = c['os']
    D = 4
    Db = 16 * osy * osx
    org = 'None' if c['origin'] is None else f'(Some {qpair(*c["origin"])})'
    obs = lst(observe(v, c['fill'], D) for v in vals)
    bbq = ((snap(bb[0][0], Db), snap(bb[0][1], Db)), (snap(bb[1][0], Db), snap(bb[1][1], Db)))
    inner = (f'({zimg(c["data"])}, ({osy}, {osx}), {org}, {fill_coq(c["fill"])}, '
             f'({q(c["flux"])}, {q(c["x_0"])}, {q(c["y_0"])}), '
             f'{lst(qpair(*p) for p in c["pts"])}, {obs}, {bbox_coq(bbq)})')
    return inner


def image_oracle(c, vals, bb):
    """The property statement itself: value = flux*data[j][i] at the sample point
    x_0 + (i - origin_x)/os_x, y_0 + (j - origin_y)/os_y; fill_value outside the sampled
    range; the bounding box is the sampled range padded by half an oversampled pixel."""
    ny, nx = len(c['data']), len(c['data'][0])
    osy, osx = c['os']
    ox, oy = c['origin'] if c['origin'] is not None else (F(nx - 1, 2), F(ny - 1, 2))
    x_0, y_0, flux = c['x_0'], c['y_0'], c['flux']
    xs = [x_0 + (F(i) - ox) / osx for i in range(nx)]
    ys = [y_0 + (F(j) - oy) / osy for j in range(ny)]
    bad = []
    for k, ((x, y), v) in enumerate(zip(c['pts'], vals)):
        outside = x < xs[0] or x > xs[-1] or y < ys[0] or y > ys[-1]
        if outside:
            if c['fill'] is not None and not same_as_fill(float(v), c['fill']):
                bad.append((k, 'outside the sampled range but not fill_value'))
        elif x in xs and y in ys:
            want = float(flux * c['data'][ys.index(y)][xs.index(x)])
            if not (abs(v - want) <= 1e-9 * max(1.0, abs(want))):
                bad.append((k, f'sample point: expected flux*data = {want}'))
        elif isinstance(c['fill'], float) and math.isnan(c['fill']) and math.isnan(v):
            bad.append((k, 'inside the sampled range but NaN'))
    want_bb = ((float(ys[0] - F(1, 2) / osy), float(ys[-1] + F(1, 2) / osy)),
               (float(xs[0] - F(1, 2) / osx), float(xs[-1] + F(1, 2) / osx)))
    for a, b in zip(sum(want_bb, ()), sum(bb, ())):
        if abs(a - b) > 1e-9 * max(1.0, abs(a)):
            bad.append((-1, f'bounding box {bb} != sampled extent {want_bb}'))
            break
    return bad


def describe_image(c):
    return dict(kind='image', data=c['data'], oversampling=list(c['os']), os_scalar=c['os_scalar'],
                origin=None if c['origin'] is None else [str(v) for v in c['origin']],
                fill=('nan' if isinstance(c['fill'], float) and math.isnan(c['fill']) else c['fill']),
                flux=str(c['flux']), x_0=str(c['x_0']), y_0=str(c['y_0']),
                pts=[[str(p[0]), str(p[1])] for p in c['pts']], hist=c['hist'], shape2d=c['shape2d'])


def undescribe_image(d):
    return dict(kind='image', data=d['data'], os=tuple(d['oversampling']), os_scalar=d['os_scalar'],
                origin=None if d['origin'] is None else tuple(F(v) for v in d['origin']),
                fill=(NAN if d['fill'] == 'nan' else d['fill']), flux=F(d['flux']), x_0=F(d['x_0']),
                y_0=F(d['y_0']), pts=[(F(a), F(b)) for a, b in d['pts']], hist=d['hist'],
                shape2d=d['shape2d'])


# --------------------------------------------------------------------------
# GriddedPSFModel
# --------------------------------------------------------------------------
GAPS = [1, 2, 3, 4, 5, 8]


LATTICES = ['int', 'int', 'half', 'quarter', 'quarter', 'unit']


def gen_axis(rng, n, lattice):
    """n strictly increasing grid coordinates (exact dyadics, multiples of 1/4): integer lattice with gaps
    1..8; half / quarter lattices with gaps < 1 mixed with larger, non-uniform ones and fractional or
    negative starts (several lines inside one unit interval, lines on both sides of 0); 'unit' =
    normalised detector coordinates, a subset of {0, 1/4, 1/2, 3/4, 1}."""
    if lattice == 'int':
        g = [F(rng.randint(-10, 10))]
        gaps = [F(v) for v in GAPS]
    elif lattice == 'half':
        g = [F(rng.randint(-12, 12), 2)]
        gaps = [F(1, 2), F(1, 2), F(1), F(3, 2), F(2)]
    elif lattice == 'quarter':
        g = [F(rng.randint(-12, 8), 4)]
        gaps = [F(1, 4), F(1, 4), F(1, 2), F(3, 4), F(1), F(5, 4)]
    else:
        return sorted(rng.sample([F(0), F(1, 4), F(1, 2), F(3, 4), F(1)], n))
    for _ in range(n - 1):
        g.append(g[-1] + rng.choice(gaps))
    return g


def gen_grid_case(rng):
    ny, nx = rng.randint(4, 6), rng.randint(4, 6)
    layout = rng.choice(['rect', 'rect', 'rect', 'row', 'col', 'single', 'two'])
    if layout == 'rect':
        gx, gy = rng.randint(2, 4), rng.randint(2, 3)
    elif layout == 'row':
        gx, gy = rng.randint(2, 4), 1
    elif layout == 'col':
        gx, gy = 1, rng.randint(2, 4)
    elif layout == 'single':
        gx, gy = 1, 1
    else:
        gx, gy = 2, 2
    lat_x, lat_y = rng.choice(LATTICES), rng.choice(LATTICES)
    xg, yg = gen_axis(rng, gx, lat_x), gen_axis(rng, gy, lat_y)
    pos = [(x, y) for y in yg for x in xg]
    order = rng.choice(['sorted', 'shuffled', 'xmajor'])
    if order == 'shuffled':
        rng.shuffle(pos)
    elif order == 'xmajor':
        pos = [(x, y) for x in xg for y in yg]
    stamps = [[[rng.randint(1, 40) for _ in range(nx)] for _ in range(ny)] for _ in pos]
    osy, osx = rng.choice([(1, 1), (2, 2), (4, 4), (1, 2), (2, 1), (3, 3), (4, 2), (3, 1)])
    os_scalar = osy == osx and rng.random() < 0.5
    fill = rng.choice(FILLS)
    ox, oy = F(nx - 1, 2), F(ny - 1, 2)
    ops = []
    for _ in range(rng.choice([1, 1, 2, 3, 4])):
        if rng.random() < 0.3:
            ops.append(dict(op=rng.choice(['copy', 'deepcopy'])))
        rk = rng.choice(['node', 'node', 'inside', 'inside', 'edge', 'outside', 'outside', 'corner_out', 'mid'])
        if rk == 'node':
            x_0, y_0 = F(rng.choice(xg)), F(rng.choice(yg))
        elif rk == 'inside':
            x_0 = F(rng.randint(int(8 * xg[0]), int(8 * xg[-1])), 8)
            y_0 = F(rng.randint(int(8 * yg[0]), int(8 * yg[-1])), 8)
        elif rk == 'mid':
            i, j = rng.randrange(max(1, gx - 1)), rng.randrange(max(1, gy - 1))
            x_0 = F(xg[i] + xg[min(i + 1, gx - 1)], 2)
            y_0 = F(yg[j] + yg[min(j + 1, gy - 1)], 2)
        elif rk == 'edge':   # on a grid line in one axis, between nodes in the other
            x_0 = F(rng.choice(xg))
            y_0 = F(rng.randint(int(8 * yg[0]), int(8 * yg[-1])), 8)
            if rng.random() < 0.5:
                x_0, y_0 = F(rng.randint(int(8 * xg[0]), int(8 * xg[-1])), 8), F(rng.choice(yg))
        elif rk == 'outside':
            x_0 = rng.choice([F(xg[0]) - F(rng.randint(1, 40), 8), F(xg[-1]) + F(rng.randint(1, 40), 8),
                              F(rng.randint(int(8 * xg[0]), int(8 * xg[-1])), 8)])
            y_0 = rng.choice([F(yg[0]) - F(rng.randint(1, 40), 8), F(yg[-1]) + F(rng.randint(1, 40), 8)])
            if rng.random() < 0.5:
                x_0, y_0 = (rng.choice([F(xg[0]) - F(rng.randint(1, 40), 8), F(xg[-1]) + F(rng.randint(1, 40), 8)]),
                            F(rng.randint(int(8 * yg[0]), int(8 * yg[-1])), 8))
        else:
            x_0 = rng.choice([F(xg[0]) - 3, F(xg[-1]) + F(5, 2)])
            y_0 = rng.choice([F(yg[0]) - F(1, 8), F(yg[-1]) + 7])
        flux = rng.choice(FLUXES)
        pts = gen_points(rng, nx, ny, osx, osy, ox, oy, x_0, y_0, allknots=rng.random() < 0.3)
        ops.append(dict(op='eval', flux=flux, x_0=x_0, y_0=y_0, pts=pts, refkind=rk,
                        shape2d=rng.random() < 0.2))
    return dict(kind='grid', stamps=stamps, pos=pos, xg=xg, yg=yg, os=(osy, osx), os_scalar=os_scalar,
                fill=fill, ops=ops, stats=dict(layout=layout, order=order, lattice_x=lat_x, lattice_y=lat_y))


def make_grid(c):
    from astropy.nddata import NDData
    from photutils.psf import GriddedPSFModel
    osy, osx = c['os']
    nd = NDData(np.array(c['stamps'], float),
                meta={'grid_xypos': [(float(p[0]), float(p[1])) for p in c['pos']],
                      'oversampling': osy if c['os_scalar'] else (osy, osx)})
    return GriddedPSFModel(nd, fill_value=c['fill'])


def run_grid(c):
    m = make_grid(c)
    out = []
    for op in c['ops']:
        if op['op'] == 'copy':
            m = m.copy()
            out.append(None)
        elif op['op'] == 'deepcopy':
            m = m.deepcopy()
            out.append(None)
        else:
            with np.errstate(all='ignore'):
                vals = eval_model(m, op['flux'], op['x_0'], op['y_0'], op['pts'], op['shape2d'])
                fresh = eval_model(make_grid(c), op['flux'], op['x_0'], op['y_0'], op['pts'], op['shape2d'])
            out.append((vals, bbox_of(m), fresh))
    try:
        keys = sorted((F(float(k[0])), F(float(k[1]))) for k in m._interpolator if len(k) == 2)
        if len(keys) != len(m._interpolator):
            keys = []       # malformed cache keys: the model's key set will disagree
    except Exception:       # noqa
        keys = []
    return out, keys


def grid_D(c):
    """Denominator of the exact lattice of the blended values: flux in Z/4, each axis weight in
    Z/(8*gap) (reference coordinates are multiples of 1/8, gaps multiples of 1/4)."""
    gx = [int(8 * (b - a)) for a, b in zip(c['xg'], c['xg'][1:])] or [8]
    gy = [int(8 * (b - a)) for a, b in zip(c['yg'], c['yg'][1:])] or [8]
    return 4 * lcm(*gx) * lcm(*gy)


def grid_to_coq(c, out, keys):
    osy, osx = c['os']
    D = grid_D(c)
    Db = 16 * osy * osx
    ops = []
    for op, o in zip(c['ops'], out):
        if op['op'] == 'copy':
            ops.append('GCopy')
        elif op['op'] == 'deepcopy':
            ops.append('GDeepcopy')
        else:
            vals, bb, _ = o
            bbq = ((snap(bb[0][0], Db), snap(bb[0][1], Db)), (snap(bb[1][0], Db), snap(bb[1][1], Db)))
            ops.append(f'(GEval {q(op["flux"])} {q(op["x_0"])} {q(op["y_0"])} '
                       f'{lst(qpair(*p) for p in op["pts"])} '
                       f'{lst(observe(v, c["fill"], D) for v in vals)} {bbox_coq(bbq)})')
    return (f'({lst(zimg(s) for s in c["stamps"])}, {lst(qpair(*p) for p in c["pos"])}, ({osy}, {osx}), '
            f'{fill_coq(c["fill"])}, {lst(ops)}, {lst(qpair(*k) for k in keys)})')


def grid_oracle(c, out):
    """The property statement: at a grid position the stored ePSF (times flux) at its
    sample points; inside a cell the bilinear blend of the four neighbours; outside the
    grid the value at the nearest point of the grid hull; fill_value outside the stamp;
    bounding box = stamp extent centred on (x_0, y_0)."""
    import bisect
    ny, nx = len(c['stamps'][0]), len(c['stamps'][0][0])
    osy, osx = c['os']
    ox, oy = F(nx - 1, 2), F(ny - 1, 2)
    xg, yg = c['xg'], c['yg']
    stamp_at = {tuple(p): s for p, s in zip(c['pos'], c['stamps'])}
    bad = []

    def axis(g, v):
        v = min(max(v, F(g[0])), F(g[-1]))     # nearest edge outside the grid
        if len(g) == 1:
            return [(g[0], F(1))]
        k = min(max(bisect.bisect_right(g, v) - 1, 0), len(g) - 2)
        t = (v - g[k]) / (g[k + 1] - g[k])
        return [(g[k], 1 - t), (g[k + 1], t)]

    for n, (op, o) in enumerate(zip(c['ops'], out)):
        if op['op'] != 'eval':
            continue
        vals, bb, fresh = o
        x_0, y_0, flux = op['x_0'], op['y_0'], op['flux']
        xs = [x_0 + (F(i) - ox) / osx for i in range(nx)]
        ys = [y_0 + (F(j) - oy) / osy for j in range(ny)]
        wx, wy = axis(xg, x_0), axis(yg, y_0)
        for k, ((x, y), v) in enumerate(zip(op['pts'], vals)):
            outside = x < xs[0] or x > xs[-1] or y < ys[0] or y > ys[-1]
            if outside:
                if c['fill'] is not None and not same_as_fill(float(v), c['fill']):
                    bad.append((n, k, 'outside the stamp but not fill_value'))
            elif x in xs and y in ys:
                i, j = xs.index(x), ys.index(y)
                want = float(flux * sum(a * b * stamp_at[(gxv, gyv)][j][i] for gxv, a in wx for gyv, b in wy))
                if not (abs(v - want) <= 1e-9 * max(1.0, abs(want))):
                    bad.append((n, k, f'sample point: expected blend {want}, got {float(v)}'))
            elif not math.isfinite(v) and not same_as_fill(float(v), c['fill']):
                bad.append((n, k, 'non-finite value inside the stamp'))
        hx, hy = F(nx, 2) / osx, F(ny, 2) / osy
        want_bb = ((float(y_0 - hy), float(y_0 + hy)), (float(x_0 - hx), float(x_0 + hx)))
        if any(abs(a - b) > 1e-9 * max(1.0, abs(a)) for a, b in zip(sum(want_bb, ()), sum(bb, ()))):
            bad.append((n, -1, f'bounding box {bb} != {want_bb}'))
    return bad


def describe_grid(c):
    ops = []
    for op in c['ops']:
        if op['op'] == 'eval':
            ops.append(dict(op='eval', flux=str(op['flux']), x_0=str(op['x_0']), y_0=str(op['y_0']),
                            pts=[[str(a), str(b)] for a, b in op['pts']], shape2d=op['shape2d'],
                            refkind=op.get('refkind')))
        else:
            ops.append(dict(op=op['op']))
    return dict(kind='grid', stamps=c['stamps'], grid_xypos=[[str(p[0]), str(p[1])] for p in c['pos']], xg=[str(v) for v in c['xg']],
                yg=[str(v) for v in c['yg']],
                oversampling=list(c['os']), os_scalar=c['os_scalar'],
                fill=('nan' if isinstance(c['fill'], float) and math.isnan(c['fill']) else c['fill']), ops=ops)


def undescribe_grid(d):
    ops = []
    for op in d['ops']:
        if op['op'] == 'eval':
            ops.append(dict(op='eval', flux=F(op['flux']), x_0=F(op['x_0']), y_0=F(op['y_0']),
                            pts=[(F(a), F(b)) for a, b in op['pts']], shape2d=op['shape2d'],
                            refkind=op.get('refkind')))
        else:
            ops.append(dict(op=op['op']))
    return dict(kind='grid', stamps=d['stamps'], pos=[(F(p[0]), F(p[1])) for p in d['grid_xypos']], xg=[F(v) for v in d['xg']],
                yg=[F(v) for v in d['yg']],
                os=tuple(d['oversampling']), os_scalar=d['os_scalar'],
                fill=(NAN if d['fill'] == 'nan' else d['fill']), ops=ops)


# --------------------------------------------------------------------------
# analytic models with exact stand-ins for the primitives
# --------------------------------------------------------------------------
class _NPProxy:
    """numpy with exact dyadic stand-ins (the same as erf_std .. pi_std in C13_Model.v)."""
    pi = 4.0

    def __getattr__(self, name):
        return getattr(np, name)

    @staticmethod
    def sqrt(v):
        if np.ndim(v) == 0 and v == 2:
            return 2.0
        return np.sqrt(v)

    @staticmethod
    def deg2rad(t):
        return np.asarray(t, float) / 8

    @staticmethod
    def cos(t):
        return 1 - np.asarray(t, float) / 2

    @staticmethod
    def sin(t):
        return np.asarray(t, float) / 4

    @staticmethod
    def exp(t):
        return np.clip(1 + np.asarray(t, float) / 8, 0, 1)


class standins:
    def __enter__(self):
        import photutils.psf.functional_models as fm
        self.fm = fm
        self.saved = (fm.np, fm.erf, fm.GAUSSIAN_FWHM_TO_SIGMA)
        fm.np = _NPProxy()
        fm.erf = lambda t: np.clip(np.asarray(t, float), -1, 1)
        fm.GAUSSIAN_FWHM_TO_SIGMA = 0.5
        return self

    def __exit__(self, *a):
        self.fm.np, self.fm.erf, self.fm.GAUSSIAN_FWHM_TO_SIGMA = self.saved
        return False


AKINDS = ['CircularGaussianSigmaPRF', 'CircularGaussianPRF', 'GaussianPRF', 'GaussianPSF', 'CircularGaussianPSF']
WIDTHS = [F(1, 4), F(1, 2), F(1), F(2), F(4), F(8)]


def gen_analytic_case(rng):
    kind = rng.randrange(5)
    flux = rng.choice([F(1), F(2), F(1, 2), F(3), F(5, 4), F(-1), F(10)])
    x_0, y_0 = F(rng.randint(-40, 40), 8), F(rng.randint(-40, 40), 8)
    if kind in (0, 1, 4):
        shape = [rng.choice(WIDTHS)]
    else:
        shape = [rng.choice(WIDTHS), rng.choice(WIDTHS), F(rng.choice([0, 0, 1, 2, 3, 4, -2, 6, 8]))]
    pts = []
    cx, cy = round(x_0), round(y_0)
    r = rng.choice([1, 2, 3])
    for j in range(-r, r + 1):
        for i in range(-r, r + 1):
            pts.append((F(cx + i), F(cy + j)))
    for _ in range(6):
        pts.append((x_0 + F(rng.randint(-24, 24), 8), y_0 + F(rng.randint(-24, 24), 8)))
    return dict(kind='analytic', model=kind, params=[flux, x_0, y_0] + shape, pts=pts)


def make_analytic(kind, params):
    from photutils import psf
    p = [float(v) for v in params]
    cls = getattr(psf, AKINDS[kind])
    if kind == 0:
        return cls(flux=p[0], x_0=p[1], y_0=p[2], sigma=p[3])
    if kind in (1, 4):
        return cls(flux=p[0], x_0=p[1], y_0=p[2], fwhm=p[3])
    return cls(flux=p[0], x_0=p[1], y_0=p[2], x_fwhm=p[3], y_fwhm=p[4], theta=p[5])


def run_analytic(c):
    x = np.array([float(p[0]) for p in c['pts']])
    y = np.array([float(p[1]) for p in c['pts']])
    with standins():
        m = make_analytic(c['model'], c['params'])
        return np.asarray(m(x, y), float)


def analytic_to_coq(c, vals):
    return (f'({c["model"]}, {lst(q(v) for v in c["params"])}, {lst(qpair(*p) for p in c["pts"])}, '
            f'{lst(q(F(float(v))) for v in vals)})')


def describe_analytic(c):
    return dict(kind='analytic', model=c['model'], name=AKINDS[c['model']], params=[str(v) for v in c['params']],
                pts=[[str(a), str(b)] for a, b in c['pts']])


def undescribe_analytic(d):
    return dict(kind='analytic', model=d['model'], params=[F(v) for v in d['params']],
                pts=[(F(a), F(b)) for a, b in d['pts']])


# --------------------------------------------------------------------------
# direct property clauses on the real analytic models (real erf/exp), plain Python
# --------------------------------------------------------------------------
def prf_window(x_0, y_0, sig_max):
    h = int(math.ceil(9 * sig_max)) + 3
    cx, cy = int(round(x_0)), int(round(y_0))
    return np.mgrid[cy - h:cy + h + 1, cx - h:cx + h + 1]


def gen_real_case(rng):
    name = rng.choice(['CircularGaussianPRF', 'CircularGaussianSigmaPRF', 'GaussianPRF', 'GaussianPRF',
                       'CircularGaussianPSF', 'GaussianPSF', 'MoffatPSF', 'AiryDiskPSF'])
    flux = rng.choice([1.0, 0.5, 3.0, 250.0, round(rng.uniform(0.1, 50), 3)])
    x_0 = rng.choice([0.0, 0.5, -0.5, 0.25, round(rng.uniform(-3, 3), 3), round(rng.uniform(-0.5, 0.5), 4)])
    y_0 = rng.choice([0.0, 0.5, -0.5, 0.125, round(rng.uniform(-3, 3), 3), round(rng.uniform(-0.5, 0.5), 4)])
    w = rng.choice([0.2, 0.2, 0.25, 0.3, 0.5, 1.0, round(rng.uniform(0.2, 6), 3)])
    w2 = rng.choice([0.2, 0.4, 1.0, round(rng.uniform(0.2, 6), 3), w])
    theta = rng.choice([0.0, 90.0, 180.0, 270.0, -90.0, 360.0, 45.0, 30.0, round(rng.uniform(-180, 180), 2)])
    p = dict(flux=flux, x_0=x_0, y_0=y_0)
    if name in ('CircularGaussianPRF', 'CircularGaussianPSF'):
        p['fwhm'] = w
    elif name == 'CircularGaussianSigmaPRF':
        p['sigma'] = w
    elif name in ('GaussianPRF', 'GaussianPSF'):
        p.update(x_fwhm=w, y_fwhm=w2, theta=theta)
    elif name == 'MoffatPSF':
        p.update(alpha=rng.choice([0.2, 0.5, 1.0, round(rng.uniform(0.2, 5), 3)]),
                 beta=rng.choice([1.5, 2.0, 2.5, 4.765, round(rng.uniform(1.2, 6), 3)]))
    else:
        p['radius'] = rng.choice([0.3, 1.0, 2.44, round(rng.uniform(0.3, 6), 3)])
    return dict(kind='real', name=name, params=p)


F2S = 1.0 / (2.0 * math.sqrt(2.0 * math.log(2.0)))


def real_checks(c, support_cb=None):
    """Returns a list of (signature, message) for failed clauses of the property on one
    real analytic model (real erf / exp)."""
    from photutils import psf
    name, p = c['name'], dict(c['params'])
    m = getattr(psf, name)(**p)
    flux, x_0, y_0 = p['flux'], p['x_0'], p['y_0']
    bad = []
    is_prf = name.endswith('PRF')
    if 'sigma' in p:
        smax = p['sigma']
    elif 'fwhm' in p:
        smax = p['fwhm'] * F2S
    elif 'x_fwhm' in p:
        smax = max(p['x_fwhm'], p['y_fwhm']) * F2S
    else:
        smax = 2.0
    yy, xx = prf_window(x_0, y_0, smax)
    v = m(xx.astype(float), yy.astype(float))
    rot = name in ('GaussianPRF',) and (p['theta'] % 90.0 != 0.0)
    tol = 1e-9 * abs(flux)
    # non-negative (flux > 0)
    if np.any(v < 0):
        bad.append((f'{name}:negative', f'negative model value {v.min()}'))
    # pixel-integrated models sum to flux over the (effectively unbounded) pixel grid
    if is_prf:
        s = float(v.sum())
        if abs(s - flux) > tol:
            bad.append((SIG_ROT if rot else f'{name}:grid-sum',
                        f'sum over the pixel grid = {s!r}, flux = {flux!r}'))
    # linear in flux
    m2 = m.copy()
    m2.flux = 4 * flux
    v2 = m2(xx.astype(float), yy.astype(float))
    # (atol: values in the far tails are subnormal doubles, where scaling by 4 is not exact)
    if not np.allclose(v2, 4 * v, rtol=1e-13, atol=1e-290):
        bad.append((f'{name}:linear-in-flux', 'model(4*flux) != 4*model(flux)'))
    # centred: point-symmetric about (x_0, y_0)
    u = np.array([0.0, 0.3, 1.0, 1.7, 2.5, 0.5])
    w = np.array([0.0, 0.9, -1.0, 0.4, -2.5, 0.5])
    a, b = m(x_0 + u, y_0 + w), m(x_0 - u, y_0 - w)
    if not np.allclose(a, b, rtol=1e-9, atol=1e-300 + 1e-14 * abs(flux)):
        bad.append((f'{name}:centred', f'not symmetric about (x_0, y_0): {a} vs {b}'))
    if not (m(np.array([x_0]), np.array([y_0]))[0] >= v.max() - 1e-15 * abs(flux)):
        bad.append((f'{name}:centred', 'maximum on the pixel grid exceeds the value at (x_0, y_0)'))
    # bounding box centred on (x_0, y_0)
    bb = bbox_of(m)
    if abs((bb[0][0] + bb[0][1]) / 2 - y_0) > 1e-9 or abs((bb[1][0] + bb[1][1]) / 2 - x_0) > 1e-9:
        bad.append((f'{name}:bounding-box', f'bounding box {bb} not centred on ({x_0}, {y_0})'))
    # mutual consistency
    if name == 'CircularGaussianPRF':
        o = psf.CircularGaussianSigmaPRF(flux=flux, x_0=x_0, y_0=y_0, sigma=p['fwhm'] * F2S)
        if not np.allclose(o(xx, yy), v, rtol=1e-9, atol=1e-13 * abs(flux)):
            bad.append((f'{name}:sigma-fwhm', 'CircularGaussianPRF(fwhm) != CircularGaussianSigmaPRF(fwhm/2.3548)'))
        for th in (0.0, 90.0, 37.0):
            o = psf.GaussianPRF(flux=flux, x_0=x_0, y_0=y_0, x_fwhm=p['fwhm'], y_fwhm=p['fwhm'], theta=th)
            if not np.allclose(o(xx, yy), v, rtol=1e-7, atol=1e-9 * abs(flux)):
                bad.append((SIG_ROT if th % 90 else f'{name}:circular-vs-elliptical',
                            f'GaussianPRF(equal widths, theta={th}) != CircularGaussianPRF '
                            f'(max abs diff {np.abs(o(xx, yy) - v).max()!r})'))
    if name == 'CircularGaussianPSF':
        for th in (0.0, 90.0, 37.0, -123.4):
            o = psf.GaussianPSF(flux=flux, x_0=x_0, y_0=y_0, x_fwhm=p['fwhm'], y_fwhm=p['fwhm'], theta=th)
            if not np.allclose(o(xx, yy), v, rtol=1e-9, atol=1e-13 * abs(flux)):
                bad.append((f'{name}:circular-vs-elliptical', f'GaussianPSF(equal widths, theta={th}) != CircularGaussianPSF'))
    if name == 'GaussianPRF' and not rot:
        # a 90-degree rotation swaps the axes
        o = psf.GaussianPRF(flux=flux, x_0=x_0, y_0=y_0, x_fwhm=p['y_fwhm'], y_fwhm=p['x_fwhm'], theta=p['theta'] + 90)
        if not np.allclose(o(xx, yy), v, rtol=1e-7, atol=1e-9 * abs(flux)):
            bad.append((f'{name}:rot90-swaps-axes', 'GaussianPRF(x_fwhm, y_fwhm, theta) != GaussianPRF(y_fwhm, x_fwhm, theta+90)'))
    # continuous integral = flux (numerical quadrature: support only, never a violation source
    # unless grossly wrong)
    if not is_prf and support_cb is not None:
        integ = None
        if name in ('CircularGaussianPSF', 'GaussianPSF'):
            # Riemann sum with spacing <= sigma_min/1.5 (error ~ exp(-2 pi^2 (sigma/h)^2) < 1e-15 relative)
            smin = (min(p['x_fwhm'], p['y_fwhm']) if 'x_fwhm' in p else p['fwhm']) * F2S
            sub = max(8, int(math.ceil(1.5 / smin)))
            h = int(math.ceil(9 * smax)) + 2
            if (2 * h * sub + 1) ** 2 <= 1_600_000:
                g = (np.arange(-h * sub, h * sub + 1)) / sub
                X, Y = np.meshgrid(x_0 + g, y_0 + g)
                integ = float(m(X, Y).sum()) / sub ** 2      # trapezoid == Riemann here (tails vanish)
        elif name == 'MoffatPSF':
            from scipy.integrate import quad
            R = 2000.0 * p['alpha']
            val, _ = quad(lambda r: 2 * math.pi * r * float(m(np.array([x_0 + r]), np.array([y_0]))[0]), 0, R,
                          limit=400, points=[p['alpha'], 10 * p['alpha'], 100 * p['alpha']])
            tail = flux * (1 + (R / p['alpha']) ** 2) ** (1 - p['beta'])
            integ = val + tail
        else:
            from scipy.integrate import quad
            from scipy.special import j0, j1
            R = 20.0 * p['radius']
            val, _ = quad(lambda r: 2 * math.pi * r * float(m(np.array([x_0 + r]), np.array([y_0]))[0]), 0, R, limit=800)
            z = math.pi * R / (p['radius'] / psf.AiryDiskPSF._rz)
            ee = 1 - j0(z) ** 2 - j1(z) ** 2
            integ = val / ee
        if integ is not None:
            support_cb(name)
            if abs(integ - flux) > 2e-4 * abs(flux):
                bad.append((f'{name}:integral', f'numerical integral {integ!r} != flux {flux!r}'))
    return bad


# --------------------------------------------------------------------------
# histories that REUSE the caller's coordinate arrays (plain Python, real models)
# --------------------------------------------------------------------------
COORD_KINDS = ['f64', 'f64', 'f64_2d_C', 'f64_2d_F', 'f64_view', 'f64_rev', 'f32', 'int', 'list', 'scalar']
TARGETS = ['self', 'self', 'copy', 'deepcopy', 'become_copy', 'become_deepcopy']


def make_coords(kind, xs, ys):
    """The caller's coordinate containers in one representation, plus every array whose bytes must
    not change (the containers themselves and the buffers they are views of)."""
    xs, ys = [float(v) for v in xs], [float(v) for v in ys]
    if kind in ('f64_2d_C', 'f64_2d_F') and len(xs) % 2:
        xs, ys = xs[:-1], ys[:-1]
    if kind == 'f64':
        x, y = np.array(xs), np.array(ys)
        guards = [x, y]
    elif kind == 'f64_2d_C':
        x, y = np.array(xs).reshape(2, -1), np.array(ys).reshape(2, -1)
        guards = [x, y]
    elif kind == 'f64_2d_F':
        x, y = np.asfortranarray(np.array(xs).reshape(2, -1)), np.asfortranarray(np.array(ys).reshape(2, -1))
        guards = [x, y]
    elif kind == 'f64_view':
        bx, by = np.full(2 * len(xs), 777.0), np.full(2 * len(ys), -777.0)
        bx[::2], by[1::2] = xs, ys
        x, y = bx[::2], by[1::2]
        guards = [bx, by]
    elif kind == 'f64_rev':
        bx, by = np.array(xs[::-1]), np.array(ys[::-1])
        x, y = bx[::-1], by[::-1]
        guards = [bx, by]
    elif kind == 'f32':
        x, y = np.array(xs, np.float32), np.array(ys, np.float32)
        guards = [x, y]
    elif kind == 'int':
        x, y = np.array(np.round(xs), np.int64), np.array(np.round(ys), np.int64)
        guards = [x, y]
    elif kind == 'list':
        x, y = list(xs), list(ys)
        guards = [x, y]
    else:   # scalar
        x, y = xs[0], ys[0]
        guards = [x, y]
    return x, y, guards


def build_model(md):
    if md['kind'] == 'image':
        return make_image(undescribe_image(md))
    if md['kind'] == 'grid':
        return make_grid(undescribe_grid(md))
    from photutils import psf
    return getattr(psf, md['name'])(**md['params'])


def set_params(m, op):
    m.flux = float(F(op['flux']))
    m.x_0 = float(F(op['x_0']))
    m.y_0 = float(F(op['y_0']))


def run_reuse(spec):
    """One model, ONE set of coordinate arrays used for every evaluation of a history over the model,
    its copy() and deepcopy().  Returns a list of (signature suffix, message)."""
    xs, ys = [F(v) for v in spec['xs']], [F(v) for v in spec['ys']]
    x, y, guards = make_coords(spec['coord'], xs, ys)
    before = [snapshot(g) for g in guards]
    m = build_model(spec['model'])
    fails = []
    with np.errstate(all='ignore'):
        for n, op in enumerate(spec['ops']):
            t = op['target']
            if t == 'become_copy':
                m = m.copy()
            elif t == 'become_deepcopy':
                m = m.deepcopy()
            tgt = m.copy() if t == 'copy' else (m.deepcopy() if t == 'deepcopy' else m)
            set_params(tgt, op)
            try:
                out = np.asarray(tgt(x, y), float)
            except Exception as e:      # noqa
                fails.append((f'exception:{type(e).__name__}', f'evaluation {n} ({t}) raised: {e!s:.200}'))
                break
            if [snapshot(g) for g in guards] != before:
                fails.append(('caller-arrays-modified',
                              f'evaluation {n} ({t}) modified the caller\'s {spec["coord"]} coordinate arrays'))
                break
            fresh = build_model(spec['model'])
            set_params(fresh, op)
            fx, fy, _ = make_coords(spec['coord'], xs, ys)
            want = np.asarray(fresh(fx, fy), float)
            if out.shape != want.shape or not np.array_equal(out, want, equal_nan=True):
                fails.append(('history', f'evaluation {n} ({t}) with the same coordinate arrays differs from a fresh '
                                         f'model on fresh copies of the coordinates'))
                break
    return fails


def gen_reuse_case(rng, which):
    if which == 'image':
        c = gen_image_case(rng)
        md, cls = describe_image(c), 'ImagePSF'
        pts, base = c['pts'], (c['x_0'], c['y_0'])
    elif which == 'grid':
        c = gen_grid_case(rng)
        md, cls = describe_grid(c), 'GriddedPSFModel'
        op0 = [o for o in c['ops'] if o['op'] == 'eval'][0]
        pts, base = op0['pts'], (op0['x_0'], op0['y_0'])
        md['ops'] = []
    else:
        md = gen_real_case(rng)
        cls = md['name']
        base = (F(md['params']['x_0']), F(md['params']['y_0']))
        pts = [(F(rng.randint(-24, 24), 8) + round(base[0]), F(rng.randint(-24, 24), 8) + round(base[1]))
               for _ in range(rng.choice([4, 6, 9]))]
    pts = list(pts)[:12]
    if len(pts) < 2:
        pts = pts + [(base[0] + 1, base[1])]
    ops = []
    for _ in range(rng.choice([2, 2, 3, 4])):
        same = rng.random() < 0.5
        ops.append(dict(target=rng.choice(TARGETS), flux=str(rng.choice(FLUXES[:5])),
                        x_0=str(base[0] if same else base[0] + F(rng.randint(-8, 8), 8)),
                        y_0=str(base[1] if same else base[1] + F(rng.randint(-8, 8), 8))))
    return cls, dict(kind='reuse', model=md, coord=rng.choice(COORD_KINDS),
                     xs=[str(p[0]) for p in pts], ys=[str(p[1]) for p in pts], ops=ops)


# --------------------------------------------------------------------------
# sample points with GENERAL (not exactly representable) centres: floating-point stream
# --------------------------------------------------------------------------
GEN_OS = [1, 2, 3, 4, 5, (2, 3), (3, 2), (4, 1), (1, 5), (5, 3)]
GEN_CENTRES = [2.3, 7.7, 24.37, 25.21, -3.1, 0.1, 11.9, 100.7, -0.3, 6.65]


def gen_decimal(rng, lo, hi):
    return rng.choice([round(rng.uniform(lo, hi), rng.choice([1, 2, 3])), rng.choice(GEN_CENTRES),
                       rng.uniform(lo, hi)])


def gen_general_case(rng, which):
    ny, nx = rng.randint(5, 9), rng.randint(5, 9)
    os_ = rng.choice(GEN_OS)
    fill = rng.choice(['nan', 0.0, -3.5, None])
    flux = rng.choice([1.0, 2.5, 0.7, 1234.5, round(rng.uniform(0.1, 50), 3)])
    spec = dict(kind='general', which=which, oversampling=list(os_) if isinstance(os_, tuple) else os_, fill=fill,
                flux=flux, shape2d=rng.random() < 0.5)
    if which == 'image':
        spec['data'] = [[rng.randint(1, 60) for _ in range(nx)] for _ in range(ny)]
        ok = rng.choice(['none', 'none', 'int', 'decimal', 'outside'])
        spec['origin'] = (None if ok == 'none' else
                          [float(rng.randint(0, nx - 1)), float(rng.randint(0, ny - 1))] if ok == 'int' else
                          [round(rng.uniform(0, nx - 1), 2), round(rng.uniform(0, ny - 1), 2)] if ok == 'decimal' else
                          [rng.choice([-2.4, nx + 1.3]), rng.choice([-1.0, ny + 0.6])])
        spec['x_0'], spec['y_0'] = gen_decimal(rng, -50, 50), gen_decimal(rng, -50, 50)
    else:
        gx, gy = rng.choice([1, 2, 3]), rng.choice([1, 2, 3])
        xg = sorted({gen_decimal(rng, -20, 60) for _ in range(gx)})
        yg = sorted({gen_decimal(rng, -20, 60) for _ in range(gy)})
        pos = [[x, y] for y in yg for x in xg]
        rng.shuffle(pos)
        spec['xg'], spec['yg'], spec['grid_xypos'] = xg, yg, pos
        spec['stamps'] = [[[rng.randint(1, 60) for _ in range(nx)] for _ in range(ny)] for _ in pos]
        rk = rng.choice(['node', 'node', 'inside', 'outside'])
        if rk == 'node':
            spec['x_0'], spec['y_0'] = rng.choice(xg), rng.choice(yg)
        elif rk == 'inside':
            spec['x_0'], spec['y_0'] = rng.uniform(xg[0], xg[-1]), rng.uniform(yg[0], yg[-1])
        else:
            spec['x_0'] = rng.choice([xg[0] - gen_decimal(rng, 0.1, 9), xg[-1] + gen_decimal(rng, 0.1, 9)])
            spec['y_0'] = gen_decimal(rng, yg[0] - 5, yg[-1] + 5)
        spec['refkind'] = rk
    return spec


def run_general(spec):
    """Evaluate at the INTERIOR sample points x_0 + (i - origin_x)/oversampling_x computed in floating point
    the way a user would, and compare with flux*data (ImagePSF) / flux * bilinear blend of the stored ePSFs
    (GriddedPSFModel; weights computed exactly from the float grid values).  Tolerance 1e-9 * |flux| *
    max|data|: the spline interpolates its knots and the index noise is ~1e-13, a neighbouring pixel is
    wrong by O(data).  Returns (number of points, list of failures)."""
    import bisect
    from astropy.nddata import NDData
    from photutils.psf import GriddedPSFModel, ImagePSF
    os_ = spec['oversampling']
    osy, osx = (os_, os_) if not isinstance(os_, list) else os_
    fill = NAN if spec['fill'] == 'nan' else spec['fill']
    flux, x_0, y_0 = spec['flux'], spec['x_0'], spec['y_0']
    osarg = os_ if not isinstance(os_, list) else tuple(os_)
    if spec['which'] == 'image':
        data = np.array(spec['data'], float)
        kw = {} if spec['origin'] is None else {'origin': tuple(spec['origin'])}
        m = ImagePSF(data, flux=flux, x_0=x_0, y_0=y_0, oversampling=osarg, fill_value=fill, **kw)
        ny, nx = data.shape
        ox, oy = ((nx - 1) / 2, (ny - 1) / 2) if spec['origin'] is None else spec['origin']
        want = flux * data
        cls = 'ImagePSF'
    else:
        stamps = np.array(spec['stamps'], float)
        nd = NDData(stamps, meta={'grid_xypos': [tuple(p) for p in spec['grid_xypos']], 'oversampling': osarg})
        m = GriddedPSFModel(nd, flux=flux, x_0=x_0, y_0=y_0, fill_value=fill)
        ny, nx = stamps.shape[1:]
        ox, oy = (nx - 1) / 2, (ny - 1) / 2

        def axis(g, v):
            v = min(max(F(v), F(g[0])), F(g[-1]))
            if len(g) == 1:
                return [(g[0], F(1))]
            k = min(max(bisect.bisect_right(g, v) - 1, 0), len(g) - 2)
            t = (v - F(g[k])) / (F(g[k + 1]) - F(g[k]))
            return [(g[k], 1 - t), (g[k + 1], t)]
        at = {tuple(p): st for p, st in zip(spec['grid_xypos'], stamps)}
        want = flux * sum(float(a * b) * at[(gxv, gyv)] for gxv, a in axis(spec['xg'], x_0)
                          for gyv, b in axis(spec['yg'], y_0))
        cls = 'GriddedPSFModel'
    ii, jj = np.meshgrid(np.arange(1, nx - 1), np.arange(1, ny - 1))
    x = x_0 + (ii - ox) / osx
    y = y_0 + (jj - oy) / osy
    if not spec['shape2d']:
        x, y, ii, jj = x.ravel(), y.ravel(), ii.ravel(), jj.ravel()
    with np.errstate(all='ignore'):
        got = np.asarray(m(x, y), float)
    exp = want[jj, ii]
    tol = 1e-9 * abs(flux) * float(np.abs(want).max() / abs(flux))
    bad = ~(np.abs(got - exp) <= tol)
    fails = []
    if got.shape != exp.shape:
        fails.append((f'{cls}:sample-points-general-centre', f'output shape {got.shape} != {exp.shape}'))
    elif bad.any():
        k = int(np.argmax(bad.ravel()))
        fails.append((f'{cls}:sample-points-general-centre',
                      f'{int(bad.sum())} of {bad.size} interior sample points differ from flux*data: e.g. sample '
                      f'(i={int(ii.ravel()[k])}, j={int(jj.ravel()[k])}) at x={float(x.ravel()[k])!r}, '
                      f'y={float(y.ravel()[k])!r}: got {float(got.ravel()[k])!r}, expected {float(exp.ravel()[k])!r} '
                      f'(tolerance {tol:.3g})'))
    return int(exp.size), fails


# --------------------------------------------------------------------------
# run
# --------------------------------------------------------------------------
def load_local_known(ctx):
    """Defect 17 has no small repair; its known-findings entry is delivered as
    fixes/C13-known.json.  Use it if the maintainers' list does not have it yet."""
    if KNOWN_FILE.exists():
        have = {(k['property'], k['signature']) for k in ctx.known.get('findings', [])}
        for k in json.loads(KNOWN_FILE.read_text()).get('findings', []):
            if (k['property'], k['signature']) not in have:
                ctx.known.setdefault('findings', []).append(k)


def run(ctx):
    from . import c13r
    ctx.build_with_translator(FILES, extra_files=c13r.EXTRA_FILES,            # real-number normalisation proofs
                              extra_obligation_files=c13r.EXTRA_OBLIGATION_FILES)
    c13r.tie(ctx)
    seen_sig = {}

    def report(sig, what, d, found_input=True):
        """ctx.violation, at most 3 replay files per signature and run."""
        seen_sig[sig] = seen_sig.get(sig, 0) + 1
        if seen_sig[sig] <= 3:
            ctx.violation(sig, what, d, found_input=found_input)

    pass  # known findings come from /verif/known_findings.json only
    rng = ctx.rng
    quick = ctx.tier == 'quick'
    ctx.cov['rule'] = (
        'ImagePSF: stamps 4..7 px of integers, oversampling 1..8 (scalar/pair, unequal axes), origin None / integer / '
        'half / quarter / outside the array, fill 0/NaN/finite/None, dyadic centres, points = sample points, points on '
        'and 1/8 px around the border of the sampled range, random lattice points, 1-D and 2-D inputs, prior '
        'evaluate/copy/deepcopy histories. GriddedPSFModel: 1x1, 1xN, Nx1, 2x2..4x3 grids; per axis an integer lattice (gaps 1..8), a half or quarter lattice (gaps 1/4..2, non-uniform, fractional and negative positions, several grid lines inside one unit interval and on both sides of 0) or normalised coordinates (subset of 0, 1/4, 1/2, 3/4, 1); input '
        'order sorted/shuffled/x-major, reference point on a node / cell interior / grid line / midpoint / outside an '
        'edge / outside a corner, histories of 1-4 evaluations with copy()/deepcopy(). Analytic: five Gaussian '
        'PRF/PSF classes with stand-in primitives on the dyadic lattice. Shared-array histories (ImagePSF, '
        'GriddedPSFModel, all analytic classes): ONE set of caller coordinate containers (float64 1-D / 2-D C / 2-D F / '
        'strided view / reversed view, float32, int64, list, scalar) reused for 2-4 evaluations over the model, copy() and '
        'deepcopy() with changing parameters; after every call the containers and their base buffers are compared '
        'bitwise with a snapshot and the output with a fresh model on fresh copies of the coordinates; every K '
        'evaluation also snapshots its float64 inputs. General-centre stream (support, floating point): ImagePSF and '
        'GriddedPSFModel with decimal / random-double centres, origins and grid positions, oversampling 1..5 and unequal '
        'pairs, evaluated at every interior sample point x_0 + (i - origin_x)/os_x computed in floats, compared with '
        'flux*data (resp. the bilinear blend) to 1e-9*flux*max|data|. non-trivial = at least one point inside the '
        'sampled range; distinct = distinct case descriptions')
    ctx.assumptions += [
        'scipy RectBivariateSpline(kx=ky=3, s=0) interpolates its knots: checked on every sample point of every case '
        '(|impl - flux*data| <= 1e-9 relative), not proved',
        'analytic models: K runs the real evaluate() through model(x, y) with erf/exp/cos/sin/deg2rad/sqrt(2)/pi/'
        'GAUSSIAN_FWHM_TO_SIGMA replaced by exact dyadic stand-ins (module globals of functional_models.py); the '
        'theorems use of scipy.special.erf only: odd, monotone, bounded by 1, tending to +-1; of cos/sin only '
        'c^2+s^2=1; nothing of exp, sqrt(2), pi',
        'exact lattice: all coordinates dyadic with <= 12 fractional bits so every float operation of the index '
        'arithmetic is exact; bilinear weights are single correctly rounded quotients and are compared after '
        'snapping to the lattice Z/(256*lcm(gaps))',
        'inputs are plain floats (no astropy Quantity): the unit branches of evaluate() are not modelled',
    ]
    ctx.cov['partial_clauses'] = [
        'imagepsf_reproduces_data_partial, gridded_bilinear_blend_partial, gridded_at_grid_position_partial, '
        'gridded_equals_stored_epsf_partial: hypothesis interpolates_knots spl (scipy RectBivariateSpline(kx=ky=3, s=0) '
        'returns the data value at integer knots); the index arithmetic, fill, weights, bracketing, cache and '
        'sorted-grid theorems need no hypothesis',
        'prf_telescopes_* hold for EVERY function E (only: E is a function of the value of its argument); '
        'prf_total_flux_*: hypotheses on erf = monotone, |erf| <= 1, tends to +-1 (stated over Q, not proved of '
        'scipy.special.erf); GaussianPRF only for (cos, sin) in {(1,0),(0,1),(-1,0),(0,-1)} i.e. theta in 90deg*Z, using '
        'erf odd; other angles: prf_total_flux_elliptical_rotated_refuted + known finding '
        'GaussianPRF.evaluate:theta-not-multiple-of-90',
        'circular_is_elliptical_equal_widths: PSF at any rotation from c^2+s^2=1; PRF only at multiples of 90 deg '
        '(same known finding otherwise)',
        'centred: translation covariance and evenness are proved; "maximum at (x_0, y_0)" is only tested numerically',
        'continuous integrals of GaussianPSF / CircularGaussianPSF / MoffatPSF / AiryDiskPSF = flux: NOT proved '
        '(no Gaussian integral / Bessel theory in the installed Coq libraries), numerical quadrature only '
        '(support_tests)',
        'AiryDiskPSF is not modelled in Coq; MoffatPSF is modelled (linearity, symmetry, sign proved) but not '
        'tied by K (its ** has no exact stand-in): both are checked numerically on the real classes only',
        'theorems are over Q with abstract primitives; that float cos(90 deg) is 6e-17 rather than 0 is outside '
        'the model (IEEE gap): the harness checks theta in 90*Z numerically with tolerance 1e-9*flux',
    ]
    n_img = 150 if quick else 1200
    n_grid = 150 if quick else 1200
    n_ana = 120 if quick else 800
    n_real = 120 if quick else 900

    cases, terms, impl = [], [], []
    # ---- ImagePSF
    for k in range(n_img):
        c = gen_image_case(rng)
        seed = rng.randrange(1 << 30)
        c['hseed'] = seed
        try:
            vals, bb, fresh = run_image(c, seed)
        except Exception as e:      # noqa  (valid input: an exception contradicts the property)
            d = describe_image(c)
            d['hseed'] = seed
            report(exc_sig('ImagePSF', e), f'ImagePSF failed on a valid input: {e!s:.200}', d)
            continue
        for g, v in c['stats'].items():
            ctx.stat('image_' + g, v)
        ctx.stat('image_fill', str(c['fill']))
        ctx.stat('image_history_len', str(len(c['hist'])))
        ctx.stat('image_oversampling', f'{c["os"][0]}x{c["os"][1]}')
        ny, nx = len(c['data']), len(c['data'][0])
        inside = sum(1 for v in vals if not same_as_fill(float(v), c['fill']))
        ctx.stat('image_points', 'not_fill', inside)
        ctx.stat('image_points', 'fill', len(vals) - inside)
        ctx.count_case(describe_image(c), inside > 0)
        if not np.array_equal(vals, fresh, equal_nan=True):
            d = describe_image(c)
            d['hseed'] = seed
            report('ImagePSF:history', 'result after evaluate/copy history differs from a fresh ImagePSF', d)
        cases.append(c)
        impl.append((vals, bb))
        terms.append(f'(CImage {image_to_coq(c, vals, bb)})')
    # ---- GriddedPSFModel
    for k in range(n_grid):
        c = gen_grid_case(rng)
        try:
            out, keys = run_grid(c)
        except Exception as e:      # noqa
            report(exc_sig('GriddedPSFModel', e),
                   f'GriddedPSFModel failed on a valid input: {e!s:.200}', describe_grid(c))
            continue
        for g, v in c['stats'].items():
            ctx.stat('grid_' + g, v)
        ctx.stat('grid_fill', str(c['fill']))
        ctx.stat('grid_shape', f'{len(c["yg"])}x{len(c["xg"])}')
        nontriv = False
        for op, o in zip(c['ops'], out):
            ctx.stat('grid_ops', op['op'])
            if op['op'] == 'eval':
                ctx.stat('grid_refpoint', op['refkind'])
                if any(not same_as_fill(float(v), c['fill']) for v in o[0]):
                    nontriv = True
                if not np.array_equal(o[0], o[2], equal_nan=True):
                    report('GriddedPSFModel:history', 'result after evaluate/copy history differs from a '
                                  'fresh GriddedPSFModel', describe_grid(c))
        ctx.count_case(describe_grid(c), nontriv)
        cases.append(c)
        impl.append((out, keys))
        terms.append(f'(CGrid {grid_to_coq(c, out, keys)})')
    # ---- analytic with stand-ins
    for k in range(n_ana):
        c = gen_analytic_case(rng)
        try:
            vals = run_analytic(c)
        except Exception as e:      # noqa
            report(f'{AKINDS[c["model"]]}:exception:{type(e).__name__}',
                          f'evaluate() raised with stand-in primitives: {e!s:.200}', describe_analytic(c),
                          found_input=False)
            continue
        ctx.stat('analytic_standin', AKINDS[c['model']])
        ctx.count_case(describe_analytic(c), bool(np.any(vals != 0)))
        cases.append(c)
        impl.append(vals)
        terms.append(f'(CAnalytic {analytic_to_coq(c, vals)})')
    for kind in ('image', 'grid', 'analytic'):
        for i, c in enumerate(cases):
            if c['kind'] != kind:
                continue
            if kind == 'image':
                ctx.sample({'case': describe_image(c), 'impl': [repr(float(v)) for v in impl[i][0]], 'bbox': impl[i][1]})
            elif kind == 'grid':
                ctx.sample({'case': describe_grid(c),
                            'impl': [None if o is None else [repr(float(v)) for v in o[0]] for o in impl[i][0]]})
            else:
                ctx.sample({'case': describe_analytic(c), 'impl': [repr(float(v)) for v in impl[i]]})
            break

    bad = ctx.coq_eval_cases(['C13_Model'], 'check_case', terms, case_type='case')
    ctx.stat('coq', 'disagreements', len(bad))
    # independent oracle on every image / grid case (cheap), and on the disagreements
    flagged = set()
    for i, c in enumerate(cases):
        if c['kind'] == 'image':
            fails = image_oracle(c, *impl[i])
            if fails:
                flagged.add(i)
                d = describe_image(c)
                d['hseed'] = c['hseed']
                d['failures'] = [str(f) for f in fails[:5]]
                what = ('ImagePSF bounding box is not the sampled extent' if fails[0][0] == -1 else
                        'ImagePSF does not reproduce flux*data at a sample point / fill_value outside')
                report('ImagePSF:bounding_box' if fails[0][0] == -1 else 'ImagePSF:sample-points', what, d)
        elif c['kind'] == 'grid':
            fails = grid_oracle(c, impl[i][0])
            if fails:
                flagged.add(i)
                d = describe_grid(c)
                d['failures'] = [str(f) for f in fails[:5]]
                one = min(len(c['xg']), len(c['yg'])) == 1
                if fails[0][1] == -1:
                    sig, what = 'GriddedPSFModel:bounding_box', 'bounding box is not the stamp extent about (x_0, y_0)'
                elif one:
                    sig, what = ('GriddedPSFModel:single-row-or-column-grid',
                                 'grid with a single row/column: result is not the stored ePSF / the linear blend along the row/column')
                else:
                    sig, what = ('GriddedPSFModel:bilinear',
                                 'result is not the stored ePSF at a node / the bilinear blend in a cell / the '
                                 'nearest-edge value outside the grid')
                report(sig, what, d)
    for i in bad[:25]:
        c = cases[i]
        if i in flagged:
            continue
        if c['kind'] == 'analytic':
            # stand-in run disagrees with the model: look for a concrete property failure with
            # the real primitives around the same parameters
            found = False
            for _ in range(200):
                rc = gen_real_case(rng)
                if rc['name'] != AKINDS[c['model']]:
                    continue
                fails = [f for f in real_checks(rc) if f[0] != SIG_ROT]
                if fails:
                    report(fails[0][0], fails[0][1], rc)
                    found = True
                    break
            if not found:
                d = describe_analytic(c)
                d['impl'] = [str(F(float(v))) for v in impl[i]]
                d['model'] = ctx.coq_eval_term(['C13_Model'], f'amodel_out {analytic_to_coq(c, impl[i])}')
                report(f'correspondence:{AKINDS[c["model"]]}.evaluate', 'evaluate() no longer computes the '
                              'modelled expression (stand-in run differs from the Coq model)', d, found_input=False)
        else:
            d = describe_image(c) if c['kind'] == 'image' else describe_grid(c)
            inner = image_to_coq(c, *impl[i]) if c['kind'] == 'image' else grid_to_coq(c, *impl[i])
            fn = 'imodel_out' if c['kind'] == 'image' else 'gmodel_out'
            try:
                d['model'] = ctx.coq_eval_term(['C13_Model'], f'{fn} {inner}')[:4000]
            except Exception as e:      # noqa
                d['model'] = 'unavailable: ' + str(e)[:200]
            d['impl'] = [repr(float(v)) for v in impl[i][0]] if c['kind'] == 'image' else \
                [None if o is None else [repr(float(v)) for v in o[0]] for o in impl[i][0]]
            if c['kind'] == 'grid':
                d['impl_cache_keys'] = [[str(a), str(b)] for a, b in impl[i][1]]
            report(f'correspondence:C13_Model.{c["kind"]}', 'model and implementation disagree (index '
                          'classification, cache keys or value) although the property oracle holds', d,
                          found_input=False)

    # ---- histories that reuse ONE set of caller coordinate arrays (all representations)
    n_reuse = 60 if quick else 400
    for which in ('image', 'grid', 'analytic'):
        for k in range(n_reuse):
            cls, spec = gen_reuse_case(rng, which)
            ctx.stat('reuse_' + which, spec['coord'])
            for op in spec['ops']:
                ctx.stat('reuse_targets', op['target'])
            try:
                fails = run_reuse(spec)
            except Exception as e:      # noqa
                fails = [(f'exception:{type(e).__name__}', f'{e!s:.200}')]
            ctx.count_case(spec, True)
            for suffix, msg in fails:
                report(f'{cls}:{suffix}', msg, spec)
    # ---- sample points with general (decimal, not exactly representable) centres: floating-point stream
    n_gen = 150 if quick else 1500
    for which in ('image', 'grid'):
        for k in range(n_gen):
            spec = gen_general_case(rng, which)
            ctx.stat('general_centre_' + which, 'cases')
            ctx.stat('general_centre_oversampling', str(spec['oversampling']))
            if which == 'grid':
                ctx.stat('general_centre_grid_ref', spec['refkind'])
            try:
                npts, fails = run_general(spec)
            except Exception as e:      # noqa
                npts, fails = 0, [(f'{"ImagePSF" if which == "image" else "GriddedPSFModel"}:exception:'
                                   f'{type(e).__name__}', f'{e!s:.200}')]
            ctx.stat('general_centre_' + which, 'points', npts)
            ctx.support('sample points with general centres (float, tol 1e-9*flux*max|data|): ' + which, npts)
            ctx.count_case(spec, True)
            for sig, msg in fails:
                report(sig, msg, spec)
    # ---- real analytic models (real erf): direct clauses + numerical support
    for k in range(n_real):
        rc = gen_real_case(rng)
        ctx.stat('analytic_real', rc['name'])
        try:
            fails = real_checks(rc, support_cb=lambda nm: ctx.support('numerical integral = flux: ' + nm))
        except Exception as e:      # noqa
            fails = [(f'{rc["name"]}:exception:{type(e).__name__}', f'model raised on a valid input: {e!s:.200}')]
        th = rc['params'].get('theta')
        ctx.stat('analytic_real_theta', 'n/a' if th is None else ('multiple_of_90' if th % 90 == 0 else 'other'))
        ctx.count_case(rc, True)
        for sig, msg in fails:
            report(sig, msg, rc)
    # the Coq refutation witness of defect 17 replayed on the implementation
    wit = dict(kind='real', name='GaussianPRF',
               params=dict(flux=1.0, x_0=0.5, y_0=0.5, x_fwhm=0.2, y_fwhm=0.2, theta=45.0))
    for sig, msg in real_checks(wit):
        report(sig, msg, wit)
    # the constant that links sigma and FWHM
    import photutils.psf.functional_models as fm
    if abs(fm.GAUSSIAN_FWHM_TO_SIGMA - F2S) > 1e-15:
        report('GAUSSIAN_FWHM_TO_SIGMA', 'constant differs from 1/(2 sqrt(2 ln 2))',
                      {'kind': 'const', 'value': repr(fm.GAUSSIAN_FWHM_TO_SIGMA)})


# --------------------------------------------------------------------------
# replay
# --------------------------------------------------------------------------
def replay(obj):
    r = obj['replay']
    r = r.get('case', r)
    kind = r.get('kind')
    if kind == 'image':
        c = undescribe_image(r)
        vals, bb, fresh = run_image(c, r.get('hseed', 0))
        fails = image_oracle(c, vals, bb)
        if not np.array_equal(vals, fresh, equal_nan=True):
            fails.append((0, 'differs from a fresh object'))
        print('impl:', vals.tolist(), 'bbox:', bb)
    elif kind == 'grid':
        c = undescribe_grid(r)
        out, keys = run_grid(c)
        fails = grid_oracle(c, out)
        for o in out:
            if o is not None and not np.array_equal(o[0], o[2], equal_nan=True):
                fails.append((0, 0, 'differs from a fresh object'))
        print('impl:', [None if o is None else o[0].tolist() for o in out])
    elif kind == 'general':
        npts, fails = run_general(r)
        print('general-centre stream:', r['which'], 'x_0, y_0 =', r['x_0'], r['y_0'], 'points:', npts)
    elif kind == 'reuse':
        fails = run_reuse(r)
        print('model:', r['model'].get('kind'), 'coordinates:', r['coord'], 'ops:', [o['target'] for o in r['ops']])
    elif kind == 'real':
        fails = real_checks(r, support_cb=lambda nm: None)
        print('model:', r['name'], r['params'])
    elif kind == 'analytic':
        c = undescribe_analytic(r)
        print('stand-in run:', run_analytic(c).tolist())
        print('no property oracle for a stand-in case; see the "model" field of the replay file')
        return 1
    else:
        print('nothing to replay:', json.dumps(r)[:500])
        return 1
    for f in fails:
        print('  FAIL', f)
    print('property FAILS on this input' if fails else 'property holds on this input')
    return 1 if fails else 0
