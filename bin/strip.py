import ast, sys
src = open(sys.argv[1]).read()
lo = int(sys.argv[2]) if len(sys.argv) > 2 else 1
hi = int(sys.argv[3]) if len(sys.argv) > 3 else 10**9
tree = ast.parse(src)
skip = set()
for node in ast.walk(tree):
    if isinstance(node, (ast.FunctionDef, ast.ClassDef, ast.Module, ast.AsyncFunctionDef)):
        b = node.body
        if b and isinstance(b[0], ast.Expr) and isinstance(getattr(b[0], 'value', None), ast.Constant) and isinstance(b[0].value.value, str):
            for i in range(b[0].lineno, b[0].end_lineno + 1):
                skip.add(i)
for i, line in enumerate(src.splitlines(), 1):
    if i in skip or not line.strip() or line.strip().startswith('#'):
        continue
    if lo <= i <= hi:
        print(f'{i}: {line}')
