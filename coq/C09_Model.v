(* C09 — results never depend on access order or on earlier calls.
   Executable models of the cache / state protocols of
     (a) Background2D            background_2d.py:684-786, 850-902   (lazy meshes, deletions)
     (b) ProfileBase             profiles/core.py:210-262            (normalize / unnormalize)
     (c) PixelAperture           aperture/attributes.py:42-59, core.py:126-283 (descriptors)
     (d) PSFPhotometry.__call__  psf/photometry.py:352-363, 647-701, 1396-1445
         Ellipse.fit_image       isophote/ellipse.py:386-410
         GriddedPSFModel._calc_interpolator  psf/gridded_models.py:399-466
   The numerics (interpolation, median filters, fits, overlap kernels ...) are NOT
   modelled: they are Section variables (arbitrary pure functions).  What is modelled is
   exactly what the property is about: which intermediate state is kept, deleted,
   overwritten or cached, in which order, and which exception results when a needed
   piece is gone.  Every machine has a [legacy] flag: [legacy = false] mirrors the
   repaired code (fixes/C09-*.patch), [legacy = true] the code as found (DESIGN.md
   section 6, defects 8-11); the legacy variants are only used for the refutation
   theorems.  No proofs in this file. *)
From Coq Require Import List ZArith Bool Floats Uint63.
From PV Require Import lib.Cases.
Import ListNotations.

Inductive outcome (V : Type) := Val (v : V) | Raise (e : Z).
Arguments Val {V} v.
Arguments Raise {V} e.
(* exception codes: 1 TypeError, 2 ValueError, 3 AttributeError, 4 KeyError, 9 other *)

Definition is_some {A} (o : option A) : bool := match o with Some _ => true | None => false end.

(* ------------------------------------------------------------------------- *)
(* (a) Background2D                                                           *)
(* ------------------------------------------------------------------------- *)
Section Bkg.
Variable V : Type.
(* _interpolate_grid; generic_filter(nanmedian); _selective_filter(data, interpolated
   box statistics); np.median; _calculate_image (interpolator + coverage fill);
   block_replicate + crop *)
Variables (interp_grid filt_plain median image blockrep : V -> V) (filt_sel : V -> V -> V).

Record bcfg := { b_thr : bool;   (* filter_threshold is not None *)
                 b_low : bool;   (* filter_threshold < _min_bkg_stats *)
                 b_f11 : bool;   (* filter_size == (1, 1) *)
                 b_BS : V; b_RS : V; b_NG : V }.  (* _calculate_stats() results *)
Record bst := { bkg_stats : option V; rms_stats : option V;
                c_mesh : option V; c_rms : option V; c_med : option V; c_rmed : option V }.
Definition binit (c : bcfg) : bst :=
  {| bkg_stats := Some (b_BS c); rms_stats := Some (b_RS c);
     c_mesh := None; c_rms := None; c_med := None; c_rmed := None |}.

Inductive bread := RMesh | RRmsMesh | RMed | RRmsMed | RBkg | RRms | RNpixMesh | RNpixMap.

Definition set_bkg_stats (s : bst) (x : option V) : bst :=
  {| bkg_stats := x; rms_stats := rms_stats s; c_mesh := c_mesh s; c_rms := c_rms s;
     c_med := c_med s; c_rmed := c_rmed s |}.
Definition set_rms_stats (s : bst) (x : option V) : bst :=
  {| bkg_stats := bkg_stats s; rms_stats := x; c_mesh := c_mesh s; c_rms := c_rms s;
     c_med := c_med s; c_rmed := c_rmed s |}.
Definition set_c_mesh (s : bst) (x : option V) : bst :=
  {| bkg_stats := bkg_stats s; rms_stats := rms_stats s; c_mesh := x; c_rms := c_rms s;
     c_med := c_med s; c_rmed := c_rmed s |}.
Definition set_c_rms (s : bst) (x : option V) : bst :=
  {| bkg_stats := bkg_stats s; rms_stats := rms_stats s; c_mesh := c_mesh s; c_rms := x;
     c_med := c_med s; c_rmed := c_rmed s |}.
Definition set_c_med (s : bst) (x : option V) : bst :=
  {| bkg_stats := bkg_stats s; rms_stats := rms_stats s; c_mesh := c_mesh s; c_rms := c_rms s;
     c_med := x; c_rmed := c_rmed s |}.
Definition set_c_rmed (s : bst) (x : option V) : bst :=
  {| bkg_stats := bkg_stats s; rms_stats := rms_stats s; c_mesh := c_mesh s; c_rms := c_rms s;
     c_med := c_med s; c_rmed := x |}.

(* _filter_grid; [stats] is the current self._bkg_stats read by _selective_filter;
   _interpolate_grid(None) -> np.isnan(None) -> TypeError *)
Definition filter_grid (c : bcfg) (stats : option V) (data : V) : outcome V :=
  if b_f11 c then Val data
  else if negb (b_thr c) || b_low c then Val (filt_plain data)
  else match stats with
       | None => Raise 1
       | Some s => Val (filt_sel data (interp_grid s))
       end.

(* lazyproperty background_mesh *)
Definition rd_mesh (legacy : bool) (c : bcfg) (s : bst) : bst * outcome V :=
  match c_mesh s with
  | Some v => (s, Val v)
  | None =>
    match bkg_stats s with
    | None => (s, Raise 1)
    | Some bs =>
      let data := interp_grid bs in
      let del := is_some (c_rms s) || negb (b_thr c) in   (* 'background_rms_mesh' in __dict__ or threshold None *)
      let s_del := if del then set_bkg_stats s None else s in
      if legacy then      (* delete, then filter *)
        match filter_grid c (bkg_stats s_del) data with
        | Raise e => (s_del, Raise e)
        | Val v => (set_c_mesh s_del (Some v), Val v)
        end
      else                (* repaired: filter, then delete *)
        match filter_grid c (bkg_stats s) data with
        | Raise e => (s, Raise e)
        | Val v => (set_c_mesh s_del (Some v), Val v)
        end
    end
  end.

(* lazyproperty background_rms_mesh *)
Definition rd_rms (c : bcfg) (s : bst) : bst * outcome V :=
  match c_rms s with
  | Some v => (s, Val v)
  | None =>
    match rms_stats s with
    | None => (s, Raise 1)
    | Some rs =>
      let data := interp_grid rs in
      let s1 := set_rms_stats s None in
      match filter_grid c (bkg_stats s1) data with
      | Raise e => (s1, Raise e)
      | Val v => (set_c_rms s1 (Some v), Val v)
      end
    end
  end.

Definition bstep (legacy : bool) (c : bcfg) (s : bst) (r : bread) : bst * outcome V :=
  match r with
  | RMesh => rd_mesh legacy c s
  | RRmsMesh => rd_rms c s
  | RMed =>
      match c_med s with
      | Some v => (s, Val v)
      | None => match rd_mesh legacy c s with
                | (s1, Val m) => (set_c_med s1 (Some (median m)), Val (median m))
                | (s1, Raise e) => (s1, Raise e)
                end
      end
  | RRmsMed =>
      match c_rmed s with
      | Some v => (s, Val v)
      | None => match rd_rms c s with
                | (s1, Val m) => (set_c_rmed s1 (Some (median m)), Val (median m))
                | (s1, Raise e) => (s1, Raise e)
                end
      end
  | RBkg => match rd_mesh legacy c s with
            | (s1, Val m) => (s1, Val (image m))
            | (s1, Raise e) => (s1, Raise e)
            end
  | RRms => match rd_rms c s with
            | (s1, Val m) => (s1, Val (image m))
            | (s1, Raise e) => (s1, Raise e)
            end
  | RNpixMesh => (s, Val (b_NG c))
  | RNpixMap => (s, Val (blockrep (b_NG c)))
  end.

Fixpoint brun (legacy : bool) (c : bcfg) (s : bst) (h : list bread) : list (outcome V * bst) :=
  match h with
  | [] => []
  | r :: h' => let '(s1, o) := bstep legacy c s r in (o, s1) :: brun legacy c s1 h'
  end.

(* what a fresh object returns for the same read *)
Definition bfilt (c : bcfg) (d : V) : V :=
  if b_f11 c then d
  else if negb (b_thr c) || b_low c then filt_plain d
  else filt_sel d (interp_grid (b_BS c)).
Definition bfresh (c : bcfg) (r : bread) : V :=
  match r with
  | RMesh => bfilt c (interp_grid (b_BS c))
  | RRmsMesh => bfilt c (interp_grid (b_RS c))
  | RMed => median (bfilt c (interp_grid (b_BS c)))
  | RRmsMed => median (bfilt c (interp_grid (b_RS c)))
  | RBkg => image (bfilt c (interp_grid (b_BS c)))
  | RRms => image (bfilt c (interp_grid (b_RS c)))
  | RNpixMesh => b_NG c
  | RNpixMap => blockrep (b_NG c)
  end.
End Bkg.

(* ------------------------------------------------------------------------- *)
(* (b) profiles: normalize / unnormalize                                      *)
(* ------------------------------------------------------------------------- *)
Section Prof.
Variable T : Type.
(* float multiply, divide, nanmax / nansum (true = 'sum'), refusal test (== 0 or non-finite), 1.0 *)
Variables (mul div : T -> T -> T) (norm_of : bool -> list T -> T) (is_zero : T -> bool) (one : T).

Record pcfg := { p_PR : list T;             (* profile as first computed *)
                 p_ER : list T;             (* profile_error as first computed *)
                 p_DR : option (list T) }.  (* data_profile; None: class has no such attribute (CurveOfGrowth) *)
Record pst := { nv : T; cp : option (list T); ce : option (list T); cd : option (list T) }.
Definition pinit : pst := {| nv := one; cp := None; ce := None; cd := None |}.

Inductive pattr := AProf | AErr | AData.
Inductive pop := PRead (a : pattr) | PReadNV | PNorm (sum : bool) | PUnnorm.
Inductive pobs := OArr (l : list T) | OScalar (x : T) | ONone | ORaise (e : Z).

Definition get_p (c : pcfg) (s : pst) : pst * list T :=
  match cp s with
  | Some v => (s, v)
  | None => ({| nv := nv s; cp := Some (p_PR c); ce := ce s; cd := cd s |}, p_PR c)
  end.
Definition get_e (c : pcfg) (s : pst) : pst * list T :=
  match ce s with
  | Some v => (s, v)
  | None => ({| nv := nv s; cp := cp s; ce := Some (p_ER c); cd := cd s |}, p_ER c)
  end.

(* rescale the cached arrays by [f]; order as in the code: profile, profile_error,
   and, legacy only, data_profile if already in __dict__.  Repaired code
   (fixes/C09-2): data_profile is no longer a cached attribute but the property
   raw / normalization_value, so there is nothing to rescale. *)
Definition rescale (legacy : bool) (c : pcfg) (s : pst) (f : T -> T) : pst :=
  let '(s1, p) := get_p c s in
  let s2 := {| nv := nv s1; cp := Some (map f p); ce := ce s1; cd := cd s1 |} in
  let '(s3, e) := get_e c s2 in
  let s4 := {| nv := nv s3; cp := cp s3; ce := Some (map f e); cd := cd s3 |} in
  if legacy then
    match cd s4 with
    | Some d => {| nv := nv s4; cp := cp s4; ce := ce s4; cd := Some (map f d) |}
    | None => s4
    end
  else s4.

Definition pstep (legacy : bool) (c : pcfg) (s : pst) (o : pop) : pst * pobs :=
  match o with
  | PRead AProf => let '(s1, p) := get_p c s in (s1, OArr p)
  | PRead AErr => let '(s1, e) := get_e c s in (s1, OArr e)
  | PRead AData =>
      if legacy then
        match cd s with
        | Some d => (s, OArr d)
        | None => match p_DR c with
                  | None => (s, ORaise 3)
                  | Some raw => ({| nv := nv s; cp := cp s; ce := ce s; cd := Some raw |}, OArr raw)
                  end
        end
      else      (* property: self._data_profile[1] / self.normalization_value, never cached *)
        match p_DR c with
        | None => (s, ORaise 3)
        | Some raw => (s, OArr (map (fun x => div x (nv s)) raw))
        end
  | PReadNV => (s, OScalar (nv s))
  | PNorm sum =>
      let '(s1, p) := get_p c s in
      let n := norm_of sum p in
      if is_zero n then (s1, ONone)          (* warning, nothing rescaled *)
      else
        let s2 := {| nv := mul (nv s1) n; cp := cp s1; ce := ce s1; cd := cd s1 |} in
        (rescale legacy c s2 (fun x => div x n), ONone)
  | PUnnorm =>
      let k := nv s in
      let s1 := rescale legacy c s (fun x => mul x k) in
      ({| nv := one; cp := cp s1; ce := ce s1; cd := cd s1 |}, ONone)
  end.

Definition prun (legacy : bool) (c : pcfg) (h : list pop) (s : pst) : pst :=
  fold_left (fun s o => fst (pstep legacy c s o)) h s.
Fixpoint ptrace (legacy : bool) (c : pcfg) (s : pst) (h : list pop) : list (pobs * pst) :=
  match h with
  | [] => []
  | o :: h' => let '(s1, ob) := pstep legacy c s o in (ob, s1) :: ptrace legacy c s1 h'
  end.
Definition is_mut (o : pop) : bool :=
  match o with PNorm _ | PUnnorm => true | _ => false end.
(* the observation of operation [o] after history [h] on one instance *)
Definition pobserve (legacy : bool) (c : pcfg) (h : list pop) (o : pop) : pobs :=
  snd (pstep legacy c (prun legacy c h pinit) o).

(* --- specification: the cache-free reference object (used by the theorems) --- *)
(* what is observable of a state: the normalisation value and the two arrays a read of
   profile / profile_error would return (cached or not); data_profile is a function of
   the normalisation value *)
Record pview := { v_nv : T; v_p : list T; v_e : list T }.
Definition view (c : pcfg) (s : pst) : pview :=
  {| v_nv := nv s;
     v_p := match cp s with Some v => v | None => p_PR c end;
     v_e := match ce s with Some v => v | None => p_ER c end |}.

(* the cache-free reference object: no lazy attributes at all *)
Definition vscale (v : pview) (f : T -> T) : pview :=
  {| v_nv := v_nv v; v_p := map f (v_p v); v_e := map f (v_e v) |}.
Definition vstep (c : pcfg) (v : pview) (o : pop) : pview * pobs :=
  match o with
  | PRead AProf => (v, OArr (v_p v))
  | PRead AErr => (v, OArr (v_e v))
  | PRead AData => (v, match p_DR c with
                       | Some raw => OArr (map (fun x => div x (v_nv v)) raw)
                       | None => ORaise 3
                       end)
  | PReadNV => (v, OScalar (v_nv v))
  | PNorm sum =>
      let n := norm_of sum (v_p v) in
      if is_zero n then (v, ONone)
      else (vscale {| v_nv := mul (v_nv v) n; v_p := v_p v; v_e := v_e v |} (fun x => div x n), ONone)
  | PUnnorm =>
      let k := v_nv v in
      let v1 := vscale v (fun x => mul x k) in
      ({| v_nv := one; v_p := v_p v1; v_e := v_e v1 |}, ONone)
  end.
Definition vrun (c : pcfg) (h : list pop) (v : pview) : pview :=
  fold_left (fun v o => fst (vstep c v o)) h v.
End Prof.

(* ------------------------------------------------------------------------- *)
(* (c) apertures: descriptor-driven invalidation of the lazyproperties        *)
(* ------------------------------------------------------------------------- *)
Section Aper.
Variable V : Type.
(* parameters are numbered in _params order; index 0 is 'positions' *)
Definition params := list (option V).
Variables (F_shape F_isscalar F_pos2d : V -> V)       (* positions.shape[:-1]; shape == (); atleast_2d *)
          (F_ext F_area : params -> V)                (* _xy_extents, area: functions of the shape parameters *)
          (F_bbox F_pick F_edges : V -> V -> V)       (* _bbox(ext, _positions); bbox(isscalar, _bbox); _centered_edges(_positions, _bbox) *)
          (F_mask : Z -> params -> V -> V -> V).      (* to_mask(method)(params, _bbox, _centered_edges) *)
Variable noval : V.                                   (* placeholder for a missing parameter *)

Record acls := { lazy_ext : bool;    (* _xy_extents is a lazyproperty (circular) or a plain property *)
                 lazy_area : bool }.
Record acache := { k_shape : option V; k_isscalar : option V; k_pos2d : option V; k_ext : option V;
                   k_bbox_ : option V; k_bbox : option V; k_edges : option V; k_area : option V }.
Definition empty_cache : acache :=
  {| k_shape := None; k_isscalar := None; k_pos2d := None; k_ext := None;
     k_bbox_ := None; k_bbox := None; k_edges := None; k_area := None |}.
Record ast := { a_params : params; a_cache : acache }.

Inductive aattr := AShape | AIsScalar | APos2d | AExt | ABbox_ | ABbox | AEdges | AArea | AMask (m : Z).
Inductive aop := ASet (i : nat) (v : V) (valid : bool) | ARead (a : aattr).

Definition pos_of (p : params) : V := match nth 0 p None with Some v => v | None => noval end.
Fixpoint upd (p : params) (i : nat) (v : V) : params :=
  match i, p with
  | O, _ :: r => Some v :: r
  | O, [] => [Some v]
  | S i', x :: r => x :: upd r i' v
  | S i', [] => None :: upd [] i' v
  end.

(* ApertureAttribute.__set__ : validate; if the attribute already exists pop every
   lazyproperty from __dict__; store *)
Definition aset (s : ast) (i : nat) (v : V) (valid : bool) : ast * outcome V :=
  if negb valid then (s, Raise 2)
  else
    let cache := if is_some (nth i (a_params s) None) then empty_cache else a_cache s in
    ({| a_params := upd (a_params s) i v; a_cache := cache |}, Val noval).

Definition with_cache (s : ast) (k : acache) : ast := {| a_params := a_params s; a_cache := k |}.

Definition rd_shape (s : ast) : ast * V :=
  match k_shape (a_cache s) with
  | Some v => (s, v)
  | None => let v := F_shape (pos_of (a_params s)) in
            let k := a_cache s in
            (with_cache s {| k_shape := Some v; k_isscalar := k_isscalar k; k_pos2d := k_pos2d k; k_ext := k_ext k;
                             k_bbox_ := k_bbox_ k; k_bbox := k_bbox k; k_edges := k_edges k; k_area := k_area k |}, v)
  end.
Definition rd_isscalar (s : ast) : ast * V :=
  match k_isscalar (a_cache s) with
  | Some v => (s, v)
  | None => let '(s1, sh) := rd_shape s in
            let v := F_isscalar sh in
            let k := a_cache s1 in
            (with_cache s1 {| k_shape := k_shape k; k_isscalar := Some v; k_pos2d := k_pos2d k; k_ext := k_ext k;
                              k_bbox_ := k_bbox_ k; k_bbox := k_bbox k; k_edges := k_edges k; k_area := k_area k |}, v)
  end.
Definition rd_pos2d (s : ast) : ast * V :=
  match k_pos2d (a_cache s) with
  | Some v => (s, v)
  | None => let v := F_pos2d (pos_of (a_params s)) in
            let k := a_cache s in
            (with_cache s {| k_shape := k_shape k; k_isscalar := k_isscalar k; k_pos2d := Some v; k_ext := k_ext k;
                             k_bbox_ := k_bbox_ k; k_bbox := k_bbox k; k_edges := k_edges k; k_area := k_area k |}, v)
  end.
Definition rd_ext (cl : acls) (s : ast) : ast * V :=
  if lazy_ext cl then
    match k_ext (a_cache s) with
    | Some v => (s, v)
    | None => let v := F_ext (a_params s) in
              let k := a_cache s in
              (with_cache s {| k_shape := k_shape k; k_isscalar := k_isscalar k; k_pos2d := k_pos2d k; k_ext := Some v;
                               k_bbox_ := k_bbox_ k; k_bbox := k_bbox k; k_edges := k_edges k; k_area := k_area k |}, v)
    end
  else (s, F_ext (a_params s)).
Definition rd_bbox_ (cl : acls) (s : ast) : ast * V :=
  match k_bbox_ (a_cache s) with
  | Some v => (s, v)
  | None => let '(s1, e) := rd_ext cl s in
            let '(s2, p) := rd_pos2d s1 in
            let v := F_bbox e p in
            let k := a_cache s2 in
            (with_cache s2 {| k_shape := k_shape k; k_isscalar := k_isscalar k; k_pos2d := k_pos2d k; k_ext := k_ext k;
                              k_bbox_ := Some v; k_bbox := k_bbox k; k_edges := k_edges k; k_area := k_area k |}, v)
  end.
Definition rd_bbox (cl : acls) (s : ast) : ast * V :=
  match k_bbox (a_cache s) with
  | Some v => (s, v)
  | None => let '(s1, sc) := rd_isscalar s in
            let '(s2, b) := rd_bbox_ cl s1 in
            let v := F_pick sc b in
            let k := a_cache s2 in
            (with_cache s2 {| k_shape := k_shape k; k_isscalar := k_isscalar k; k_pos2d := k_pos2d k; k_ext := k_ext k;
                              k_bbox_ := k_bbox_ k; k_bbox := Some v; k_edges := k_edges k; k_area := k_area k |}, v)
  end.
Definition rd_edges (cl : acls) (s : ast) : ast * V :=
  match k_edges (a_cache s) with
  | Some v => (s, v)
  | None => let '(s1, p) := rd_pos2d s in
            let '(s2, b) := rd_bbox_ cl s1 in
            let v := F_edges p b in
            let k := a_cache s2 in
            (with_cache s2 {| k_shape := k_shape k; k_isscalar := k_isscalar k; k_pos2d := k_pos2d k; k_ext := k_ext k;
                              k_bbox_ := k_bbox_ k; k_bbox := k_bbox k; k_edges := Some v; k_area := k_area k |}, v)
  end.
Definition rd_area (cl : acls) (s : ast) : ast * V :=
  if lazy_area cl then
    match k_area (a_cache s) with
    | Some v => (s, v)
    | None => let v := F_area (a_params s) in
              let k := a_cache s in
              (with_cache s {| k_shape := k_shape k; k_isscalar := k_isscalar k; k_pos2d := k_pos2d k; k_ext := k_ext k;
                               k_bbox_ := k_bbox_ k; k_bbox := k_bbox k; k_edges := k_edges k; k_area := Some v |}, v)
    end
  else (s, F_area (a_params s)).
(* to_mask: zip(self._bbox, self._centered_edges) ... if self.isscalar: masks[0] *)
Definition rd_mask (cl : acls) (m : Z) (s : ast) : ast * V :=
  let '(s1, b) := rd_bbox_ cl s in
  let '(s2, e) := rd_edges cl s1 in
  let '(s3, sc) := rd_isscalar s2 in
  (s3, F_pick sc (F_mask m (a_params s3) b e)).

Definition aread (cl : acls) (s : ast) (a : aattr) : ast * V :=
  match a with
  | AShape => rd_shape s | AIsScalar => rd_isscalar s | APos2d => rd_pos2d s
  | AExt => rd_ext cl s | ABbox_ => rd_bbox_ cl s | ABbox => rd_bbox cl s
  | AEdges => rd_edges cl s | AArea => rd_area cl s | AMask m => rd_mask cl m s
  end.
Definition astep (cl : acls) (s : ast) (o : aop) : ast * outcome V :=
  match o with
  | ASet i v valid => aset s i v valid
  | ARead a => let '(s1, v) := aread cl s a in (s1, Val v)
  end.
Fixpoint arun (cl : acls) (s : ast) (h : list aop) : list (outcome V * ast) :=
  match h with
  | [] => []
  | o :: h' => let '(s1, ob) := astep cl s o in (ob, s1) :: arun cl s1 h'
  end.

(* reference semantics: no cache at all *)
Definition afresh (p : params) (a : aattr) : V :=
  let pos := pos_of p in
  let bb := F_bbox (F_ext p) (F_pos2d pos) in
  match a with
  | AShape => F_shape pos
  | AIsScalar => F_isscalar (F_shape pos)
  | APos2d => F_pos2d pos
  | AExt => F_ext p
  | ABbox_ => bb
  | ABbox => F_pick (F_isscalar (F_shape pos)) bb
  | AEdges => F_edges (F_pos2d pos) bb
  | AArea => F_area p
  | AMask m => F_pick (F_isscalar (F_shape pos)) (F_mask m p bb (F_edges (F_pos2d pos) bb))
  end.
Fixpoint aspec (p : params) (h : list aop) : list (outcome V) :=
  match h with
  | [] => []
  | ASet i v valid :: h' => if valid then Val noval :: aspec (upd p i v) h' else Raise 2 :: aspec p h'
  | ARead a :: h' => Val (afresh p a) :: aspec p h'
  end.
Definition ainit : ast := {| a_params := []; a_cache := empty_cache |}.

(* --- specification helpers (used by the theorems) --- *)
(* assignments only name declared parameters (index < number of constructor parameters) *)
Definition wf_op (n : nat) (o : aop) : Prop :=
  match o with ASet i _ _ => (i < n)%nat | ARead _ => True end.
(* a constructed aperture (all parameters assigned, nothing read yet) *)
Definition aconstructed (vs : list V) : ast := {| a_params := map Some vs; a_cache := empty_cache |}.

(* the constructor itself: first assignments never reset anything and lead to [aconstructed] *)
Fixpoint ctor_ops (i : nat) (vs : list V) : list (aop) :=
  match vs with [] => [] | v :: r => ASet i v true :: ctor_ops (S i) r end.
Definition afinal (cl : acls) (s : ast) (h : list (aop)) : ast :=
  fold_left (fun s o => fst (astep cl s o)) h s.
End Aper.

(* ------------------------------------------------------------------------- *)
(* (d) callables                                                              *)
(* ------------------------------------------------------------------------- *)
Section Psf.
Variables G R : Type.
(* arguments of one call: a data id, and for init_params: None, or Some has_group_id *)
Record pargs := { pa_data : Z; pa_init : option bool; pa_tab : Z }.
(* the whole numeric pipeline: effective grouper -> args -> result; None = finder found nothing *)
Variable fit : option G -> pargs -> option R.
Record pscfg := { ps_finder : bool }.
Record psst := { ps_grouper : option G; ps_results : option R; ps_finder_results : bool }.
Definition psinit (g : option G) : psst := {| ps_grouper := g; ps_results := None; ps_finder_results := false |}.

Definition pscall (legacy : bool) (c : pscfg) (s : psst) (a : pargs) : psst * outcome (option R) :=
  (* _reset_results *)
  let s0 := {| ps_grouper := ps_grouper s; ps_results := None; ps_finder_results := false |} in
  match pa_init a with
  | None =>
      if negb (ps_finder c) then (s0, Raise 2)
      else match fit (ps_grouper s0) a with
           | None => (s0, Val None)
           | Some r => ({| ps_grouper := ps_grouper s0; ps_results := Some r; ps_finder_results := true |}, Val (Some r))
           end
  | Some has_gid =>
      let eff := if has_gid then None else ps_grouper s0 in
      let g' := if legacy then eff else ps_grouper s0 in     (* legacy: self.grouper = None *)
      match fit eff a with
      | None => ({| ps_grouper := g'; ps_results := None; ps_finder_results := false |}, Val None)
      | Some r => ({| ps_grouper := g'; ps_results := Some r; ps_finder_results := false |}, Val (Some r))
      end
  end.
Fixpoint psrun (legacy : bool) (c : pscfg) (s : psst) (h : list pargs) : list (outcome (option R) * psst) :=
  match h with
  | [] => []
  | a :: h' => let '(s1, o) := pscall legacy c s a in (o, s1) :: psrun legacy c s1 h'
  end.
End Psf.

Section Ell.
Variable R : Type.
(* geometry configuration touched by fit_image: linear_growth and the 4 fix flags *)
Record geo := { g_lin : bool; g_fix : bool * bool * bool * bool }.
Record eargs := { e_id : Z; e_linear : option bool; e_fc : bool; e_fp : bool; e_fe : bool }.
Variable efit : geo -> eargs -> R.   (* the fit proper, run with the effective geometry *)
Variable eempty : R.                 (* IsophoteList([]) *)

Definition ecall (legacy : bool) (g : geo) (a : eargs) : geo * R :=
  let g1 := match e_linear a with
            | Some b => {| g_lin := b; g_fix := g_fix g |}
            | None => g
            end in
  if e_fc a && e_fp a && e_fe a then ((if legacy then g1 else g), eempty)
  else
    let g2 := if e_fc a || e_fp a || e_fe a
              then {| g_lin := g_lin g1; g_fix := (e_fc a, e_fc a, e_fp a, e_fe a) |} else g1 in
    ((if legacy then g2 else g), efit g2 a).
Fixpoint erun (legacy : bool) (g : geo) (h : list eargs) : list (R * geo) :=
  match h with
  | [] => []
  | a :: h' => let '(g1, r) := ecall legacy g a in (r, g1) :: erun legacy g1 h'
  end.
End Ell.

(* GriddedPSFModel: _find_bounding_points + _calc_interpolator cache keyed by grid position *)
Section Grid.
Variable V : Type.
Variable spline : Z * Z -> V.     (* RectBivariateSpline of data[grid index at that position] *)
Definition gcache := list ((Z * Z) * V).
Definition zz_eqb (a b : Z * Z) : bool := (fst a =? fst b)%Z && (snd a =? snd b)%Z.
Fixpoint glookup (k : Z * Z) (c : gcache) : option V :=
  match c with
  | [] => None
  | (k', v) :: r => if zz_eqb k k' then Some v else glookup k r
  end.
Definition calc_interp (c : gcache) (k : Z * Z) : gcache * V :=
  match glookup k c with
  | Some v => (c, v)
  | None => let v := spline k in (c ++ [(k, v)], v)
  end.
(* np.searchsorted(grid, x) - 1 clipped to [0, len-2]; grid sorted, len >= 2 *)
Definition bracket (grid : list Z) (x : Z) : Z * Z :=
  let cnt := Z.of_nat (length (filter (fun g => (g <? x)%Z) grid)) in
  let i := Z.max 0 (Z.min (cnt - 1) (Z.of_nat (length grid) - 2)) in
  (nth (Z.to_nat i) grid 0%Z, nth (Z.to_nat (i + 1)) grid 0%Z).
Definition bounding (xg yg : list Z) (x y : Z) : list (Z * Z) :=
  let '(x0, x1) := bracket xg x in let '(y0, y1) := bracket yg y in
  [(x0, y0); (x1, y0); (x0, y1); (x1, y1)].
(* one evaluation: the four interpolators, in order *)
Definition geval (xg yg : list Z) (c : gcache) (xy : Z * Z) : gcache * list V :=
  fold_left (fun '(c, out) k => let '(c1, v) := calc_interp c k in (c1, out ++ [v]))
            (bounding xg yg (fst xy) (snd xy)) (c, []).
Fixpoint grun (xg yg : list Z) (c : gcache) (h : list (Z * Z)) : list (list V * gcache) :=
  match h with
  | [] => []
  | xy :: h' => let '(c1, vs) := geval xg yg c xy in (vs, c1) :: grun xg yg c1 h'
  end.
End Grid.

(* StarFinder._get_raw_catalog (detection/starfinder.py:95-116).  Repaired code (fix C10-3,
   [inplace = false]): a normalised COPY of the kernel attribute is used, the attribute is
   only read.  Code as found ([inplace = true]): the attribute was normalised in place on
   every call (kernel /= max(kernel)).  DAOStarFinder and IRAFStarFinder only read their
   configuration ([norm] = identity). *)
Section Finder.
Variables K I R : Type.
Variable norm : K -> K.            (* kernel / max(kernel) *)
Variable find : K -> I -> R.       (* convolution, peak finding, catalog filters *)
Definition sfcall (inplace : bool) (k : K) (img : I) : K * R :=
  let k' := norm k in ((if inplace then k' else k), find k' img).
Fixpoint sfrun (inplace : bool) (k : K) (h : list I) : list (R * K) :=
  match h with
  | [] => []
  | i :: h' => let '(k1, r) := sfcall inplace k i in (r, k1) :: sfrun inplace k1 h'
  end.
End Finder.

(* IterativePSFPhotometry.__call__ (psf/photometry.py:1937-2023): resets fit_results, calls
   the wrapped PSFPhotometry on the caller's arguments, then up to maxiters-1 more times on
   init_params tables built from the previous results (never with a group_id column);
   [next] abstracts make_residual_image + finder + _create_init_params: from the inner
   results so far it decides the next inner call (None: stop). *)
Section Iter.
Variables G R : Type.
Variable fit : option G -> pargs -> option R.
Variable next : list (outcome (option R)) -> option pargs.
Fixpoint itloop (legacy : bool) (c : pscfg) (fuel : nat) (s : psst G R) (acc : list (outcome (option R)))
  : psst G R * list (outcome (option R)) :=
  match fuel with
  | O => (s, acc)
  | S f => match next acc with
           | None => (s, acc)
           | Some a => let '(s1, o) := pscall G R fit legacy c s a in itloop legacy c f s1 (acc ++ [o])
           end
  end.
(* one outer call: the list of inner outcomes determines the returned table and fit_results *)
Definition itcall (legacy : bool) (c : pscfg) (maxiters : nat) (s : psst G R) (a : pargs)
  : psst G R * list (outcome (option R)) :=
  let '(s1, o) := pscall G R fit legacy c s a in
  match o with
  | Val (Some _) => itloop legacy c (Nat.pred maxiters) s1 [o]
  | _ => (s1, [o])
  end.
Fixpoint itrun (legacy : bool) (c : pscfg) (maxiters : nat) (s : psst G R) (h : list pargs)
  : list (list (outcome (option R)) * psst G R) :=
  match h with
  | [] => []
  | a :: h' => let '(s1, o) := itcall legacy c maxiters s a in (o, s1) :: itrun legacy c maxiters s1 h'
  end.
End Iter.

(* ------------------------------------------------------------------------- *)
(* correspondence                                                             *)
(* ------------------------------------------------------------------------- *)
(* free (injective) interpretation of the numerics: symbolic terms *)
Inductive term := Atom (n : Z) | Ap1 (f : Z) (a : term) | Ap2 (f : Z) (a b : term).
Fixpoint term_eqb (s t : term) : bool :=
  match s, t with
  | Atom n, Atom m => (n =? m)%Z
  | Ap1 f a, Ap1 g b => (f =? g)%Z && term_eqb a b
  | Ap2 f a b, Ap2 g c d => (f =? g)%Z && term_eqb a c && term_eqb b d
  | _, _ => false
  end.

(* --- (a) --- *)
Definition bread_of (z : Z) : bread :=
  match z with
  | 0 => RMesh | 1 => RRmsMesh | 2 => RMed | 3 => RRmsMed | 4 => RBkg | 5 => RRms | 6 => RNpixMesh | _ => RNpixMap
  end%Z.
Definition tb_step := bstep term (Ap1 1) (Ap1 2) (Ap1 3) (Ap1 4) (Ap1 5) (Ap2 6).
Definition tb_fresh := bfresh term (Ap1 1) (Ap1 2) (Ap1 3) (Ap1 4) (Ap1 5) (Ap2 6).
Definition tb_cfg (thr low f11 : bool) : bcfg term :=
  {| b_thr := thr; b_low := low; b_f11 := f11; b_BS := Atom 1; b_RS := Atom 2; b_NG := Atom 3 |}.
(* observation of one step on the implementation:
   (read, exception code (0 = none), value bitwise equal to a fresh object's,
    _bkg_stats is None, _bkgrms_stats is None,
    [mesh; rms_mesh; median; rms_median] in __dict__) *)
Definition bobs := (Z * Z * bool * bool * bool * list bool)%type.
Definition bstate_eqb (s : bst term) (bn rn : bool) (keys : list bool) : bool :=
  Bool.eqb (negb (is_some (bkg_stats _ s))) bn && Bool.eqb (negb (is_some (rms_stats _ s))) rn
  && list_eqb Bool.eqb [is_some (c_mesh _ s); is_some (c_rms _ s); is_some (c_med _ s); is_some (c_rmed _ s)] keys.
Fixpoint bcheck (c : bcfg term) (s : bst term) (h : list bobs) : bool :=
  match h with
  | [] => true
  | (r, exc, eqf, bn, rn, keys) :: h' =>
      let '(s1, o) := tb_step false c s (bread_of r) in
      (match o with
       | Raise e => (exc =? e)%Z
       | Val t => (exc =? 0)%Z && Bool.eqb eqf (term_eqb t (tb_fresh c (bread_of r)))
       end)
      && bstate_eqb s1 bn rn keys && bcheck c s1 h'
  end.

(* --- (b) binary64 through Coq's primitive floats; a float is (mantissa, exponent),
   None = NaN, (+-1, 5000) = +-inf --- *)
Definition zf := option (Z * Z).
Definition mkf (x : zf) : float :=
  match x with
  | None => PrimFloat.nan
  | Some (m, e) =>
      let a := PrimFloat.of_uint63 (Uint63.of_Z (Z.abs m)) in
      Z.ldexp (if (m <? 0)%Z then PrimFloat.opp a else a) e
  end.
Definition f_same (a b : float) : bool :=
  (PrimFloat.is_nan a && PrimFloat.is_nan b) || PrimFloat.eqb a b.
(* photutils.utils._stats.nanmax / nansum on a 1-D array of < 8 elements
   (left-to-right, NaN skipped; all-NaN max = NaN) *)
Definition f_nanmax (l : list float) : float :=
  fold_left (fun acc x => if PrimFloat.is_nan x then acc
                          else if PrimFloat.is_nan acc then x
                          else if PrimFloat.ltb acc x then x else acc) l PrimFloat.nan.
Definition f_nansum (l : list float) : float :=
  fold_left (fun acc x => if PrimFloat.is_nan x then acc else PrimFloat.add acc x) l PrimFloat.zero.
Definition f_norm (sum : bool) (l : list float) : float := if sum then f_nansum l else f_nanmax l.
(* normalize refuses a zero or non-finite normalisation (profiles/core.py:236) *)
Definition f_is_zero (x : float) : bool :=
  PrimFloat.eqb x PrimFloat.zero || PrimFloat.is_nan x || PrimFloat.is_infinity x.
Definition fp_step := pstep float PrimFloat.mul PrimFloat.div f_norm f_is_zero PrimFloat.one.

Definition pop_of (z : Z) : pop :=
  match z with
  | 0 => PRead AProf | 1 => PRead AErr | 2 => PRead AData | 3 => PReadNV
  | 4 => PNorm false | 5 => PNorm true | 6 => PUnnorm
  | _ => PRead AProf      (* >= 7: a public method that reads self.profile (calc_ee_at_radius,
                             calc_radius_at_ee): same effect on the cache as a read of profile *)
  end%Z.
(* observation: (op, exception code, returned array (reads) / [normalization_value]
   (PReadNV) / [] otherwise, normalization_value after the step,
   [profile; profile_error; data_profile] in __dict__) *)
Definition pobsv := (Z * Z * list zf * zf * list bool)%type.
Definition flist_same (a : list float) (b : list zf) : bool := list_eqb f_same a (map mkf b).
Fixpoint pcheck (c : pcfg float) (s : pst float) (h : list pobsv) : bool :=
  match h with
  | [] => true
  | (o, exc, arr, nvz, keys) :: h' =>
      let '(s1, ob) := fp_step false c s (pop_of o) in
      (match ob with
       | ORaise _ e => (exc =? e)%Z
       | OArr _ l => (7 <=? o)%Z || ((exc =? 0)%Z && flist_same l arr)
       | OScalar _ x => (exc =? 0)%Z && flist_same [x] arr
       | ONone _ => (exc =? 0)%Z
       end)
      && f_same (nv _ s1) (mkf nvz)
      && list_eqb Bool.eqb [is_some (cp _ s1); is_some (ce _ s1); is_some (cd _ s1)] keys
      && pcheck c s1 h'
  end.

(* --- (c) --- *)
Fixpoint enc_params (p : list (option term)) : term :=
  match p with
  | [] => Atom 0
  | o :: r => Ap2 0 (match o with Some t => t | None => Atom (-1) end) (enc_params r)
  end.
Definition ta_step :=
  astep term (Ap1 10) (Ap1 11) (Ap1 12) (fun p => Ap1 13 (enc_params p)) (fun p => Ap1 14 (enc_params p))
        (Ap2 15) (Ap2 16) (Ap2 17) (fun m p b e => Ap2 18 (Ap2 19 (Atom m) (enc_params p)) (Ap2 20 b e)) (Atom (-1)).
Definition aattr_of (z : Z) : aattr :=
  match z with
  | 0 => AShape | 1 => AIsScalar | 2 => APos2d | 3 => AExt | 4 => ABbox_ | 5 => ABbox | 6 => AEdges | 7 => AArea
  | _ => AMask (z - 8)
  end%Z.
(* implementation op: (kind, a, b, valid): kind 0 = set parameter a to (fresh) value id b;
   kind 1 = read attribute a.
   observation: (exception code, value equals the value of a fresh aperture built from the
   current parameters, lazyproperty keys in __dict__ in the order
   [shape; isscalar; _positions; _xy_extents; _bbox; bbox; _centered_edges; area]) *)
Definition aobsv := (Z * Z * Z * bool * (Z * bool * list bool))%type.
Definition akeys (k : acache term) : list bool :=
  [is_some (k_shape _ k); is_some (k_isscalar _ k); is_some (k_pos2d _ k); is_some (k_ext _ k);
   is_some (k_bbox_ _ k); is_some (k_bbox _ k); is_some (k_edges _ k); is_some (k_area _ k)].
Definition ta_fresh :=
  afresh term (Ap1 10) (Ap1 11) (Ap1 12) (fun p => Ap1 13 (enc_params p)) (fun p => Ap1 14 (enc_params p))
         (Ap2 15) (Ap2 16) (Ap2 17) (fun m p b e => Ap2 18 (Ap2 19 (Atom m) (enc_params p)) (Ap2 20 b e)) (Atom (-1)).
Fixpoint acheck (cl : acls) (s : ast term) (h : list aobsv) : bool :=
  match h with
  | [] => true
  | (kind, a, b, valid, (exc, eqf, keys)) :: h' =>
      let o := if (kind =? 0)%Z then ASet term (Z.to_nat a) (Atom b) valid else ARead term (aattr_of a) in
      let '(s1, ob) := ta_step cl s o in
      (match ob with
       | Raise e => (exc =? e)%Z
       | Val t => (exc =? 0)%Z
                  && (if (kind =? 0)%Z then true
                      else Bool.eqb eqf (term_eqb t (ta_fresh (a_params _ s1) (aattr_of a))))
       end)
      && list_eqb Bool.eqb (akeys (a_cache _ s1)) keys && acheck cl s1 h'
  end.

(* --- (d) PSFPhotometry: grouper = Some 1 / None; results are terms --- *)
Definition tfit (g : option Z) (a : pargs) : option term :=
  if (pa_data a <? 0)%Z && negb (is_some (pa_init a))
  then None      (* data ids < 0: images on which the finder finds nothing *)
  else Some (Ap2 30 (match g with Some x => Atom x | None => Atom 0 end)
                    (Ap2 31 (Atom (pa_data a)) (Ap2 32 (Atom (pa_tab a))
                       (match pa_init a with None => Atom 0 | Some false => Atom 1 | Some true => Atom 2 end)))).
(* observation per call: (data id, init (0 none / 1 table / 2 table with group_id), table id,
   exception code, result is None, result equals the fresh object's result,
   grouper is None, results is None, finder_results is None) *)
Definition psobsv := (Z * Z * Z * (Z * bool * bool) * (bool * bool * bool))%type.
Definition opt_term_eqb := opt_eqb term_eqb.
Fixpoint pscheck (c : pscfg) (g0 : option Z) (s : psst Z term) (h : list psobsv) : bool :=
  match h with
  | [] => true
  | (d, ini, tab, (exc, isnone, eqf), (gn, rn, fn)) :: h' =>
      let a := {| pa_data := d; pa_tab := tab;
                  pa_init := if (ini =? 0)%Z then None else Some (ini =? 2)%Z |} in
      let '(s1, o) := pscall Z term tfit false c s a in
      let fresh := snd (pscall Z term tfit false c (psinit Z term g0) a) in
      (match o with
       | Raise e => (exc =? e)%Z
       | Val r => (exc =? 0)%Z && Bool.eqb isnone (negb (is_some r))
                  && Bool.eqb eqf (match fresh with Val r' => opt_term_eqb r r' | Raise _ => false end)
       end)
      && Bool.eqb gn (negb (is_some (ps_grouper _ _ s1))) && Bool.eqb rn (negb (is_some (ps_results _ _ s1)))
      && Bool.eqb fn (negb (ps_finder_results _ _ s1))
      && pscheck c g0 s1 h'
  end.

(* --- (d) Ellipse --- *)
Definition tefit (g : geo) (a : eargs) : term :=
  let b2z (b : bool) := Atom (if b then 1 else 0) in
  let '(f1, f2, f3, f4) := g_fix g in
  Ap2 40 (Atom (e_id a)) (Ap2 41 (b2z (g_lin g)) (Ap2 42 (Ap2 43 (b2z f1) (b2z f2)) (Ap2 44 (b2z f3) (b2z f4)))).
(* observation per call: (call id, linear (0 None / 1 False / 2 True), fc, fp, fe,
   result equals the fresh object's, geometry.linear_growth after, geometry.fix after) *)
Definition eobsv := (Z * Z * bool * bool * bool * (bool * bool * list bool))%type.
(* [lg] = which code the implementation is compared with: false = repaired (fixes/C09-4),
   true = as found (Ellipse.fit_image:geometry-persists is a recorded known finding); for
   the code as found only "the model says equal => observed equal" is required of the
   value flag (two different geometries may happen to give equal fits) *)
Fixpoint echeck (lg : bool) (g0 g : geo) (h : list eobsv) : bool :=
  match h with
  | [] => true
  | (id, lin, fc, fp, fe, (eqf, lin_after, fix_after)) :: h' =>
      let a := {| e_id := id; e_linear := if (lin =? 0)%Z then None else Some (lin =? 2)%Z;
                  e_fc := fc; e_fp := fp; e_fe := fe |} in
      let '(g1, r) := ecall term tefit (Atom 49) lg g a in
      let fresh := snd (ecall term tefit (Atom 49) lg g0 a) in
      let '(f1, f2, f3, f4) := g_fix g1 in
      (if lg then implb (term_eqb r fresh) eqf else Bool.eqb eqf (term_eqb r fresh))
      && Bool.eqb lin_after (g_lin g1)
      && list_eqb Bool.eqb [f1; f2; f3; f4] fix_after && echeck lg g0 g1 h'
  end.

(* --- (d) GriddedPSFModel --- *)
(* observation per evaluation: (x_0, y_0, model values equal a fresh model's,
   keys of _interpolator after the call, in insertion order) *)
Definition gobsv := (Z * Z * bool * list (Z * Z))%type.
Definition tspline (k : Z * Z) : term := Ap2 50 (Atom (fst k)) (Atom (snd k)).
Fixpoint gcheck (xg yg : list Z) (c : gcache term) (h : list gobsv) : bool :=
  match h with
  | [] => true
  | (x, y, eqf, keys) :: h' =>
      let '(c1, vs) := geval term tspline xg yg c (x, y) in
      let fresh := snd (geval term tspline xg yg [] (x, y)) in
      Bool.eqb eqf (list_eqb term_eqb vs fresh)
      && list_eqb zz_eqb (map fst c1) keys && gcheck xg yg c1 h'
  end.

Inductive case :=
| CBkg (thr low f11 : bool) (h : list bobs)
| CProf (pr er : list zf) (dr : option (list zf)) (h : list pobsv)
| CAper (lazy_ext lazy_area : bool) (h : list aobsv)
| CPsf (finder grouper : bool) (h : list psobsv)
| CEll (legacy : bool) (lin0 : bool) (fix0 : list bool) (h : list eobsv)
| CGrid (xg yg : list Z) (h : list gobsv).

Definition geo_of (lin : bool) (fx : list bool) : geo :=
  {| g_lin := lin; g_fix := (nth 0 fx false, nth 1 fx false, nth 2 fx false, nth 3 fx false) |}.

Definition check_case (c : case) : bool :=
  match c with
  | CBkg thr low f11 h => let cfg := tb_cfg thr low f11 in bcheck cfg (binit term cfg) h
  | CProf pr er dr h =>
      let cfg := {| p_PR := map mkf pr; p_ER := map mkf er; p_DR := option_map (map mkf) dr |} in
      pcheck cfg (pinit float PrimFloat.one) h
  | CAper le la h => acheck {| lazy_ext := le; lazy_area := la |} (ainit term) h
  | CPsf finder grouper h =>
      let g0 := if grouper then Some 1%Z else None in
      pscheck {| ps_finder := finder |} g0 (psinit Z term g0) h
  | CEll lg lin0 fix0 h => let g0 := geo_of lin0 fix0 in echeck lg g0 g0 h
  | CGrid xg yg h => gcheck xg yg [] h
  end.

(* the model's own answers for one case (for violation reports) *)
Definition model_out (c : case) : list (Z * list bool) :=
  match c with
  | CBkg thr low f11 h =>
      let cfg := tb_cfg thr low f11 in
      map (fun '(o, s) => (match o with Raise e => e | Val _ => 0%Z end,
                           [negb (is_some (bkg_stats _ s)); negb (is_some (rms_stats _ s));
                            is_some (c_mesh _ s); is_some (c_rms _ s); is_some (c_med _ s); is_some (c_rmed _ s)]))
          (brun term (Ap1 1) (Ap1 2) (Ap1 3) (Ap1 4) (Ap1 5) (Ap2 6) false cfg (binit term cfg)
                (map (fun '(r, _, _, _, _, _) => bread_of r) h))
  | CAper le la h =>
      map (fun '(o, s) => (match o with Raise e => e | Val _ => 0%Z end, akeys (a_cache _ s)))
          (arun term (Ap1 10) (Ap1 11) (Ap1 12) (fun p => Ap1 13 (enc_params p)) (fun p => Ap1 14 (enc_params p))
                (Ap2 15) (Ap2 16) (Ap2 17) (fun m p b e => Ap2 18 (Ap2 19 (Atom m) (enc_params p)) (Ap2 20 b e))
                (Atom (-1)) {| lazy_ext := le; lazy_area := la |} (ainit term)
                (map (fun '(kind, a, b, valid, _) =>
                        if (kind =? 0)%Z then ASet term (Z.to_nat a) (Atom b) valid else ARead term (aattr_of a)) h))
  | _ => []
  end.
