(* C18 -- TRANSLATOR TIE.  gen/Gen_render.v is REGENERATED from the current source text of
   photutils/utils/cutouts.py (_overlap_slices) and photutils/datasets/images.py (make_model_image,
   _model_shape_from_bbox) on every run (harness/translate_all.py); it is not committed.
   Tied here, for ALL inputs, to C18_Model.v:
     _overlap_slices: photutils' zero-size-slice patch around astropy's overlap_slices.  The astropy call is a
       declared abstract argument; [astropy_trim] below is the part of the model's [overlap_slices] that
       mirrors astropy (mode='trim'), and the model's function is exactly astropy_trim followed by the
       regenerated patch (NoOverlapError = None)
     make_model_image: the if/elif/else choosing mod_shape for a source            = the [sh] of C18_Model.step
     _model_shape_from_bbox: the returned (int(ceil(ymax - ymin)), int(ceil(xmax - xmin))) = poly_bbox on the
       test model's bounding box
     make_model_image: x_range / y_range handed to discretize_model                (x from slc_lg[1], y from slc_lg[0]) *)
From Coq Require Import List ZArith QArith Qround Bool String Lia Lqa.
From PV Require Import lib.Cases lib.PyGen C18_Model C18_Proofs gen.Gen_render.
Import ListNotations.
Open Scope Z_scope.

(* ---------- _overlap_slices ---------- *)
(* astropy.nddata.overlap_slices(large, small, position, mode='trim') as modelled in C18_Model.overlap_slices,
   WITHOUT photutils' final zero-size check *)
Definition astropy_trim (ny nx : Z) (sh : Z * Z) (y8 x8 : Z) : option window :=
  let '(shy, shx) := sh in
  let ymin := e_min y8 shy in let xmin := e_min x8 shx in
  let ymax := ymin + shy in let xmax := xmin + shx in
  let nz := negb ((shy =? 0) && (shx =? 0)) in
  if (ymax <? 0) || ((ymax =? 0) && nz) || ((xmax <? 0) || ((xmax =? 0) && nz)) then None
  else if (ny <=? ymin) || (nx <=? xmin) then None
  else Some ((Z.max 0 ymin, Z.min ny ymax), (Z.max 0 xmin, Z.min nx xmax)).

Definition patch (w sm : window) : option window :=
  let '((y0, y1), (x0, x1)) := w in let '((a0, a1), (b0, b1)) := sm in
  match gen_overlap_slices_patch y0 y1 x0 x1 a0 a1 b0 b1 with
  | PyGen.Ok (lg, _) => Some lg
  | Raise _ => None
  end.

(* the regenerated patch: NoOverlapError iff a large slice is empty, otherwise both slice pairs unchanged *)
Theorem gen_overlap_slices_patch_spec : forall y0 y1 x0 x1 a0 a1 b0 b1,
  gen_overlap_slices_patch y0 y1 x0 x1 a0 a1 b0 b1 =
  if (y1 - y0 =? 0) || (x1 - x0 =? 0) then Raise NoOverlapError
  else PyGen.Ok (((y0, y1), (x0, x1)), ((a0, a1), (b0, b1))).
Proof. intros. unfold gen_overlap_slices_patch. cbv zeta. if_split; first [reflexivity | lia]. Qed.

(* the model's window function = astropy's trim + the regenerated photutils patch (whatever slices_small is) *)
Theorem overlap_slices_is_astropy_then_gen_patch : forall ny nx sh y8 x8 sm,
  overlap_slices ny nx sh y8 x8 =
  match astropy_trim ny nx sh y8 x8 with None => None | Some w => patch w sm end.
Proof.
  intros ny nx [shy shx] y8 x8 [[a0 a1] [b0 b1]]. unfold overlap_slices, astropy_trim, patch. cbv zeta.
  repeat match goal with |- context [if ?c then None else _] => destruct c; [reflexivity|] end.
  rewrite gen_overlap_slices_patch_spec.
  match goal with |- context [if ?c then _ else _] => destruct c; reflexivity end.
Qed.

(* hence (overlap_some_nonempty): a window the renderer adds into is never empty *)
Theorem gen_patch_window_nonempty : forall w sm lg, patch w sm = Some lg ->
  lg = w /\ fst (fst w) <> snd (fst w) /\ fst (snd w) <> snd (snd w).
Proof.
  intros [[y0 y1] [x0 x1]] [[a0 a1] [b0 b1]] lg. unfold patch. rewrite gen_overlap_slices_patch_spec.
  destruct ((y1 - y0 =? 0) || (x1 - x0 =? 0)) eqn:E; [discriminate|].
  intros H. injection H as <-. cbn [fst snd]. repeat split; lia.
Qed.

(* ---------- mod_shape ---------- *)
Theorem gen_mod_shape_eq : forall variable_shape (model_shape : option (Z * Z)) (row_shape bbox_shape : Z * Z),
  gen_mod_shape variable_shape model_shape (fst row_shape) (snd row_shape) (fst bbox_shape) (snd bbox_shape)
  = if variable_shape then row_shape else match model_shape with None => bbox_shape | Some s => s end.
Proof.
  intros v ms [r0 r1] [b0 b1]. unfold gen_mod_shape. cbn [fst snd].
  destruct v; [reflexivity|]. destruct ms as [[s0 s1]|]; reflexivity.
Qed.

(* it is the shape the model's loop body uses for row i *)
Theorem gen_mod_shape_is_step_shape : forall (bbox_shape : option Z -> pstate -> Z * Z) c t shapes i st',
  (if has_shape_col t then nth i shapes (0, 0)
   else match mshape c with None => bbox_shape (bfactor c) st' | Some s => s end)
  = gen_mod_shape (has_shape_col t) (mshape c) (fst (nth i shapes (0, 0))) (snd (nth i shapes (0, 0)))
                  (fst (bbox_shape (bfactor c) st')) (snd (bbox_shape (bfactor c) st')).
Proof. intros. rewrite gen_mod_shape_eq. reflexivity. Qed.

(* ---------- _model_shape_from_bbox ---------- *)
Lemma Qceiling_frac8 (n : Z) : Qceiling (n # 8) = cdiv n 8.
Proof. unfold Qceiling, Qfloor, cdiv. cbn. reflexivity. Qed.

(* the test model's bounding_box(factor) = ((y - h, y + h), (x - h - 1/2, x + h + 1/2)) with h = factor * r,
   f = 2 * factor, r8 = 8 r: the regenerated shape is the model's poly_bbox *)
Theorem gen_shape_from_bbox_eq : forall (y x : Q) (f r8 : Z),
  let h := (f * r8 # 16)%Q in
  gen_shape_from_bbox (y - h) (y + h) (x - h - (1 # 2)) (x + h + (1 # 2)) = (cdiv (f * r8) 8, cdiv (f * r8 + 8) 8).
Proof.
  intros. unfold gen_shape_from_bbox. rewrite <- !Qceiling_frac8. subst h.
  apply f_equal2; apply Qceiling_comp; unfold Qeq, Qminus, Qplus, Qopp; cbn [Qnum Qden];
    rewrite ?Pos2Z.inj_mul; ring.
Qed.

Theorem gen_shape_from_bbox_is_poly_bbox : forall (y x : Q) f2 st,
  let f := match f2 with Some f => f | None => 2 end in
  let h := (f * pval 6 st # 16)%Q in
  gen_shape_from_bbox (y - h) (y + h) (x - h - (1 # 2)) (x + h + (1 # 2)) = poly_bbox f2 st.
Proof. intros. unfold poly_bbox. subst h f. apply gen_shape_from_bbox_eq. Qed.

(* the shape covers the bounding box: ceil(hi - lo) >= hi - lo, and less than one pixel more *)
Theorem gen_shape_from_bbox_covers : forall y0 y1 x0 x1 : Q,
  let '(sy, sx) := gen_shape_from_bbox y0 y1 x0 x1 in
  (y1 - y0 <= inject_Z sy < y1 - y0 + 1 /\ x1 - x0 <= inject_Z sx < x1 - x0 + 1)%Q.
Proof.
  intros. unfold gen_shape_from_bbox.
  repeat match goal with
  | |- context [Qceiling ?a] =>
      let c := fresh "c" in let L := fresh "L" in
      pose proof (Qle_ceiling a); pose proof (Qceiling_lt a) as L;
      rewrite inject_Z_sub in L; change (inject_Z 1) with 1%Q in L;
      set (c := Qceiling a) in *; clearbody c
  end.
  cbn. repeat split; lra.
Qed.

(* ---------- x_range / y_range ---------- *)
Theorem gen_discretize_ranges_axes : forall (w : window),
  let '((ylo, yhi), (xlo, xhi)) := w in
  gen_discretize_ranges ylo yhi xlo xhi = ((xlo, xhi), (ylo, yhi)).
Proof. intros [[ylo yhi] [xlo xhi]]. reflexivity. Qed.

Print Assumptions gen_overlap_slices_patch_spec.
Print Assumptions overlap_slices_is_astropy_then_gen_patch.
Print Assumptions gen_patch_window_nonempty.
Print Assumptions gen_mod_shape_eq.
Print Assumptions gen_mod_shape_is_step_shape.
Print Assumptions Qceiling_frac8.
Print Assumptions gen_shape_from_bbox_eq.
Print Assumptions gen_shape_from_bbox_is_poly_bbox.
Print Assumptions gen_shape_from_bbox_covers.
Print Assumptions gen_discretize_ranges_axes.
