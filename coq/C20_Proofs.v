From Coq Require Import List ZArith Bool QArith Lia.
From PV Require Import lib.Cases C20_Model.
Import ListNotations.
