(* C20 — proofs about the model of C20_Model.v:
     (A) the scalar and the array form of the ellipse coordinate transform agree (over an
         abstract record of numeric operations: one order hypothesis, nothing about sqrt/asin);
     (B) the sma schedule of the control skeleton of Ellipse.fit_image (REPAIRED inward loop)
         for every oracle stream of fit outcomes, over exact rationals;
     (C) the corrector chosen by EllipseFitter.fit is never one of a fixed parameter, hence
         fixed parameters survive the whole iteration (with fixes/C20-4 also a fixed position
         angle, unconditionally); invalid exits carry stop code 3. *)
From Coq Require Import List ZArith Bool QArith Lia Lqa Sorted.
From PV Require Import lib.Cases C20_Model.
Import ListNotations.

(* ================================================================== *)
(* (A) polar transform twins                                           *)
(* ================================================================== *)
Section MaskLemmas.
Context {A P : Type}.
Lemma mselect_map (f : P -> A) (m : P -> bool) ps :
  mselect (map f ps) (map m ps) = map f (filter m ps).
Proof. induction ps as [|p ps IH]; simpl; auto. destruct (m p); simpl; rewrite IH; auto. Qed.
Lemma massign_map (f g : P -> A) (m : P -> bool) ps :
  massign (map f ps) (map m ps) (map g (filter m ps)) = map (fun p => if m p then g p else f p) ps.
Proof. induction ps as [|p ps IH]; simpl; auto. destruct (m p); simpl; rewrite IH; auto. Qed.
Lemma map2_map {B C D} (h : B -> C -> D) (f : P -> B) (g : P -> C) ps :
  map2 h (map f ps) (map g ps) = map (fun p => h (f p) (g p)) ps.
Proof. induction ps as [|p ps IH]; simpl; auto. rewrite IH; auto. Qed.
End MaskLemmas.

Section Twins.
Context {A : Type}.
Variables (padd psub pmul pdiv : A -> A -> A) (psqrt pasin pabs : A -> A)
          (pltb pleb : A -> A -> bool) (c0 c1 c2 pi : A).
Hypothesis ord : forall a, pleb c0 a = true -> pltb a c0 = false.

Let S := to_polar_scalar padd psub pmul pdiv psqrt pasin pabs pltb pleb c0 c1 c2 pi.
Let V := to_polar_vec padd psub pmul pdiv psqrt pasin pabs pltb pleb c0 c1 c2 pi.

Lemma vec_pairs x0 y0 pa (ps : list (A * A)) :
  V x0 y0 pa (map fst ps) (map snd ps) =
  (map (fun p => fst (S x0 y0 pa (fst p) (snd p))) ps, map (fun p => snd (S x0 y0 pa (fst p) (snd p))) ps).
Proof.
  unfold V, to_polar_vec. cbv zeta.
  repeat progress (rewrite ?map_map, ?map2_map, ?mselect_map, ?massign_map).
  f_equal; apply map_ext; intros [x y]; unfold S, to_polar_scalar; cbn [fst snd].
  - destruct (pltb c0 _); reflexivity.
  - destruct (pltb c0 (padd _ _)); cbn [fst snd negb];
    (destruct (pleb c0 (psub x x0)) eqn:Ex; [rewrite (ord _ Ex)|]);
    (destruct (pleb c0 (psub y y0)) eqn:Ey; [rewrite (ord _ Ey)|]);
    destruct (pltb (psub x x0) c0); destruct (pltb (psub y y0) c0); cbn [andb];
    repeat match goal with |- context [if ?b then _ else _] => destruct b end; reflexivity.
Qed.


Lemma combine_fst_snd (xs ys : list A) : length xs = length ys ->
  map fst (combine xs ys) = xs /\ map snd (combine xs ys) = ys.
Proof.
  revert ys. induction xs as [|x xs IH]; intros [|y ys] H; simpl in *; try discriminate; auto.
  destruct (IH ys) as [E1 E2]; [congruence|]. rewrite E1, E2. auto.
Qed.
Lemma map2_combine {B} (f : A -> A -> B) : forall xs ys,
  map2 f xs ys = map (fun p => f (fst p) (snd p)) (combine xs ys).
Proof. induction xs as [|x xs IH]; intros [|y ys]; simpl; auto. rewrite IH. reflexivity. Qed.

Lemma twins_agree x0 y0 pa xs ys : length xs = length ys ->
  V x0 y0 pa xs ys = (map fst (map2 (S x0 y0 pa) xs ys), map snd (map2 (S x0 y0 pa) xs ys)).
Proof.
  intros H. destruct (combine_fst_snd xs ys H) as [E1 E2].
  assert (E : V x0 y0 pa xs ys = V x0 y0 pa (map fst (combine xs ys)) (map snd (combine xs ys)))
    by (rewrite E1, E2; reflexivity).
  rewrite E, vec_pairs, map2_combine, !map_map. reflexivity.
Qed.
End Twins.


(* ================================================================== *)
(* (B) sma schedule                                                    *)
(* ================================================================== *)
Local Open Scope Q_scope.

(* ------------------------------------------------------------------ *)
(* booleans of the Q instance                                          *)
(* ------------------------------------------------------------------ *)
Lemma Qltb_iff a b : Qltb a b = true <-> a < b.
Proof.
  unfold Qltb. rewrite negb_true_iff. split; intro H.
  - apply Qnot_le_lt. intro L. apply Qle_bool_iff in L. congruence.
  - destruct (Qle_bool b a) eqn:E; auto. apply Qle_bool_iff in E.
    exfalso. exact (Qlt_not_le _ _ H E).
Qed.
Lemma Qltb_false a b : Qltb a b = false <-> b <= a.
Proof.
  unfold Qltb. rewrite negb_false_iff. apply Qle_bool_iff.
Qed.
Lemma Qleb_false a b : Qle_bool a b = false <-> b < a.
Proof.
  rewrite <- Qltb_iff. unfold Qltb. destruct (Qle_bool a b); simpl; split; congruence.
Qed.

(* ------------------------------------------------------------------ *)
(* generic list facts                                                  *)
(* ------------------------------------------------------------------ *)
Section SS.
Context {X : Type}.
Variable R : X -> X -> Prop.
Lemma SS_snoc l x : StronglySorted R l -> Forall (fun y => R y x) l -> StronglySorted R (l ++ [x]).
Proof.
  induction l as [|a l IH]; simpl; intros HS HF.
  - constructor; constructor.
  - inversion HS; subst. inversion HF; subst. constructor; auto.
    apply Forall_app; split; auto.
Qed.
Lemma SS_snoc_inv l x : StronglySorted R (l ++ [x]) -> StronglySorted R l /\ Forall (fun y => R y x) l.
Proof.
  induction l as [|a l IH]; simpl; intros HS.
  - split; constructor.
  - inversion HS; subst. destruct (IH H1) as [A B]. apply Forall_app in H2. destruct H2 as [H2 H3].
    inversion H3; subst. split; constructor; auto.
Qed.
Lemma SS_app l1 l2 : StronglySorted R l1 -> StronglySorted R l2 ->
  (forall a b, In a l1 -> In b l2 -> R a b) -> StronglySorted R (l1 ++ l2).
Proof.
  induction l1 as [|a l IH]; simpl; intros H1 H2 H; auto.
  inversion H1; subst. constructor.
  - apply IH; auto.
  - apply Forall_app; split; auto. apply Forall_forall. intros b Hb. apply H; auto.
Qed.
Lemma SS_impl (R' : X -> X -> Prop) l : (forall a b, R a b -> R' a b) -> StronglySorted R l -> StronglySorted R' l.
Proof.
  intros HI. induction 1; constructor; auto. eapply Forall_impl; [|eassumption]. auto.
Qed.
End SS.
Lemma SS_map {X Y} (f : X -> Y) (R : Y -> Y -> Prop) l :
  StronglySorted R (map f l) -> StronglySorted (fun a b => R (f a) (f b)) l.
Proof.
  induction l as [|a l IH]; simpl; intros H; constructor; inversion H; subst; auto.
  apply Forall_forall. intros b Hb. rewrite Forall_forall in H3. apply H3. apply in_map. auto.
Qed.

(* ------------------------------------------------------------------ *)
(* growth steps (geometry.py:502-553)                                  *)
(* ------------------------------------------------------------------ *)
Lemma update_sma_increases lin sma step : 0 < step -> 0 < sma -> sma < update_sma Qnum lin sma step.
Proof. intros Hs Ha. unfold update_sma. destruct lin; simpl; nra. Qed.

Lemma update_sma_linear_increases sma step : 0 < step -> sma < update_sma Qnum true sma step.
Proof. intros Hs. unfold update_sma. simpl. lra. Qed.

Lemma update_sma_monotone lin a b step : 0 < step -> a < b -> update_sma Qnum lin a step < update_sma Qnum lin b step.
Proof. intros Hs Hab. unfold update_sma. destruct lin; simpl; nra. Qed.

Lemma reset_sma_spec lin a step sin istep :
  0 < step -> reset_sma Qnum lin a step = (sin, istep) ->
  (0 < a -> sin < a) /\ (forall x, 0 < x -> update_sma Qnum lin x istep < x).
Proof.
  intros Hs. unfold reset_sma, update_sma. destruct lin; simpl; intros E; inversion E; subst; clear E.
  - split; intros; lra.
  - assert (Haux : 1 / (1 + step) < 1) by (apply Qlt_shift_div_r; lra).
    assert (Hpos : 0 < 1 / (1 + step)) by (apply Qlt_shift_div_l; lra).
    set (aux := 1 / (1 + step)) in *. split; intros; nra.
Qed.

(* the inward step undoes the outward one: reset then grow returns to the start *)
Lemma reset_sma_inverse lin a step sin istep :
  0 < step -> reset_sma Qnum lin a step = (sin, istep) -> update_sma Qnum lin sin step == a.
Proof.
  intros Hs. unfold reset_sma, update_sma. destruct lin; simpl; intros E; inversion E; subst; clear E.
  - lra.
  - field. lra.
Qed.

(* ------------------------------------------------------------------ *)
(* control skeleton of fit_image over Q                                *)
(* ------------------------------------------------------------------ *)
Notation isoQ := (iso Qnum).
Definition smas (l : list isoQ) : list Q := map (i_sma Qnum) l.
Definition stream_ok (s : list outcome) := forall c v, In (c, v) s -> v = false -> c = 3%Z.

Lemma smas_app l1 l2 : smas (l1 ++ l2) = smas l1 ++ smas l2.
Proof. apply map_app. Qed.

Lemma fit_isophote_spec mr sma noiter tok l s i l1 s1 :
  fit_isophote Qnum mr sma noiter tok l s = Some (i, l1, s1) -> stream_ok s ->
  i_sma Qnum i = sma /\ (i_valid Qnum i = false -> i_code Qnum i = 3%Z) /\
  l1 = (if i_valid Qnum i then l ++ [i] else l) /\ stream_ok s1.
Proof.
  unfold fit_isophote. intros H Hs.
  destruct (noiter || match mr with Some m => truthy Qnum m && ltb Qnum m sma | None => false end).
  - inversion H; subst; simpl. repeat split; auto; try discriminate.
  - destruct (ltb Qnum (n0 Qnum) sma).
    + destruct s as [|[c v] s']; [discriminate|]. inversion H; subst; simpl.
      repeat split; auto.
      * intros Hv. apply (Hs c v); simpl; auto.
      * intros c' v' Hin. apply Hs. simpl; auto.
    + inversion H; subst; simpl. repeat split; auto; try discriminate.
Qed.

Lemma last_opt_some (l : list isoQ) j : last_opt Qnum l = Some j -> exists l', l = l' ++ [j].
Proof.
  unfold last_opt. destruct (rev l) as [|i r] eqn:E; [discriminate|]. intros H; inversion H; subst.
  exists (rev r). rewrite <- (rev_involutive l), E. reflexivity.
Qed.
Lemma last_opt_none (l : list isoQ) : last_opt Qnum l = None -> l = [].
Proof.
  unfold last_opt. destruct (rev l) as [|i r] eqn:E; [|discriminate]. intros _.
  rewrite <- (rev_involutive l), E. reflexivity.
Qed.

Lemma fix_last_smas first (l l' : list isoQ) : fix_last Qnum first l = Some l' -> smas l' = smas l.
Proof.
  unfold fix_last. destruct (rev l) as [|i r] eqn:E.
  - intros H; inversion H; auto.
  - destruct r as [|k r]; [discriminate|]. intros H; inversion H; subst; clear H.
    rewrite <- (rev_involutive l), E. cbn [rev]. rewrite !smas_app. reflexivity.
Qed.

Section SchedQ.
Variables (lin : bool) (step minsma : Q) (maxsma maxrit : option Q) (sma0 : Q).
Hypothesis Hstep : 0 < step.
Hypothesis Hsma0 : 0 < sma0.

Definition below_max (x : Q) := forall m, maxsma = Some m -> truthy Qnum m = true -> x < m.
Definition Pm (x : Q) := sma0 <= x /\ (x == sma0 \/ below_max x).

(* outward loop: [ls] = smas already in the list, [sma] = the one about to be fitted *)
Definition OI (ls : list Q) (sma : Q) :=
  StronglySorted Qlt (ls ++ [sma]) /\ Forall Pm (ls ++ [sma]) /\ hd_error (ls ++ [sma]) = Some sma0.
Definition OD (ls : list Q) :=
  StronglySorted Qlt ls /\ Forall Pm ls /\ (ls = [] \/ hd_error ls = Some sma0).

Lemma OI_OD_full ls sma : OI ls sma -> OD (ls ++ [sma]).
Proof. intros (A & B & C). repeat split; auto. Qed.
Lemma OI_OD_prefix ls sma : OI ls sma -> OD ls.
Proof.
  intros (A & B & C). apply SS_snoc_inv in A. destruct A as [A _].
  apply Forall_app in B. destruct B as [B _]. repeat split; auto.
  destruct ls; [left|right]; auto.
Qed.
Lemma OI_next ls x sma' : OD (ls ++ [x]) -> x < sma' -> below_max sma' -> OI (ls ++ [x]) sma'.
Proof.
  intros (A & B & C) Hx Hb. repeat split.
  - apply SS_snoc; auto. apply SS_snoc_inv in A. destruct A as [_ A].
    apply Forall_app; split.
    + eapply Forall_impl; [|exact A]. simpl. intros a Ha. lra.
    + constructor; auto.
  - apply Forall_app; split; auto. constructor; [|constructor].
    apply Forall_app in B. destruct B as [_ B]. inversion B; subst. destruct H1 as [H1 _].
    split; [lra|auto].
  - destruct C as [C|C]; [destruct ls; discriminate|].
    destruct ls; simpl in *; auto.
Qed.

Lemma out_failure_smas i l1 noiter :
  match out_failure Qnum maxsma i l1 noiter with
  | ABreak _ l2 | ACont _ l2 _ => smas l2 = smas l1
  | _ => True
  end.
Proof.
  unfold out_failure.
  destruct ((i_code Qnum i <? 0)%Z || (i_code Qnum i =? 1)%Z); auto.
  destruct (length l1 =? 1)%nat; auto.
  destruct (fix_last Qnum false l1) as [l2|] eqn:E; auto. apply fix_last_smas in E.
  destruct (last_opt Qnum l2); auto.
  destruct ((2 <? length l2)%nat && _); auto.
  destruct maxsma as [t|]; auto. destruct (truthy Qnum t && _); auto.
Qed.

Lemma outward_inv : forall fuel sma noiter first l s calls,
  stream_ok s -> OI (smas l) sma ->
  match outward Qnum lin step maxsma maxrit fuel sma noiter first l s calls with
  | PDone _ l2 s2 _ => OD (smas l2) /\ stream_ok s2
  | PStop _ (Ret _ r) _ => r = []
  | PStop _ _ _ => True
  end.
Proof.
  induction fuel as [|f IH]; intros sma noiter first l s calls Hs HI; simpl; auto.
  destruct (fit_isophote Qnum maxrit sma noiter (Z.of_nat (length (calls ++ [mkcall Qnum sma noiter false first]))) l s) as [[[i l1] s1]|] eqn:Hf; auto.
  destruct (fit_isophote_spec _ _ _ _ _ _ _ _ _ Hf Hs) as (Hsma & Hval & Hl1 & Hs1).
  assert (HD1 : OD (smas l1)).
  { subst l1. destruct (i_valid Qnum i).
    - rewrite smas_app. simpl. rewrite Hsma. apply OI_OD_full; auto.
    - eapply OI_OD_prefix; eauto. }
  pose proof (out_failure_smas i l1 noiter) as Ho.
  destruct (out_failure Qnum maxsma i l1 noiter) as [| |l2|l2 noiter']; auto.
  - rewrite Ho. auto.
  - destruct (last_opt Qnum l2) as [j|] eqn:Hl; auto.
    destruct (last_opt_some _ _ Hl) as [l' Hl'].
    assert (HD2 : OD (smas l' ++ [i_sma Qnum j])).
    { rewrite <- Ho in HD1. rewrite Hl', smas_app in HD1. exact HD1. }
    assert (Hpos : 0 < i_sma Qnum j).
    { destruct HD2 as (_ & B & _). apply Forall_app in B. destruct B as [_ B].
      inversion B; subst. destruct H1 as [H1 _]. lra. }
    pose proof (update_sma_increases lin _ _ Hstep Hpos) as Hup.
    assert (Hsm : smas l2 = smas l' ++ [i_sma Qnum j]) by (rewrite Hl', smas_app; reflexivity).
    destruct maxsma as [m|] eqn:Hm.
    + match goal with |- context [if ?b then _ else _] => destruct b eqn:Hc end.
      * rewrite Hsm. auto.
      * apply IH; auto. rewrite Hsm. apply OI_next; auto.
        intros m' Hm' Ht. assert (m' = m) by congruence; subst m'. rewrite Ht in Hc. simpl in Hc.
        apply Qleb_false in Hc. exact Hc.
    + apply IH; auto. rewrite Hsm. apply OI_next; auto.
      intros m' Hm'. congruence.
Qed.

(* inward loop (repaired: test before each fit) *)
Definition mx : Q := pymax Qnum minsma (n05 Qnum).
Lemma mx_ge : minsma <= mx /\ 1 # 2 <= mx.
Proof.
  unfold mx, pymax. simpl. destruct (Qltb minsma (1 # 2)) eqn:E.
  - apply Qltb_iff in E. lra.
  - apply Qltb_false in E. lra.
Qed.

Definition gtQ (a b : Q) := b < a.
Definition II (li : list Q) (sma : Q) :=
  StronglySorted gtQ (sma0 :: li ++ [sma]) /\ Forall (fun x => mx < x) li.
Definition ID (li : list Q) :=
  StronglySorted gtQ (sma0 :: li) /\ Forall (fun x => mx < x) li.

Lemma II_ID li sma : II li sma -> ID li.
Proof.
  intros [A B]. split; auto. change (sma0 :: li ++ [sma]) with ((sma0 :: li) ++ [sma]) in A.
  apply SS_snoc_inv in A. tauto.
Qed.
Lemma II_ID_full li sma : II li sma -> mx < sma -> ID (li ++ [sma]).
Proof.
  intros [A B] H. split; auto. apply Forall_app; split; auto.
Qed.
Lemma II_next li sma sma' : II li sma -> mx < sma -> sma' < sma -> II (li ++ [sma]) sma'.
Proof.
  intros [A B] H H'. split.
  - change (sma0 :: (li ++ [sma]) ++ [sma']) with ((sma0 :: li ++ [sma]) ++ [sma']).
    apply SS_snoc; auto.
    change (sma0 :: li ++ [sma]) with ((sma0 :: li) ++ [sma]) in *.
    apply SS_snoc_inv in A. destruct A as [_ A].
    apply Forall_app; split.
    + eapply Forall_impl; [|exact A]. unfold gtQ. simpl. intros a Ha. lra.
    + constructor; auto.
  - apply Forall_app; split; auto.
Qed.

Section Inward.
Variables (istep : Q) (lo : list Q).
Hypothesis Histep : forall x, 0 < x -> update_sma Qnum lin x istep < x.

Lemma inward_inv : forall fuel sma l s calls li,
  smas l = lo ++ li -> stream_ok s -> II li sma ->
  match inward Qnum lin minsma maxrit true fuel sma istep l s calls with
  | PDone _ l2 s2 _ => exists li2, smas l2 = lo ++ li2 /\ ID li2
  | PStop _ (Ret _ r) _ => r = []
  | PStop _ _ _ => True
  end.
Proof.
  induction fuel as [|f IH]; intros sma l s calls li Hl Hs HI; simpl; auto.
  change (pymax Qnum minsma (1 # 2)) with mx. destruct (Qltb mx sma) eqn:Hm; simpl.
  2:{ exists li. split; auto. eapply II_ID; eauto. }
  apply Qltb_iff in Hm.
  destruct (fit_isophote Qnum maxrit sma false (Z.of_nat (length (calls ++ [mkcall Qnum sma false true false]))) l s) as [[[i l1] s1]|] eqn:Hf; auto.
  destruct (fit_isophote_spec _ _ _ _ _ _ _ _ _ Hf Hs) as (Hsma & Hval & Hl1 & Hs1).
  destruct (if (i_code Qnum i <? 0)%Z then fix_last Qnum true l1 else Some l1) as [l2|] eqn:Hfx; auto.
  assert (Hsm : smas l2 = smas l1).
  { destruct (i_code Qnum i <? 0)%Z; [eapply fix_last_smas; eauto|inversion Hfx; auto]. }
  destruct (i_valid Qnum i) eqn:Hv.
  - assert (Hsm2 : smas l2 = lo ++ (li ++ [sma])).
    { rewrite Hsm, Hl1, smas_app, Hl. simpl. rewrite Hsma, app_assoc. reflexivity. }
    destruct (i_code Qnum i =? 3)%Z.
    + exists (li ++ [sma]). split; auto. apply II_ID_full; auto.
    + destruct (last_opt Qnum l2) as [j|] eqn:Hlast; auto.
      destruct (last_opt_some _ _ Hlast) as [l' Hl'].
      assert (Hj : i_sma Qnum j = sma).
      { rewrite Hl', smas_app, app_assoc in Hsm2. simpl in Hsm2.
        apply app_inj_tail in Hsm2. tauto. }
      rewrite Hj. apply IH with (li := li ++ [sma]); auto.
      apply II_next; auto. apply Histep. pose proof mx_ge. lra.
  - rewrite (Hval eq_refl). simpl.
    exists li. split; [rewrite Hsm, Hl1; auto|eapply II_ID; eauto].
Qed.
End Inward.

(* what the property says about a returned list *)
Definition sma_class (x : Q) :=
  x == sma0 \/ (sma0 < x /\ below_max x) \/ (mx < x /\ x < sma0) \/ (x == 0 /\ minsma == 0).
Definition lts (a b : isoQ) := i_sma Qnum a < i_sma Qnum b.
Definition Good (l : list isoQ) :=
  StronglySorted lts l /\
  (exists i, In i l /\ i_sma Qnum i = sma0) /\
  ((exists i, In i l /\ i_sma Qnum i == 0) <-> minsma == 0) /\
  (forall i, In i l -> sma_class (i_sma Qnum i)).

(* list.sort() *)
Lemma insert_In (x y : isoQ) l : In y (insert Qnum x l) <-> y = x \/ In y l.
Proof.
  induction l as [|a l IH]; simpl.
  - intuition.
  - destruct (Qltb (i_sma Qnum a) (i_sma Qnum x)); simpl; rewrite ?IH; intuition.
Qed.
Lemma sort_In (y : isoQ) l : In y (sort Qnum l) <-> In y l.
Proof.
  induction l as [|a l IH]; simpl; [tauto|]. rewrite insert_In, IH. intuition.
Qed.
Lemma insert_SS (x : isoQ) l :
  StronglySorted lts l -> Forall (fun y => ~ i_sma Qnum x == i_sma Qnum y) l ->
  StronglySorted lts (insert Qnum x l).
Proof.
  induction l as [|a l IH]; simpl; intros HS HF.
  - constructor; constructor.
  - inversion HS; subst. inversion HF; subst.
    destruct (Qltb (i_sma Qnum a) (i_sma Qnum x)) eqn:E.
    + apply Qltb_iff in E. constructor; auto.
      apply Forall_forall. intros y Hy. apply insert_In in Hy. destruct Hy as [->|Hy]; auto.
      rewrite Forall_forall in H2. auto.
    + apply Qltb_false in E. assert (Hlt : i_sma Qnum x < i_sma Qnum a).
      { destruct (Qlt_le_dec (i_sma Qnum x) (i_sma Qnum a)); auto. exfalso. apply H3. lra. }
      constructor; auto. constructor; auto.
      eapply Forall_impl; [|exact H2]. unfold lts. simpl. intros b Hb. lra.
Qed.
Lemma sort_SS (l : list isoQ) :
  StronglySorted (fun a b => ~ i_sma Qnum a == i_sma Qnum b) l -> StronglySorted lts (sort Qnum l).
Proof.
  induction 1 as [|a l HS IH HF]; simpl; [constructor|]. apply insert_SS; [exact IH|].
  apply Forall_forall. intros y Hy. apply (proj1 (sort_In y l)) in Hy. rewrite Forall_forall in HF. apply HF; auto.
Qed.

Lemma final_good (l : list isoQ) lo li c :
  smas l = lo ++ li ++ c -> OD lo -> lo <> [] -> ID li ->
  (c = [0] /\ minsma == 0 \/ c = [] /\ ~ minsma == 0) -> Good (sort Qnum l).
Proof.
  intros Hl (A & B & C) Hne (D & E) Hc.
  pose proof mx_ge as [Hmx1 Hmx2].
  inversion D as [|? ? D1 D2]; subst.
  rewrite Forall_forall in B, E, D2.
  assert (Hcls : forall x, In x (lo ++ li ++ c) -> sma_class x /\
            (In x lo -> sma0 <= x) /\ (In x li -> mx < x /\ x < sma0) /\ (In x c -> x == 0 /\ minsma == 0)).
  { intros x Hx. split; [|split; [|split]].
    - apply in_app_or in Hx. destruct Hx as [Hx|Hx].
      + destruct (B _ Hx) as [H1 [H2|H2]]; [left; auto|].
        destruct (Qeq_dec x sma0); [left; auto|]. right; left. split; auto.
        destruct (Qlt_le_dec sma0 x); auto. exfalso. apply n. lra.
      + apply in_app_or in Hx. destruct Hx as [Hx|Hx].
        * right; right; left. split; [apply E|apply D2]; auto.
        * right; right; right. destruct Hc as [[-> Hc]|[-> Hc]]; simpl in Hx; [|tauto].
          destruct Hx as [<-|[]]. split; auto; reflexivity.
    - intros Hx'. apply B; auto.
    - intros Hx'. split; [apply E|apply D2]; auto.
    - intros Hx'. destruct Hc as [[-> Hc]|[-> Hc]]; simpl in Hx'; [|tauto].
      destruct Hx' as [<-|[]]. split; auto; reflexivity. }
  repeat split.
  - apply sort_SS. apply (SS_map (i_sma Qnum) (fun a b => ~ a == b)). fold (smas l). rewrite Hl.
    apply SS_app; [eapply SS_impl; [|exact A]; intros; lra| |].
    + apply SS_app; [eapply SS_impl; [|exact D1]; unfold gtQ; intros; lra| |].
      * destruct Hc as [[-> _]|[-> _]]; repeat constructor.
      * intros a b Ha Hb.
        destruct (Hcls a) as (_ & _ & Ha' & _); [apply in_or_app; right; apply in_or_app; auto|].
        destruct (Hcls b) as (_ & _ & _ & Hb'); [apply in_or_app; right; apply in_or_app; auto|].
        specialize (Ha' Ha). specialize (Hb' Hb). lra.
    + intros a b Ha Hb.
      destruct (Hcls a) as (_ & Ha' & _ & _); [apply in_or_app; auto|]. specialize (Ha' Ha).
      destruct (Hcls b) as (_ & _ & Hb1 & Hb2); [apply in_or_app; auto|].
      apply in_app_or in Hb. destruct Hb as [Hb|Hb]; [specialize (Hb1 Hb)|specialize (Hb2 Hb)]; lra.
  - destruct C as [C|C]; [contradiction|].
    destruct lo as [|a lo']; [contradiction|]. simpl in C. inversion C; subst a.
    destruct l as [|i l']; [discriminate|]. simpl in Hl. inversion Hl.
    exists i. split; auto. apply sort_In. simpl; auto.
  - intros [i [Hi H0]]. apply (proj1 (sort_In _ _)) in Hi.
    assert (Hx : In (i_sma Qnum i) (lo ++ li ++ c)) by (rewrite <- Hl; unfold smas; apply in_map; exact Hi).
    destruct (Hcls _ Hx) as (_ & H1 & H2 & H3).
    apply in_app_or in Hx. destruct Hx as [Hx|Hx]; [specialize (H1 Hx); lra|].
    apply in_app_or in Hx. destruct Hx as [Hx|Hx]; [specialize (H2 Hx); lra|].
    apply H3; auto.
  - intros Hmin. destruct Hc as [[-> _]|[_ Hc]]; [|contradiction].
    assert (Hx : In 0 (smas l)) by (rewrite Hl; apply in_or_app; right; apply in_or_app; right; simpl; auto).
    unfold smas in Hx. apply in_map_iff in Hx. destruct Hx as [i [Hi1 Hi2]].
    exists i. split; [apply sort_In; auto|rewrite Hi1; reflexivity].
  - intros i Hi. apply (proj1 (sort_In _ _)) in Hi.
    assert (Hx : In (i_sma Qnum i) (lo ++ li ++ c)) by (rewrite <- Hl; unfold smas; apply in_map; exact Hi).
    apply Hcls; auto.
Qed.

Lemma OI_init : OI [] sma0.
Proof.
  unfold OI; simpl. split; [|split].
  - constructor; constructor.
  - constructor; [|constructor]. split; [lra|left; reflexivity].
  - reflexivity.
Qed.
Lemma II_init sin : sin < sma0 -> II [] sin.
Proof.
  intros H. unfold II; simpl. split; [|constructor].
  constructor; [constructor; constructor|]. constructor; [exact H|constructor].
Qed.

Lemma fit_image_good fuel sma0arg gsma fix_all s l calls :
  match sma0arg with Some v => if truthy Qnum v then v else gsma | None => gsma end = sma0 ->
  stream_ok s ->
  fit_image Qnum lin step minsma maxsma maxrit true fuel sma0arg gsma fix_all s = (Ret Qnum l, calls) ->
  l = [] \/ Good l.
Proof.
  intros Ha Hs. unfold fit_image. destruct fix_all.
  { intros H; inversion H; auto. }
  rewrite Ha.
  pose proof (outward_inv fuel sma0 false true [] s [] Hs OI_init) as Ho.
  destruct (outward Qnum lin step maxsma maxrit fuel sma0 false true [] s []) as [l1 s1 calls1|r calls1].
  2:{ intros H; inversion H; subst. left. exact Ho. }
  destruct Ho as [HD Hs1].
  destruct l1 as [|first rest] eqn:El1; [intros H; inversion H|]. rewrite <- El1 in *.
  assert (Hfirst : i_sma Qnum first = sma0).
  { destruct HD as (_ & _ & [C|C]); subst l1; simpl in C; [discriminate|]. inversion C; auto. }
  destruct (reset_sma Qnum lin (i_sma Qnum first) step) as [sma_in istep] eqn:Er.
  rewrite Hfirst in Er. destruct (reset_sma_spec _ _ _ _ _ Hstep Er) as [Hin Hist].
  specialize (Hin Hsma0).
  assert (Hl1 : smas l1 = smas l1 ++ []) by (rewrite app_nil_r; reflexivity).
  pose proof (inward_inv istep (smas l1) Hist fuel sma_in l1 s1 calls1 [] Hl1 Hs1 (II_init _ Hin)) as Hi.
  destruct (inward Qnum lin minsma maxrit true fuel sma_in istep l1 s1 calls1) as [l2 s2 calls2|r calls2].
  2:{ intros H; inversion H; subst. left. exact Hi. }
  destruct Hi as [li [Hl2 HID]].
  assert (Hne : smas l1 <> []) by (subst l1; discriminate).
  destruct (eqb Qnum minsma (n0 Qnum)) eqn:Hmin; simpl in Hmin.
  - apply Qeq_bool_iff in Hmin.
    unfold fit_isophote. simpl.
    intros H; injection H as Hl Hc; subst l calls. right.
    eapply final_good with (lo := smas l1) (li := li) (c := [0]); eauto.
    rewrite smas_app, Hl2, <- app_assoc. reflexivity.
  - intros H; injection H as Hl Hc; subst l calls. right.
    eapply final_good with (lo := smas l1) (li := li) (c := []); eauto.
    + rewrite app_nil_r; auto.
    + right. split; auto. intros Hq. apply Qeq_bool_iff in Hq. simpl in Hq. congruence.
Qed.
End SchedQ.

(* ---- final statements about fit_image ------------------------------------ *)
Definition eff_sma0 (sma0arg : option Q) (gsma : Q) : Q :=
  match sma0arg with Some v => if truthy Qnum v then v else gsma | None => gsma end.

Lemma sma_schedule_classes_proof lin step minsma maxsma maxrit fuel sma0arg gsma fix_all s l calls :
  0 < step -> 0 < eff_sma0 sma0arg gsma -> stream_ok s ->
  fit_image Qnum lin step minsma maxsma maxrit true fuel sma0arg gsma fix_all s = (Ret Qnum l, calls) ->
  l = [] \/ Good minsma maxsma (eff_sma0 sma0arg gsma) l.
Proof.
  intros Hs Ha Hok H. exact (fit_image_good lin step minsma maxsma maxrit _ Hs Ha fuel sma0arg gsma fix_all s l calls eq_refl Hok H).
Qed.

Lemma sma_schedule_proof lin step minsma maxsma maxrit fuel sma0arg gsma fix_all s l calls :
  let a0 := eff_sma0 sma0arg gsma in
  0 < step -> 0 < a0 -> minsma <= a0 -> (forall m, maxsma = Some m -> a0 <= m) -> stream_ok s ->
  fit_image Qnum lin step minsma maxsma maxrit true fuel sma0arg gsma fix_all s = (Ret Qnum l, calls) ->
  l = [] \/
  (StronglySorted (fun a b => i_sma Qnum a < i_sma Qnum b) l /\
   (exists i, In i l /\ i_sma Qnum i = a0) /\
   ((exists i, In i l /\ i_sma Qnum i == 0) <-> minsma == 0) /\
   (forall i, In i l ->
      minsma <= i_sma Qnum i /\
      (forall m, maxsma = Some m -> i_sma Qnum i < m \/ i_sma Qnum i == a0) /\
      (i_sma Qnum i == 0 \/ 1 # 2 < i_sma Qnum i \/ a0 <= i_sma Qnum i))).
Proof.
  intros a0 Hs Ha Hmin Hmax Hok H. subst a0.
  destruct (sma_schedule_classes_proof _ _ _ _ _ _ _ _ _ _ _ _ Hs Ha Hok H) as [E|(A & B & C & D)]; auto.
  right. repeat split; auto; try apply C.
  - destruct (D i H0) as [Hc|[[Hc _]|[[Hc _]|[Hc1 Hc2]]]]; pose proof (mx_ge minsma); lra.
  - intros m Hm. specialize (Hmax m Hm).
    destruct (D i H0) as [Hc|[[_ Hc]|[[_ Hc]|[Hc1 Hc2]]]]; auto.
    + left. apply (Hc m Hm). unfold truthy. simpl. destruct (Qeq_bool m 0) eqn:E; auto.
      apply Qeq_bool_iff in E. lra.
    + left. lra.
    + left. lra.
  - destruct (D i H0) as [Hc|[[Hc _]|[[Hc _]|[Hc1 Hc2]]]]; pose proof (mx_ge minsma); auto; right; try (left; lra); right; lra.
Qed.

(* the snapshot's inward loop (top_test = false) fits below minsma: DESIGN.md section 6 item 24 *)
Lemma sma_lower_bound_refuted_unrepaired_proof :
  exists l calls,
    fit_image Qnum false (1 # 10) (19 # 2) (Some 11) None false 50 (Some 10) 10 false
              [(0%Z, true); (0%Z, true); (0%Z, true)] = (Ret Qnum l, calls) /\
    exists i, In i l /\ i_sma Qnum i < 19 # 2.
Proof.
  eexists. eexists. split; [vm_compute; reflexivity|].
  eexists. split; [left; reflexivity|]. vm_compute. reflexivity.
Qed.

(* ------------------------------------------------------------------ *)
(* the fuel is not a hidden cut: a run that ends (in anything but [Fuel]) *)
(* ends the same way with more fuel                                     *)
(* ------------------------------------------------------------------ *)
Section FuelMono.
Variable N : num.
Variables (lin : bool) (step minsma : N) (maxsma maxrit : option N) (top_test : bool).

Lemma outward_S f sma noiter first l s calls :
  outward N lin step maxsma maxrit (S f) sma noiter first l s calls =
  let calls := calls ++ [mkcall N sma noiter false first] in
  match fit_isophote N maxrit sma noiter (Z.of_nat (length calls)) l s with
  | None => PStop N (Starved N) calls
  | Some (i, l1, s1) =>
      match out_failure N maxsma i l1 noiter with
      | AEmpty _ => PStop N (Ret N []) calls
      | AErr _ => PStop N (IndexErr N) calls
      | ABreak _ l2 => PDone N l2 s1 calls
      | ACont _ l2 noiter' =>
          match last_opt N l2 with
          | None => PStop N (IndexErr N) calls
          | Some j =>
              let sma' := update_sma N lin (i_sma N j) step in
              match maxsma with
              | Some m => if truthy N m && leb N m sma' then PDone N l2 s1 calls
                          else outward N lin step maxsma maxrit f sma' noiter' false l2 s1 calls
              | None => outward N lin step maxsma maxrit f sma' noiter' false l2 s1 calls
              end
          end
      end
  end.
Proof. reflexivity. Qed.

Lemma outward_fuel_mono : forall f sma noiter first l s calls,
  (forall c, outward N lin step maxsma maxrit f sma noiter first l s calls <> PStop N (Fuel N) c) ->
  outward N lin step maxsma maxrit (S f) sma noiter first l s calls =
  outward N lin step maxsma maxrit f sma noiter first l s calls.
Proof.
  induction f as [|f IH]; intros sma noiter first l s calls H.
  - exfalso. apply (H calls). reflexivity.
  - rewrite (outward_S f sma noiter first l s calls) in H.
    rewrite (outward_S (S f) sma noiter first l s calls), (outward_S f sma noiter first l s calls).
    cbv zeta in *.
    destruct (fit_isophote N maxrit sma noiter _ l s) as [[[i l1] s1]|]; auto.
    destruct (out_failure N maxsma i l1 noiter); auto.
    destruct (last_opt N l0); auto.
    destruct maxsma as [m|].
    + destruct (truthy N m && leb N m (update_sma N lin (i_sma N i0) step)); auto.
    + auto.
Qed.

Lemma inward_S f sma istep l s calls :
  inward N lin minsma maxrit top_test (S f) sma istep l s calls =
  if top_test && negb (ltb N (pymax N minsma (n05 N)) sma) then PDone N l s calls else
  let calls := calls ++ [mkcall N sma false true false] in
  match fit_isophote N maxrit sma false (Z.of_nat (length calls)) l s with
  | None => PStop N (Starved N) calls
  | Some (i, l1, s1) =>
      match (if (i_code N i <? 0)%Z then fix_last N true l1 else Some l1) with
      | None => PStop N (IndexErr N) calls
      | Some l2 =>
          if (i_code N i =? 3)%Z then PDone N l2 s1 calls
          else match last_opt N l2 with
               | None => PStop N (IndexErr N) calls
               | Some j =>
                   let sma' := update_sma N lin (i_sma N j) istep in
                   if negb top_test && leb N sma' (pymax N minsma (n05 N)) then PDone N l2 s1 calls
                   else inward N lin minsma maxrit top_test f sma' istep l2 s1 calls
               end
      end
  end.
Proof. reflexivity. Qed.

Lemma inward_fuel_mono : forall f sma istep l s calls,
  (forall c, inward N lin minsma maxrit top_test f sma istep l s calls <> PStop N (Fuel N) c) ->
  inward N lin minsma maxrit top_test (S f) sma istep l s calls =
  inward N lin minsma maxrit top_test f sma istep l s calls.
Proof.
  induction f as [|f IH]; intros sma istep l s calls H.
  - exfalso. apply (H calls). reflexivity.
  - rewrite (inward_S f sma istep l s calls) in H.
    rewrite (inward_S (S f) sma istep l s calls), (inward_S f sma istep l s calls).
    cbv zeta in *.
    destruct (top_test && negb (ltb N (pymax N minsma (n05 N)) sma)); auto.
    destruct (fit_isophote N maxrit sma false _ l s) as [[[i l1] s1]|]; auto.
    destruct (if (i_code N i <? 0)%Z then fix_last N true l1 else Some l1); auto.
    destruct (i_code N i =? 3)%Z; auto.
    destruct (last_opt N l0); auto.
    destruct (negb top_test && leb N (update_sma N lin (i_sma N i0) istep) (pymax N minsma (n05 N))); auto.
Qed.

Lemma fit_image_fuel_mono f sma0 gsma fix_all s r calls :
  fit_image N lin step minsma maxsma maxrit top_test f sma0 gsma fix_all s = (r, calls) ->
  r <> Fuel N ->
  fit_image N lin step minsma maxsma maxrit top_test (S f) sma0 gsma fix_all s = (r, calls).
Proof.
  unfold fit_image. destruct fix_all; auto.
  set (sma := match sma0 with Some v => if truthy N v then v else gsma | None => gsma end).
  intros H Hr.
  assert (Ho : forall c, outward N lin step maxsma maxrit f sma false true [] s [] <> PStop N (Fuel N) c).
  { intros c E. rewrite E in H. inversion H; subst. apply Hr; reflexivity. }
  rewrite (outward_fuel_mono _ _ _ _ _ _ _ Ho).
  destruct (outward N lin step maxsma maxrit f sma false true [] s []) as [l s1 calls1|r1 calls1]; auto.
  destruct l as [|first rest]; auto.
  destruct (reset_sma N lin (i_sma N first) step) as [sma_in istep].
  assert (Hi : forall c, inward N lin minsma maxrit top_test f sma_in istep (first :: rest) s1 calls1 <> PStop N (Fuel N) c).
  { intros c E. rewrite E in H. inversion H; subst. apply Hr; reflexivity. }
  rewrite (inward_fuel_mono _ _ _ _ _ _ Hi). exact H.
Qed.

Lemma fit_image_fuel_independent f f' sma0 gsma fix_all s r calls : (f <= f')%nat ->
  fit_image N lin step minsma maxsma maxrit top_test f sma0 gsma fix_all s = (r, calls) ->
  r <> Fuel N ->
  fit_image N lin step minsma maxsma maxrit top_test f' sma0 gsma fix_all s = (r, calls).
Proof.
  induction 1; auto. intros H1 H2. apply fit_image_fuel_mono; auto.
Qed.
End FuelMono.

(* ================================================================== *)
(* (C) fitter                                                          *)
(* ================================================================== *)
(* ------------------------------------------------------------------ *)
(* (C) EllipseFitter.fit: the corrector index                          *)
(* ------------------------------------------------------------------ *)
Notation oltQ := (olt Qnum).

Lemma olt_irrefl a : oltQ a a = false.
Proof. destruct a as [x|]; simpl; auto. apply Qltb_false. lra. Qed.
(* best < v, v <= vk  ==>  best <= vk  (written with "not less") *)
Lemma olt_step1 best v vk : oltQ best v = true -> oltQ vk v = false -> oltQ vk best = false.
Proof.
  destruct best as [b|], v as [x|], vk as [k|]; simpl; auto; try discriminate.
  rewrite Qltb_iff, !Qltb_false. lra.
Qed.
(* v <= best, best <= vk  ==>  v <= vk *)
Lemma olt_step2 best v vk : oltQ best v = false -> oltQ vk best = false -> oltQ vk v = false.
Proof.
  destruct best as [b|], v as [x|], vk as [k|]; simpl; auto; try discriminate.
  rewrite !Qltb_false. lra.
Qed.

Lemma argmax_from_spec : forall l i best bi, (bi < i)%nat ->
  let k := argmax_from Qnum l i best bi in
  exists vk, ((k = bi /\ vk = best) \/ ((i <= k)%nat /\ nth_error l (k - i) = Some vk)) /\
             oltQ vk best = false /\ (forall v, In v l -> oltQ vk v = false) /\
             (* first maximum: everything before it is strictly smaller *)
             (forall j v, (i <= j)%nat -> (j < k)%nat -> nth_error l (j - i) = Some v -> oltQ v vk = true) /\
             ((k = bi) \/ (oltQ best vk = true)).
Proof.
  induction l as [|v r IH]; intros i best bi Hbi; simpl.
  - exists best. repeat split; auto using olt_irrefl.
    + intros v [].
    + intros j v Hj Hk. destruct (j - i)%nat; discriminate.
  - destruct (oltQ best v) eqn:E.
    + destruct (IH (S i) v i ltac:(lia)) as (vk & Hsel & Hge & Hmax & Hfirst & Hbest).
      exists vk. split; [|split; [|split; [|split]]].
      * right. destruct Hsel as [[Hk Hv]|[Hk Hn]].
        -- rewrite Hk, Hv, Nat.sub_diag. split; auto.
        -- split; [lia|]. replace (argmax_from Qnum r (S i) v i - i)%nat
             with (S (argmax_from Qnum r (S i) v i - S i)) by lia. exact Hn.
      * eapply olt_step1; eauto.
      * intros w [<-|Hw]; auto.
      * intros j w Hj Hk Hn. destruct (Nat.eq_dec j i) as [->|Hne].
        -- rewrite Nat.sub_diag in Hn. simpl in Hn. inversion Hn; subst w.
           destruct Hbest as [Hb|Hb]; [lia|exact Hb].
        -- apply (Hfirst j w); try lia. replace (j - i)%nat with (S (j - S i)) in Hn by lia. exact Hn.
      * right. destruct Hsel as [[Hk Hv]|[Hk Hn]].
        -- rewrite Hv. exact E.
        -- destruct Hbest as [Hb|Hb]; [lia|].
           (* best < v < vk *)
           destruct best as [b|], v as [x|], vk as [k|]; simpl in *; auto; try discriminate.
           rewrite Qltb_iff in *. lra.
    + destruct (IH (S i) best bi ltac:(lia)) as (vk & Hsel & Hge & Hmax & Hfirst & Hbest).
      exists vk. split; [|split; [|split; [|split]]].
      * destruct Hsel as [[Hk Hv]|[Hk Hn]]; [left; auto|right].
        split; [lia|]. replace (argmax_from Qnum r (S i) best bi - i)%nat
             with (S (argmax_from Qnum r (S i) best bi - S i)) by lia. exact Hn.
      * exact Hge.
      * intros w [<-|Hw]; auto. eapply olt_step2; eauto.
      * intros j w Hj Hk Hn. destruct (Nat.eq_dec j i) as [->|Hne].
        -- rewrite Nat.sub_diag in Hn. simpl in Hn. inversion Hn; subst w.
           destruct Hbest as [Hb|Hb].
           ++ (* k = bi: cannot be, since i <= j < k is needed... k = bi may be below i *)
              destruct Hsel as [[Hk' Hv]|[Hk' Hn']]; [|lia].
              (* no information relating bi and i: excluded by the caller's invariant *)
              exfalso. clear - Hk Hk' Hb Hj Hbi. lia.
           ++ destruct best as [b|], v as [x|], vk as [k|]; simpl in *; auto; try discriminate.
              rewrite Qltb_iff in *. rewrite Qltb_false in E. lra.
        -- apply (Hfirst j w); try lia. replace (j - i)%nat with (S (j - S i)) in Hn by lia. exact Hn.
      * exact Hbest.
Qed.

Lemma nth_error_map2 {B C D} (f : B -> C -> D) : forall a b j,
  nth_error (map2 f a b) j =
  match nth_error a j, nth_error b j with Some x, Some y => Some (f x y) | _, _ => None end.
Proof.
  induction a as [|x a IH]; intros [|y b] [|j]; simpl; auto.
  - destruct (nth_error a j); auto.
Qed.

Definition hvals (coeffs : list Q) (mask : list bool) : list (option Q) :=
  map2 (fun c (m : bool) => if m then None else Some (nabs Qnum c)) coeffs mask.

(* np.argmax(np.abs(np.ma.masked_array(coeffs[1:], mask=fix))) never returns a masked
   (= fixed) index as long as one harmonic is free, and returns the first largest free one *)
Lemma argmax_masked_spec coeffs mask :
  (exists j c, nth_error mask j = Some false /\ nth_error coeffs j = Some c) ->
  let k := argmax_masked Qnum coeffs mask in
  nth_error mask k = Some false /\
  exists c, nth_error coeffs k = Some c /\
    (forall j cj, nth_error mask j = Some false -> nth_error coeffs j = Some cj ->
                  nabs Qnum cj <= nabs Qnum c) /\
    (forall j cj, (j < k)%nat -> nth_error mask j = Some false -> nth_error coeffs j = Some cj ->
                  nabs Qnum cj < nabs Qnum c).
Proof.
  intros (j0 & c0 & Hm0 & Hc0). unfold argmax_masked. fold (hvals coeffs mask).
  assert (H0 : nth_error (hvals coeffs mask) j0 = Some (Some (nabs Qnum c0))).
  { unfold hvals. rewrite nth_error_map2, Hc0, Hm0. reflexivity. }
  destruct (hvals coeffs mask) as [|v0 r] eqn:Ev.
  { destruct j0; discriminate. }
  destruct (argmax_from_spec r 1 v0 0 ltac:(lia)) as (vk & Hsel & Hge & Hmax & Hfirst & Hbest).
  set (k := argmax_from Qnum r 1 v0 0) in *.
  assert (Hk : nth_error (v0 :: r) k = Some vk).
  { destruct Hsel as [[-> ->]|[Hk Hn]]; auto.
    replace k with (S (k - 1)) by lia. exact Hn. }
  assert (Hall : forall v, In v (v0 :: r) -> oltQ vk v = false).
  { intros v [<-|Hv]; auto. }
  assert (Hvk : exists b, vk = Some b).
  { destruct vk as [b|]; eauto. exfalso.
    specialize (Hall _ (nth_error_In _ _ H0)). simpl in Hall. discriminate. }
  destruct Hvk as [b ->].
  rewrite <- Ev in Hk. unfold hvals in Hk. rewrite nth_error_map2 in Hk.
  destruct (nth_error coeffs k) as [c|] eqn:Ec; [|discriminate].
  destruct (nth_error mask k) as [m|] eqn:Em; [|discriminate].
  destruct m; [discriminate|]. inversion Hk; subst b. split; auto.
  exists c. split; auto. split.
  - intros j cj Hmj Hcj.
    assert (Hin : In (Some (nabs Qnum cj)) (v0 :: r)).
    { rewrite <- Ev. apply (nth_error_In _ j). unfold hvals. rewrite nth_error_map2, Hcj, Hmj. reflexivity. }
    specialize (Hall _ Hin). simpl in Hall. apply Qltb_false in Hall. exact Hall.
  - intros j cj Hjk Hmj Hcj.
    assert (Hn : nth_error (v0 :: r) j = Some (Some (nabs Qnum cj))).
    { rewrite <- Ev. unfold hvals. rewrite nth_error_map2, Hcj, Hmj. reflexivity. }
    destruct j as [|j].
    + simpl in Hn. inversion Hn; subst v0.
      destruct Hsel as [[Hk0 _]|[Hk1 Hn1]]; [lia|].
      (* k >= 1: the running best was replaced at least once, so v0 < vk *)
      destruct Hbest as [Hb|Hb]; [lia|]. simpl in Hb. apply Qltb_iff in Hb. exact Hb.
    + simpl in Hn. specialize (Hfirst (S j) (Some (nabs Qnum cj)) ltac:(lia) Hjk).
      replace (S j - 1)%nat with j in Hfirst by lia. specialize (Hfirst Hn).
      simpl in Hfirst. apply Qltb_iff in Hfirst. exact Hfirst.
Qed.

(* ------------------------------------------------------------------ *)
(* fixed parameters through the whole iteration                        *)
(* ------------------------------------------------------------------ *)
Section FitQ.
Variables (max_eps min_eps pi2 : Q) (fc fpa feps : bool).
Hypothesis Hfree : fc && fpa && feps = false.
Notation geomQ := (geom Qnum).
Notation mask := (fix_mask fc fpa feps).

Definition keeps (g0 g : geomQ) :=
  (fc = true -> g_x0 Qnum g = g_x0 Qnum g0 /\ g_y0 Qnum g = g_y0 Qnum g0) /\
  (fpa = true -> g_pa Qnum g = g_pa Qnum g0) /\
  (feps = true -> g_eps Qnum g = g_eps Qnum g0).

Lemma keeps_refl g : keeps g g.
Proof. split; [|split]; auto. Qed.
Lemma keeps_trans g0 g1 g2 : keeps g0 g1 -> keeps g1 g2 -> keeps g0 g2.
Proof.
  intros (A & B & C) (A' & B' & C'). split; [|split]; intros HH.
  - destruct (A HH), (A' HH); split; congruence.
  - rewrite (B' HH); auto.
  - rewrite (C' HH); auto.
Qed.

Lemma free_exists (coeffs : list Q) : length coeffs = 4%nat ->
  exists j c, nth_error mask j = Some false /\ nth_error coeffs j = Some c.
Proof.
  intros Hl. destruct coeffs as [|a [|b [|c [|d [|]]]]]; try discriminate.
  unfold fix_mask. destruct fc; [destruct fpa; [destruct feps; [discriminate|]|]|].
  - exists 3%nat, d. auto.
  - exists 2%nat, c. auto.
  - exists 0%nat, a. auto.
Qed.

(* fitter.py:186-227: the corrector applied never touches a fixed parameter *)
Lemma correct_keeps g o : length (o_coeffs Qnum o) = 4%nat ->
  keeps g (correct Qnum max_eps (argmax_masked Qnum (o_coeffs Qnum o) mask) g o).
Proof.
  intros Hl. destruct (argmax_masked_spec _ _ (free_exists _ Hl)) as [Hm _].
  set (k := argmax_masked Qnum (o_coeffs Qnum o) mask) in *.
  unfold fix_mask in Hm.
  destruct k as [|[|[|[|k]]]]; simpl in Hm; unfold keeps, correct; simpl;
    try (inversion Hm; subst); repeat split; auto; try discriminate.
  all: destruct k; discriminate.
Qed.

Lemma normalise_xy fp g :
  g_x0 Qnum (normalise Qnum max_eps min_eps pi2 fp g) = g_x0 Qnum g /\
  g_y0 Qnum (normalise Qnum max_eps min_eps pi2 fp g) = g_y0 Qnum g.
Proof.
  unfold normalise. destruct (ltb Qnum (g_eps Qnum g) (n0 Qnum)); [destruct fp|]; simpl;
  match goal with |- context [if ?b then _ else _] => destruct b end; simpl; auto.
Qed.
(* fixes/C20-4: with the position angle fixed the normalisation never touches it *)
Lemma normalise_pa_fixed g :
  g_pa Qnum (normalise Qnum max_eps min_eps pi2 true g) = g_pa Qnum g.
Proof.
  unfold normalise. destruct (ltb Qnum (g_eps Qnum g) (n0 Qnum)); simpl;
  match goal with |- context [if ?b then _ else _] => destruct b end; simpl; auto.
Qed.
Lemma normalise_eps fp g : 0 < g_eps Qnum g ->
  g_eps Qnum (normalise Qnum max_eps min_eps pi2 fp g) = g_eps Qnum g.
Proof.
  intros H. unfold normalise. simpl. destruct (Qltb (g_eps Qnum g) 0) eqn:E.
  - apply Qltb_iff in E. lra.
  - destruct (Qeq_bool (g_eps Qnum g) 0) eqn:E0; [|reflexivity].
    apply Qeq_bool_iff in E0. lra.
Qed.

Lemma fit_loop_trace_incl inw minit : forall os i g lex minamp tr,
  incl tr (snd (fit_loop Qnum max_eps min_eps pi2 mask inw minit i os g lex minamp tr)).
Proof.
  induction os as [|o os IH]; intros i g lex minamp tr; simpl.
  - apply incl_refl.
  - destruct (o_empty Qnum o || o_fitfail Qnum o); simpl; [apply incl_refl|].
    destruct (o_converged Qnum o && (minit - 1 <=? i)%nat); simpl; [apply incl_refl|].
    destruct (o_fewpts Qnum o); simpl; [apply incl_refl|].
    destruct (o_gradzero Qnum o); simpl; [apply incl_refl|].
    destruct (check_conditions _ _ _ _ _ _) as [p lx].
    destruct p; simpl.
    + eapply incl_tran; [|apply IH]. apply incl_appl, incl_refl.
    + apply incl_appl, incl_refl.
Qed.

Lemma fit_loop_keeps g0 inw minit : forall os i g lex minamp tr,
  Forall (fun o => length (o_coeffs Qnum o) = 4%nat) os ->
  keeps g0 g -> (forall a gm, minamp = Some (a, gm) -> keeps g0 gm) ->
  (feps = true -> 0 < g_eps Qnum g0) ->
  keeps g0 (snd (fst (fit_loop Qnum max_eps min_eps pi2 mask inw minit i os g lex minamp tr))).
Proof.
  induction os as [|o os IH]; intros i g lex minamp tr Hlen Hg Hmin Heps; cbn [fit_loop].
  - destruct minamp as [[a gm]|]; cbn [fst snd]; eauto.
  - inversion Hlen as [|? ? Hl4 Hlen']; subst.
    destruct (o_empty Qnum o || o_fitfail Qnum o); cbn [fst snd]; auto.
    set (k := argmax_masked Qnum (o_coeffs Qnum o) mask).
    set (amp := nabs Qnum (nth k (o_coeffs Qnum o) (n0 Qnum))).
    set (minamp' := match minamp with
                    | Some (a, gm) => if ltb Qnum amp a then Some (amp, g) else Some (a, gm)
                    | None => Some (amp, g) end).
    assert (Hmin' : forall a gm, minamp' = Some (a, gm) -> keeps g0 gm).
    { intros a gm. unfold minamp'. destruct minamp as [[a0 gm0]|].
      - destruct (ltb Qnum amp a0); intros E; inversion E; subst; eauto.
      - intros E; inversion E; subst; auto. }
    clearbody minamp'.
    destruct (o_converged Qnum o && (minit - 1 <=? i)%nat); cbn [fst snd]; auto.
    destruct (o_fewpts Qnum o); cbn [fst snd].
    { destruct minamp' as [[a gm]|]; eauto. }
    destruct (o_gradzero Qnum o); cbn [fst snd]; auto.
    set (gc := correct Qnum max_eps k g o).
    assert (Hgc : keeps g0 gc) by (eapply keeps_trans; [exact Hg|apply correct_keeps; auto]).
    clearbody gc.
    destruct (check_conditions Qnum max_eps gc o inw lex) as [p lx].
    change (nth 2 mask false) with fpa.
    assert (Hn : keeps g0 (normalise Qnum max_eps min_eps pi2 fpa gc)).
    { destruct Hgc as (A & B & C). destruct (normalise_xy fpa gc) as [Hx Hy].
      split; [|split]; intros HH.
      - rewrite Hx, Hy. apply A; auto.
      - rewrite HH. rewrite normalise_pa_fixed. apply B; auto.
      - rewrite normalise_eps; auto. rewrite (C HH). auto. }
    destruct p; cbn [fst snd]; auto.
Qed.

(* every exit of the fitter that is not valid has stop code 3 (premise of the schedule theorem) *)
Lemma fit_loop_invalid_code3 inw minit : forall os i g lex minamp tr,
  let r := fst (fit_loop Qnum max_eps min_eps pi2 mask inw minit i os g lex minamp tr) in
  snd (fst r) = false -> fst (fst r) = 3%Z.
Proof.
  induction os as [|o os IH]; intros i g lex minamp tr; simpl; [discriminate|].
  destruct (o_empty Qnum o || o_fitfail Qnum o); simpl; auto.
  destruct (o_converged Qnum o && (minit - 1 <=? i)%nat); simpl; [discriminate|].
  destruct (o_fewpts Qnum o); simpl; [discriminate|].
  destruct (o_gradzero Qnum o); simpl; [discriminate|].
  destruct (check_conditions _ _ _ _ _ _) as [p lx].
  destruct p; simpl; [apply IH|discriminate].
Qed.
End FitQ.

(* ---- final statements about fit --------------------------------------------- *)
Lemma fixed_params_kept_proof max_eps min_eps pi2 fc fpa feps inw minit os g :
  fc && fpa && feps = false ->
  Forall (fun o => length (o_coeffs Qnum o) = 4%nat) os ->
  (feps = true -> 0 < g_eps Qnum g) ->
  keeps fc fpa feps g (snd (fst (fit Qnum max_eps min_eps pi2 fc fpa feps inw minit os g))).
Proof.
  intros Hfree Hlen Heps. unfold fit. apply fit_loop_keeps; auto.
  - apply keeps_refl.
  - intros a gm E; discriminate.
Qed.

Lemma fit_invalid_only_code3_proof max_eps min_eps pi2 fc fpa feps inw minit os g :
  let r := fst (fit Qnum max_eps min_eps pi2 fc fpa feps inw minit os g) in
  snd (fst r) = false -> fst (fst r) = 3%Z.
Proof. unfold fit. apply fit_loop_invalid_code3. Qed.

Lemma fixed_pa_refuted_unrepaired_proof :
  exists g : geom Qnum, g_pa Qnum (normalise Qnum (95 # 100) (5 # 100) (157 # 100) false g) <> g_pa Qnum g.
Proof.
  exists (mkgeom Qnum 10 10 1 (- (1 # 10))). vm_compute. intros E. inversion E.
Qed.
