(* C02 — model of aperture photometry:
     photutils/aperture/mask.py   ApertureMask._get_overlap_cutouts / get_values / multiply /
                                  cutout / to_image
     photutils/aperture/core.py   PixelAperture.do_photometry / area_overlap
     photutils/aperture/bounding_box.py  BoundingBox.get_overlap_slices
     photutils/aperture/photometry.py    aperture_photometry (table assembly, NDData unpacking)

   STABLE INTERFACE (imported by C16 / C19 — do not rename):

     val  := option Z               a pixel value / a result; None = non-finite (NaN, +-inf)
     img A := list (list A)         row-major image, [nth x (nth y a [])] is pixel (y, x)
     bbox := mkbox ixmin ixmax iymin iymax      (half-open integer box, as BoundingBox)
     phot := NoOverlap | ShapeError | Phot (s : val) (v : option val)

     photometry_one (b : bbox) (W : img Z) (data : img val) (err : option (img val))
                    (mask : option (img bool)) : phot
         one iteration of the loop of PixelAperture.do_photometry for the ApertureMask (W, b):
         [Phot s v]: s = aperture sum, v = variance sum (the RADICAND of aperture_sum_err;
         [None] when no error array is given); [NoOverlap]: the code appends NaN, NaN;
         [ShapeError]: the code raises ValueError (mask / error shape differs from data).
     phot_sum, phot_var : phot -> val       observable values (NoOverlap gives None = NaN)
     area_overlap_one (b : bbox) (W : img Z) (ny nx : Z) (mask : option (img bool)) : option Z
         one iteration of the loop of PixelAperture.area_overlap as REPAIRED by
         fixes/C02-1-area-overlap-positive-weights.patch (sum of the weights over pixel_mask);
         None = NaN (no overlap).  [area_overlap_one_v0] is the code before the repair; the two
         agree whenever no weight is negative (theorem area_overlap_unrepaired_ok_when_nonneg).
     get_values, cutout, multiply, to_image : the ApertureMask methods of the same name
         (multiply takes the fill value twice: in data units and in data*weight units).
   The specification vocabulary (pixel_set, weight_at, data_at, term, vterm, masked, in_box,
   no_common_pixel, rect, get) is defined in C02_Proofs.v; the theorems to cite are in
   C02_Properties.v (photometry_is_set_sum, area_overlap_is_weight_sum, no_overlap_iff_none,
   get_values_is_set_values, photometry_shift_invariant, photometry_transpose_invariant, ...).
     do_photometry, aperture_photometry, aperture_photometry_nd : loop / table / NDData form.

   Values are SCALED INTEGERS: the harness multiplies data by 2^k, weights by subpixels^2
   (methods 'center' and power-of-two 'subpixel' have dyadic weights), so sums are integers
   scaled by 2^k * subpixels^2 and variance sums by 4^k * subpixels^2.  W and its box are
   taken from the implementation's aperture.to_mask(method, subpixels), so this model does not
   depend on the geometry kernels (C01).

   This file is self-contained: it re-defines the small overlap-slice function
   ([overlap_slices] = BoundingBox.get_overlap_slices) instead of importing C01's files. *)
From Coq Require Import List ZArith Bool Lia.
From PV Require Import lib.Cases.
Import ListNotations.
Open Scope Z_scope.

Definition img (A : Type) := list (list A).
Definition val := option Z.

Record bbox := mkbox { ixmin : Z; ixmax : Z; iymin : Z; iymax : Z }.
Definition bh (b : bbox) : Z := iymax b - iymin b.      (* BoundingBox.shape[0] *)
Definition bw (b : bbox) : Z := ixmax b - ixmin b.      (* BoundingBox.shape[1] *)

Definition zslice := (Z * Z)%type.                  (* slice(start, stop) *)
Definition slices2 := (zslice * zslice)%type.       (* (y slice, x slice) *)

(* BoundingBox.get_overlap_slices(shape = (ny, nx)): (slices_large, slices_small) or None *)
Definition overlap_slices (b : bbox) (ny nx : Z) : option (slices2 * slices2) :=
  if (ixmin b >=? nx) || (iymin b >=? ny) || (ixmax b <=? 0) || (iymax b <=? 0)
     || (ny <=? 0) || (nx <=? 0)     (* zero-size image: repo fix 90cea4c *)
  then None
  else Some (((Z.max (iymin b) 0, Z.min (iymax b) ny),
              (Z.max (ixmin b) 0, Z.min (ixmax b) nx)),
             ((Z.max (- iymin b) 0, Z.min (iymax b - iymin b) (ny - iymin b)),
              (Z.max (- ixmin b) 0, Z.min (ixmax b - ixmin b) (nx - ixmin b)))).

(* numpy basic slicing l[start:stop] for 0 <= start (all slices produced above are >= 0,
   lemma [overlap_slices_nonneg]); stop beyond the end is clipped, stop <= start is empty *)
Definition slice {A} (s : zslice) (l : list A) : list A :=
  firstn (Z.to_nat (snd s - fst s)) (skipn (Z.to_nat (fst s)) l).
Definition crop {A} (s : slices2) (a : img A) : img A :=
  map (slice (snd s)) (slice (fst s) a).

Definition map2 {A B C} (f : A -> B -> C) (l : list A) (m : list B) : list C :=
  map (fun p => f (fst p) (snd p)) (combine l m).
Definition map2d {A B C} (f : A -> B -> C) (a : img A) (b : img B) : img C :=
  map2 (map2 f) a b.

(* a.shape of a (rectangular) 2-D array *)
Definition shape {A} (a : img A) : Z * Z :=
  (Z.of_nat (length a), Z.of_nat (length (hd [] a))).
Definition shape_eqb (s t : Z * Z) : bool := (fst s =? fst t) && (snd s =? snd t).

(* float arithmetic on values: any non-finite operand gives a non-finite result *)
Definition vmulw (d : val) (w : Z) : val :=
  match d with Some z => Some (z * w) | None => None end.
Definition vsq (e : val) : val :=
  match e with Some z => Some (z * z) | None => None end.
Definition oadd (a b : val) : val :=
  match a, b with Some x, Some y => Some (x + y) | _, _ => None end.
Definition osum (l : list val) : val := fold_right oadd (Some 0) l.
Definition zsum (l : list Z) : Z := fold_right Z.add 0 l.

(* boolean-mask indexing a[m] of a 2-D array: selected elements in raster order *)
Definition select_row {A} (vs : list A) (ms : list bool) : list A :=
  map fst (filter snd (combine vs ms)).
Definition select {A} (a : img A) (m : img bool) : list A :=
  concat (map2 select_row a m).

(* ApertureMask._get_overlap_cutouts(shape, mask):
   (slc_large, aper_weights, pixel_mask) | None (no overlap) ; mask-shape error separately *)
Definition get_overlap_cutouts (b : bbox) (W : img Z) (ny nx : Z) (mask : option (img bool))
  : option (slices2 * img Z * img bool) :=
  match overlap_slices b ny nx with
  | None => None
  | Some (large, small) =>
      let aw := crop small W in
      let pm := map (map (fun w => 0 <? w)) aw in              (* aper_weights > 0 *)
      let pm := match mask with
                | None => pm
                | Some m => map2d andb pm (map (map negb) (crop large m))   (* &= ~mask[slc_large] *)
                end in
      Some (large, aw, pm)
  end.

Definition mask_shape_ok {A} (data : img A) (mask : option (img bool)) : bool :=
  match mask with None => true | Some m => shape_eqb (shape m) (shape data) end.

(* ApertureMask.get_values(data, mask) *)
Definition get_values (b : bbox) (W : img Z) (data : img val) (mask : option (img bool)) : list val :=
  let '(ny, nx) := shape data in
  match get_overlap_cutouts b W ny nx mask with
  | None => []
  | Some (large, aw, pm) => select (map2d vmulw (crop large data) aw) pm
  end.

Inductive phot := NoOverlap | ShapeError | Phot (s : val) (v : option val).

(* body of the loop of PixelAperture.do_photometry for one ApertureMask *)
Definition photometry_one (b : bbox) (W : img Z) (data : img val) (err : option (img val))
           (mask : option (img bool)) : phot :=
  let '(ny, nx) := shape data in
  if negb (match err with None => true | Some e => shape_eqb (shape e) (shape data) end) then ShapeError
  else if negb (mask_shape_ok data mask) then ShapeError
  else
  match get_overlap_cutouts b W ny nx mask with
  | None => NoOverlap
  | Some (large, aw, pm) =>
      let values := select (map2d vmulw (crop large data) aw) pm in
      Phot (osum values)
           (match err with
            | None => None
            | Some e => Some (osum (select (map2d vmulw (map (map vsq) (crop large e)) aw) pm))
            end)
  end.

Definition phot_sum (p : phot) : val := match p with Phot s _ => s | _ => None end.
Definition phot_var (p : phot) : val := match p with Phot _ (Some v) => v | _ => None end.

(* the loop of do_photometry: aperture_sums.append / aperture_sum_errs.append;
   None = ValueError *)
Definition do_photometry (masks : list (bbox * img Z)) (data : img val) (err : option (img val))
           (mask : option (img bool)) : option (list val * list val) :=
  fold_left (fun acc bw =>
               match acc with
               | None => None
               | Some (sums, errs) =>
                   match photometry_one (fst bw) (snd bw) data err mask with
                   | ShapeError => None
                   | NoOverlap => Some (sums ++ [None], errs ++ [None])
                   | Phot s v => Some (sums ++ [s], match v with Some v => errs ++ [v] | None => errs end)
                   end
               end) masks
            (if negb (match err with None => true | Some e => shape_eqb (shape e) (shape data) end)
             then None else Some ([], [])).

(* body of the loop of PixelAperture.area_overlap; None = NaN.
   REPAIRED code (fixes/C02-1-area-overlap-positive-weights.patch): the weights are summed over
   pixel_mask, i.e. over the same pixels as do_photometry. *)
Definition area_overlap_one (b : bbox) (W : img Z) (ny nx : Z) (mask : option (img bool)) : option Z :=
  match get_overlap_cutouts b W ny nx mask with
  | None => None
  | Some (large, aw, pm) => Some (zsum (select aw pm))
  end.

(* the code before the repair: all weights of the overlap are summed after zeroing the masked
   ones, so a (slightly) negative annulus weight is included although do_photometry drops it *)
Definition area_overlap_one_v0 (b : bbox) (W : img Z) (ny nx : Z) (mask : option (img bool)) : option Z :=
  match overlap_slices b ny nx with
  | None => None
  | Some (large, small) =>
      let aw := crop small W in
      let aw := match mask with
                | None => aw
                | Some m => map2d (fun w (mk : bool) => if mk then 0 else w) aw (crop large m)
                end in
      Some (zsum (concat aw))
  end.

(* ---------- the other ApertureMask methods ---------- *)
Definition full {A} (h w : Z) (v : A) : img A := repeat (repeat v (Z.to_nat w)) (Z.to_nat h).

(* dst[start:stop] = src (lengths agree) *)
Definition set_slice {A} (s : zslice) (src dst : list A) : list A :=
  firstn (Z.to_nat (fst s)) dst ++ src ++ skipn (Z.to_nat (snd s)) dst.
(* dst[sy, sx] = src *)
Definition paste {A} (s : slices2) (src dst : img A) : img A :=
  set_slice (fst s) (map2 (set_slice (snd s)) src (slice (fst s) dst)) dst.

Definition to_image (b : bbox) (W : img Z) (ny nx : Z) : option (img Z) :=
  match overlap_slices b ny nx with
  | None => None
  | Some (large, small) => Some (paste large (crop small W) (full ny nx 0))
  end.

Definition cutout (b : bbox) (W : img Z) (data : img val) (fill : val) : option (img val) :=
  let '(ny, nx) := shape data in
  match overlap_slices b ny nx with
  | None => None
  | Some (large, small) =>
      let cshape := (snd (fst small) - fst (fst small), snd (snd small) - fst (snd small)) in
      if shape_eqb cshape (shape W) then Some (crop large data)
      else Some (paste small (crop large data) (full (fst (shape W)) (snd (shape W)) fill))
  end.

(* [fill] is the fill value in data units, [fillm] the same value in units of data * weight
   (the two coincide when the weight scale is 1) *)
Definition multiply (b : bbox) (W : img Z) (data : img val) (fill fillm : val) : option (img val) :=
  match cutout b W data fill with
  | None => None
  | Some c => Some (map2d (fun cv w => if w =? 0 then fillm else vmulw cv w) c W)
  end.

(* ---------- aperture_photometry: table assembly ---------- *)
(* an aperture object as seen by photometry: np.atleast_2d(positions) (scaled integers) and
   the list of its ApertureMasks *)
Record aperture := mkaper { a_pos : list (Z * Z); a_masks : list (bbox * img Z) }.

Definition pos_eqb (p q : list (Z * Z)) : bool :=
  list_eqb (fun a b => (fst a =? fst b) && (snd a =? snd b)) p q.

(* columns: (index suffix | None for a single aperture, aperture_sum, variance of aperture_sum_err) *)
Record table := mktable {
  t_id : list Z; t_x : list Z; t_y : list Z;
  t_cols : list (option Z * list val * option (list val)) }.

Fixpoint photometry_cols (i : Z) (single : bool) (apers : list aperture) (data : img val)
         (err : option (img val)) (mask : option (img bool))
  : option (list (option Z * list val * option (list val))) :=
  match apers with
  | [] => Some []
  | a :: rest =>
      match do_photometry (a_masks a) data err mask with
      | None => None
      | Some (sums, errs) =>
          match photometry_cols (i + 1) single rest data err mask with
          | None => None
          | Some cols =>
              Some ((if single then None else Some i, sums,
                     match err with None => None | Some _ => Some errs end) :: cols)
          end
      end
  end.

(* None = an exception (ValueError / IndexError) *)
Definition aperture_photometry (data : img val) (apers : list aperture) (single : bool)
           (err : option (img val)) (mask : option (img bool)) : option table :=
  match apers with
  | [] => None
  | a0 :: rest =>
      if negb (forallb (fun a => pos_eqb (a_pos a) (a_pos a0)) rest) then None
      else
        match photometry_cols 0 single apers data err mask with
        | None => None
        | Some cols =>
            Some (mktable (map (fun i => Z.of_nat i + 1) (seq 0 (length (a_pos a0))))
                          (map fst (a_pos a0)) (map snd (a_pos a0)) cols)
        end
  end.

(* NDData input: mask and (StdDevUncertainty only) error come from the object; the [error]
   keyword survives when the object has no StdDevUncertainty (as the code does) *)
Record nddata := mknd { nd_data : img val; nd_unc : option (bool * img val); nd_mask : option (img bool) }.
Definition aperture_photometry_nd (nd : nddata) (apers : list aperture) (single : bool)
           (kw_err : option (img val)) (kw_mask : option (img bool)) : option table :=
  let mask := nd_mask nd in
  let err := match nd_unc nd with Some (true, e) => Some e | _ => kw_err end in
  aperture_photometry (nd_data nd) apers single err mask.

(* ---------- correspondence ---------- *)
Definition val_eqb := opt_eqb Z.eqb.
Definition vlist_eqb := list_eqb val_eqb.
Definition vimg_eqb := list_eqb vlist_eqb.

(* implementation's aperture_sum_err e = E / 2^t (E = 0 or 2^52 <= E < 2^53) against the
   model's variance V / D: e must be the correctly rounded square root *)
Definition sqrt_ok (e : option (Z * Z)) (v : val) (D : Z) : bool :=
  match e, v with
  | None, None => true
  | Some (E, t), Some V =>
      if E =? 0 then V =? 0
      else ((2 * E - 1) * (2 * E - 1) * D <=? 4 * 4 ^ t * V) && (4 * 4 ^ t * V <=? (2 * E + 1) * (2 * E + 1) * D)
  | _, _ => false
  end.

Fixpoint forall2b {A B} (f : A -> B -> bool) (a : list A) (b : list B) : bool :=
  match a, b with
  | [], [] => true
  | x :: a', y :: b' => f x y && forall2b f a' b'
  | _, _ => false
  end.

Definition exp_col := (option Z * list val * option (list (option (Z * Z))))%type.
Definition exp_table := (list Z * list Z * list Z * list exp_col)%type.

Definition col_ok (D : Z) (c : option Z * list val * option (list val)) (e : exp_col) : bool :=
  let '(k, sums, vars) := c in let '(k', sums', errs') := e in
  opt_eqb Z.eqb k k' && vlist_eqb sums sums' &&
  match vars, errs' with
  | None, None => true
  | Some vs, Some es => forall2b (fun v e => sqrt_ok e v D) vs es
  | _, _ => false
  end.

Definition table_ok (D : Z) (t : option table) (e : option exp_table) : bool :=
  match t, e with
  | None, None => true
  | Some t, Some (ids, xs, ys, cols) =>
      zlist_eqb (t_id t) ids && zlist_eqb (t_x t) xs && zlist_eqb (t_y t) ys &&
      forall2b (col_ok D) (t_cols t) cols
  | _, _ => false
  end.

(* ApertureMask methods of one mask: to_image, cutout, multiply, get_values *)
Definition exp_mask := (option (img Z) * option (img val) * option (img val) * list val)%type.
Definition mask_ok (WS : Z) (data : img val) (mask : option (img bool)) (fill : val)
           (bw : bbox * img Z) (e : exp_mask) : bool :=
  let '(b, W) := bw in let '(ti, cu, mu, gv) := e in
  let '(ny, nx) := shape data in
  opt_eqb zimg_eqb (to_image b W ny nx) ti && opt_eqb vimg_eqb (cutout b W data fill) cu &&
  opt_eqb vimg_eqb (multiply b W data fill (vmulw fill WS)) mu && vlist_eqb (get_values b W data mask) gv.

(* (D = variance scale, WS = weight scale, data, err kw, mask kw, NDData form (uncertainty, mask), single?, apertures,
    fill, expected table, expected area_overlap per aperture, expected mask methods of aperture 0) *)
Definition case :=
  (Z * Z * img val * option (img val) * option (img bool) *
   option (option (bool * img val) * option (img bool)) * bool * list aperture * val *
   option exp_table * list (list (option Z)) * list exp_mask)%type.

Definition model_table (c : case) : option table :=
  let '(D, WS, data, err, mask, nd, single, apers, fill, etab, eareas, emasks) := c in
  match nd with
  | None => aperture_photometry data apers single err mask
  | Some (unc, ndmask) => aperture_photometry_nd (mknd data unc ndmask) apers single err mask
  end.

(* the mask / error actually in force (for area_overlap and the mask methods, which the harness
   calls with the effective mask) *)
Definition eff_mask (c : case) : option (img bool) :=
  let '(D, WS, data, err, mask, nd, single, apers, fill, etab, eareas, emasks) := c in
  match nd with None => mask | Some (_, ndmask) => ndmask end.

Definition model_areas (c : case) : list (list (option Z)) :=
  let '(D, WS, data, err, mask, nd, single, apers, fill, etab, eareas, emasks) := c in
  let '(ny, nx) := shape data in
  map (fun a => map (fun bw => area_overlap_one (fst bw) (snd bw) ny nx (eff_mask c)) (a_masks a)) apers.

(* expected table = None (the implementation raised): the model must refuse the input too and
   nothing else is compared *)
Definition check_case (c : case) : bool :=
  let '(D, WS, data, err, mask, nd, single, apers, fill, etab, eareas, emasks) := c in
  match etab with
  | None => match model_table c with None => true | Some _ => false end
  | Some _ =>
      table_ok D (model_table c) etab &&
      list_eqb (list_eqb (opt_eqb Z.eqb)) (model_areas c) eareas &&
      match apers with
      | [] => true
      | a :: _ => forall2b (mask_ok WS data (eff_mask c) fill) (firstn (length emasks) (a_masks a)) emasks
      end
  end.

Definition model_out (c : case) := (model_table c, model_areas c).
