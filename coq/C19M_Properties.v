(* C19M -- aperture weights of concentric circles are monotone in the radius; consequently the
   monotone-weights hypothesis of C19_Properties.nonneg_data_monotone_cog_partial is discharged for
   the 'center' and 'subpixel' methods (and the corresponding fact is proved for 'exact' over R).
   Property theorems only; each is closed by [exact] of a lemma of C19M_Proofs / C19M_RProofs.

   Vocabulary.  C01_Model / C01_Proofs: [inside (Circle r) x y] is the strict test x*x + y*y < r*r
   of the kernel's inner loop, rational coordinates; [subpix_count] the number of sub-pixel centres
   of a pixel rectangle inside the shape, [single_subpixel] the kernel loops as written, [cell] the
   grid driver with its fast paths, [mask_counts sh b px py s] the to_mask array over box [b] in units
   of 1/s^2, [pixel_count sh px py s Y X] the number of sub-pixel centres of IMAGE pixel (Y, X) inside
   the shape centred on (px, py).  Here: [circ_box px py r] = CircularAperture.bbox
   (from_float of centre -+ r); [mask_at sh b px py s Y X] = the mask array seen from image pixel
   (Y, X): its entry if the box covers the pixel, 0 otherwise (what to_image writes);
   [to_image b m ny nx] = ApertureMask.to_image through get_overlap_slices, flattened;
   [raster ny nx f] = the flattened image p = y*nx + x |-> f y x;
   [circle_aper ny nx px py s r] = what ProfileBase builds for one radius, in C19_Model's terms:
   AZero if r <= 0, AOff if the box misses the frame, else AW (s^2 * to_mask(...).to_image(shape)).
   s = 1 is method 'center' (C01_Properties.center_is_subpixel_one).
   C01R_Model: [rect_disc_area] = area of rectangle /\ disc, [circular_overlap_single_exact] the exact
   kernel (C01R_Properties.single_exact_is_area).

   A1 and A3 are over Z / Q / nat and print "Closed under the global context".  A2 is over the Coq
   reals and prints the four standard-library axioms that come with Reals / Coquelicot
   (ClassicalDedekindReals.sig_forall_dec, ClassicalDedekindReals.sig_not_dec,
   FunctionalExtensionality.functional_extensionality_dep, Classical_Prop.classic); none is declared
   in this development.

   NOT covered: that the 'exact' weight IMAGES (floats) fed to C19 are monotone -- A2 is about the
   real-number formula of the kernel, not about its IEEE evaluation, and C19's integer weight model
   has no counterpart for 'exact'; float rounding of the 'subpixel' weights count/s^2 is harmless
   (same divisor, monotone rounding) but is not modelled either. *)
From Coq Require Import ZArith QArith List Bool Lia.
From Coq Require Import Reals Lra.
Set Warnings "-ambiguous-paths".
From Coquelicot Require Import Coquelicot.
Set Warnings "ambiguous-paths".
From PV Require Import lib.Cases C01_Model C01_Proofs C01R_Model C19_Model C19_Proofs C19M_Proofs C19M_RProofs.
Import ListNotations.
Open Scope Z_scope.

(* ====================================================================================== *)
(* A1  'center' / 'subpixel' weights of a circle are monotone in the radius                 *)
(* ====================================================================================== *)
Theorem circle_inside_monotone_in_radius : forall r1 r2 x y : Q,
  (0 <= r1)%Q -> (r1 <= r2)%Q -> inside (Circle r1) x y = true -> inside (Circle r2) x y = true.
Proof. exact circle_inside_monotone. Qed.
Print Assumptions circle_inside_monotone_in_radius.

(* every pixel rectangle, every sub-pixel grid, every position: the centre count is monotone *)
Theorem circle_centre_count_monotone : forall (r1 r2 x0 y0 x1 y1 : Q) (s : Z),
  (0 <= r1)%Q -> (r1 <= r2)%Q ->
  subpix_count (Circle r1) x0 y0 x1 y1 s <= subpix_count (Circle r2) x0 y0 x1 y1 s.
Proof. exact C19M_Proofs.circle_centre_count_monotone. Qed.
Print Assumptions circle_centre_count_monotone.

(* the kernel loops as written (circular_overlap_single_subpixel) ... *)
Theorem circle_subpixel_kernel_monotone : forall (r1 r2 x0 y0 x1 y1 : Q) (s : Z),
  (0 <= r1)%Q -> (r1 <= r2)%Q ->
  single_subpixel (Circle r1) x0 y0 x1 y1 s <= single_subpixel (Circle r2) x0 y0 x1 y1 s.
Proof. exact circle_kernel_monotone. Qed.
Print Assumptions circle_subpixel_kernel_monotone.

(* ... the weight count / subpixels^2 it returns ... *)
Theorem circle_subpixel_weight_monotone : forall (r1 r2 x0 y0 x1 y1 : Q) (s : Z),
  (0 <= r1)%Q -> (r1 <= r2)%Q -> 0 < s ->
  (weight_of (single_subpixel (Circle r1) x0 y0 x1 y1 s) s
   <= weight_of (single_subpixel (Circle r2) x0 y0 x1 y1 s) s)%Q.
Proof. exact circle_weight_monotone. Qed.
Print Assumptions circle_subpixel_weight_monotone.

(* ... and the grid driver circular_overlap_grid with its bounding-box / well-within /
   fully-outside fast paths (any pixel_radius >= half the pixel diagonal) *)
Theorem circle_grid_cell_monotone : forall (r1 r2 pr dx dy pxmin pymin : Q) (s : Z),
  (0 <= r1)%Q -> (r1 <= r2)%Q -> (0 <= pr)%Q -> (dx * dx + dy * dy <= 4 * (pr * pr))%Q ->
  (0 < dx)%Q -> (0 < dy)%Q -> 0 <= s ->
  cell (Circle r1) pr dx dy pxmin pymin s <= cell (Circle r2) pr dx dy pxmin pymin s.
Proof. exact circle_cell_monotone. Qed.
Print Assumptions circle_grid_cell_monotone.

(* image-pixel form: the number of sub-pixel centres of image pixel (Y, X) inside the circle *)
Theorem circle_pixel_weight_monotone : forall (r1 r2 px py : Q) (s Y X : Z),
  (0 <= r1)%Q -> (r1 <= r2)%Q ->
  pixel_count (Circle r1) px py s Y X <= pixel_count (Circle r2) px py s Y X.
Proof. exact circle_pixel_count_monotone. Qed.
Print Assumptions circle_pixel_weight_monotone.

(* the to_mask array of a circle over its OWN bounding box, seen from any image pixel (0 outside
   the box), is that count: pixels outside the box have no sub-pixel centre in the circle *)
Theorem circle_mask_is_centre_count_everywhere : forall (px py r : Q) (s Y X : Z),
  (0 <= r)%Q -> 0 < s ->
  mask_at (Circle r) (circ_box px py r) px py s Y X = pixel_count (Circle r) px py s Y X.
Proof. exact circle_mask_at_is_count. Qed.
Print Assumptions circle_mask_is_centre_count_everywhere.

(* whole masks: each over its own (different) bounding box, compared at every image pixel *)
Theorem circle_mask_monotone_in_radius : forall (px py r1 r2 : Q) (s Y X : Z),
  (0 <= r1)%Q -> (r1 <= r2)%Q -> 0 < s ->
  mask_at (Circle r1) (circ_box px py r1) px py s Y X <= mask_at (Circle r2) (circ_box px py r2) px py s Y X.
Proof. exact circle_mask_monotone. Qed.
Print Assumptions circle_mask_monotone_in_radius.

(* any two boxes (e.g. a shared annulus box): at a pixel covered by both *)
Theorem circle_mask_monotone_on_common_pixels : forall (px py r1 r2 : Q) (b1 b2 : box) (s Y X : Z),
  (0 <= r1)%Q -> (r1 <= r2)%Q -> 0 < s -> in_box b1 Y X -> in_box b2 Y X ->
  mask_at (Circle r1) b1 px py s Y X <= mask_at (Circle r2) b2 px py s Y X.
Proof. exact circle_mask_monotone_common_pixel. Qed.
Print Assumptions circle_mask_monotone_on_common_pixels.

(* the bounding boxes themselves are nested *)
Theorem circle_bbox_monotone_in_radius : forall px py r1 r2 : Q,
  (r1 <= r2)%Q ->
  ixmin (circ_box px py r2) <= ixmin (circ_box px py r1) /\ ixmax (circ_box px py r1) <= ixmax (circ_box px py r2) /\
  iymin (circ_box px py r2) <= iymin (circ_box px py r1) /\ iymax (circ_box px py r1) <= iymax (circ_box px py r2).
Proof. exact circ_box_monotone. Qed.
Print Assumptions circle_bbox_monotone_in_radius.

(* ====================================================================================== *)
(* A2  'exact' weights of a circle are monotone in the radius (over R)                      *)
(* ====================================================================================== *)
Theorem section_length_monotone_in_radius : forall ymin ymax r1 r2 x : R,
  (0 <= r1)%R -> (r1 <= r2)%R -> (section_len ymin ymax r1 x <= section_len ymin ymax r2 x)%R.
Proof. exact section_len_monotone. Qed.
Print Assumptions section_length_monotone_in_radius.

Theorem rect_disc_area_monotone_in_radius : forall xmin ymin xmax ymax r1 r2 : R,
  (0 <= r1)%R -> (r1 <= r2)%R -> (xmin <= xmax)%R ->
  (rect_disc_area xmin ymin xmax ymax r1 <= rect_disc_area xmin ymin xmax ymax r2)%R.
Proof. exact rect_disc_area_monotone. Qed.
Print Assumptions rect_disc_area_monotone_in_radius.

(* the value returned by circular_overlap_single_exact *)
Theorem exact_kernel_monotone_in_radius : forall xmin ymin xmax ymax r1 r2 v1 v2 : R,
  (0 <= r1)%R -> (r1 <= r2)%R -> (xmin <= xmax)%R -> (ymin <= ymax)%R ->
  circular_overlap_single_exact single_exact_fuel xmin ymin xmax ymax r1 = Some v1 ->
  circular_overlap_single_exact single_exact_fuel xmin ymin xmax ymax r2 = Some v2 ->
  (v1 <= v2)%R.
Proof. exact exact_kernel_monotone. Qed.
Print Assumptions exact_kernel_monotone_in_radius.

(* the 'exact' weight of a pixel, single_exact(...) / (dx * dy): both calls return, and
   0 <= weight(r1) <= weight(r2) <= 1 *)
Theorem exact_weight_monotone_in_radius : forall xmin ymin xmax ymax r1 r2 : R,
  (0 <= r1)%R -> (r1 <= r2)%R -> (xmin < xmax)%R -> (ymin < ymax)%R ->
  exists v1 v2 : R,
    circular_overlap_single_exact single_exact_fuel xmin ymin xmax ymax r1 = Some v1 /\
    circular_overlap_single_exact single_exact_fuel xmin ymin xmax ymax r2 = Some v2 /\
    (0 <= v1 / ((xmax - xmin) * (ymax - ymin)) <= v2 / ((xmax - xmin) * (ymax - ymin)))%R /\
    (v2 / ((xmax - xmin) * (ymax - ymin)) <= 1)%R.
Proof. exact exact_weight_monotone_total. Qed.
Print Assumptions exact_weight_monotone_in_radius.

(* ====================================================================================== *)
(* A3  bridging C01's masks to C19's weight images, and the corollary                       *)
(* ====================================================================================== *)
(* to_image: entry of the box-local array where the box covers the pixel, 0 elsewhere *)
Theorem to_image_is_mask_seen_from_image : forall sh b px py s ny nx w,
  to_image b (mask_counts sh b px py s) ny nx = Some w -> w = raster ny nx (mask_at sh b px py s).
Proof. exact to_image_mask_raster. Qed.
Print Assumptions to_image_is_mask_seen_from_image.

(* the flattening is C19's: element y*nx + x is pixel (y, x); ny*nx elements *)
Theorem raster_is_row_major : forall ny nx f,
  length (raster ny nx f) = (Z.to_nat ny * Z.to_nat nx)%nat /\
  forall y x, 0 <= y < ny -> 0 <= x < nx -> nth (Z.to_nat (y * nx + x)) (raster ny nx f) 0 = f y x.
Proof. exact raster_spec. Qed.
Print Assumptions raster_is_row_major.

(* the weight image C19 receives for a circular aperture is the raster of the centre counts *)
Theorem circle_aper_is_centre_count_image : forall ny nx px py s r w,
  0 < s -> circle_aper ny nx px py s r = AW w ->
  (0 < r)%Q /\ w = raster ny nx (pixel_count (Circle r) px py s).
Proof. exact circle_aper_weights. Qed.
Print Assumptions circle_aper_is_centre_count_image.

Theorem circle_aper_zero_iff : forall ny nx px py s r,
  circle_aper ny nx px py s r = AZero <-> (r <= 0)%Q.
Proof. exact circle_aper_zero. Qed.
Print Assumptions circle_aper_zero_iff.

Theorem circle_aper_off_iff : forall ny nx px py s r,
  circle_aper ny nx px py s r = AOff <->
  (0 < r)%Q /\ forall y x, ~ (in_box (circ_box px py r) y x /\ in_img ny nx y x).
Proof. exact circle_aper_off. Qed.
Print Assumptions circle_aper_off_iff.

(* a larger concentric aperture overlaps the frame whenever a smaller one does *)
Theorem circle_aper_overlap_monotone_in_radius : forall ny nx px py s r1 r2,
  (0 < r1)%Q -> (r1 <= r2)%Q ->
  circle_aper ny nx px py s r1 <> AOff -> circle_aper ny nx px py s r2 <> AOff.
Proof. exact circle_aper_overlap_monotone. Qed.
Print Assumptions circle_aper_overlap_monotone_in_radius.

(* exactly the hypothesis [forall p, wa p <= wb p] of nonneg_data_monotone_cog_partial, for any two
   radii r1 <= r2 (no sign condition: a radius <= 0 gives the zero weights) *)
Theorem circle_weight_images_monotone : forall ny nx px py s r1 r2 wa wb,
  0 < s -> (r1 <= r2)%Q ->
  aw (circle_aper ny nx px py s r1) = Some wa -> aw (circle_aper ny nx px py s r2) = Some wb ->
  forall p, wa p <= wb p.
Proof. exact circle_aper_weights_monotone. Qed.
Print Assumptions circle_weight_images_monotone.

(* and of [wf]: the apertures built from ANY list of radii are well formed *)
Theorem circle_apertures_well_formed : forall ny nx px py s radii data err umask,
  0 < s -> length data = (Z.to_nat ny * Z.to_nat nx)%nat ->
  (forall e, err = Some e -> length e = length data) ->
  (forall m, umask = Some m -> length m = length data) ->
  wf data err umask (map (circle_aper ny nx px py s) radii).
Proof. exact circle_apers_wf. Qed.
Print Assumptions circle_apertures_well_formed.

(* THE COROLLARY.  nonneg_data_monotone_cog_partial with its weights hypothesis (and wf) replaced
   by "the weight arrays are the centre counts of concentric circles with r_i <= r_j":
   non-negative unmasked data => CoG(r_i) <= CoG(r_j), for methods 'center' (s = 1) and
   'subpixel' (any s > 0), any centre, any frame, masks and NaNs allowed. *)
Theorem nonneg_data_monotone_cog_center_subpixel :
  forall ny nx px py s radii data err umask i j ri rj,
  0 < s -> length data = (Z.to_nat ny * Z.to_nat nx)%nat ->
  (forall e, err = Some e -> length e = length data) ->
  (forall m, umask = Some m -> length m = length data) ->
  (forall p, (p < npix data)%nat -> pix_masked data err umask p = false -> 0 <= dval data p) ->
  nth_error radii i = Some ri -> nth_error radii j = Some rj -> (ri <= rj)%Q ->
  circle_aper ny nx px py s ri <> AOff -> circle_aper ny nx px py s rj <> AOff ->
  let apers := map (circle_aper ny nx px py s) radii in
  exists x y, nth_error (cog_profile (s * s) (photometry data err umask apers)) i = Some (Some x) /\
              nth_error (cog_profile (s * s) (photometry data err umask apers)) j = Some (Some y) /\ (x <= y)%Q.
Proof. exact cog_monotone_center_subpixel. Qed.
Print Assumptions nonneg_data_monotone_cog_center_subpixel.

(* radii sorted non-decreasingly: once a positive-radius aperture overlaps the frame the curve
   of growth is defined and non-decreasing from there on *)
Theorem nonneg_data_monotone_cog_sorted_radii :
  forall ny nx px py s radii data err umask i j ri rj,
  0 < s -> length data = (Z.to_nat ny * Z.to_nat nx)%nat ->
  (forall e, err = Some e -> length e = length data) ->
  (forall m, umask = Some m -> length m = length data) ->
  (forall p, (p < npix data)%nat -> pix_masked data err umask p = false -> 0 <= dval data p) ->
  radii_sorted radii -> (i <= j)%nat ->
  nth_error radii i = Some ri -> nth_error radii j = Some rj -> (0 < ri)%Q ->
  circle_aper ny nx px py s ri <> AOff ->
  let apers := map (circle_aper ny nx px py s) radii in
  exists x y, nth_error (cog_profile (s * s) (photometry data err umask apers)) i = Some (Some x) /\
              nth_error (cog_profile (s * s) (photometry data err umask apers)) j = Some (Some y) /\ (x <= y)%Q.
Proof. exact cog_monotone_sorted_radii. Qed.
Print Assumptions nonneg_data_monotone_cog_sorted_radii.

(* ====================================================================================== *)
(* Examples: hypotheses satisfiable, statements not vacuous                                 *)
(* ====================================================================================== *)
(* A1: the point (1, 1) is outside the circle of radius 1 and inside the one of radius 3/2 *)
Example ex_inside : inside (Circle 1) 1 1 = false /\ inside (Circle (3 # 2)) 1 1 = true.
Proof. split; vm_compute; reflexivity. Qed.
(* pixel [0,1] x [0,1], 4 x 4 sub-pixels: 13 centres in the unit circle, 16 in radius 3/2 *)
Example ex_counts :
  single_subpixel (Circle 1) 0 0 1 1 4 = 13 /\ single_subpixel (Circle (3 # 2)) 0 0 1 1 4 = 16.
Proof. split; vm_compute; reflexivity. Qed.
(* different bounding boxes: r = 1/2 at (1, 1) has the box [1,2) x [1,2), r = 3/2 the box [0,3) x [0,3) *)
Example ex_boxes : circ_box 1 1 (1 # 2) = mkbox 1 2 1 2 /\ circ_box 1 1 (3 # 2) = mkbox 0 3 0 3.
Proof. split; vm_compute; reflexivity. Qed.

(* A3: a 3 x 4 frame, centre (1, 1), subpixels 2 (S = 4), radii 0, 1/2, 3/2, 40 *)
Definition ex_radii : list Q := [0; 1 # 2; 3 # 2; 40]%Q.
Example ex_apers :
  map (circle_aper 3 4 1 1 2) ex_radii =
  [AZero; AW [0; 0; 0; 0; 0; 4; 0; 0; 0; 0; 0; 0]; AW [3; 4; 3; 0; 4; 4; 4; 0; 3; 4; 3; 0];
   AW [4; 4; 4; 4; 4; 4; 4; 4; 4; 4; 4; 4]].
Proof. vm_compute. reflexivity. Qed.
(* an aperture off the frame *)
Example ex_aper_off : circle_aper 3 4 (-5) 1 2 (1 # 2) = AOff.
Proof. vm_compute. reflexivity. Qed.
Example ex_radii_sorted : radii_sorted ex_radii.
Proof.
  intros [|[|[|[|i]]]] [|[|[|[|j]]]] ri rj Hij Hi Hj; cbn in Hi, Hj; try lia;
    try (destruct i; discriminate); try (destruct j; discriminate);
    injection Hi as <-; injection Hj as <-; unfold Qle; cbn; lia.
Qed.
(* data with a NaN and a masked negative pixel; all unmasked finite pixels >= 0 *)
Definition ex_data : list (option Z) :=
  [Some 1; Some 0; Some 2; Some 5; None; Some 7; Some 1; Some 0; Some (-9); Some 3; Some 0; Some 2].
Definition ex_umask : option (list bool) :=
  Some [false; false; false; false; false; false; false; false; true; false; false; false].
Example ex_hyps :
  length ex_data = (Z.to_nat 3 * Z.to_nat 4)%nat /\
  (forall m, ex_umask = Some m -> length m = length ex_data) /\
  (forall p, (p < npix ex_data)%nat -> pix_masked ex_data None ex_umask p = false -> 0 <= dval ex_data p).
Proof.
  split; [reflexivity|]. split; [intros m [= <-]; reflexivity|].
  intros p Hp. cbn in Hp.
  do 12 (destruct p as [|p]; [cbn; try discriminate; intros _; lia|]). lia.
Qed.
(* the curve of growth of this instance: 0 <= 7 <= 53/4 <= 21 *)
Example ex_cog :
  all2 (vclose true)
       (cog_profile (2 * 2) (photometry ex_data None ex_umask (map (circle_aper 3 4 1 1 2) ex_radii)))
       [Some 0%Q; Some 7%Q; Some (53 # 4)%Q; Some 21%Q] = true.
Proof. vm_compute. reflexivity. Qed.

(* A2: hypotheses satisfiable; the weight is not constant in r *)
Example ex_exact_hyps : (0 <= 5)%R /\ (5 <= 8)%R /\ (4 < 5)%R.
Proof. repeat split; lra. Qed.
Example ex_exact_values : rect_disc_area 4 4 5 5 5 = 0%R /\ rect_disc_area 4 4 5 5 8 = 1%R.
Proof. exact exact_weight_instance. Qed.
