(* C14 — model of photutils.detection: find_peaks (peakfinder.py), StarFinderBase._find_stars
   (core.py) and the catalog filters of DAOStarFinder / IRAFStarFinder / StarFinder
   (apply_filters, select_brightest, reset_ids).

   Values.  find_peaks and the filters only COMPARE floating-point numbers (==, >, >=, <=,
   min, max, argsort); they never do arithmetic on them.  A double is therefore represented
   by an integer through a fixed strictly monotone map (the harness uses the IEEE-754 bit
   pattern read as sign-magnitude: enc(-0.0)=enc(0.0)=0, enc(+inf)=INF, enc(-inf)=-INF);
   NaN is [None].  Every comparison of the implementation is then an exact [Z] comparison.

   Pixels are flattened in raster order p = y*nx + x.

   The model mirrors the REPAIRED code (fixes/C14-1..3): the maximum filter pads with the
   data minimum (so padding never wins), NaN pixels are never peaks, and the separation
   footprint has integer offsets.  The three repairs are switches of the general model
   ([cval], [nanfix], [intfix]) so that the unrepaired code is also expressible and its
   violation of the property is a theorem ([..._refuted] in C14_Properties). *)
From Coq Require Import List Arith ZArith Bool Lia.
From PV Require Import lib.Cases.
Import ListNotations.
Open Scope Z_scope.

Definition INF : Z := 9218868437227405312.      (* enc(+inf) = 0x7FF0000000000000 *)
Definition ONE : Z := 4607182418800017408.      (* enc(1.0)  = 0x3FF0000000000000 *)

(* ---------- small generic helpers ---------- *)
Definition somes (l : list (option Z)) : list Z :=
  flat_map (fun o => match o with Some v => [v] | None => [] end) l.
Definition minl (l : list Z) : option Z :=
  match l with [] => None | a :: r => Some (fold_left Z.min r a) end.
Definition maxl (l : list Z) : option Z :=
  match l with [] => None | a :: r => Some (fold_left Z.max r a) end.

(* descending insertion sort by an integer key (model of argsort(...)[::-1]; the order
   among equal keys is NOT claimed to be numpy's — the comparison is tie-robust) *)
Section Sort.
  Context {A : Type} (key : A -> Z).
  Fixpoint insert (a : A) (l : list A) : list A :=
    match l with
    | [] => [a]
    | b :: r => if key b <=? key a then a :: l else b :: insert a r
    end.
  Definition isort (l : list A) : list A := fold_right insert [] l.
End Sort.

(* ---------- find_peaks ---------- *)
Inductive threshold := TScalar (t : option Z) | TArray (l : list (option Z)).

(* box_size=(sy, sx) is maximum_filter(size=...) = a full footprint *)
Definition box (sy sx : nat) : list (list bool) := repeat (repeat true sx) sy.

(* scipy.ndimage centre convention: element (i, j) of a footprint of shape (fy, fx) is the
   pixel offset (i - fy//2, j - fx//2) *)
Definition offsets (fp : list (list bool)) : list (Z * Z) :=
  let fy := length fp in
  let fx := length (hd [] fp) in
  flat_map (fun i =>
    flat_map (fun j =>
      if nth j (nth i fp []) false
      then [(Z.of_nat i - Z.of_nat (fy / 2), Z.of_nat j - Z.of_nat (fx / 2))]
      else []) (seq 0 fx)) (seq 0 fy).

Section FindPeaks.
  Variables (ny nx : nat).
  Variable data : list (option Z).
  Variable thr : threshold.
  Variable fp : list (list bool).
  Variable mask : option (list bool).
  Variable border : option (nat * nat).
  Variable npeaks : option nat.             (* None = np.inf *)
  (* switches: repaired code = (cval_min, nanfix) = (true, true) *)
  Variable cval_min : bool.                 (* false: cval = 0.0 (unrepaired) *)
  Variable nanfix : bool.                   (* false: NaN pixels not excluded (unrepaired) *)

  Definition npx : nat := (ny * nx)%nat.
  Definition dget (p : nat) : option Z := nth p data None.
  (* np.all(data == data.flat[0]) *)
  Definition is_const : bool :=
    match dget 0 with
    | Some v0 => forallb (fun o => match o with Some v => v =? v0 | None => false end) data
    | None => false
    end.
  (* nanmin(data); None (NaN) if every pixel is NaN *)
  Definition fillv : option Z := minl (somes data).
  Definition py (p : nat) : Z := Z.of_nat (p / nx).
  Definition px (p : nat) : Z := Z.of_nat (p mod nx).
  Definition masked (p : nat) : bool :=
    match mask with Some m => nth p m false | None => false end.
  (* as_pair(..., upper_bound=data.shape) clamps; the [0 <?] guards are the code's
     [if ny > 0] / [if nx > 0] *)
  Definition in_border (p : nat) : bool :=
    match border with
    | None => false
    | Some (b_y, b_x) =>
        let b_y := Nat.min b_y ny in let b_x := Nat.min b_x nx in
        let y := (p / nx)%nat in let x := (p mod nx)%nat in
        ((0 <? b_y)%nat && ((y <? b_y)%nat || (ny - b_y <=? y)%nat))
        || ((0 <? b_x)%nat && ((x <? b_x)%nat || (nx - b_x <=? x)%nat))
    end.
  Definition thr_at (p : nat) : option Z :=
    match thr with TScalar t => t | TArray l => nth p l None end.
  Definition isnan (p : nat) : bool := match dget p with None => true | Some _ => false end.

  Section WithFill.
    Variable fill : option Z.               (* = fillv, computed once *)
    (* data[nan_mask] = nanmin(data) *)
    Definition filled (p : nat) : option Z :=
      match dget p with Some v => Some v | None => fill end.
    (* repaired: cval = np.min(data) of the NaN-filled data = nanmin(data) *)
    Definition cval : option Z := if cval_min then fill else Some 0.
    (* the padded image seen by maximum_filter(mode='constant', cval=cval) *)
    Definition pget (y x : Z) : option Z :=
      if (0 <=? y) && (y <? Z.of_nat ny) && (0 <=? x) && (x <? Z.of_nat nx)
      then filled (Z.to_nat y * nx + Z.to_nat x)%nat else cval.
    Definition nbvals (p : nat) : list (option Z) :=
      map (fun o => pget (py p + fst o) (px p + snd o)) (offsets fp).
    Definition nbmax (p : nat) : option Z := maxl (somes (nbvals p)).
    (* data == data_max *)
    Definition eq_max (p : nat) : bool :=
      match filled p, nbmax p with Some v, Some m => v =? m | _, _ => false end.
    (* data > threshold *)
    Definition gt_thr (p : nat) : bool :=
      match filled p, thr_at p with Some v, Some t => t <? v | _, _ => false end.
    (* peak_goodmask, conjuncts in the order of the code *)
    Definition good (p : nat) : bool :=
      eq_max p && negb (masked p) && negb (in_border p) && gt_thr p
      && negb (nanfix && isnan p).
    Definition pval (p : nat) : Z := match filled p with Some v => v | None => 0 end.
    (* table row (x_peak, y_peak, peak_value) *)
    Definition prow (p : nat) : Z * Z * Z := (px p, py p, pval p).
  End WithFill.

  Definition cands : list nat := let f := fillv in filter (good f) (seq 0 npx).
  (* if nxpeaks > npeaks: argsort(peak_values)[::-1][:npeaks] *)
  Definition selected (cs : list nat) : list nat :=
    match npeaks with
    | Some n => if (n <? length cs)%nat then firstn n (isort (pval fillv) cs) else cs
    | None => cs
    end.

  Definition find_peaks : option (list (Z * Z * Z)) :=
    if is_const then None
    else let cs := cands in
         match cs with
         | [] => None
         | _ => Some (map (prow fillv) (selected cs))
         end.
End FindPeaks.

(* ---------- StarFinderBase._find_stars ---------- *)
(* circular footprint for min_separation = ms4/4 (the generators draw multiples of 1/4, so
   min_separation**2 is exact).  Repaired code: integer offsets -floor(ms)..floor(ms).
   Unrepaired code (intfix=false): np.arange(-ms, ms+1), i.e. ceil(2*ms+1) samples starting
   at -ms, which are not integers when ms is not. *)
Definition disk_fp (intfix : bool) (ms4 : Z) : list (list bool) :=
  if intfix then
    let r := ms4 / 4 in
    let idx := map (fun i => Z.of_nat i - r) (seq 0 (Z.to_nat (2 * r + 1))) in
    map (fun yy => map (fun xx => 16 * (xx * xx + yy * yy) <=? ms4 * ms4) idx) idx
  else
    let n := Z.to_nat ((2 * ms4 + 4 + 3) / 4) in      (* ceil(2*ms + 1) *)
    let idx4 := map (fun i => 4 * Z.of_nat i - ms4) (seq 0 n) in
    map (fun yy => map (fun xx => xx * xx + yy * yy <=? ms4 * ms4) idx4) idx4.

Section FindStars.
  Variables (ny nx : nat).
  Variable conv : list (option Z).          (* convolved data (library numerics: input) *)
  Variable thr : option Z.
  Variable kfp : list (list bool).          (* np.ones(kernel.shape) or kernel.mask *)
  Variable ms4 : Z.                         (* 4 * min_separation *)
  Variable mask : option (list bool).
  Variable exclude_border : bool.
  Variables (cval_min nanfix intfix : bool).

  Definition stars_fp : list (list bool) := if ms4 =? 0 then kfp else disk_fp intfix ms4.
  (* (shape-1)//2 for arrays; kernel.yradius = ny//2 with ny odd for _StarFinderKernel *)
  Definition stars_border : option (nat * nat) :=
    if exclude_border
    then Some (((length kfp - 1) / 2)%nat, ((length (hd [] kfp) - 1) / 2)%nat)
    else None.
  (* xypos = transpose((x_peak, y_peak)) or None *)
  Definition find_stars : option (list (Z * Z)) :=
    match find_peaks ny nx conv (TScalar thr) stars_fp mask stars_border None cval_min nanfix with
    | None => None
    | Some rows => Some (map (fun r => (fst (fst r), snd (fst r))) rows)
    end.
  (* _get_raw_catalog: xycoords, if given, replace peak finding *)
  Definition raw_positions (xycoords : option (list (Z * Z))) : option (list (Z * Z)) :=
    match xycoords with Some l => Some l | None => find_stars end.
End FindStars.

(* ---------- catalog filters ---------- *)
(* a catalog row = the per-source attributes (library numerics: inputs), in the fixed
   order given below for each finder *)
Definition row := list (option Z).
Definition attr (r : row) (i : nat) : option Z := nth i r None.
Definition finite (o : option Z) : bool :=
  match o with Some v => (- INF <? v) && (v <? INF) | None => false end.
Definition oge (o : option Z) (b : Z) : bool := match o with Some v => b <=? v | None => false end.
Definition ole (o : option Z) (b : Z) : bool := match o with Some v => v <=? b | None => false end.
Definition ogt (o : option Z) (b : Z) : bool := match o with Some v => b <? v | None => false end.

Record cfg := {
  c_fin : list nat;                 (* attributes that must be finite *)
  c_count : option nat;             (* attribute that must be > 1 (IRAF: nonzero cutout pixels) *)
  c_rng : list (nat * Z * Z);       (* lo <= attribute <= hi *)
  c_pmax : option (nat * Z);        (* attribute <= peakmax *)
  c_flux : nat;
  c_bright : option nat;
  c_vis : list nat }.               (* attributes that are columns of the output table *)

(* DAO row: 0 xcentroid 1 ycentroid 2 hx 3 hy 4 sharpness 5 roundness1 6 roundness2 7 peak
            8 flux, then payload 9 npix 10 mag 11 daofind_mag;
   table columns: id xcentroid ycentroid sharpness roundness1 roundness2 npix peak flux mag
   daofind_mag (compared in attribute order) *)
Definition dao_cfg (thr_eff_zero : bool) (sharplo sharphi roundlo roundhi : Z)
    (peakmax : option Z) (brightest : option nat) : cfg :=
  {| c_fin := if thr_eff_zero then [0;1;2;3;4;5;6;7]%nat else [0;1;2;3;4;5;6;7;8]%nat;
     c_count := None;
     c_rng := [(4%nat, sharplo, sharphi); (5%nat, roundlo, roundhi); (6%nat, roundlo, roundhi)];
     c_pmax := match peakmax with Some pm => Some (7%nat, pm) | None => None end;
     c_flux := 8%nat; c_bright := brightest;
     c_vis := [0;1;4;5;6;7;8;9;10;11]%nat |}.
(* IRAF row: 0 xcentroid 1 ycentroid 2 sharpness 3 roundness 4 pa 5 sky 6 peak 7 flux
             8 count_nonzero(cutout_data), then payload 9 fwhm 10 npix 11 mag *)
Definition iraf_cfg (sharplo sharphi roundlo roundhi : Z)
    (peakmax : option Z) (brightest : option nat) : cfg :=
  {| c_fin := [0;1;2;3;4;5;6;7]%nat;
     c_count := Some 8%nat;
     c_rng := [(2%nat, sharplo, sharphi); (3%nat, roundlo, roundhi)];
     c_pmax := match peakmax with Some pm => Some (6%nat, pm) | None => None end;
     c_flux := 7%nat; c_bright := brightest;
     c_vis := [0;1;2;3;4;6;7;9;10;11]%nat |}.
(* StarFinder row: 0 xcentroid 1 ycentroid 2 fwhm 3 roundness 4 pa 5 max_value 6 flux,
                   then payload 7 mag *)
Definition sf_cfg (peakmax : option Z) (brightest : option nat) : cfg :=
  {| c_fin := [0;1;2;3;4;5;6]%nat;
     c_count := None;
     c_rng := [];
     c_pmax := match peakmax with Some pm => Some (5%nat, pm) | None => None end;
     c_flux := 6%nat; c_bright := brightest;
     c_vis := [0;1;2;3;4;5;6;7]%nat |}.

Section Filters.
  Variable c : cfg.
  (* first mask of apply_filters *)
  Definition pass_finite (r : row) : bool :=
    forallb (fun i => finite (attr r i)) (c_fin c)
    && match c_count c with Some i => ogt (attr r i) ONE | None => true end.
  (* second mask of apply_filters (inclusive bounds) *)
  Definition pass_bounds (r : row) : bool :=
    forallb (fun b => let '(i, lo, hi) := b in oge (attr r i) lo && ole (attr r i) hi) (c_rng c)
    && match c_pmax c with Some (i, pm) => ole (attr r i) pm | None => true end.
  (* NaN sorts last in argsort, hence first after [::-1] *)
  Definition fkey (r : row) : Z := match attr r (c_flux c) with Some v => v | None => INF + 1 end.
  Definition select_brightest (rows : list row) : list row :=
    match c_bright c with
    | None => rows
    | Some n => firstn n (isort fkey rows)
    end.
  (* to_table: the visible columns of a row *)
  Definition proj (r : row) : row := map (attr r) (c_vis c).
  Definition with_ids (rows : list row) : list (Z * row) :=
    combine (map Z.of_nat (seq 1 (length rows))) rows.
  (* apply_all_filters + to_table; the two early [return None] of apply_filters *)
  Definition apply_all (rows : list row) : option (list (Z * row)) :=
    match filter pass_finite rows with
    | [] => None
    | r1 =>
        match filter pass_bounds r1 with
        | [] => None
        | r2 => Some (with_ids (select_brightest r2))
        end
    end.
End Filters.

(* ---------- a whole finder: peak finding (or xycoords), per-source statistics, filters ---------- *)
(* [stat] = the per-source measurements (centroid, sharpness, roundness, peak, flux ...) of the
   source at a detected position: library numerics, an uninterpreted input of the model *)
Section Pipeline.
  Variable stat : Z * Z -> row.
  Definition run_finder (ny nx : nat) (conv : list (option Z)) (thr : option Z)
      (kfp : list (list bool)) (ms4 : Z) (mask : option (list bool)) (exclude_border : bool)
      (c : cfg) (xycoords : option (list (Z * Z))) : option (list (Z * row)) :=
    match raw_positions ny nx conv thr kfp ms4 mask exclude_border true true true xycoords with
    | None => None                       (* 'No sources were found.' *)
    | Some pos => apply_all c (map stat pos)
    end.
End Pipeline.

(* ---------- correspondence ---------- *)
Definition row3 := (Z * Z * Z)%type.
Definition row3_eqb (a b : row3) : bool :=
  let '(a1, a2, a3) := a in let '(b1, b2, b3) := b in (a1 =? b1) && (a2 =? b2) && (a3 =? b3).
Definition pos_eqb (a b : Z * Z) : bool := (fst a =? fst b) && (snd a =? snd b).
Definition row_eqb : row -> row -> bool := list_eqb (opt_eqb Z.eqb).

(* remove the first occurrence; None if absent *)
Fixpoint remove1 {A} (eqb : A -> A -> bool) (x : A) (l : list A) : option (list A) :=
  match l with
  | [] => None
  | a :: r => if eqb x a then Some r
              else match remove1 eqb x r with Some r' => Some (a :: r') | None => None end
  end.
Fixpoint submulti {A} (eqb : A -> A -> bool) (l pool : list A) : bool :=
  match l with
  | [] => true
  | a :: r => match remove1 eqb a pool with Some pool' => submulti eqb r pool' | None => false end
  end.
(* tie-robust equality with a top-N selection: same key sequence as the model's selection
   and a sub-multiset of the candidates (any such list is a valid "N largest" answer) *)
Definition sel_ok {A} (eqb : A -> A -> bool) (key : A -> Z) (pool model impl : list A) : bool :=
  zlist_eqb (map key impl) (map key model) && submulti eqb impl pool.

Definition ids_ok (ids : list Z) : bool := zlist_eqb ids (map Z.of_nat (seq 1 (length ids))).

Inductive finder := DAO (thr_eff_zero : bool) | IRAF | SF.

Inductive case :=
| CPeaks (ny nx : Z) (data : list (option Z)) (thr : threshold)
         (fp : list (list bool)) (mask : option (list bool)) (border : option (Z * Z))
         (npeaks : option Z)
         (expected : option (list Z * list row3))
| CStars (ny nx : Z) (conv : list (option Z)) (thr : option Z) (kfp : list (list bool))
         (ms4 : Z) (mask : option (list bool)) (exclude_border : bool)
         (xycoords : option (list (Z * Z)))
         (expected : option (list (Z * Z)))
| CFilter (f : finder) (bounds : list Z) (peakmax : option Z) (brightest : option Z)
          (rows : list row)
          (expected : option (list Z * list row)).

Definition onat (o : option Z) : option nat :=
  match o with Some z => Some (Z.to_nat z) | None => None end.
Definition cfg_of (f : finder) (bounds : list Z) (peakmax : option Z) (brightest : option Z) : cfg :=
  let b i := nth i bounds 0 in
  match f with
  | DAO z => dao_cfg z (b 0%nat) (b 1%nat) (b 2%nat) (b 3%nat) peakmax (onat brightest)
  | IRAF => iraf_cfg (b 0%nat) (b 1%nat) (b 2%nat) (b 3%nat) peakmax (onat brightest)
  | SF => sf_cfg peakmax (onat brightest)
  end.

(* position of the flux column among the visible columns *)
Fixpoint index_of (x : nat) (l : list nat) : nat :=
  match l with [] => 0%nat | a :: r => if (a =? x)%nat then 0%nat else S (index_of x r) end.
Definition vflux (c : cfg) : nat := index_of (c_flux c) (c_vis c).

Definition model_peaks ny nx data thr fp mask (border : option (Z * Z)) npeaks :=
  find_peaks (Z.to_nat ny) (Z.to_nat nx) data thr fp mask
    (match border with Some (a, b) => Some (Z.to_nat a, Z.to_nat b) | None => None end)
    (onat npeaks) true true.

Definition check_case (c : case) : bool :=
  match c with
  | CPeaks ny nx data thr fp mask border npeaks expected =>
      let nyn := Z.to_nat ny in let nxn := Z.to_nat nx in
      let bd := match border with Some (a, b) => Some (Z.to_nat a, Z.to_nat b) | None => None end in
      match model_peaks ny nx data thr fp mask border npeaks, expected with
      | None, None => true
      | Some rows, Some (ids, irows) =>
          let pool := map (prow nxn data (fillv data)) (cands nyn nxn data thr fp mask bd true true) in
          ids_ok ids && (length ids =? length irows)%nat
          && match npeaks with
             | Some n => if (Z.to_nat n <? length pool)%nat
                         then sel_ok row3_eqb (fun r => snd r) pool rows irows
                         else list_eqb row3_eqb rows irows
             | None => list_eqb row3_eqb rows irows
             end
      | _, _ => false
      end
  | CStars ny nx conv thr kfp ms4 mask eb xy expected =>
      opt_eqb (list_eqb pos_eqb)
        (raw_positions (Z.to_nat ny) (Z.to_nat nx) conv thr kfp ms4 mask eb true true true xy)
        expected
  | CFilter f bounds peakmax brightest rows expected =>
      let cf := cfg_of f bounds peakmax brightest in
      match apply_all cf rows, expected with
      | None, None => true
      | Some out, Some (ids, irows) =>
          let mrows := map (fun o => proj cf (snd o)) out in
          ids_ok ids && (length ids =? length irows)%nat
          && zlist_eqb (map fst out) ids
          && match brightest with
             | Some _ =>
                 zlist_eqb (map (fun o => fkey cf (snd o)) out)
                           (map (fun r => match nth (vflux cf) r None with
                                          | Some v => v | None => INF + 1 end) irows)
                 && submulti row_eqb irows
                      (map (proj cf) (filter (pass_bounds cf) (filter (pass_finite cf) rows)))
             | None => list_eqb row_eqb mrows irows
             end
      | _, _ => false
      end
  end.

Definition model_out (c : case) : option (list Z * list row) :=
  match c with
  | CPeaks ny nx data thr fp mask border npeaks _ =>
      match model_peaks ny nx data thr fp mask border npeaks with
      | None => None
      | Some rows => Some (map Z.of_nat (seq 1 (length rows)),
                           map (fun r => let '(x, y, v) := r in [Some x; Some y; Some v]) rows)
      end
  | CStars ny nx conv thr kfp ms4 mask eb xy _ =>
      match raw_positions (Z.to_nat ny) (Z.to_nat nx) conv thr kfp ms4 mask eb true true true xy with
      | None => None
      | Some l => Some ([], map (fun r => [Some (fst r); Some (snd r)]) l)
      end
  | CFilter f bounds peakmax brightest rows _ =>
      match apply_all (cfg_of f bounds peakmax brightest) rows with
      | None => None
      | Some out => Some (map fst out, map (fun o => proj (cfg_of f bounds peakmax brightest) (snd o)) out)
      end
  end.
