(* C04 -- TRANSLATOR TIE.  gen/Gen_detect.v is REGENERATED from the current source text of
   photutils/segmentation/utils.py (_make_binary_structure) and photutils/segmentation/detect.py
   (_detect_sources, detect_sources) on every run (harness/translate_all.py); it is not committed.
   Tied here, for ALL inputs, to C04_Model.v / C04_PathModel.v:
     _make_binary_structure, the ndim == 2 branch (connectivity 4: cross, 8: full 3x3 square, else
       ValueError), read as "offset (dy, dx) is in the structuring element"          = adj
     _detect_sources: segment_img = data > threshold; segment_img &= inverse_mask, for one pixel
                                                                                      = the element of fg_of
     _detect_sources: the test np.count_nonzero(segment_mask) < npixels (np.count_nonzero(...) is a
       declared abstract integer argument)                                            = the test of prune / keepl
     detect_sources: the validation (npixels <= 0) or (int(npixels) != npixels)      (direct theorem)
   NaN pixels / thresholds (comparison False) are the [None] cases of fg_of and are outside the integer sort. *)
From Coq Require Import List Arith ZArith QArith Qround Bool Lia ZifyBool.
From PV Require Import lib.Cases lib.Conn lib.PyGen C04_Model C04_PathModel gen.Gen_detect.
Import ListNotations.
Open Scope Z_scope.

(* ---------- _make_binary_structure ---------- *)
Definition cross : list (list Z) := [[0; 1; 0]; [1; 1; 1]; [0; 1; 0]].
Definition square : list (list Z) := [[1; 1; 1]; [1; 1; 1]; [1; 1; 1]].

Theorem gen_binary_structure_2d_eq : forall c,
  gen_binary_structure_2d c = if c =? 4 then PyGen.Ok cross else if c =? 8 then PyGen.Ok square else Raise ValueError.
Proof. intros. unfold gen_binary_structure_2d, cross, square. if_split; first [reflexivity | lia]. Qed.

(* element of the structuring element at offset (dy, dx) from its centre (1, 1); 0 outside the 3x3 array *)
Definition structure_at (fp : list (list Z)) (dy dx : Z) : Z :=
  if (-1 <=? dy) && (dy <=? 1) && (-1 <=? dx) && (dx <=? 1)
  then nth (Z.to_nat (dx + 1)) (nth (Z.to_nat (dy + 1)) fp []) 0 else 0.

Lemma structure_at_cross dy dx : (structure_at cross dy dx =? 1) = (Z.abs dy + Z.abs dx <=? 1).
Proof.
  unfold structure_at.
  destruct ((-1 <=? dy) && (dy <=? 1) && (-1 <=? dx) && (dx <=? 1)) eqn:R; [|cbn; lia].
  assert (Hy : dy = -1 \/ dy = 0 \/ dy = 1) by lia. assert (Hx : dx = -1 \/ dx = 0 \/ dx = 1) by lia.
  destruct Hy as [-> | [-> | ->]]; destruct Hx as [-> | [-> | ->]]; reflexivity.
Qed.
Lemma structure_at_square dy dx : (structure_at square dy dx =? 1) = ((Z.abs dy <=? 1) && (Z.abs dx <=? 1)).
Proof.
  unfold structure_at.
  destruct ((-1 <=? dy) && (dy <=? 1) && (-1 <=? dx) && (dx <=? 1)) eqn:R; [|cbn; lia].
  assert (Hy : dy = -1 \/ dy = 0 \/ dy = 1) by lia. assert (Hx : dx = -1 \/ dx = 0 \/ dx = 1) by lia.
  destruct Hy as [-> | [-> | ->]]; destruct Hx as [-> | [-> | ->]]; reflexivity.
Qed.

(* the model's 4-/8-adjacency is "q is a different pixel at an offset selected by the regenerated element" *)
Theorem gen_binary_structure_is_adjacency : forall (nx : nat) (conn8 : bool) (p q : nat) fp,
  gen_binary_structure_2d (if conn8 then 8 else 4) = PyGen.Ok fp ->
  adj nx conn8 p q =
  negb (p =? q)%nat &&
  (structure_at fp (Z.of_nat (q / nx) - Z.of_nat (p / nx)) (Z.of_nat (q mod nx) - Z.of_nat (p mod nx)) =? 1).
Proof.
  intros nx conn8 p q fp H. rewrite gen_binary_structure_2d_eq in H.
  pose proof (Nat.div_mod_eq p nx) as Dp. pose proof (Nat.div_mod_eq q nx) as Dq.
  unfold adj, absdiff. cbv zeta.
  remember (p / nx)%nat as a. remember (q / nx)%nat as b.
  remember (p mod nx)%nat as c. remember (q mod nx)%nat as d.
  destruct (p =? q)%nat eqn:Epq; cbn [negb andb]; [rewrite !andb_false_r; reflexivity|].
  rewrite !andb_true_r. apply Nat.eqb_neq in Epq.
  assert (Hne : ~ (a = b /\ c = d)) by (intros [-> ->]; lia).
  destruct conn8; cbn in H; injection H as <-;
    [rewrite structure_at_square | rewrite structure_at_cross]; cbn [orb]; if_split; lia.
Qed.

(* connectivity other than 4 or 8 is rejected *)
Theorem gen_binary_structure_rejects : forall c, c <> 4 -> c <> 8 -> gen_binary_structure_2d c = Raise ValueError.
Proof. intros c H4 H8. rewrite gen_binary_structure_2d_eq. if_split; first [reflexivity | lia]. Qed.

(* ---------- segment_img = data > threshold; segment_img &= inverse_mask ---------- *)
Theorem gen_segment_pixel_eq : forall d t (m : bool), gen_segment_pixel d t (Some (negb m)) = (t <? d) && negb m.
Proof. intros. unfold gen_segment_pixel. reflexivity. Qed.

Theorem gen_segment_pixel_nomask : forall d t, gen_segment_pixel d t None = (t <? d).
Proof. intros. reflexivity. Qed.

(* the model's foreground map, pixel by pixel (inverse_mask = ~mask; NaN data / threshold compare False) *)
Theorem fg_of_is_gen : forall data thr mask,
  fg_of data thr mask =
  map (fun '(d, t, m) => match d, t with
                          | Some d, Some t => gen_segment_pixel d t (Some (negb m))
                          | _, _ => false
                          end) (combine (combine data thr) mask).
Proof.
  intros. unfold fg_of. apply map_ext. intros [[d t] m]. destruct d, t; try reflexivity.
Qed.

(* the comparison is STRICT: a pixel equal to the threshold is not detected *)
Theorem gen_segment_pixel_strict : forall t im, gen_segment_pixel t t im = false.
Proof. intros. unfold gen_segment_pixel. cbv zeta. rewrite Z.ltb_irrefl. destruct im; reflexivity. Qed.

(* ---------- np.count_nonzero(segment_mask) < npixels ---------- *)
Theorem gen_segment_too_small_eq : forall (npix c : nat),
  gen_segment_too_small (Z.of_nat npix) (Z.of_nat c) = (c <? npix)%nat.
Proof. intros. unfold gen_segment_too_small. lia. Qed.

(* a label survives the pruning loop iff the regenerated test is false: exactly the labels with at least
   npixels pixels ([keepl] of the specification side, [prune] of the code-path side) *)
Theorem gen_segment_too_small_is_keepl : forall npix lab l, l <> 0%nat ->
  keepl npix lab l = negb (gen_segment_too_small (Z.of_nat npix) (Z.of_nat (size lab l))).
Proof.
  intros npix lab l Hl. rewrite gen_segment_too_small_eq. unfold keepl.
  destruct (l =? 0)%nat eqn:E; [apply Nat.eqb_eq in E; contradiction|]. cbn [negb andb]. lia.
Qed.

Theorem gen_segment_too_small_is_prune_test : forall nx npix img l s r,
  prune nx npix img ((l, s) :: r) =
  if gen_segment_too_small (Z.of_nat npix) (Z.of_nat (count_in nx img s l))
  then prune nx npix (zero_in nx img s l) r
  else let '(img', (kl, ks)) := prune nx npix img r in (img', (l :: kl, s :: ks)).
Proof. intros. rewrite gen_segment_too_small_eq. reflexivity. Qed.

(* ---------- detect_sources: npixels must be a positive integer ---------- *)
Theorem gen_npixels_invalid_iff : forall npixels : Q,
  gen_npixels_invalid npixels = false <-> exists k : Z, 0 < k /\ (npixels == inject_Z k)%Q.
Proof.
  intros q. unfold gen_npixels_invalid. split.
  - intro H. apply orb_false_iff in H. destruct H as [Ha Hb].
    assert (H1 : (0 < q)%Q).
    { first [apply Qle_bool_false in Ha; exact Ha | apply Qle_bool_false in Hb; exact Hb]. }
    assert (H2 : (inject_Z (if Qle_bool (0 # 1) q then Qfloor q else Qceiling q) == q)%Q).
    { first [apply negb_false_iff, Qeq_bool_true in Hb; exact Hb | apply negb_false_iff, Qeq_bool_true in Ha; exact Ha]. }
    destruct (Qle_bool (0 # 1) q) eqn:E.
    + exists (Qfloor q). split; [|symmetry; exact H2]. rewrite Zlt_Qlt. rewrite H2. exact H1.
    + exfalso. apply Qle_bool_false in E. apply (Qlt_irrefl 0). eapply Qlt_trans; eassumption.
  - intros (k & Hk & E).
    assert (A : Qle_bool q (0 # 1) = false).
    { destruct (Qle_bool q (0 # 1)) eqn:F; [|reflexivity]. exfalso.
      apply Qle_bool_true in F. rewrite E in F. rewrite Zlt_Qlt in Hk. apply (Qlt_irrefl 0).
      eapply Qlt_le_trans; eassumption. }
    assert (Bq : negb (Qeq_bool (inject_Z (if Qle_bool (0 # 1) q then Qfloor q else Qceiling q)) q) = false).
    { apply negb_false_iff. apply Qeq_bool_iff.
      assert (P : Qle_bool (0 # 1) q = true).
      { apply Qle_bool_iff. rewrite E. rewrite Zlt_Qlt in Hk. apply Qlt_le_weak. exact Hk. }
      rewrite P. rewrite (Qfloor_comp _ _ E), Qfloor_Z. symmetry. exact E. }
    apply orb_false_iff. split; first [exact A | exact Bq].
Qed.

Print Assumptions gen_binary_structure_2d_eq.
Print Assumptions structure_at_cross.
Print Assumptions structure_at_square.
Print Assumptions gen_binary_structure_is_adjacency.
Print Assumptions gen_binary_structure_rejects.
Print Assumptions gen_segment_pixel_eq.
Print Assumptions gen_segment_pixel_nomask.
Print Assumptions fg_of_is_gen.
Print Assumptions gen_segment_pixel_strict.
Print Assumptions gen_segment_too_small_eq.
Print Assumptions gen_segment_too_small_is_keepl.
Print Assumptions gen_segment_too_small_is_prune_test.
Print Assumptions gen_npixels_invalid_iff.
