(* C12 -- TRANSLATOR TIE.  gen/Gen_psfphot.v is REGENERATED from the current source text of
   photutils/psf/photometry.py on every run (harness/translate_all.py); it is not committed.
   Tied here, for ALL inputs, to C12_Model.v (whose positions and fluxes are integers scaled by sc):
     PSFPhotometry._define_flags, the three `if` statements of the per-row loop (bits 1, 2, 4), as the
       value of flags[index] after one iteration                         = b2z flag1 + 2 b2z flag2 + 4 b2z flag4
     PSFPhotometry._get_invalid_positions, for one source row (np.column_stack((y, x)) is that row's (y, x),
       numpy arithmetic on rows is componentwise, np.any(..., axis=1) is the `or` of the two components)
                                                                          = invalid
   Bits 8, 16, 32 (index arrays, dict lookups, comprehensions) are outside the translated subset; they stay
   tied by the correspondence run of harness/c12.py.  The fit-window centre rule ceil(x - 0.5) is astropy's
   (nddata.utils.overlap_slices), not photutils code. *)
From Coq Require Import List ZArith QArith Qround Bool Lia ZifyBool.
From PV Require Import lib.Cases lib.PyGen C12_Model gen.Gen_psfphot.
Import ListNotations.
Open Scope Z_scope.

(* ---------- _define_flags: bits 1, 2, 4 ---------- *)
Ltac q_to_z :=
  q_hyps; unfold Qlt, Qle in *; cbn [Qnum Qden inject_Z] in *.

Theorem gen_flags_1_2_4_eq : forall ny nx fy fx (sc : positive) (p : psrc) acc,
  let '(x, y, f) := p_par p in
  gen_flags_1_2_4 fy fx acc (Z.of_nat (p_npix p)) (x # sc) (y # sc) (f # sc) ny nx
  = acc + b2z (flag1 fy fx p) + 2 * b2z (flag2 ny nx (Zpos sc) p) + 4 * b2z (flag4 p).
Proof.
  intros. destruct (p_par p) as [[x y] f] eqn:E.
  unfold gen_flags_1_2_4, flag1, flag2, flag4, b2z. rewrite E. cbv zeta.
  q_split; q_to_z; if_split; lia.
Qed.

(* starting from 0 (flags = np.zeros(...)): the three low bits of the model's flag word *)
Theorem gen_flags_low_bits : forall ny nx fy fx (sc : positive) xyb (p : psrc),
  let '(x, y, f) := p_par p in
  flags ny nx fy fx (Zpos sc) xyb p
  = gen_flags_1_2_4 fy fx 0 (Z.of_nat (p_npix p)) (x # sc) (y # sc) (f # sc) ny nx
    + 8 * b2z (flag8 p) + 16 * b2z (flag16 p) + 32 * b2z (flag32 xyb p).
Proof.
  intros. pose proof (gen_flags_1_2_4_eq ny nx fy fx sc p 0) as H.
  destruct (p_par p) as [[x y] f]. rewrite H. unfold flags. lia.
Qed.

(* the three conditions, read off the regenerated code: fewer fitted pixels than the fit window;
   fitted centre outside [0, nx] x [0, ny] (closed: a centre exactly on shape is NOT flagged); flux <= 0 *)
Theorem gen_flags_1_2_4_spec : forall fy fx npix (x y f : Q) ny nx,
  gen_flags_1_2_4 fy fx 0 npix x y f ny nx
  = (if npix <? fy * fx then 1 else 0)
    + (if Qltb x 0 || Qltb y 0 || Qltb (inject_Z nx) x || Qltb (inject_Z ny) y then 2 else 0)
    + (if Qle_bool f 0 then 4 else 0).
Proof.
  intros. unfold gen_flags_1_2_4. cbv zeta.
  q_split; repeat match goal with |- context [(?a <? ?b)%Z] => destruct (a <? b)%Z eqn:? end; reflexivity.
Qed.

(* ---------- _get_invalid_positions ---------- *)
Lemma Qceiling_frac (n : Z) (d : positive) : Qceiling (n # d) = cdiv n (Zpos d).
Proof. unfold Qceiling, Qfloor, cdiv. cbn. reflexivity. Qed.

Lemma ceil_pos_minus (c f : Z) (sc : positive) :
  Qceiling ((c # sc) - inject_Z f / (2 # 1)) = lo (Zpos sc) c f.
Proof.
  unfold lo. change (2 * Z.pos sc) with (Z.pos (2 * sc)). rewrite <- (Qceiling_frac (2 * c - f * Zpos sc) (2 * sc)).
  apply Qceiling_comp. unfold Qeq, Qminus, Qplus, Qopp, Qdiv, Qmult, Qinv, inject_Z. cbn [Qnum Qden].
  rewrite ?Pos2Z.inj_mul. ring.
Qed.
Lemma ceil_pos_plus (c f : Z) (sc : positive) :
  Qceiling ((c # sc) + inject_Z f / (2 # 1)) = hi (Zpos sc) c f.
Proof.
  unfold hi. change (2 * Z.pos sc) with (Z.pos (2 * sc)). rewrite <- (Qceiling_frac (2 * c + f * Zpos sc) (2 * sc)).
  apply Qceiling_comp. unfold Qeq, Qplus, Qdiv, Qmult, Qinv, inject_Z. cbn [Qnum Qden].
  rewrite ?Pos2Z.inj_mul. ring.
Qed.

Theorem gen_invalid_position_eq : forall ny nx fy fx (sc : positive) (s : src),
  gen_invalid_position fy fx ny nx (s_x s # sc) (s_y s # sc) = invalid ny nx fy fx (Zpos sc) s.
Proof.
  intros. unfold gen_invalid_position, invalid. cbv zeta.
  rewrite !ceil_pos_minus, !ceil_pos_plus. if_split; lia.
Qed.

(* what the regenerated test says: a source is rejected iff its fit window [ceil(c - f/2), ceil(c + f/2)) misses
   the image on some axis *)
Theorem gen_invalid_position_iff : forall ny nx fy fx (sc : positive) (s : src),
  gen_invalid_position fy fx ny nx (s_x s # sc) (s_y s # sc) = true <->
  (hi (Zpos sc) (s_y s) fy <= 0 \/ hi (Zpos sc) (s_x s) fx <= 0 \/
   ny <= lo (Zpos sc) (s_y s) fy \/ nx <= lo (Zpos sc) (s_x s) fx).
Proof. intros. rewrite gen_invalid_position_eq. unfold invalid. lia. Qed.

Print Assumptions gen_flags_1_2_4_eq.
Print Assumptions gen_flags_low_bits.
Print Assumptions gen_flags_1_2_4_spec.
Print Assumptions Qceiling_frac.
Print Assumptions ceil_pos_minus.
Print Assumptions ceil_pos_plus.
Print Assumptions gen_invalid_position_eq.
Print Assumptions gen_invalid_position_iff.
