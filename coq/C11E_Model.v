(* C11E — stretch of C11: the background / background-RMS estimator classes that C11 leaves as
   the Section variables [est] and [rms], modelled in exact arithmetic over Q.

   photutils/background/core.py, the arithmetic AFTER sigma clipping (the `sigma_clip=None`
   path of calc_background / calc_background_rms on the non-NaN values of one box, in order):

     MeanBackground              nanmean(data)
     MedianBackground            nanmedian(data)
     ModeEstimatorBackground     median_factor*nanmedian(data) - mean_factor*nanmean(data)
     MMMBackground               ModeEstimatorBackground(median_factor=3, mean_factor=2)
     SExtractorBackground        bkg = 2.5*median - 1.5*mean
                                 bkg[std == 0] = mean
                                 bkg[(|mean - median|/std >= 0.3) & ~(std == 0)] = median
     BiweightLocationBackground  photutils/extern/biweight.py: biweight_location(data, c, M=None)
                                   M = median; d = data - M; mad = median(|data - median|)
                                   mad == 0 -> M
                                   u = d/(c*mad); w = (1 - u^2)^2, w[|u| >= 1] = 0
                                   M + sum(d*w)/sum(w)
     StdBackgroundRMS            nanstd(data)                      (ddof = 0)
     MADStdBackgroundRMS         astropy mad_std = MAD * 1.482602218505602
     BiweightScaleBackgroundRMS  sqrt(biweight_midvariance(data, c, M=None))
                                   mad == 0 -> mad**2
                                   u = d/(c*mad); inside = |u| < 1; u = u^2; n = number of values
                                   f1 = sum_inside d*d*(1-u)^4
                                   f2 = |sum_inside (1-u)*(1-5u)|^2
                                   n*f1/f2

   The RMS classes need a square root: the model is the SQUARED statistic ([rms2_*]: population
   variance; (k*MAD)^2 with the constant k an input; the biweight midvariance).  The SExtractor
   switch |mean - median|/std >= 0.3 is decided on squares, (mean - median)^2 >= 0.09*var
   ([sext_switch_is_ratio_test] in C11E_Properties proves it equivalent to the ratio test whenever
   the root exists).

   Not modelled: a user-supplied M for the biweight classes (M=None only), modify_sample_size,
   masked-array input, units.  Division by zero: in Q, x/0 = 0, whereas the code produces NaN/inf;
   [biweight_defined] / [midvariance_defined] say when the quotient of the code is a number
   ([biweight_location_defined] proves the first for every c > 1), and the correspondence expects a
   non-finite implementation result exactly when they are false.

   Statistics reused: [qmedian] (C11_Model), [sumQ] [lenQ] [meanQ] [varQ] (C11S_Model). *)
From Coq Require Import List Arith ZArith QArith Qabs Bool Lia.
From PV Require Import lib.Cases C11_Model C11S_Model.
Import ListNotations.
Open Scope Q_scope.

(* ---------------- MAD ---------------- *)
Definition absdev (m : Q) (l : list Q) : list Q := map (fun x => Qabs (x - m)) l.
(* median_absolute_deviation: median(|data - median(data)|) *)
Definition madQ (l : list Q) : Q := qmedian (absdev (qmedian l) l).

(* ---------------- background estimators ---------------- *)
Definition est_mean (l : list Q) : Q := meanQ l.
Definition est_median (l : list Q) : Q := qmedian l.
Definition est_mode (mf nf : Q) (l : list Q) : Q := mf * qmedian l - nf * meanQ l.
Definition est_mmm (l : list Q) : Q := est_mode 3 2 l.

Definition est_sext (l : list Q) : Q :=
  let med := qmedian l in
  let mean := meanQ l in
  let var := varQ l in
  if Qeq_bool var 0 then mean                                              (* _std == 0 *)
  else if Qle_bool ((9 # 100) * var) ((mean - med) * (mean - med)) then med  (* |mean-med|/std >= 0.3 *)
  else (5 # 2) * med - (3 # 2) * mean.

(* biweight: s = c * mad *)
Definition bw_u (M s x : Q) : Q := (x - M) / s.
Definition bw_w (M s x : Q) : Q :=
  let u := bw_u M s x in
  if Qle_bool 1 (Qabs u) then 0 else (1 - u * u) * (1 - u * u).
Definition bw_num (M s : Q) (l : list Q) : Q := sumQ (map (fun x => (x - M) * bw_w M s x) l).
Definition bw_den (M s : Q) (l : list Q) : Q := sumQ (map (bw_w M s) l).
Definition est_biweight (c : Q) (l : list Q) : Q :=
  let M := qmedian l in
  let mad := madQ l in
  if Qeq_bool mad 0 then M
  else M + bw_num M (c * mad) l / bw_den M (c * mad) l.
Definition biweight_defined (c : Q) (l : list Q) : bool :=
  Qeq_bool (madQ l) 0 || negb (Qeq_bool (bw_den (qmedian l) (c * madQ l) l) 0).

(* ---------------- squared RMS statistics ---------------- *)
Definition rms2_std (l : list Q) : Q := varQ l.
Definition rms2_madstd (kf : Q) (l : list Q) : Q := (kf * madQ l) * (kf * madQ l).

Definition bs_in (M s x : Q) : bool := Qlt_bool (Qabs (bw_u M s x)) 1.
Definition bs_t1 (M s x : Q) : Q :=
  if bs_in M s x
  then let v := 1 - bw_u M s x * bw_u M s x in (x - M) * (x - M) * ((v * v) * (v * v))
  else 0.
Definition bs_t2 (M s x : Q) : Q :=
  if bs_in M s x
  then let u2 := bw_u M s x * bw_u M s x in (1 - u2) * (1 - 5 * u2)
  else 0.
Definition bs_f1 (M s : Q) (l : list Q) : Q := sumQ (map (bs_t1 M s) l).
Definition bs_s2 (M s : Q) (l : list Q) : Q := sumQ (map (bs_t2 M s) l).     (* f2 = |bs_s2|^2 *)
Definition rms2_biweight (c : Q) (l : list Q) : Q :=
  let M := qmedian l in
  let mad := madQ l in
  if Qeq_bool mad 0 then mad * mad
  else lenQ l * bs_f1 M (c * mad) l / (bs_s2 M (c * mad) l * bs_s2 M (c * mad) l).
Definition midvariance_defined (c : Q) (l : list Q) : bool :=
  Qeq_bool (madQ l) 0 || negb (Qeq_bool (bs_s2 (qmedian l) (c * madQ l) l) 0).

(* ---------------- the classes ---------------- *)
Inductive bkg_class :=
| BMean | BMedian | BMode (median_factor mean_factor : Q) | BMMM | BSExtractor | BBiweight (c : Q).
Inductive rms_class := RStd | RMADStd (kf : Q) | RBiweight (c : Q).

Definition est_of_class (B : bkg_class) : list Q -> Q :=
  match B with
  | BMean => est_mean
  | BMedian => est_median
  | BMode mf nf => est_mode mf nf
  | BMMM => est_mmm
  | BSExtractor => est_sext
  | BBiweight c => est_biweight c
  end.
Definition rms2_of_class (R : rms_class) : list Q -> Q :=
  match R with
  | RStd => rms2_std
  | RMADStd kf => rms2_madstd kf
  | RBiweight c => rms2_biweight c
  end.
(* the classes whose estimator is equivariant under v -> a*v + b: all of them, a
   ModeEstimatorBackground only when median_factor - mean_factor = 1 (the defaults 3, 2) *)
Definition class_equivariant (B : bkg_class) : Prop :=
  match B with BMode mf nf => mf - nf == 1 | _ => True end.

(* the instances for C11's [est rms : list Z -> Q] (scaled-integer pixel values); [rt] stands for
   the square root that turns the squared statistic into the RMS *)
Definition estZ (B : bkg_class) (l : list Z) : Q := est_of_class B (map inject_Z l).
Definition rms2Z (R : rms_class) (l : list Z) : Q := rms2_of_class R (map inject_Z l).
Definition rmsZ (rt : Q -> Q) (R : rms_class) (l : list Z) : Q := rt (rms2Z R l).
(* sigma_clip=None or the SigmaClip model of C11S *)
Definition clip_of (o : option params) : list Z -> list Z :=
  match o with None => noclip | Some P => clipZ P end.

(* ---------------- correspondence ---------------- *)
(* an IEEE double m * 2^e; None = NaN / inf *)
Definition fl := option (Z * Z).
Definition flQ (f : Z * Z) : Q :=
  let (m, e) := f in
  if (0 <=? e)%Z then inject_Z (m * 2 ^ e) else Qmake m (Z.to_pos (2 ^ (- e))).

(* one estimator class run on the values of a case:
   (class code, parameter 1, parameter 2, implementation results of the different call paths)
   codes: 0 Mean, 1 Median, 2 ModeEstimator(p1, p2), 3 MMM, 4 SExtractor, 5 BiweightLocation(c = p1),
          10 Std, 11 MADStd(k = p1), 12 BiweightScale(c = p1) *)
Definition est_entry := (Z * zq * zq * list fl)%type.
(* (den, values*den, entries) *)
Definition est_case := (Z * list Z * list est_entry)%type.

Definition bkg_of_code (k : Z) (p1 p2 : Q) : bkg_class :=
  if (k =? 0)%Z then BMean else if (k =? 1)%Z then BMedian else if (k =? 2)%Z then BMode p1 p2
  else if (k =? 3)%Z then BMMM else if (k =? 4)%Z then BSExtractor else BBiweight p1.
Definition rms_of_code (k : Z) (p1 : Q) : rms_class :=
  if (k =? 10)%Z then RStd else if (k =? 11)%Z then RMADStd p1 else RBiweight p1.

Definition all_equal (l : list Q) : bool :=
  match l with [] => true | x :: r => forallb (Qeq_bool x) r end.
Definition maxabs (l : list Q) : Q := fold_right (fun x m => qmax2 (Qabs x) m) 0 l.
Definition two40 : Q := inject_Z (2 ^ 40).

(* location estimators.  Exact equality for the median, and for constant lists in the classes whose
   code path then returns an input value or the mean (Mean, SExtractor through `_std == 0`,
   BiweightLocation through `mad == 0`; the generator only feeds constant lists whose float mean is
   exact: dyadic lattice values, or full-mantissa constants with n <= 2); otherwise (incl. the mode
   estimators, which compute mf*c - nf*c with roundings)
       |impl - model| * min(1, D) <= 2^-40 * max|x|
   where D = 1, except for the biweight location where D = sum of the weights (the condition
   number of the quotient sum(d*w)/sum(w)). *)
Definition check_bkg (B : bkg_class) (l : list Q) (impl : list fl) : bool :=
  let q := est_of_class B l in
  let defined := match B with BBiweight c => biweight_defined c l | _ => true end in
  let cond := match B with
              | BBiweight c => if Qeq_bool (madQ l) 0 then 1
                               else qmin2 1 (bw_den (qmedian l) (c * madQ l) l)
              | _ => 1
              end in
  let exact := match B with BMedian => true | BMode _ _ => false | BMMM => false | _ => all_equal l end in
  forallb (fun o : fl =>
    match o with
    | None => negb defined
    | Some f =>
        defined &&
        (if exact then Qeq_bool (flQ f) q
         else Qle_bool (Qabs (flQ f - q) * two40 * cond) (maxabs l))
    end) impl.

(* RMS estimators, on squares.  model = 0 (constant list / MAD = 0) must be reproduced exactly;
   otherwise  |impl^2 - model| * min(1, |S|) <= 2^-38 * model,  S = 1 except for the biweight
   scale where S = sum_inside (1-u)(1-5u) (f2 = S^2 is the denominator). *)
Definition check_rms (R : rms_class) (l : list Q) (impl : list fl) : bool :=
  let q := rms2_of_class R l in
  let defined := match R with RBiweight c => midvariance_defined c l | _ => true end in
  let cond := match R with
              | RBiweight c => if Qeq_bool (madQ l) 0 then 1
                               else qmin2 1 (Qabs (bs_s2 (qmedian l) (c * madQ l) l))
              | _ => 1
              end in
  forallb (fun o : fl =>
    match o with
    | None => negb defined
    | Some f =>
        let v := flQ f in
        defined && Qle_bool 0 v &&
        (if Qeq_bool q 0 then Qeq_bool v 0
         else Qle_bool (Qabs (v * v - q) * two40 * cond) (4 * q))
    end) impl.

Definition check_entry (l : list Q) (e : est_entry) : bool :=
  let '(k, p1, p2, impl) := e in
  if (k <? 10)%Z then check_bkg (bkg_of_code k (toQ p1) (toQ p2)) l impl
  else check_rms (rms_of_code k (toQ p1)) l impl.

Definition check_est_case (c : est_case) : bool :=
  let '(den, zs, entries) := c in
  let l := case_values den zs in
  match l with
  | [] => false
  | _ :: _ => forallb (check_entry l) entries
  end.

(* the model's answers for one case (diagnostics): the shared statistics, then per entry
   (code, check result, value, defined) *)
Definition est_model_out (c : est_case) :=
  let '(den, zs, entries) := c in
  let l := case_values den zs in
  ((Qred (qmedian l), Qred (meanQ l), Qred (varQ l), Qred (madQ l)),
   map (fun e : est_entry =>
     let '(k, p1, p2, impl) := e in
     if (k <? 10)%Z
     then (k, check_entry l e, Qred (est_of_class (bkg_of_code k (toQ p1) (toQ p2)) l),
           match bkg_of_code k (toQ p1) (toQ p2) with BBiweight c => biweight_defined c l | _ => true end)
     else (k, check_entry l e, Qred (rms2_of_class (rms_of_code k (toQ p1)) l),
           match rms_of_code k (toQ p1) with RBiweight c => midvariance_defined c l | _ => true end))
     entries).
