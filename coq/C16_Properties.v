(* C16 — ApertureStats values equal direct statistics of the aperture pixel set.
   Property theorems only; each is closed by [exact] of a lemma of C16_Proofs.

   Objects (C16_Model.v): [apstats_one sc a bkg] = everything ApertureStats computes for ONE aperture
   position [a] (bounding box, centre-method weights a_Wc, sum-method weights a_Ws, SigmaClip output
   masks of the two cutout families) of scene [sc] (data, mask, error, sum_method == 'center') with
   local background [bkg]; it mirrors the code's overlap slices and cutouts.
   Specification (C16_Proofs.v): [A_pixels sc b W clip] = the pixels p of the WHOLE image, in
   raster order, with p inside box b, weight W[p - box origin] <> 0 (for W = a_Wc: "the pixel centre
   lies in the aperture"), not masked, finite, not rejected by the sigma clip ([inA]);
   [value_at sc bkg p] = data[p] - bkg.  No slice or cutout appears on the specification side.

   Hypotheses that are about inputs taken from the implementation / the library:
     [binary (a_Wc a)]        to_mask(method='center') has weights 0 / 1;
     [nonneg (a_Ws a)]        to_mask weights are >= 0;
     [clip_keeps_mask ...]    the SigmaClip output mask contains the mask it was given (trivially
                              true when sigma_clip is None).
   The harness checks all three on every generated case. *)
From Coq Require Import List ZArith Bool Lia Permutation Sorted.
From PV Require Import lib.Cases C16_Model C16_Proofs.
Import ListNotations.
Open Scope Z_scope.

(* which pixels form the set: exactly the property's description *)
Theorem pixel_set_membership : forall sc b W clip p,
  In p (A_pixels sc b W clip) <->
  (0 <= fst p < s_ny sc /\ 0 <= snd p < s_nx sc) /\
  in_box b (fst p) (snd p) && negb (weight_px b W p =? 0) && negb (mask_at sc (fst p) (snd p))
  && finite_at sc (fst p) (snd p) && negb (clipped_at b clip (fst p) (snd p)) = true.
Proof. exact A_pixels_In. Qed.
Print Assumptions pixel_set_membership.

(* the value list every centre statistic is computed from (_data_values_center) is
   data - local_bkg over the pixel set, in raster order; [NaN] when the set is empty *)
Theorem values_are_set_values : forall sc a bkg,
  binary (a_Wc a) -> clip_keeps_mask sc (a_box a) (a_Wc a) bkg (a_clipc a) ->
  values_center sc a bkg
  = get_values_of (A_pixels sc (a_box a) (a_Wc a) (a_clipc a)) (fun p => Some (value_at sc bkg p)).
  (* [get_values_of l f] = [NaN] if l is empty, else map f l *)
Proof. exact values_center_spec. Qed.
Print Assumptions values_are_set_values.

(* sum (of the centre values), min, max, mean = (S, n), median = middle order statistic(s) of ANY
   sorted permutation, var = (num, n^2) with n * num = sum (n z - S)^2, centre area = number of
   pixels — all over the pixel set, after subtracting this position's background *)
Theorem stats_are_set_statistics : forall sc a bkg,
  binary (a_Wc a) -> clip_keeps_mask sc (a_box a) (a_Wc a) bkg (a_clipc a) ->
  let A := A_pixels sc (a_box a) (a_Wc a) (a_clipc a) in
  let zs := map (value_at sc bkg) A in
  let r := apstats_one sc a bkg in
  A <> [] ->
  v_sum (r_vs r) = Some (zsum zs) /\
  (exists m, v_min (r_vs r) = Some m /\ In m zs /\ forall z, In z zs -> m <= z) /\
  (exists m, v_max (r_vs r) = Some m /\ In m zs /\ forall z, In z zs -> z <= m) /\
  v_mean (r_vs r) = Some (zsum zs, len zs) /\
  (forall s, Permutation s zs -> Sorted Z.le s ->
     v_median (r_vs r) = Some (nth ((length zs - 1) / 2) s 0 + nth (length zs / 2) s 0, 2)) /\
  (exists num, v_var (r_vs r) = Some (num, len zs * len zs) /\ len zs * num = sqdev (len zs) (zsum zs) zs) /\
  r_center_area r = Some (len zs).
Proof. exact stats_spec_lemma. Qed.
Print Assumptions stats_are_set_statistics.

(* centroid = flux-weighted mean IMAGE coordinate of the set's pixels; covariance (before the
   regularisation of thin sources) = normalised central second moments about that centroid.
   A zero total (or an empty set) gives NaN ([quot _ 0 = None]). *)
Theorem centroid_and_covariance_are_set_moments : forall sc a bkg,
  binary (a_Wc a) -> clip_keeps_mask sc (a_box a) (a_Wc a) bkg (a_clipc a) ->
  let A := A_pixels sc (a_box a) (a_Wc a) (a_clipc a) in
  let r := apstats_one sc a bkg in
  r_xc r = quot (Sx sc bkg A) (S0 sc bkg A) /\
  r_yc r = quot (Sy sc bkg A) (S0 sc bkg A) /\
  r_cxx r = quot (S0 sc bkg A * Sxx sc bkg A - Sx sc bkg A * Sx sc bkg A) (S0 sc bkg A * S0 sc bkg A) /\
  r_cxy r = quot (S0 sc bkg A * Sxy sc bkg A - Sy sc bkg A * Sx sc bkg A) (S0 sc bkg A * S0 sc bkg A) /\
  r_cyy r = quot (S0 sc bkg A * Syy sc bkg A - Sy sc bkg A * Sy sc bkg A) (S0 sc bkg A * S0 sc bkg A).
Proof. exact centroid_cov_spec. Qed.
Print Assumptions centroid_and_covariance_are_set_moments.

(* ... and those numerators are the weighted squared deviations from the centroid Sx / S0 *)
Theorem covariance_is_weighted_deviation : forall sc bkg A,
  S0 sc bkg A * (S0 sc bkg A * Sxx sc bkg A - Sx sc bkg A * Sx sc bkg A)
  = zsum (map (fun p => value_at sc bkg p * ((S0 sc bkg A * snd p - Sx sc bkg A) * (S0 sc bkg A * snd p - Sx sc bkg A))) A) /\
  S0 sc bkg A * (S0 sc bkg A * Syy sc bkg A - Sy sc bkg A * Sy sc bkg A)
  = zsum (map (fun p => value_at sc bkg p * ((S0 sc bkg A * fst p - Sy sc bkg A) * (S0 sc bkg A * fst p - Sy sc bkg A))) A).
Proof. exact (fun sc bkg A => conj (cov_xx_identity sc bkg A) (cov_yy_identity sc bkg A)). Qed.
Print Assumptions covariance_is_weighted_deviation.

(* sum, sum_err^2 and sum_aper_area equal the aperture-photometry sum / area overlap for the same
   weights, whenever at least one unmasked (and unclipped) pixel has positive weight.  [M] is the
   mask handed to aperture_photometry: on the box it equals mask | non-finite | clipped. *)
Theorem sum_eq_photometry : forall sc a bkg M,
  (s_center sc = true -> a_Ws a = a_Wc a /\ a_clips a = a_clipc a) ->
  nonneg (a_Ws a) ->
  clip_keeps_mask sc (a_box a) (a_Ws a) bkg (a_clips a) ->
  photmask_ok sc (a_box a) (a_Ws a) bkg (a_clips a) M ->
  A_pixels sc (a_box a) (a_Ws a) (a_clips a) <> [] ->
  let ref := photometry_one_ref (a_box a) (a_Ws a) (s_ny sc) (s_nx sc) (sub_img (s_data sc) bkg) (s_err sc) (Some M) in
  ap_sum sc a bkg = fst ref /\ ap_sum_var sc a bkg = snd ref /\
  sum_aper_area sc a bkg = area_overlap_one_ref (a_box a) (a_Ws a) (s_ny sc) (s_nx sc) (Some M).
Proof. exact sum_eq_photometry_lemma. Qed.
Print Assumptions sum_eq_photometry.

(* no overlap with the image: every statistic is NaN (the model is total: no error case exists) *)
Theorem no_overlap_is_nan : forall sc a bkg,
  overlap_slices (a_box a) (s_ny sc) (s_nx sc) = None ->
  all_nan (apstats_one sc a bkg) /\ r_mom (apstats_one sc a bkg) = None.
Proof. exact no_overlap_all_nan. Qed.
Print Assumptions no_overlap_is_nan.

(* no unmasked pixel centre in the aperture: every centre statistic, the centroid and the shape
   moments are NaN *)
Theorem no_pixels_is_nan : forall sc a bkg,
  binary (a_Wc a) -> clip_keeps_mask sc (a_box a) (a_Wc a) bkg (a_clipc a) ->
  A_pixels sc (a_box a) (a_Wc a) (a_clipc a) = [] ->
  let r := apstats_one sc a bkg in
  r_center_area r = None /\ r_vs r = nan_vstats /\ r_xc r = None /\ r_yc r = None /\
  r_cxx r = None /\ r_cxy r = None /\ r_cyy r = None.
Proof. exact empty_center_set_nan. Qed.
Print Assumptions no_pixels_is_nan.

(* no unmasked pixel with non-zero sum-method weight: sum, sum_err, sum_aper_area are NaN *)
Theorem no_sum_pixels_is_nan : forall sc a bkg,
  (s_center sc = true -> a_Ws a = a_Wc a /\ a_clips a = a_clipc a) ->
  clip_keeps_mask sc (a_box a) (a_Ws a) bkg (a_clips a) ->
  A_pixels sc (a_box a) (a_Ws a) (a_clips a) = [] ->
  ap_sum sc a bkg = None /\ ap_sum_var sc a bkg = None /\ sum_aper_area sc a bkg = None.
Proof. exact empty_sum_set_nan. Qed.
Print Assumptions no_sum_pixels_is_nan.

(* each position is evaluated with ITS OWN local background (scalar broadcast or i-th element) ... *)
Theorem local_bkg_per_position : forall sc apers lb rs i a,
  apstats sc apers lb = Some rs -> nth_error apers i = Some a ->
  nth_error rs i = Some (apstats_one sc a (bkg_of lb i)).
Proof. exact apstats_nth. Qed.
Print Assumptions local_bkg_per_position.

(* ... and a local background is exactly a subtraction from the image *)
Theorem local_bkg_is_subtraction : forall sc a bkg,
  apstats_one (with_data sc (sub_img (s_data sc) bkg)) a 0 = apstats_one sc a bkg.
Proof. exact apstats_one_bkg. Qed.
Print Assumptions local_bkg_is_subtraction.

(* integer translation: if a second scene shows the same pixels, mask and errors under the box
   displaced by (dy, dx) — and the displaced box meets the second frame in the displaced window —
   every statistic is unchanged except the centroid and the bounding box, which move by (dy, dx) *)
Theorem apstats_shift : forall sc sc' a dy dx bkg,
  same_window sc sc' (a_box a) dy dx ->
  apstats_one sc' (shift_aper dy dx a) bkg = shift_stats dy dx (apstats_one sc a bkg).
Proof. exact apstats_shift_lemma. Qed.
Print Assumptions apstats_shift.

(* the window condition holds whenever box and displaced box lie inside their frames *)
Theorem shift_window_inside : forall b ny nx ny' nx' dy dx,
  0 <= iymin b -> iymin b < iymax b <= ny -> 0 <= ixmin b -> ixmin b < ixmax b <= nx ->
  0 <= iymin b + dy -> iymax b + dy <= ny' -> 0 <= ixmin b + dx -> ixmax b + dx <= nx' ->
  overlap_slices (shift_box dy dx b) ny' nx'
  = match overlap_slices b ny nx with
    | Some (large, small) => Some (shift_slices dy dx large, small)
    | None => None
    end.
Proof. exact overlap_shift_inside. Qed.
Print Assumptions shift_window_inside.

(* ---- the two defects of the unrepaired code (fixes/C16-1, C16-2): the model of HEAD violates the
   property on concrete inputs, the repaired model does not ---- *)
Theorem centroid_v0_refuted :
  exists sc a bkg,
    binary (a_Wc a) /\ clip_keeps_mask sc (a_box a) (a_Wc a) bkg (a_clipc a) /\
    let A := A_pixels sc (a_box a) (a_Wc a) (a_clipc a) in
    fst (centroid_with (centroid_origin_v0 (a_box a)) (moments_of (fam_center sc a bkg))) = Some (-16, 8) /\
    quot (Sx sc bkg A) (S0 sc bkg A) = Some (0, 8) /\
    r_xc (apstats_one sc a bkg) = Some (0, 8).
Proof. exact centroid_v0_refuted_lemma. Qed.
Print Assumptions centroid_v0_refuted.

Theorem sum_aper_area_v0_refuted :
  exists sc a bkg M,
    (s_center sc = true -> a_Ws a = a_Wc a /\ a_clips a = a_clipc a) /\
    nonneg (a_Ws a) /\ clip_keeps_mask sc (a_box a) (a_Ws a) bkg (a_clips a) /\
    photmask_ok sc (a_box a) (a_Ws a) bkg (a_clips a) M /\
    A_pixels sc (a_box a) (a_Ws a) (a_clips a) <> [] /\
    sum_aper_area_v0 sc a bkg = None /\
    area_overlap_one_ref (a_box a) (a_Ws a) (s_ny sc) (s_nx sc) (Some M) = Some 4 /\
    sum_aper_area sc a bkg = Some 4.
Proof. exact sum_area_v0_refuted_lemma. Qed.
Print Assumptions sum_aper_area_v0_refuted.

(* ---- non-vacuity: concrete instances ---- *)
(* 4 x 5 image, a 3 x 3 box straddling the left edge, cross-shaped centre mask, one masked pixel,
   one NaN, a SigmaClip mask that keeps its input mask and rejects the pixel of value 400,
   local background 8 (all values scaled by 8) *)
Definition ex_sc : scene :=
  mkscene 4 5 [[Some 8; Some 16; Some 24; Some 32; Some 40];
               [Some 48; Some 400; Some 64; Some 72; Some 80];
               [None; Some 96; Some 104; Some 112; Some 120];
               [Some 128; Some 136; Some 144; Some 152; Some 160]]
          (Some [[false; false; false; false; false]; [false; false; false; false; false];
                 [false; false; false; false; false]; [true; false; false; false; false]])
          (* error map: NaN at the NaN data pixel (2, 0) and at the masked pixel (3, 0): ignored by sum_err *)
          (Some [[Some 8; Some 8; Some 8; Some 8; Some 8]; [Some 8; Some 8; Some 8; Some 8; Some 8];
                 [None; Some 8; Some 8; Some 8; Some 8]; [None; Some 8; Some 8; Some 8; Some 8]]) false.
Definition ex_a : aper :=
  mkaper (mkbox (-1) 2 1 4) [[0; 1; 0]; [1; 1; 1]; [0; 1; 0]] [[1; 2; 1]; [2; 4; 2]; [1; 2; 1]]
         (Some [[false; true]; [true; false]; [true; true]])      (* cutout = rows 1..3, columns 0..1 *)
         (Some [[false; true]; [true; false]; [true; false]]).

Example ex_hypotheses :
  clip_keeps_mask ex_sc (a_box ex_a) (a_Wc ex_a) 8 (a_clipc ex_a) /\
  clip_keeps_mask ex_sc (a_box ex_a) (a_Ws ex_a) 8 (a_clips ex_a) /\
  A_pixels ex_sc (a_box ex_a) (a_Wc ex_a) (a_clipc ex_a) = [(1, 0); (2, 1)] /\
  A_pixels ex_sc (a_box ex_a) (a_Ws ex_a) (a_clips ex_a) = [(1, 0); (2, 1); (3, 1)].
Proof.
  repeat split; try (vm_compute; reflexivity);
    unfold clip_keeps_mask; vm_compute; intros jk [<-|[<-|[<-|[<-|[<-|[<-|[]]]]]]]; intros; try reflexivity;
    discriminate.
Qed.

Example ex_stats :
  let r := apstats_one ex_sc ex_a 8 in
  values_center ex_sc ex_a 8 = [Some 40; Some 88] /\
  r_vs r = mkvstats (Some 128) (Some 40) (Some 88) (Some (128, 2)) (Some (128, 2)) (Some (2304, 4)) /\
  r_xc r = Some (88, 128) /\ r_yc r = Some (216, 128) /\
  r_sum r = Some (40 * 2 + 88 * 2 + 128 * 1) /\ r_sum_var r = Some (64 * 2 + 64 * 2 + 64 * 1) /\
  r_sum_area r = Some 5 /\ r_center_area r = Some 2.
Proof. vm_compute. repeat split; reflexivity. Qed.

(* the same box two pixels to the right and one down inside a larger frame: hypotheses of
   [apstats_shift] hold *)
Example ex_shift_window :
  overlap_slices (shift_box 1 2 (mkbox 1 4 1 3)) 9 9
  = match overlap_slices (mkbox 1 4 1 3) 5 6 with
    | Some (large, small) => Some (shift_slices 1 2 large, small)
    | None => None
    end.
Proof. vm_compute. reflexivity. Qed.

(* hypotheses of [sum_eq_photometry] on the same example: the mask handed to aperture_photometry is
   mask | non-finite | clipped; the reference sums agree with [ex_stats] *)
Definition ex_M : img bool :=
  [[false; false; false; false; false]; [false; true; false; false; false];
   [true; false; false; false; false]; [true; false; false; false; false]].
Example ex_sum_eq_photometry_hypotheses :
  nonneg (a_Ws ex_a) /\
  photmask_ok ex_sc (a_box ex_a) (a_Ws ex_a) 8 (a_clips ex_a) ex_M /\
  A_pixels ex_sc (a_box ex_a) (a_Ws ex_a) (a_clips ex_a) <> [] /\
  photometry_one_ref (a_box ex_a) (a_Ws ex_a) 4 5 (sub_img (s_data ex_sc) 8) (s_err ex_sc) (Some ex_M)
    = (Some 384, Some 320) /\
  area_overlap_one_ref (a_box ex_a) (a_Ws ex_a) 4 5 (Some ex_M) = Some 5.
Proof.
  split; [unfold nonneg, ex_a, a_Ws; solve_get2; lia|].
  split; [unfold photmask_ok; vm_compute; intros jk [<-|[<-|[<-|[<-|[<-|[<-|[]]]]]]]; reflexivity|].
  split; [vm_compute; discriminate|].
  vm_compute. split; reflexivity.
Qed.
