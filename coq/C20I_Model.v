(* C20I — stretch of C20: the SAMPLING code of photutils.isophote, modelled in exact arithmetic
   over Q.  (C20_Model.v has the polar-transform twins, the fit_image control skeleton and the
   corrector logic; the code that actually reads the image is here.)

   Modelled, statement by statement, as coded on /repo:

   (1) integrator.py:173-201  _BiLinearIntegrator.integrate
         x_ = radius*cos(phi+pa) + x0;  y_ = radius*sin(phi+pa) + y0
         i = int(x_); j = int(y_)                  -- int() TRUNCATES TOWARDS ZERO ([pyint])
         fx = x_ - i; fy = y_ - j
         if (i in range(shape[1]-1)) and (j in range(shape[0]-1)):   ([i_range], [j_range])
             qx = 1 - fx; qy = 1 - fy
             if none of image[j][i], image[j+1][i], image[j][i+1], image[j+1][i+1] is masked:
                 sample = image[j][i]*qx*qy + image[j+1][i]*qx*fy
                        + image[j][i+1]*fx*qy + image[j+1][i+1]*fy*fx
                 angles.append(phi); radii.append(radius); intensities.append(sample)
   (2) integrator.py:146-161  _NearestNeighborIntegrator.integrate (int() truncation, the same
       two ranges, sample = image[j][i]).
   (3) geometry.py:140-154 (sector_angular_width / initial_polar_angle from bounding_ellipses,
       linear vs geometric growth), sample.py:155-238 EllipseSample._extract for the
       non-area integrators: the walk  phi <= 2*pi + phi_min,  phi += min(1/radius, 0.5),
       radius = geometry.radius(phi);  total_points;  sample.py:240-273 _sigma_clip /
       _iter_sigma_clip (nclip iterations,  lower <= v < upper  -- the upper bound is STRICT);
       sample.py:360-382 coordinates().
   (4) integrator.py:248-295 the pixel loop / accumulator / fallback of the area integrators
       (_MeanIntegrator, _MedianIntegrator) with the sector-membership test (to_polar, sqrt,
       acos: library numerics) as a Section variable.

   Inputs that stand for library numerics (never computed here): the values cos(phi+pa),
   sin(phi+pa) of every sampling angle (exact rationals taken from the implementation),
   geometry.radius as a function [rad : Q -> Q], the loop bound 2*pi + phi_min as [stop].
   np.std is a square root: every comparison with  sclip*std  is decided on squares
   ([gt_sqrt], [ge_sqrt]); C20I_Proofs proves them equal to the comparison with the root
   whenever the root exists in Q.

   A masked pixel (image[j][i] is np.ma.masked) is [None].  NaN pixels are outside the model. *)
From Coq Require Import List ZArith QArith Qround Bool.
From PV Require Import lib.Cases.
Import ListNotations.
Open Scope Q_scope.

(* ------------------------------------------------------------------ *)
(* Python builtins                                                     *)
(* ------------------------------------------------------------------ *)
Definition Qltb (a b : Q) : bool := negb (Qle_bool b a).
Definition pymin (a b : Q) : Q := if Qltb b a then b else a.      (* min(a, b) *)
Definition pymax (a b : Q) : Q := if Qltb a b then b else a.      (* max(a, b) *)
(* int(float): truncation towards zero *)
Definition pyint (q : Q) : Z := if Qle_bool 0 q then Qfloor q else Qceiling q.
(* i in range(n) *)
Definition in_range (i n : Z) : bool := (0 <=? i)%Z && (i <? n)%Z.

(* ------------------------------------------------------------------ *)
(* image, storage lists                                                *)
(* ------------------------------------------------------------------ *)
Definition pixel := option Q.                       (* None = np.ma.masked *)
Definition image := list (list pixel).              (* image[j][i]: row j, column i *)
Definition shape0 (img : image) : Z := Z.of_nat (length img).
Definition shape1 (img : image) : Z :=
  match img with [] => 0%Z | r :: _ => Z.of_nat (length r) end.
(* integrator.py:56-57   self._i_range = range(shape[1] - 1); self._j_range = range(shape[0] - 1) *)
Definition i_range (img : image) (i : Z) : bool := in_range i (shape1 img - 1).
Definition j_range (img : image) (j : Z) : bool := in_range j (shape0 img - 1).
(* image[j][i]; only evaluated under the two range tests, where 0 <= j, i (Python's negative
   indices wrap around: never reached, [None] here) *)
Definition getpix (img : image) (j i : Z) : pixel :=
  if (0 <=? j)%Z && (0 <=? i)%Z then
    match nth_error img (Z.to_nat j) with
    | Some row => match nth_error row (Z.to_nat i) with Some p => p | None => None end
    | None => None
    end
  else None.

(* the three lists shared between EllipseSample._extract and the integrator *)
Record store := mkStore { s_angles : list Q; s_radii : list Q; s_intens : list Q }.
Definition empty_store := mkStore [] [] [].
(* integrator.py:88-91 *)
Definition store_results (st : store) (phi radius sample : Q) : store :=
  mkStore (s_angles st ++ [phi]) (s_radii st ++ [radius]) (s_intens st ++ [sample]).

Record geom := mkGeom { g_x0 : Q; g_y0 : Q; g_sma : Q; g_eps : Q; g_astep : Q; g_lin : bool }.

(* radius*cos(phi+pa) + x0, radius*sin(phi+pa) + y0   (c, s = the two trigonometric values) *)
Definition polar_xy (g : geom) (radius c s : Q) : Q * Q :=
  (radius * c + g_x0 g, radius * s + g_y0 g).

(* ------------------------------------------------------------------ *)
(* (1) bilinear                                                        *)
(* ------------------------------------------------------------------ *)
(* the four weights in the order of the four terms of integrator.py:196-199 *)
Definition bl_weights (fx fy : Q) : Q * Q * Q * Q :=
  let qx := 1 - fx in
  let qy := 1 - fy in
  (qx * qy, qx * fy, fx * qy, fy * fx).

Definition bilinear_xy (img : image) (x y : Q) : option Q :=
  let i := pyint x in
  let j := pyint y in
  let fx := x - inject_Z i in
  let fy := y - inject_Z j in
  if i_range img i && j_range img j then
    let qx := 1 - fx in
    let qy := 1 - fy in
    match getpix img j i, getpix img (j + 1) i, getpix img j (i + 1), getpix img (j + 1) (i + 1) with
    | Some p00, Some p10, Some p01, Some p11 =>
        Some (p00 * qx * qy + p10 * qx * fy + p01 * fx * qy + p11 * fy * fx)
    | _, _, _, _ => None
    end
  else None.

(* ------------------------------------------------------------------ *)
(* (2) nearest neighbour, as coded (truncation)                        *)
(* ------------------------------------------------------------------ *)
Definition nn_xy (img : image) (x y : Q) : option Q :=
  let i := pyint x in
  let j := pyint y in
  if i_range img i && j_range img j then getpix img j i else None.

Inductive mode := NN | BL.
Definition sample_xy (m : mode) : image -> Q -> Q -> option Q :=
  match m with NN => nn_xy | BL => bilinear_xy end.

(* the sample is read at the float position (x, y) *)
Definition integrate_xy (m : mode) (img : image) (st : store) (radius phi x y : Q) : store :=
  match sample_xy m img x y with
  | Some v => store_results st phi radius v
  | None => st
  end.
(* integrate(radius, phi) *)
Definition integrate (m : mode) (img : image) (g : geom) (st : store) (radius phi c s : Q) : store :=
  let '(x, y) := polar_xy g radius c s in integrate_xy m img st radius phi x y.

(* the recorded finding: what a nearest-neighbour integrator should read *)
Definition round_half_up (q : Q) : Z := Qfloor (q + (1 # 2)).
Definition nearest_pixel (img : image) (x y : Q) : pixel :=
  getpix img (round_half_up y) (round_half_up x).

(* ------------------------------------------------------------------ *)
(* (3a) EllipseGeometry.__init__: initial polar angle                  *)
(* ------------------------------------------------------------------ *)
Definition phi_min : Q := 5 # 100.
Definition phi_max : Q := 2 # 10.
(* geometry.py:368-386 *)
Definition bounding_ellipses (g : geom) : Q * Q :=
  if g_lin g
  then (g_sma g - g_astep g / 2, g_sma g + g_astep g / 2)
  else (g_sma g * (1 - g_astep g / 2), g_sma g * (1 + g_astep g / 2)).
(* geometry.py:145-146 *)
Definition inner_sma (g : geom) : Q :=
  let '(sma1, sma2) := bounding_ellipses g in pymin (sma2 - sma1) 3.
(* geometry.py:150-153 (only when sma > 0) *)
Definition sector_angular_width (g : geom) : Q :=
  pymax (pymin (inner_sma g / g_sma g) phi_max) phi_min.
Definition initial_polar_angle (g : geom) : Q := sector_angular_width g / 2.

(* ------------------------------------------------------------------ *)
(* (3b) the walk along the ellipse (non-area integrators)              *)
(* ------------------------------------------------------------------ *)
(* get_polar_angle_step() = 1.0 / self._r  (the radius of the LAST integrate call);
   phi += min(phistep_, 0.5) *)
Definition phi_step (radius : Q) : Q := pymin (1 / radius) (1 # 2).

Section Extract.
Variable rad : Q -> Q.            (* geometry.radius *)
Variables cosf sinf : Q -> Q.     (* phi |-> cos(phi + pa), sin(phi + pa) *)
Variable stop : Q.                (* np.pi * 2.0 + phi_min *)

(* the (phi, radius) pairs handed to integrator.integrate, in order.  The real loop has no
   fuel: [walk_fuel_enough] (C20I_Proofs) gives an explicit sufficient fuel when
   0 < rad <= R. *)
Fixpoint walk (fuel : nat) (phi radius : Q) : list (Q * Q) :=
  match fuel with
  | O => []
  | S f =>
      if Qle_bool phi stop
      then (phi, radius) :: (let phi' := phi + phi_step radius in walk f phi' (rad phi'))
      else []
  end.

Definition run_calls (m : mode) (img : image) (g : geom) (calls : list (Q * Q)) : store :=
  fold_left (fun st pr => integrate m img g st (snd pr) (fst pr) (cosf (fst pr)) (sinf (fst pr)))
            calls empty_store.

(* sample.py:360-382 coordinates() *)
Fixpoint coordinates (g : geom) (angles radii : list Q) : list (Q * Q) :=
  match angles, radii with
  | a :: angles', r :: radii' => polar_xy g r (cosf a) (sinf a) :: coordinates g angles' radii'
  | _, _ => []
  end.
End Extract.

(* ------------------------------------------------------------------ *)
(* (3c) sigma clipping                                                 *)
(* ------------------------------------------------------------------ *)
Definition sumQ (l : list Q) : Q := fold_right (fun x s => Qred (x + s)) 0 l.
Definition lenQ (l : list Q) : Q := inject_Z (Z.of_nat (length l)).
Definition meanQ (l : list Q) : Q := Qred (sumQ l / lenQ l).                     (* np.mean *)
Definition ssd (m : Q) (l : list Q) : Q :=
  fold_right (fun x s => Qred ((x - m) * (x - m) + s)) 0 l.
Definition varQ (l : list Q) : Q := Qred (ssd (meanQ l) l / lenQ l).             (* np.std ** 2 *)

(* x > s * sqrt(v2)  and  x >= s * sqrt(v2)  for v2 >= 0, decided without the root *)
Definition gt_sqrt (x s v2 : Q) : bool :=
  if Qle_bool 0 s
  then Qltb 0 x && Qltb (s * s * v2) (x * x)
  else Qltb 0 x || Qltb (x * x) (s * s * v2).
Definition ge_sqrt (x s v2 : Q) : bool :=
  if Qle_bool 0 s
  then Qle_bool 0 x && Qle_bool (s * s * v2) (x * x)
  else Qle_bool 0 x || Qle_bool (x * x) (s * s * v2).

(* intensities[k] >= lower and intensities[k] < upper,
   lower = mean - sclip*sig, upper = mean + sclip*sig *)
Definition clip_keep (sclip m v2 v : Q) : bool :=
  negb (gt_sqrt (m - v) sclip v2) && negb (ge_sqrt (v - m) sclip v2).

(* the loop over k of _iter_sigma_clip on the three lists *)
Fixpoint clip_filter (keep : Q -> bool) (a r v : list Q) : store :=
  match a, r, v with
  | ak :: a', rk :: r', vk :: v' =>
      let st := clip_filter keep a' r' v' in
      if keep vk then mkStore (ak :: s_angles st) (rk :: s_radii st) (vk :: s_intens st) else st
  | _, _, _ => empty_store
  end.
Definition iter_sigma_clip (sclip : Q) (st : store) : store :=
  let values := s_intens st in
  clip_filter (clip_keep sclip (meanQ values) (varQ values)) (s_angles st) (s_radii st) values.
Fixpoint iter_n (n : nat) (sclip : Q) (st : store) : store :=
  match n with O => st | S k => iter_n k sclip (iter_sigma_clip sclip st) end.
(* if self.nclip > 0: for _ in range(self.nclip) *)
Definition sigma_clip (nclip : Z) (sclip : Q) (st : store) : store :=
  iter_n (Z.to_nat nclip) sclip st.

(* EllipseSample._extract for integrmode in {nearest_neighbor, bilinear}:
   (total_points, the three arrays after clipping); actual_points = length of the arrays *)
Definition extract (rad cosf sinf : Q -> Q) (stop : Q) (m : mode) (img : image) (g : geom)
           (fuel : nat) (nclip : Z) (sclip : Q) : nat * store :=
  let phi0 := initial_polar_angle g in
  let calls := walk rad stop fuel phi0 (rad phi0) in
  (length calls, sigma_clip nclip sclip (run_calls cosf sinf m img g calls)).

(* ------------------------------------------------------------------ *)
(* (4) area integrators: pixel loop, accumulator, fallback             *)
(* ------------------------------------------------------------------ *)
Fixpoint zrange (lo : Z) (n : nat) : list Z :=
  match n with O => [] | S k => lo :: zrange (lo + 1) k end.
(* range(a, b) *)
Definition pyrange (a b : Z) : list Z := zrange a (Z.to_nat (b - a)).

Fixpoint insert_sorted (x : Q) (l : list Q) : list Q :=
  match l with
  | [] => [x]
  | y :: r => if Qle_bool x y then x :: l else y :: insert_sorted x r
  end.
Definition sortQ (l : list Q) : list Q := fold_right insert_sorted [] l.

Section Area.
(* the test  phi1 <= phip < phi2  and  r1 <= rp < r2  on to_polar(i, j): library numerics *)
Variable in_sector : Z -> Z -> bool.

(* integrator.py:252-278: for j in range(j1, j2): for i in range(i1, i2): ... accumulate *)
Definition sector_pixels (img : image) (i1 j1 i2 j2 : Z) : list Q :=
  flat_map (fun j =>
    flat_map (fun i =>
      if in_sector i j
      then match getpix img j i with Some p => [p] | None => [] end
      else []) (pyrange i1 i2)) (pyrange j1 j2).

(* _MeanIntegrator: accumulator / npix;  _MedianIntegrator: sorted[int(npix / 2)] *)
Definition mean_value (l : list Q) : Q := fold_left Qplus l 0 / lenQ l.
Definition median_value (l : list Q) : Q := nth (length l / 2) (sortQ l) 0.

(* integrate of an area integrator; (min_x, min_y, max_x, max_y) of the four sector vertices
   are inputs.  [median] selects _MedianIntegrator.  (x, y) is the position read by the
   private bilinear integrator when fewer than 7 pixels were accumulated. *)
Definition area_integrate_xy (median : bool) (img : image) (st : store)
           (radius phi x y : Q) (vminx vminy vmaxx vmaxy : Q) : store :=
  let i1 := (pyint vminx - 1)%Z in
  let j1 := (pyint vminy - 1)%Z in
  let i2 := (pyint vmaxx + 1)%Z in
  let j2 := (pyint vmaxy + 1)%Z in
  if i_range img i1 && j_range img j1 && i_range img i2 && j_range img j2 then
    let acc := sector_pixels img i1 j1 i2 j2 in
    let npix := Z.of_nat (length acc) in
    if in_range npix 7 then
      (* too few pixels: _reset() the private bilinear integrator, integrate, take
         _intensities[0] if there is one *)
      match s_intens (integrate_xy BL img empty_store radius phi x y) with
      | v :: _ => store_results st phi radius v
      | [] => st
      end
    else store_results st phi radius (if median then median_value acc else mean_value acc)
  else st.
Definition area_integrate (median : bool) (img : image) (g : geom) (st : store)
           (radius phi c s : Q) (vminx vminy vmaxx vmaxy : Q) : store :=
  let '(x, y) := polar_xy g radius c s in
  area_integrate_xy median img st radius phi x y vminx vminy vmaxx vmaxy.
End Area.

(* ------------------------------------------------------------------ *)
(* correspondence                                                      *)
(* ------------------------------------------------------------------ *)
(* a binary64 value m * 2^e, exactly *)
Definition dy := (Z * Z)%type.
Definition dyQ (d : dy) : Q :=
  let '(m, e) := d in
  if (0 <=? e)%Z then inject_Z (m * 2 ^ e) else Qmake m (Z.to_pos (2 ^ (- e))).
Definition Qabs' (q : Q) : Q := if Qle_bool 0 q then q else - q.
Definition close (a b tol : Q) : bool := Qle_bool (Qabs' (a - b)) tol.
Definition two_m (k : positive) : Q := 1 # (2 ^ k).

Definition mk_image (den : Z) (rows : list (list (option Z))) : image :=
  map (map (option_map (fun z => Qmake z (Z.to_pos den)))) rows.
Definition qlist_eqb (a b : list Q) : bool := list_eqb Qeq_bool a b.

(* the four pixels of the cell of (x, y), 0 where absent: scale of the rounding bound *)
Definition cell_scale (img : image) (x y : Q) : Q :=
  let i := pyint x in
  let j := pyint y in
  let a p := match p with Some v => Qabs' v | None => 0 end in
  a (getpix img j i) + a (getpix img (j + 1) i) + a (getpix img j (i + 1)) + a (getpix img (j + 1) (i + 1)).

(* ---- one integrate call ----
   (bilinear?, den, rows, x0, y0, radius, phi, c, s, x_, y_ (the floats), exact?,
    what the integrator appended: None or (angle, radius, sample)) *)
Definition int_case :=
  (bool * Z * list (list (option Z)) * dy * dy * dy * dy * dy * dy * dy * dy * bool
   * option (dy * dy * dy))%type.

Definition pos_tol (g : geom) (radius : Q) : Q :=
  two_m 50 * (Qabs' radius + Qabs' (g_x0 g) + Qabs' (g_y0 g) + 1).

Definition check_int_case (c : int_case) : bool :=
  let '(bl, den, rows, x0, y0, radius, phi, cc, ss, xf, yf, exact, res) := c in
  let m := if bl then BL else NN in
  let img := mk_image den rows in
  let g := mkGeom (dyQ x0) (dyQ y0) 1 0 (1 # 10) false in
  let '(x, y) := polar_xy g (dyQ radius) (dyQ cc) (dyQ ss) in
  let st := if exact
            then integrate m img g empty_store (dyQ radius) (dyQ phi) (dyQ cc) (dyQ ss)
            else integrate_xy m img empty_store (dyQ radius) (dyQ phi) (dyQ xf) (dyQ yf) in
  let tolp := if exact then 0 else pos_tol g (dyQ radius) in
  close x (dyQ xf) tolp && close y (dyQ yf) tolp &&
  match st, res with
  | mkStore [] [] [], None => true
  | mkStore [a] [r] [v], Some (ia, ir, iv) =>
      Qeq_bool a (dyQ ia) && Qeq_bool r (dyQ ir) &&
      close v (dyQ iv) (if exact then 0 else two_m 46 * cell_scale img (dyQ xf) (dyQ yf))
  | _, _ => false
  end.
Definition int_model_out (c : int_case) :=
  let '(bl, den, rows, x0, y0, radius, phi, cc, ss, xf, yf, exact, res) := c in
  let m := if bl then BL else NN in
  let img := mk_image den rows in
  let g := mkGeom (dyQ x0) (dyQ y0) 1 0 (1 # 10) false in
  let st := integrate m img g empty_store (dyQ radius) (dyQ phi) (dyQ cc) (dyQ ss) in
  (pyint (fst (polar_xy g (dyQ radius) (dyQ cc) (dyQ ss))),
   pyint (snd (polar_xy g (dyQ radius) (dyQ cc) (dyQ ss))),
   map Qred (s_angles st), map Qred (s_radii st), map Qred (s_intens st)).

(* ---- a whole EllipseSample.extract() run, nclip = 0 ----
   every integrate call as (phi, radius, c, s, x_, y_); the angle that ended the loop;
   stop = np.pi*2.0 + phi_min; total_points; the three returned arrays *)
Definition call := (dy * dy * dy * dy * dy * dy)%type.
Definition ext_case :=
  (bool * Z * list (list (option Z)) * (dy * dy * dy * dy * dy * bool)
   * list call * dy * dy * Z * (list dy * list dy * list dy))%type.

Definition c_phi (c : call) : Q := let '(p, _, _, _, _, _) := c in dyQ p.
Definition c_rad (c : call) : Q := let '(_, r, _, _, _, _) := c in dyQ r.

(* consecutive angles follow  phi' = phi + min(1/radius, 0.5)  up to the binary64 rounding of
   one division and one addition (|phi| < 8) *)
Fixpoint trace_ok (calls : list call) (last : Q) : bool :=
  match calls with
  | [] => true
  | c :: rest =>
      let nxt := match rest with c' :: _ => c_phi c' | [] => last end in
      close nxt (c_phi c + phi_step (c_rad c)) (two_m 49) && trace_ok rest last
  end.

Fixpoint fold_calls (m : mode) (img : image) (g : geom) (calls : list call) (st : store)
  : bool * store :=
  match calls with
  | [] => (true, st)
  | (p, r, cc, ss, xf, yf) :: rest =>
      let '(x, y) := polar_xy g (dyQ r) (dyQ cc) (dyQ ss) in
      let tolp := pos_tol g (dyQ r) in
      let ok := close x (dyQ xf) tolp && close y (dyQ yf) tolp in
      let '(ok', st') := fold_calls m img g rest
                            (integrate_xy m img st (dyQ r) (dyQ p) (dyQ xf) (dyQ yf)) in
      (ok && ok', st')
  end.

Fixpoint all_close (a b : list Q) (tol : Q) : bool :=
  match a, b with
  | [], [] => true
  | x :: a', y :: b' => close x y tol && all_close a' b' tol
  | _, _ => false
  end.

Definition check_ext_case (c : ext_case) : bool :=
  let '(bl, den, rows, (x0, y0, sma, eps, astep, lin), calls, last, stop, total, (ra, rr, rv)) := c in
  let m := if bl then BL else NN in
  let img := mk_image den rows in
  let g := mkGeom (dyQ x0) (dyQ y0) (dyQ sma) (dyQ eps) (dyQ astep) lin in
  let '(okpos, st) := fold_calls m img g calls empty_store in
  let maxscale := fold_right (fun cl s => let '(_, _, _, _, xf, yf) := cl in
                                          pymax (cell_scale img (dyQ xf) (dyQ yf)) s) 0 calls in
  (* the loop bound is 2*pi + 0.05 *)
  Qle_bool (633318 # 100000) (dyQ stop) && Qle_bool (dyQ stop) (633319 # 100000) &&
  (* first angle and radius bounds *)
  match calls with
  | [] => false
  | c0 :: _ => close (c_phi c0) (initial_polar_angle g) (two_m 40)
  end &&
  forallb (fun cl => Qle_bool (g_sma g * (1 - g_eps g) * (1 - two_m 40)) (c_rad cl)
                     && Qle_bool (c_rad cl) (g_sma g * (1 + two_m 40))) calls &&
  (* the walk *)
  trace_ok calls (dyQ last) &&
  forallb (fun cl => Qle_bool (c_phi cl) (dyQ stop)) calls && Qltb (dyQ stop) (dyQ last) &&
  (Z.of_nat (length calls) =? total)%Z &&
  (* the sampling *)
  okpos &&
  qlist_eqb (s_angles st) (map dyQ ra) && qlist_eqb (s_radii st) (map dyQ rr) &&
  all_close (s_intens st) (map dyQ rv) (two_m 46 * maxscale).

(* ---- _sigma_clip on the real object ----
   (nclip, sclip, intensities; indices 0.. as angles and radii; surviving indices) *)
Definition clip_case := (Z * dy * list dy * list Z)%type.
Definition check_clip_case (c : clip_case) : bool :=
  let '(nclip, sclip, vals, kept) := c in
  let idx := map (fun z => inject_Z z) (pyrange 0 (Z.of_nat (length vals))) in
  let st := sigma_clip nclip (dyQ sclip) (mkStore idx idx (map dyQ vals)) in
  qlist_eqb (s_angles st) (map inject_Z kept) && qlist_eqb (s_radii st) (map inject_Z kept).
Definition clip_model_out (c : clip_case) :=
  let '(nclip, sclip, vals, kept) := c in
  let idx := map (fun z => inject_Z z) (pyrange 0 (Z.of_nat (length vals))) in
  map Qred (s_angles (sigma_clip nclip (dyQ sclip) (mkStore idx idx (map dyQ vals)))).

(* ---- one area-integrator call ----
   (median?, den, rows, x0, y0, radius, phi, c, s, the binary64 position (x_, y_) of the bilinear
    fallback, vertex min_x, min_y, max_x, max_y,
    sector membership of the pixels of range(j1, j2) x range(i1, i2) in loop order,
    appended sample or None) *)
Definition area_case :=
  (bool * Z * list (list (option Z)) * dy * dy * dy * dy * dy * dy * (dy * dy) * (dy * dy * dy * dy)
   * list bool * option dy)%type.

(* the recorded decisions as a function of (i, j) *)
Definition table_sector (i1 j1 i2 : Z) (tbl : list bool) (i j : Z) : bool :=
  nth (Z.to_nat ((j - j1) * (i2 - i1) + (i - i1))) tbl false.

Definition check_area_case (c : area_case) : bool :=
  let '(med, den, rows, x0, y0, radius, phi, cc, ss, (xf, yf), (vx1, vy1, vx2, vy2), tbl, res) := c in
  let img := mk_image den rows in
  let g := mkGeom (dyQ x0) (dyQ y0) 1 0 (1 # 10) false in
  let i1 := (pyint (dyQ vx1) - 1)%Z in
  let j1 := (pyint (dyQ vy1) - 1)%Z in
  let i2 := (pyint (dyQ vx2) + 1)%Z in
  let '(x, y) := polar_xy g (dyQ radius) (dyQ cc) (dyQ ss) in
  let tolp := pos_tol g (dyQ radius) in
  let st := area_integrate_xy (table_sector i1 j1 i2 tbl) med img empty_store
              (dyQ radius) (dyQ phi) (dyQ xf) (dyQ yf) (dyQ vx1) (dyQ vy1) (dyQ vx2) (dyQ vy2) in
  close x (dyQ xf) tolp && close y (dyQ yf) tolp &&
  match st, res with
  | mkStore [] [] [], None => true
  | mkStore [a] [r] [v], Some iv =>
      Qeq_bool a (dyQ phi) && Qeq_bool r (dyQ radius) &&
      close v (dyQ iv) (two_m 46 * (Qabs' v + cell_scale img (dyQ xf) (dyQ yf) + 1))
  | _, _ => false
  end.
