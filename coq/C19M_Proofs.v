(* C19M -- the aperture weights of concentric circles are monotone in the radius ('center' and
   'subpixel' methods): discharges the hypothesis of C19_Properties.nonneg_data_monotone_cog_partial.
   Stretch proofs on top of C01 and C19 (read-only imports).  Everything in this file is over
   Z / Q / nat: closed under the global context.  (The 'exact' method is in C19M_RProofs.v, over R.)

   Part 1 (A1)  inside (Circle r1) -> inside (Circle r2) for 0 <= r1 <= r2; hence the number of
                sub-pixel centres inside the circle -- the value of the kernel loops, of the grid
                driver with its fast paths, of a mask entry -- is monotone in r, pixel by pixel,
                also across the two different bounding boxes ([mask_at]: the mask seen from an
                image pixel, 0 outside the box).
   Part 2 (A3)  bridging definitions from C01's masks to C19's weight images:
                [to_image] (ApertureMask.to_image through get_overlap_slices), [raster] (the
                flattening p = y*nx + x of C19_Model), [circle_aper] (what ProfileBase builds for
                one radius); the weight image of a circle is the raster of its centre counts.
   Part 3 (A3)  the corollary: non-negative data => non-decreasing curve of growth, with the
                monotone-weights hypothesis replaced by "the apertures are concentric circles with
                r_i <= r_j". *)
From Coq Require Import ZArith QArith Qround Qabs Qminmax Qreduction List Bool Lia Lqa ZifyBool.
From PV Require Import lib.Cases C01_Model C01_Proofs.
From PV Require C19_Model C19_Proofs.
Import ListNotations.
Open Scope Q_scope.

(* ====================================================================================== *)
(* Part 1 -- monotonicity of the centre counts                                              *)
(* ====================================================================================== *)
Lemma circle_inside_monotone r1 r2 x y :
  0 <= r1 -> r1 <= r2 -> inside (Circle r1) x y = true -> inside (Circle r2) x y = true.
Proof. exact (circle_contained r1 r2 x y). Qed.

Lemma cnt_monotone sh1 sh2 l :
  (forall p, In p l -> inside sh1 (fst p) (snd p) = true -> inside sh2 (fst p) (snd p) = true) ->
  (cnt sh1 l <= cnt sh2 l)%Z.
Proof.
  induction l as [|p l IH]; intros H; [rewrite !cnt_nil; lia|].
  rewrite !cnt_cons. pose proof (IH (fun q Hq => H q (or_intror Hq))) as IH'.
  pose proof (H p (or_introl eq_refl)) as Hp.
  destruct (inside sh1 (fst p) (snd p)).
  - rewrite (Hp eq_refl). lia.
  - destruct (inside sh2 (fst p) (snd p)); lia.
Qed.

Lemma circle_cnt_monotone r1 r2 l : 0 <= r1 -> r1 <= r2 -> (cnt (Circle r1) l <= cnt (Circle r2) l)%Z.
Proof. intros H0 H1. apply cnt_monotone. intros p _. apply circle_inside_monotone; assumption. Qed.

(* the specification count, the kernel loops as written, the grid driver with its fast paths *)
Lemma circle_centre_count_monotone r1 r2 x0 y0 x1 y1 s :
  0 <= r1 -> r1 <= r2 ->
  (subpix_count (Circle r1) x0 y0 x1 y1 s <= subpix_count (Circle r2) x0 y0 x1 y1 s)%Z.
Proof. intros H0 H1. rewrite !subpix_count_cnt. apply circle_cnt_monotone; assumption. Qed.

Lemma circle_kernel_monotone r1 r2 x0 y0 x1 y1 s :
  0 <= r1 -> r1 <= r2 ->
  (single_subpixel (Circle r1) x0 y0 x1 y1 s <= single_subpixel (Circle r2) x0 y0 x1 y1 s)%Z.
Proof. intros H0 H1. rewrite !single_subpixel_is_count. apply circle_centre_count_monotone; assumption. Qed.

Lemma circle_cell_monotone r1 r2 pr dx dy pxmin pymin s :
  0 <= r1 -> r1 <= r2 -> 0 <= pr -> dx * dx + dy * dy <= 4 * (pr * pr) -> 0 < dx -> 0 < dy -> (0 <= s)%Z ->
  (cell (Circle r1) pr dx dy pxmin pymin s <= cell (Circle r2) pr dx dy pxmin pymin s)%Z.
Proof.
  intros H0 H1 Hpr Hd Hdx Hdy Hs.
  rewrite !circ_cell_sound by (try assumption; lra).
  apply circle_centre_count_monotone; assumption.
Qed.

Lemma circle_pixel_count_monotone r1 r2 px py s Y X :
  0 <= r1 -> r1 <= r2 -> (pixel_count (Circle r1) px py s Y X <= pixel_count (Circle r2) px py s Y X)%Z.
Proof. intros H0 H1. unfold pixel_count. apply circle_cnt_monotone; assumption. Qed.

(* the weight itself: count / subpixels^2 *)
Definition weight_of (count s : Z) : Q := inject_Z count / inject_Z (s * s).
Lemma weight_of_monotone c1 c2 s : (0 < s)%Z -> (c1 <= c2)%Z -> weight_of c1 s <= weight_of c2 s.
Proof.
  intros Hs Hc. unfold weight_of, Qdiv. apply Qmult_le_compat_r; [rewrite <- Zle_Qle; exact Hc|].
  apply Qinv_le_0_compat. change 0 with (inject_Z 0). rewrite <- Zle_Qle. nia.
Qed.
Lemma circle_weight_monotone r1 r2 x0 y0 x1 y1 s :
  0 <= r1 -> r1 <= r2 -> (0 < s)%Z ->
  weight_of (single_subpixel (Circle r1) x0 y0 x1 y1 s) s <= weight_of (single_subpixel (Circle r2) x0 y0 x1 y1 s) s.
Proof. intros H0 H1 Hs. apply weight_of_monotone; [exact Hs|apply circle_kernel_monotone; assumption]. Qed.

(* ---------- the mask seen from an image pixel ---------- *)
Definition in_boxb (b : box) (Y X : Z) : bool :=
  ((iymin b <=? Y) && (Y <? iymax b) && (ixmin b <=? X) && (X <? ixmax b))%Z.
Lemma in_boxb_spec b Y X : in_boxb b Y X = true <-> in_box b Y X.
Proof. unfold in_boxb, in_box. lia. Qed.

(* entry of the mask array that covers image pixel (Y, X); 0 when the pixel is outside the box
   (what ApertureMask.to_image writes there) *)
Definition mask_at (sh : shape) (b : box) (px py : Q) (s : Z) (Y X : Z) : Z :=
  if in_boxb b Y X
  then nth (Z.to_nat (X - ixmin b)) (nth (Z.to_nat (Y - iymin b)) (mask_counts sh b px py s) []) 0%Z
  else 0%Z.

Lemma mask_at_in_box sh b px py s Y X :
  rot_ok sh = true -> (0 < s)%Z -> in_box b Y X -> mask_at sh b px py s Y X = pixel_count sh px py s Y X.
Proof.
  intros Hok Hs Hin. unfold mask_at. rewrite (proj2 (in_boxb_spec b Y X) Hin).
  unfold in_box in Hin.
  rewrite (mask_is_centre_fraction sh b px py s _ _ Hok Hs) by lia.
  f_equal; lia.
Qed.

(* CircularAperture.bbox for a rational radius: from_float of the circle's extents *)
Definition circ_box (px py r : Q) : box := from_float (px - r) (px + r) (py - r) (py + r).

Lemma in_pixel_centres px py s Y X p :
  In p (pixel_centres px py s Y X) ->
  exists a b, (a < Z.to_nat s)%nat /\ (b < Z.to_nat s)%nat /\
    p = (inject_Z X - half + (inject_Z (Z.of_nat a) + half) / inject_Z s - px,
         inject_Z Y - half + (inject_Z (Z.of_nat b) + half) / inject_Z s - py).
Proof.
  unfold pixel_centres. rewrite in_flat_map. intros (a & Ha & Hp).
  apply in_map_iff in Hp as (b & <- & Hb). apply in_seq in Ha, Hb.
  exists a, b. repeat split; lia.
Qed.

Lemma sub_offset_between a s :
  (a < Z.to_nat s)%nat -> 0 < (inject_Z (Z.of_nat a) + half) / inject_Z s < 1.
Proof.
  intros Ha. unfold half.
  assert (Hs : (Z.of_nat a + 1 <= s)%Z) by lia.
  assert (Ht0 : 0 <= inject_Z (Z.of_nat a)) by (change 0 with (inject_Z 0); rewrite <- Zle_Qle; lia).
  assert (Ht1 : inject_Z (Z.of_nat a) + 1 <= inject_Z s)
    by (change 1 with (inject_Z 1); rewrite <- inject_Z_plus, <- Zle_Qle; exact Hs).
  set (t := inject_Z (Z.of_nat a)) in *. set (S := inject_Z s) in *.
  assert (HS : 0 < S) by lra.
  assert (Hq : (t + (1 # 2)) / S * S == t + (1 # 2)) by (field; lra).
  set (q := (t + (1 # 2)) / S) in *.
  split; nra.
Qed.

(* a pixel outside the circle's bounding box has no sub-pixel centre inside the circle *)
Lemma circle_count_zero_outside_bbox px py r s Y X :
  0 <= r -> (0 < s)%Z -> ~ in_box (circ_box px py r) Y X -> pixel_count (Circle r) px py s Y X = 0%Z.
Proof.
  intros Hr Hs Hout. unfold pixel_count. apply cnt_none. intros p Hp.
  destruct (inside (Circle r) (fst p) (snd p)) eqn:E; [exfalso|reflexivity]. apply Hout.
  apply in_pixel_centres in Hp as (a & b & Ha & Hb & ->). cbn [fst snd] in E.
  pose proof (sub_offset_between a s Ha) as [Qa0 Qa1]. pose proof (sub_offset_between b s Hb) as [Qb0 Qb1].
  set (qa := (inject_Z (Z.of_nat a) + half) / inject_Z s) in *.
  set (qb := (inject_Z (Z.of_nat b) + half) / inject_Z s) in *.
  assert (Hsq : r * r <= r * r) by lra.
  pose proof (bbox_contains_shape (Circle r) px py r r
                (inject_Z X - half + qa) (inject_Z Y - half + qb) Hr Hr Hr Hsq Hsq) as B.
  cbv zeta in B. fold (circ_box px py r) in B.
  destruct (B E) as [[Bx0 Bx1] [By0 By1]].
  set (bb := circ_box px py r) in *. unfold half in *.
  assert (X0 : inject_Z (ixmin bb) < inject_Z (X + 1)) by (rewrite inject_Z_plus; change (inject_Z 1) with 1; lra).
  assert (X1 : inject_Z X < inject_Z (ixmax bb)) by lra.
  assert (Y0 : inject_Z (iymin bb) < inject_Z (Y + 1)) by (rewrite inject_Z_plus; change (inject_Z 1) with 1; lra).
  assert (Y1 : inject_Z Y < inject_Z (iymax bb)) by lra.
  rewrite <- Zlt_Qlt in X0, X1, Y0, Y1. unfold in_box. lia.
Qed.

Lemma circle_rot_ok r : 0 <= r -> rot_ok (Circle r) = true.
Proof. intros H. cbn [rot_ok]. apply Qle_bool_iff. exact H. Qed.

(* the mask of a circle over its own bounding box, seen from ANY image pixel, is the centre count *)
Lemma circle_mask_at_is_count px py r s Y X :
  0 <= r -> (0 < s)%Z ->
  mask_at (Circle r) (circ_box px py r) px py s Y X = pixel_count (Circle r) px py s Y X.
Proof.
  intros Hr Hs. destruct (in_boxb (circ_box px py r) Y X) eqn:E.
  - apply mask_at_in_box; [apply circle_rot_ok; exact Hr|exact Hs|apply in_boxb_spec; exact E].
  - unfold mask_at. rewrite E. symmetry. apply circle_count_zero_outside_bbox; try assumption.
    intros H. apply in_boxb_spec in H. congruence.
Qed.

(* whole masks, each over its own bounding box: monotone at every image pixel *)
Lemma circle_mask_monotone px py r1 r2 s Y X :
  0 <= r1 -> r1 <= r2 -> (0 < s)%Z ->
  (mask_at (Circle r1) (circ_box px py r1) px py s Y X
   <= mask_at (Circle r2) (circ_box px py r2) px py s Y X)%Z.
Proof.
  intros H0 H1 Hs. rewrite !circle_mask_at_is_count by (try assumption; lra).
  apply circle_pixel_count_monotone; assumption.
Qed.

(* any two boxes: at a pixel covered by both, the entries compare *)
Lemma circle_mask_monotone_common_pixel px py r1 r2 b1 b2 s Y X :
  0 <= r1 -> r1 <= r2 -> (0 < s)%Z -> in_box b1 Y X -> in_box b2 Y X ->
  (mask_at (Circle r1) b1 px py s Y X <= mask_at (Circle r2) b2 px py s Y X)%Z.
Proof.
  intros H0 H1 Hs I1 I2.
  rewrite !mask_at_in_box by (try assumption; apply circle_rot_ok; lra).
  apply circle_pixel_count_monotone; assumption.
Qed.

Lemma pixel_count_range sh px py s Y X : (0 <= s -> 0 <= pixel_count sh px py s Y X <= s * s)%Z.
Proof.
  intros Hs. unfold pixel_count. pose proof (cnt_range sh (pixel_centres px py s Y X)) as H.
  rewrite pixel_centres_length in H. nia.
Qed.

(* the boxes are nested *)
Lemma circ_box_monotone px py r1 r2 :
  r1 <= r2 ->
  (ixmin (circ_box px py r2) <= ixmin (circ_box px py r1) /\ ixmax (circ_box px py r1) <= ixmax (circ_box px py r2) /\
   iymin (circ_box px py r2) <= iymin (circ_box px py r1) /\ iymax (circ_box px py r1) <= iymax (circ_box px py r2))%Z.
Proof.
  intros H. unfold circ_box, from_float. cbn [ixmin ixmax iymin iymax].
  repeat split; first [apply Qfloor_resp_le|apply Qceiling_resp_le]; lra.
Qed.

Close Scope Q_scope.
Open Scope Z_scope.

(* ====================================================================================== *)
(* Part 2 -- from C01's mask arrays to C19's weight images                                  *)
(* ====================================================================================== *)
Import C19_Model C19_Proofs.

(* flattening of C19_Model: pixel (y, x) of an ny x nx image is element p = y*nx + x *)
Definition raster (ny nx : Z) (f : Z -> Z -> Z) : list Z :=
  flat_map (fun j => map (fun i => f (Z.of_nat j) (Z.of_nat i)) (seq 0 (Z.to_nat nx))) (seq 0 (Z.to_nat ny)).

(* ApertureMask.to_image(shape):
       slices_large, slices_small = self.bbox.get_overlap_slices(shape)
       if slices_small is None: return None
       image = np.zeros(shape); image[slices_large] = self.data[slices_small]
   (flattened) *)
Definition to_image (b : box) (m : list (list Z)) (ny nx : Z) : option (list Z) :=
  match overlap_slices b ny nx with
  | None => None
  | Some (((ly0, ly1), (lx0, lx1)), ((sy0, sy1), (sx0, sx1))) =>
      Some (raster ny nx (fun y x =>
              if (ly0 <=? y) && (y <? ly1) && (lx0 <=? x) && (x <? lx1)
              then nth (Z.to_nat (x - lx0 + sx0)) (nth (Z.to_nat (y - ly0 + sy0)) m []) 0
              else 0))
  end.

Lemma flat_map_ext_in {A B} (f g : A -> list B) l :
  (forall a, In a l -> f a = g a) -> flat_map f l = flat_map g l.
Proof.
  induction l as [|a l IH]; intros H; [reflexivity|]. cbn [flat_map].
  rewrite (H a (or_introl eq_refl)), IH by (intros; apply H; right; assumption). reflexivity.
Qed.

Lemma raster_ext ny nx f g :
  (forall y x, 0 <= y < ny -> 0 <= x < nx -> f y x = g y x) -> raster ny nx f = raster ny nx g.
Proof.
  intros H. unfold raster. apply flat_map_ext_in. intros j Hj. apply map_ext_in. intros i Hi.
  apply in_seq in Hj, Hi. apply H; lia.
Qed.

Lemma raster_length ny nx f : length (raster ny nx f) = (Z.to_nat ny * Z.to_nat nx)%nat.
Proof.
  unfold raster. rewrite (flat_map_length_const _ _ (Z.to_nat nx)).
  - rewrite seq_length. reflexivity.
  - intros a. rewrite map_length, seq_length. reflexivity.
Qed.

(* element y*nx + x of the raster is f y x *)
Lemma nth_flat_rows {A} (g : nat -> nat -> A) (n : nat) d : forall m k j i,
  (j < m)%nat -> (i < n)%nat ->
  nth (j * n + i) (flat_map (fun r => map (g r) (seq 0 n)) (seq k m)) d = g (k + j)%nat i.
Proof.
  induction m as [|m IH]; intros k j i Hj Hi; [lia|].
  cbn [seq flat_map]. destruct j as [|j].
  - rewrite app_nth1 by (rewrite map_length, seq_length; lia).
    cbn [Nat.mul Nat.add]. rewrite Nat.add_0_r.
    rewrite (nth_indep _ d (g k 0%nat)) by (rewrite map_length, seq_length; exact Hi).
    rewrite map_nth, seq_nth by exact Hi. reflexivity.
  - rewrite app_nth2 by (rewrite map_length, seq_length; cbn [Nat.mul]; lia).
    rewrite map_length, seq_length.
    replace (Datatypes.S j * n + i - n)%nat with (j * n + i)%nat by (cbn [Nat.mul]; lia).
    rewrite IH by lia. f_equal. lia.
Qed.

Lemma raster_nth ny nx f y x :
  0 <= y < ny -> 0 <= x < nx ->
  nth (Z.to_nat (y * nx + x)) (raster ny nx f) 0 = f y x.
Proof.
  intros Hy Hx. unfold raster.
  replace (Z.to_nat (y * nx + x)) with (Z.to_nat y * Z.to_nat nx + Z.to_nat x)%nat by nia.
  rewrite (nth_flat_rows (fun j i => f (Z.of_nat j) (Z.of_nat i))) by lia.
  cbn [Nat.add]. rewrite !Z2Nat.id by lia. reflexivity.
Qed.

Lemma raster_spec ny nx f :
  length (raster ny nx f) = (Z.to_nat ny * Z.to_nat nx)%nat /\
  forall y x, 0 <= y < ny -> 0 <= x < nx -> nth (Z.to_nat (y * nx + x)) (raster ny nx f) 0 = f y x.
Proof. split; [apply raster_length|apply raster_nth]. Qed.

(* pointwise comparison of two rasters, in the form C19 asks for (all indices, default 0) *)
Lemma nth_le_of_Forall2 (l1 l2 : list Z) :
  Forall2 Z.le l1 l2 -> forall p, nth p l1 0 <= nth p l2 0.
Proof.
  induction 1 as [|a b l1 l2 Hab _ IH]; intros [|p]; cbn [nth]; first [apply IH|lia].
Qed.
Lemma Forall2_app_le (a1 a2 b1 b2 : list Z) :
  Forall2 Z.le a1 a2 -> Forall2 Z.le b1 b2 -> Forall2 Z.le (a1 ++ b1) (a2 ++ b2).
Proof. induction 1; cbn [app]; [auto|constructor; auto]. Qed.
Lemma raster_le ny nx f g :
  (forall y x, 0 <= y < ny -> 0 <= x < nx -> f y x <= g y x) ->
  forall p, wt (raster ny nx f) p <= wt (raster ny nx g) p.
Proof.
  intros H. unfold wt. apply nth_le_of_Forall2. unfold raster.
  assert (G : forall rows, (forall j, In j rows -> (j < Z.to_nat ny)%nat) ->
    Forall2 Z.le (flat_map (fun j => map (fun i => f (Z.of_nat j) (Z.of_nat i)) (seq 0 (Z.to_nat nx))) rows)
                 (flat_map (fun j => map (fun i => g (Z.of_nat j) (Z.of_nat i)) (seq 0 (Z.to_nat nx))) rows)).
  { induction rows as [|j rows IH]; intros Hrows; [constructor|]. cbn [flat_map].
    apply Forall2_app_le; [|apply IH; intros; apply Hrows; right; assumption].
    pose proof (Hrows j (or_introl eq_refl)) as Hj.
    assert (C : forall cols, (forall i, In i cols -> (i < Z.to_nat nx)%nat) ->
      Forall2 Z.le (map (fun i => f (Z.of_nat j) (Z.of_nat i)) cols) (map (fun i => g (Z.of_nat j) (Z.of_nat i)) cols)).
    { induction cols as [|i cols IHc]; intros Hcols; [constructor|]. cbn [map]. constructor.
      - pose proof (Hcols i (or_introl eq_refl)). apply H; lia.
      - apply IHc. intros; apply Hcols; right; assumption. }
    apply C. intros i Hi. apply in_seq in Hi. lia. }
  apply G. intros j Hj. apply in_seq in Hj. lia.
Qed.
Lemma raster_nonneg ny nx f :
  (forall y x, 0 <= y < ny -> 0 <= x < nx -> 0 <= f y x) -> forall p, 0 <= wt (raster ny nx f) p.
Proof.
  intros H p. unfold wt. destruct (Nat.lt_ge_cases p (length (raster ny nx f))) as [Hp|Hp].
  - assert (Hin : In (nth p (raster ny nx f) 0) (raster ny nx f)) by (apply nth_In; exact Hp).
    unfold raster in Hin at 2. apply in_flat_map in Hin as (j & Hj & Hin).
    apply in_map_iff in Hin as (i & <- & Hi). apply in_seq in Hj, Hi. apply H; lia.
  - rewrite nth_overflow by exact Hp. lia.
Qed.

(* to_image in terms of the box: the mask entry of the pixel if the box covers it, 0 otherwise *)
Lemma to_image_raster b m ny nx w :
  to_image b m ny nx = Some w ->
  w = raster ny nx (fun Y X => if in_boxb b Y X
                               then nth (Z.to_nat (X - ixmin b)) (nth (Z.to_nat (Y - iymin b)) m []) 0
                               else 0).
Proof.
  unfold to_image.
  destruct (overlap_slices b ny nx) as [[[[ly0 ly1] [lx0 lx1]] [[sy0 sy1] [sx0 sx1]]]|] eqn:E; [|discriminate].
  intros [= <-]. apply overlap_some in E as (Hin & Hsy0 & _ & Hsx0 & _).
  apply raster_ext. intros y x Hy Hx.
  specialize (Hin y x). unfold in_img in Hin.
  destruct (in_boxb b y x) eqn:Eb.
  - apply in_boxb_spec in Eb.
    assert (Hl : (ly0 <=? y) && (y <? ly1) && (lx0 <=? x) && (x <? lx1) = true)
      by (apply proj2 in Hin; specialize (Hin (conj Eb (conj Hy Hx))); lia).
    rewrite Hl. f_equal; [|f_equal]; lia.
  - assert (Hl : (ly0 <=? y) && (y <? ly1) && (lx0 <=? x) && (x <? lx1) = false).
    { destruct ((ly0 <=? y) && (y <? ly1) && (lx0 <=? x) && (x <? lx1)) eqn:El; [|reflexivity].
      exfalso. assert (Hb : in_box b y x) by (apply proj1 in Hin; apply Hin; lia).
      apply in_boxb_spec in Hb. congruence. }
    rewrite Hl. reflexivity.
Qed.

Lemma to_image_mask_raster sh b px py s ny nx w :
  to_image b (mask_counts sh b px py s) ny nx = Some w -> w = raster ny nx (mask_at sh b px py s).
Proof. intros H. apply to_image_raster in H. exact H. Qed.

(* no image iff box and frame share no pixel (non-empty box) *)
Lemma to_image_none_iff b m ny nx :
  ixmin b < ixmax b -> iymin b < iymax b ->
  (to_image b m ny nx = None <-> forall y x, ~ (in_box b y x /\ in_img ny nx y x)).
Proof.
  intros Hx Hy. rewrite <- (overlap_none b ny nx Hx Hy). unfold to_image.
  destruct (overlap_slices b ny nx) as [[[[ly0 ly1] [lx0 lx1]] [[sy0 sy1] [sx0 sx1]]]|]; split; congruence.
Qed.

(* what ProfileBase._circular_apertures / _photometry use for one radius (method 'center' or
   'subpixel' with [s] subpixels; s = 1 is 'center'), in C19_Model's vocabulary:
       radius <= 0                        -> None                      = AZero
       bbox does not overlap the image    -> (NaN, NaN, NaN)           = AOff
       otherwise                          -> s^2 * to_mask(...).to_image(shape) = AW w *)
Definition circle_aper (ny nx : Z) (px py : Q) (s : Z) (r : Q) : aper :=
  if Qle_bool r 0 then AZero
  else let b := circ_box px py r in
       match to_image b (mask_counts (Circle r) b px py s) ny nx with
       | None => AOff
       | Some w => AW w
       end.

Lemma Qle_bool_false_lt' a b : Qle_bool a b = false -> (b < a)%Q.
Proof. intros H. apply Qnot_le_lt. intros E. apply Qle_bool_iff in E. congruence. Qed.

(* bridging theorem: the weight image of a circular aperture is the raster of the centre counts *)
Lemma circle_aper_weights ny nx px py s r w :
  0 < s -> circle_aper ny nx px py s r = AW w ->
  (0 < r)%Q /\ w = raster ny nx (pixel_count (Circle r) px py s).
Proof.
  intros Hs. unfold circle_aper. destruct (Qle_bool r 0) eqn:Er; [discriminate|].
  apply Qle_bool_false_lt' in Er. cbv zeta.
  destruct (to_image _ _ ny nx) as [w'|] eqn:E; [|discriminate]. intros [= <-].
  split; [exact Er|]. apply to_image_mask_raster in E. rewrite E.
  apply raster_ext. intros y x _ _. apply circle_mask_at_is_count; [lra|exact Hs].
Qed.

Lemma circle_aper_zero ny nx px py s r : circle_aper ny nx px py s r = AZero <-> (r <= 0)%Q.
Proof.
  unfold circle_aper. destruct (Qle_bool r 0) eqn:Er.
  - apply Qle_bool_iff in Er. tauto.
  - apply Qle_bool_false_lt' in Er. cbv zeta. destruct (to_image _ _ ny nx); split; try discriminate; lra.
Qed.

Lemma circ_box_nonempty px py r : (0 < r)%Q ->
  ixmin (circ_box px py r) < ixmax (circ_box px py r) /\ iymin (circ_box px py r) < iymax (circ_box px py r).
Proof. intros Hr. apply from_float_nonempty; lra. Qed.

Lemma circle_aper_off ny nx px py s r :
  circle_aper ny nx px py s r = AOff <->
  (0 < r)%Q /\ forall y x, ~ (in_box (circ_box px py r) y x /\ in_img ny nx y x).
Proof.
  unfold circle_aper. destruct (Qle_bool r 0) eqn:Er.
  - apply Qle_bool_iff in Er. split; [discriminate|]. intros [H _]. lra.
  - apply Qle_bool_false_lt' in Er. cbv zeta.
    destruct (circ_box_nonempty px py r Er) as [Hx Hy].
    pose proof (to_image_none_iff (circ_box px py r)
                  (mask_counts (Circle r) (circ_box px py r) px py s) ny nx Hx Hy) as N.
    destruct (to_image _ _ ny nx) as [w|].
    + split; [discriminate|]. intros [_ H]. apply N in H. discriminate.
    + split; [intros _; split; [exact Er|apply N; reflexivity]|reflexivity].
Qed.

(* a larger concentric aperture overlaps the image whenever a smaller (positive) one does *)
Lemma circle_aper_overlap_monotone ny nx px py s r1 r2 :
  (0 < r1)%Q -> (r1 <= r2)%Q ->
  circle_aper ny nx px py s r1 <> AOff -> circle_aper ny nx px py s r2 <> AOff.
Proof.
  intros H0 H1 Hon Hoff. apply Hon. apply circle_aper_off in Hoff as [_ Hoff].
  apply circle_aper_off. split; [exact H0|]. intros y x [Hb Hi]. apply (Hoff y x). split; [|exact Hi].
  pose proof (circ_box_monotone px py r1 r2 H1). unfold in_box in *. lia.
Qed.

(* the weights of [circle_aper] as a function of the pixel index *)
Lemma circle_aper_aw ny nx px py s r wf_ :
  0 < s -> aw (circle_aper ny nx px py s r) = Some wf_ ->
  ((r <= 0)%Q /\ wf_ = fun _ => 0) \/
  ((0 < r)%Q /\ wf_ = wt (raster ny nx (pixel_count (Circle r) px py s))).
Proof.
  intros Hs. destruct (circle_aper ny nx px py s r) as [| |w] eqn:E; cbn [aw]; [| discriminate |].
  - intros [= <-]. left. split; [apply (circle_aper_zero ny nx px py s r); exact E|reflexivity].
  - intros [= <-]. right. destruct (circle_aper_weights ny nx px py s r w Hs E) as [Hr ->]. split; [exact Hr|reflexivity].
Qed.

(* A1 for the weight images: monotone in the radius at every pixel index *)
Lemma circle_aper_weights_monotone ny nx px py s r1 r2 wa wb :
  0 < s -> (r1 <= r2)%Q ->
  aw (circle_aper ny nx px py s r1) = Some wa -> aw (circle_aper ny nx px py s r2) = Some wb ->
  forall p, wa p <= wb p.
Proof.
  intros Hs H12 Ha Hb.
  destruct (circle_aper_aw ny nx px py s r1 wa Hs Ha) as [[Hr1 ->]|[Hr1 ->]];
  destruct (circle_aper_aw ny nx px py s r2 wb Hs Hb) as [[Hr2 ->]|[Hr2 ->]]; intros p.
  - lia.
  - apply raster_nonneg. intros y x _ _. apply pixel_count_range. lia.
  - exfalso. lra.
  - apply raster_le. intros y x _ _. apply circle_pixel_count_monotone; [lra|exact H12].
Qed.

(* the apertures built from any list of radii are well formed in the sense of C19 *)
Lemma circle_apers_wf ny nx px py s radii data err umask :
  0 < s -> length data = (Z.to_nat ny * Z.to_nat nx)%nat ->
  (forall e, err = Some e -> length e = length data) ->
  (forall m, umask = Some m -> length m = length data) ->
  wf data err umask (map (circle_aper ny nx px py s) radii).
Proof.
  intros Hs Hlen He Hm. split; [exact He|]. split; [exact Hm|].
  intros w Hin. apply in_map_iff in Hin as (r & E & _).
  destruct (circle_aper_weights ny nx px py s r w Hs E) as [Hr ->].
  split; [rewrite raster_length; symmetry; exact Hlen|].
  apply raster_nonneg. intros y x _ _. apply pixel_count_range. lia.
Qed.

(* ====================================================================================== *)
(* Part 3 -- the corollary for C19                                                          *)
(* ====================================================================================== *)
(* non-negative data, concentric circular apertures ('center' / 'subpixel' weights) with
   r_i <= r_j, neither aperture off the image: CoG_i <= CoG_j.  No hypothesis on the weights. *)
Lemma cog_monotone_center_subpixel ny nx px py s radii data err umask i j ri rj :
  0 < s -> length data = (Z.to_nat ny * Z.to_nat nx)%nat ->
  (forall e, err = Some e -> length e = length data) ->
  (forall m, umask = Some m -> length m = length data) ->
  (forall p, (p < npix data)%nat -> pix_masked data err umask p = false -> 0 <= dval data p) ->
  nth_error radii i = Some ri -> nth_error radii j = Some rj -> (ri <= rj)%Q ->
  circle_aper ny nx px py s ri <> AOff -> circle_aper ny nx px py s rj <> AOff ->
  let apers := map (circle_aper ny nx px py s) radii in
  exists x y, nth_error (cog_profile (s * s) (photometry data err umask apers)) i = Some (Some x) /\
              nth_error (cog_profile (s * s) (photometry data err umask apers)) j = Some (Some y) /\ (x <= y)%Q.
Proof.
  intros Hs Hlen He Hm Hnn Hi Hj Hij Hoi Hoj apers.
  pose proof (circle_apers_wf ny nx px py s radii data err umask Hs Hlen He Hm) as Hwf.
  assert (Ai : nth_error apers i = Some (circle_aper ny nx px py s ri))
    by (unfold apers; rewrite nth_error_map, Hi; reflexivity).
  assert (Aj : nth_error apers j = Some (circle_aper ny nx px py s rj))
    by (unfold apers; rewrite nth_error_map, Hj; reflexivity).
  destruct (aw (circle_aper ny nx px py s ri)) as [wa|] eqn:Ea;
    [|destruct (circle_aper ny nx px py s ri); cbn in Ea; congruence].
  destruct (aw (circle_aper ny nx px py s rj)) as [wb|] eqn:Eb;
    [|destruct (circle_aper ny nx px py s rj); cbn in Eb; congruence].
  apply (cog_monotone (s * s) data err umask apers Hwf i j _ _ wa wb ltac:(nia) Hnn Ai Aj Ea Eb).
  apply (circle_aper_weights_monotone ny nx px py s ri rj wa wb Hs Hij Ea Eb).
Qed.

(* sorted radii: the whole curve is non-decreasing wherever it is defined; when the first
   aperture with a positive radius overlaps the image, all later ones do *)
Definition radii_sorted (radii : list Q) : Prop :=
  forall i j ri rj, (i <= j)%nat -> nth_error radii i = Some ri -> nth_error radii j = Some rj -> (ri <= rj)%Q.

Lemma cog_monotone_sorted_radii ny nx px py s radii data err umask i j ri rj :
  0 < s -> length data = (Z.to_nat ny * Z.to_nat nx)%nat ->
  (forall e, err = Some e -> length e = length data) ->
  (forall m, umask = Some m -> length m = length data) ->
  (forall p, (p < npix data)%nat -> pix_masked data err umask p = false -> 0 <= dval data p) ->
  radii_sorted radii -> (i <= j)%nat ->
  nth_error radii i = Some ri -> nth_error radii j = Some rj -> (0 < ri)%Q ->
  circle_aper ny nx px py s ri <> AOff ->
  let apers := map (circle_aper ny nx px py s) radii in
  exists x y, nth_error (cog_profile (s * s) (photometry data err umask apers)) i = Some (Some x) /\
              nth_error (cog_profile (s * s) (photometry data err umask apers)) j = Some (Some y) /\ (x <= y)%Q.
Proof.
  intros Hs Hlen He Hm Hnn Hsort Hij Hi Hj Hri Hoi.
  pose proof (Hsort i j ri rj Hij Hi Hj) as Hle.
  apply (cog_monotone_center_subpixel ny nx px py s radii data err umask i j ri rj); try assumption.
  apply (circle_aper_overlap_monotone ny nx px py s ri rj Hri Hle Hoi).
Qed.
