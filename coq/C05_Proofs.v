(* C05 — proofs about the SegmentationImage history machine of C05_Model.v.
   Part 1: sorted duplicate-free lists (np.unique), ranges, find_objects.
   Part 2: every attribute read returns the fresh value and keeps the cache coherent.
   Part 3: every mutator keeps the cache coherent (cache_coherent by induction on the history).
   Part 4: documented effect of each mutator.
   Part 5: deblend bookkeeping names only present labels.
   Part 6: one polygon / segment per label. *)
From Coq Require Import List Arith ZArith Bool Lia Sorting.Sorted Relations.
From PV Require Import lib.Cases lib.Conn C05_Model.
Import ListNotations.
Open Scope Z_scope.

(* ------------------------------------------------------------------ *)
(* Part 1: lists                                                        *)
(* ------------------------------------------------------------------ *)
Definition ssorted := StronglySorted Z.lt.

Lemma memZ_In x l : memZ x l = true <-> In x l.
Proof.
  unfold memZ. rewrite existsb_exists. split.
  - intros (y & Hy & E). apply Z.eqb_eq in E. now subst.
  - intros H. exists x. split; [assumption|apply Z.eqb_refl].
Qed.
Lemma memZ_false x l : memZ x l = false <-> ~ In x l.
Proof. rewrite <- memZ_In. destruct (memZ x l); split; congruence. Qed.

Lemma ssorted_cons_inv a l : ssorted (a :: l) -> ssorted l /\ Forall (Z.lt a) l.
Proof. intros H. inversion H; subst. auto. Qed.

Lemma ssorted_ext l1 : forall l2, ssorted l1 -> ssorted l2 ->
  (forall x, In x l1 <-> In x l2) -> l1 = l2.
Proof.
  induction l1 as [|a l1 IH]; intros [|b l2] H1 H2 Hext.
  - reflexivity.
  - exfalso. apply (proj2 (Hext b)). now left.
  - exfalso. apply (proj1 (Hext a)). now left.
  - apply ssorted_cons_inv in H1 as [S1 F1]. apply ssorted_cons_inv in H2 as [S2 F2].
    rewrite Forall_forall in F1, F2.
    assert (a = b).
    { destruct (proj1 (Hext a) (or_introl eq_refl)) as [E|Ha]; [auto|].
      destruct (proj2 (Hext b) (or_introl eq_refl)) as [E|Hb]; [auto|].
      specialize (F1 _ Hb). specialize (F2 _ Ha). lia. }
    subst b. f_equal. apply IH; auto.
    intros x. split; intros Hx.
    + destruct (proj1 (Hext x) (or_intror Hx)) as [E|]; [|assumption].
      subst x. specialize (F1 _ Hx). lia.
    + destruct (proj2 (Hext x) (or_intror Hx)) as [E|]; [|assumption].
      subst x. specialize (F2 _ Hx). lia.
Qed.

Lemma insert_uniq_In a l x : In x (insert_uniq a l) <-> x = a \/ In x l.
Proof.
  induction l as [|b l IH]; cbn [insert_uniq].
  - cbn. split; [intros [H|[]]; auto|intros [H|[]]; auto].
  - destruct (a <? b) eqn:E1.
    + cbn [In]. split; [intros [H|H]; auto|intros [H|H]; auto].
    + destruct (a =? b) eqn:E2.
      * apply Z.eqb_eq in E2. subst b. cbn [In].
        split; [intros [H|H]; auto|intros [H|[H|H]]; auto].
      * cbn [In]. rewrite IH. split; [intros [H|[H|H]]; auto|intros [H|[H|H]]; auto].
Qed.
Lemma insert_uniq_sorted a l : ssorted l -> ssorted (insert_uniq a l).
Proof.
  induction l as [|b l IH]; cbn; intros H.
  - constructor; constructor.
  - destruct (a <? b) eqn:E1.
    + apply Z.ltb_lt in E1. constructor; [assumption|].
      apply ssorted_cons_inv in H as [S F]. constructor; [assumption|].
      rewrite Forall_forall in *. intros x Hx. specialize (F _ Hx). lia.
    + destruct (a =? b) eqn:E2; [assumption|].
      apply Z.ltb_ge in E1. apply Z.eqb_neq in E2.
      apply ssorted_cons_inv in H as [S F]. constructor; [apply IH; exact S|].
      rewrite Forall_forall in *. intros x Hx. apply insert_uniq_In in Hx as [->|Hx]; [lia|auto].
Qed.
Lemma unique_In l x : In x (unique l) <-> In x l.
Proof.
  induction l as [|a l IH]; cbn [unique fold_right In]; [tauto|].
  fold (unique l). rewrite insert_uniq_In, IH. split; [intros [H|H]; auto|intros [H|H]; auto].
Qed.
Lemma unique_sorted l : ssorted (unique l).
Proof. induction l as [|a l IH]; cbn; [constructor|apply insert_uniq_sorted, IH]. Qed.

Lemma nonzero_true v : nonzero v = true <-> v <> 0.
Proof. unfold nonzero. rewrite negb_true_iff, Z.eqb_neq. tauto. Qed.
Lemma get_labels_In d x : In x (get_labels d) <-> In x d /\ x <> 0.
Proof. unfold get_labels. rewrite unique_In, filter_In, nonzero_true. tauto. Qed.
Lemma get_labels_sorted d : ssorted (get_labels d).
Proof. apply unique_sorted. Qed.
Lemma get_labels_ext d1 d2 :
  (forall x, x <> 0 -> (In x d1 <-> In x d2)) -> get_labels d1 = get_labels d2.
Proof.
  intros H. apply ssorted_ext; try apply get_labels_sorted.
  intros x. rewrite !get_labels_In. split; intros [A B]; split; auto; apply (H x B); auto.
Qed.

Lemma ssorted_filter (f : Z -> bool) l : ssorted l -> ssorted (filter f l).
Proof.
  induction l as [|a l IH]; cbn; intros H; [constructor|].
  apply ssorted_cons_inv in H as [S F]. destruct (f a); [|apply IH; exact S].
  constructor; [apply IH; exact S|]. rewrite Forall_forall in *. intros x Hx.
  apply filter_In in Hx as [Hx _]. auto.
Qed.

(* zrange *)
Lemma zrange_S a n : zrange a (S n) = a :: zrange (a + 1) n.
Proof.
  unfold zrange. cbn [seq map]. f_equal; [lia|].
  rewrite <- seq_shift, map_map. apply map_ext. intros i. lia.
Qed.
Lemma zrange_0 a : zrange a 0 = [].
Proof. reflexivity. Qed.
Lemma zrange_In a n x : In x (zrange a n) <-> a <= x < a + Z.of_nat n.
Proof.
  revert a; induction n as [|n IH]; intros a.
  - rewrite zrange_0. cbn. lia.
  - rewrite zrange_S. cbn [In]. rewrite IH. lia.
Qed.
Lemma zrange_sorted a n : ssorted (zrange a n).
Proof.
  revert a; induction n as [|n IH]; intros a.
  - constructor.
  - rewrite zrange_S. constructor; [apply IH|].
    rewrite Forall_forall. intros x Hx. apply zrange_In in Hx. lia.
Qed.
Lemma zrange_length a n : length (zrange a n) = n.
Proof. unfold zrange. now rewrite map_length, seq_length. Qed.

(* maxz *)
Lemma maxz_cons a l : maxz (a :: l) = Z.max a (maxz l).
Proof. reflexivity. Qed.
Lemma maxz_ge l x : In x l -> x <= maxz l.
Proof.
  induction l as [|a l IH]; [intros []|]. rewrite maxz_cons.
  intros [->|H]; [lia|]. specialize (IH H). lia.
Qed.
Lemma maxz_nonneg l : 0 <= maxz l.
Proof. induction l as [|a l IH]; [cbn; lia|rewrite maxz_cons; lia]. Qed.
Lemma maxz_In l : maxz l = 0 \/ In (maxz l) l.
Proof.
  induction l as [|a l IH]; [left; reflexivity|]. rewrite maxz_cons.
  destruct (Z.max_spec a (maxz l)) as [[_ E]|[_ E]]; rewrite E.
  - destruct IH as [E0|H]; [left; exact E0|right; right; exact H].
  - right; left; reflexivity.
Qed.

(* pixels *)
Lemma pixels_In d l p : In p (pixels d l) <-> (p < length d)%nat /\ nth p d 0 = l.
Proof.
  unfold pixels. rewrite filter_In, in_seq, Z.eqb_eq. intuition lia.
Qed.
Lemma pixels_nonempty d l : pixels d l <> [] <-> In l d.
Proof.
  split.
  - intros H. destruct (pixels d l) as [|p ps] eqn:E; [congruence|].
    assert (Hp : In p (pixels d l)) by (rewrite E; now left).
    apply pixels_In in Hp as [Hp <-]. now apply nth_In.
  - intros H E. destruct (In_nth _ _ 0 H) as (p & Hp & Ep).
    assert (Hin : In p (pixels d l)) by (apply pixels_In; auto).
    rewrite E in Hin. destruct Hin.
Qed.
Definition has (d : list Z) (l : Z) : bool := negb (null (pixels d l)).
Lemma has_true d l : has d l = true <-> In l d.
Proof.
  rewrite <- pixels_nonempty. unfold has. destruct (pixels d l); cbn; split; congruence.
Qed.
Lemma bslice_has nx d l :
  bslice nx d l = if has d l then Some (hull nx (pixels d l)) else None.
Proof. unfold bslice, has. destruct (pixels d l); reflexivity. Qed.

(* labels_from / somes over a mapped range *)
Lemma labels_from_map {A} (g : Z -> option A) n : forall i,
  labels_from i (map (fun l => match g l with Some _ => Some (0,0,0,0) | None => None end) (zrange i n))
  = filter (fun l => match g l with Some _ => true | None => false end) (zrange i n).
Proof.
  induction n as [|n IH]; intros i; [reflexivity|].
  rewrite zrange_S. cbn [map filter labels_from]. destruct (g i); cbn; rewrite IH; reflexivity.
Qed.
Lemma labels_from_filter nx d n : forall i,
  labels_from i (map (bslice nx d) (zrange i n)) = filter (has d) (zrange i n).
Proof.
  induction n as [|n IH]; intros i; [reflexivity|].
  rewrite zrange_S. cbn [map filter labels_from]. rewrite bslice_has.
  destruct (has d i); rewrite IH; reflexivity.
Qed.
Lemma somes_filter nx d L :
  somes (map (bslice nx d) L) = map (fun l => hull nx (pixels d l)) (filter (has d) L).
Proof.
  induction L as [|a L IH]; [reflexivity|].
  cbn [map filter somes]. rewrite bslice_has. destruct (has d a); cbn; rewrite IH; reflexivity.
Qed.

Definition nonnegl (d : list Z) := Forall (fun v => 0 <= v) d.
Lemma filter_has_range d : nonnegl d ->
  filter (has d) (zrange 1 (Z.to_nat (maxz d))) = get_labels d.
Proof.
  intros Hd. apply ssorted_ext.
  - apply ssorted_filter, zrange_sorted.
  - apply get_labels_sorted.
  - intros x. rewrite filter_In, has_true, zrange_In, get_labels_In.
    pose proof (maxz_nonneg d). rewrite Z2Nat.id by assumption. split.
    + intros [Hr Hx]. split; [assumption|lia].
    + intros [Hx Hn]. split; [|assumption].
      pose proof (maxz_ge _ _ Hx). unfold nonnegl in Hd. rewrite Forall_forall in Hd.
      specialize (Hd _ Hx). lia.
Qed.

(* labels derived from cached raw slices = labels derived from the array *)
Lemma labels_from_raw_ok nx d : nonnegl d ->
  labels_from_raw (raw_slices nx d) = get_labels d.
Proof.
  intros Hd. unfold labels_from_raw, raw_slices. rewrite labels_from_filter.
  now apply filter_has_range.
Qed.
(* slices = tight hull of each present label, in label order *)
Lemma slices_by_label nx d : nonnegl d ->
  somes (raw_slices nx d) = map (fun l => hull nx (pixels d l)) (get_labels d).
Proof.
  intros Hd. unfold raw_slices. rewrite somes_filter. now rewrite filter_has_range.
Qed.

(* ------------------------------------------------------------------ *)
(* Part 2: attribute reads                                              *)
(* ------------------------------------------------------------------ *)
Definition nonneg (c : core) := nonnegl (c_data c).
(* every cached entry is the value a fresh object computes on the current array *)
Definition coherent (s : state) := forall k v, cache s k = Some v -> v = fresh (st s) k.
Definition good (s : state) := nonneg (st s) /\ coherent s.
(* a read returns the fresh value, leaves array/dtype/map alone and keeps the state good *)
Definition okM (k : key) (m : M) := forall s, good s ->
  fst (m s) = fresh (st s) k /\ st (snd (m s)) = st s /\ good (snd (m s)).

Lemma good_put k v s : good s -> v = fresh (st s) k -> good (put k v s).
Proof.
  intros [N C] E. split; [exact N|]. intros k' v'. unfold put; cbn [cache st].
  destruct (key_eq_dec k' k) as [->|_]; [intros [= <-]; exact E|apply C].
Qed.
Lemma memo_ok k m : okM k m -> okM k (memo k m).
Proof.
  intros H s G. unfold memo. destruct (cache s k) as [v|] eqn:E.
  - cbn [fst snd]. split; [apply (proj2 G), E|split; [reflexivity|exact G]].
  - specialize (H s G). destruct (m s) as [v s']. cbn [fst snd] in *.
    destruct H as (Hv & Hst & Hg). split; [exact Hv|]. split; [exact Hst|].
    apply good_put; [exact Hg|rewrite Hst; exact Hv].
Qed.

Ltac rd_step f Hok s G s1 Hst1 G1 :=
  let P := fresh "P" in let v := fresh "v" in
  pose proof (Hok s G) as P; destruct (f s) as [v s1]; cbn [fst snd] in P;
  destruct P as (-> & Hst1 & G1); cbv beta iota.
Ltac rd_done := cbn [fst snd]; split; [|split; [congruence|assumption]].

Lemma rd_labels_ok : okM KLabels rd_labels.
Proof.
  apply memo_ok. intros s G. cbn [fst snd]. split; [|split; [reflexivity|exact G]].
  destruct (cache s KRaw) as [v|] eqn:E; [|reflexivity].
  apply (proj2 G) in E. subst v. cbn [fresh asRaw]. f_equal.
  apply labels_from_raw_ok, (proj1 G).
Qed.
Lemma rd_nlabels_ok : okM KNLabels rd_nlabels.
Proof.
  apply memo_ok. intros s G. rd_step rd_labels rd_labels_ok s G s1 Hst1 G1. rd_done. reflexivity.
Qed.
Lemma rd_max_ok : okM KMaxLabel rd_max.
Proof.
  apply memo_ok. intros s G. rd_step rd_nlabels rd_nlabels_ok s G s1 Hst1 G1.
  cbn [fresh asZ f_max max_of].
  destruct (f_nlabels (st s) =? 0) eqn:E.
  - rd_done. unfold f_max, max_of. now rewrite E.
  - rd_step rd_labels rd_labels_ok s1 G1 s2 Hst2 G2. rd_done.
    rewrite Hst1. cbn [fresh asL]. unfold f_max, max_of. now rewrite E.
Qed.
Lemma rd_raw_ok : okM KRaw rd_raw.
Proof. apply memo_ok. intros s G. rd_done; reflexivity. Qed.
Lemma rd_slices_ok : okM KSlices rd_slices.
Proof.
  apply memo_ok. intros s G. rd_step rd_raw rd_raw_ok s G s1 Hst1 G1. rd_done. reflexivity.
Qed.
Lemma rd_ndim_ok : okM KNdim rd_ndim.
Proof. apply memo_ok. intros s G. rd_done; reflexivity. Qed.
Lemma rd_shape_ok : okM KShape rd_shape.
Proof. apply memo_ok. intros s G. rd_done; reflexivity. Qed.
Lemma rd_bbox_ok : okM KBbox rd_bbox.
Proof.
  apply memo_ok. intros s G. rd_step rd_ndim rd_ndim_ok s G s1 Hst1 G1.
  rd_step rd_slices rd_slices_ok s1 G1 s2 Hst2 G2. rd_done. rewrite Hst1. reflexivity.
Qed.
Lemma rd_areas_ok : okM KAreas rd_areas.
Proof.
  apply memo_ok. intros s G. rd_step rd_labels rd_labels_ok s G s1 Hst1 G1.
  rd_step rd_slices rd_slices_ok s1 G1 s2 Hst2 G2. rd_done. rewrite Hst2, Hst1. reflexivity.
Qed.
Lemma rd_bg_ok : okM KBgArea rd_bg.
Proof. apply memo_ok. intros s G. rd_done; reflexivity. Qed.
Lemma rd_isconsec_ok : okM KIsConsec rd_isconsec.
Proof.
  apply memo_ok. intros s G. rd_step rd_nlabels rd_nlabels_ok s G s1 Hst1 G1.
  cbn [fresh asZ].
  destruct (f_nlabels (st s) =? 0) eqn:E.
  - rd_done. unfold is_consec_of. now rewrite E.
  - rd_step rd_labels rd_labels_ok s1 G1 s2 Hst2 G2. rd_done. rewrite Hst1. reflexivity.
Qed.
Lemma rd_missing_ok : okM KMissing rd_missing.
Proof.
  apply memo_ok. intros s G. rd_step rd_max rd_max_ok s G s1 Hst1 G1.
  rd_step rd_labels rd_labels_ok s1 G1 s2 Hst2 G2. rd_done. rewrite Hst1. reflexivity.
Qed.
Lemma rd_datama_ok : okM KDataMa rd_datama.
Proof. apply memo_ok. intros s G. rd_done; reflexivity. Qed.
Lemma rd_geo_ok : okM KGeo rd_geo.
Proof. apply memo_ok. intros s G. rd_done; reflexivity. Qed.
Lemma rd_polygons_ok : okM KPolygons rd_polygons.
Proof.
  apply memo_ok. intros s G. rd_step rd_geo rd_geo_ok s G s1 Hst1 G1. rd_done.
  rewrite Hst1. reflexivity.
Qed.
Lemma rd_segments_ok : okM KSegments rd_segments.
Proof.
  apply memo_ok. intros s G. rd_step rd_labels rd_labels_ok s G s1 Hst1 G1.
  rd_step rd_slices rd_slices_ok s1 G1 s2 Hst2 G2.
  rd_step rd_bbox rd_bbox_ok s2 G2 s3 Hst3 G3.
  rd_step rd_areas rd_areas_ok s3 G3 s4 Hst4 G4.
  rd_step rd_polygons rd_polygons_ok s4 G4 s5 Hst5 G5. rd_done.
  rewrite Hst4, Hst3, Hst2, Hst1. reflexivity.
Qed.
Lemma rd_deblabels_ok : okM KDebLabels rd_deblabels.
Proof. apply memo_ok. intros s G. rd_done; reflexivity. Qed.
Lemma rd_debmap_ok : okM KDebMap rd_debmap.
Proof. apply memo_ok. intros s G. rd_done; reflexivity. Qed.
Lemma rd_debinv_ok : okM KDebInv rd_debinv.
Proof. apply memo_ok. intros s G. rd_done; reflexivity. Qed.
Lemma rd_cmap_ok : okM KCmap rd_cmap.
Proof.
  apply memo_ok. intros s G. rd_step rd_max rd_max_ok s G s1 Hst1 G1.
  rd_step rd_nlabels rd_nlabels_ok s1 G1 s2 Hst2 G2. rd_done. rewrite Hst1. reflexivity.
Qed.
Lemma rd_ok k : okM k (rd k).
Proof.
  destruct k; cbn [rd];
  [ apply rd_labels_ok | apply rd_nlabels_ok | apply rd_max_ok | apply rd_raw_ok | apply rd_slices_ok
  | apply rd_ndim_ok | apply rd_shape_ok | apply rd_bbox_ok | apply rd_areas_ok | apply rd_bg_ok
  | apply rd_isconsec_ok | apply rd_missing_ok | apply rd_datama_ok | apply rd_geo_ok
  | apply rd_polygons_ok | apply rd_segments_ok | apply rd_deblabels_ok | apply rd_debmap_ok
  | apply rd_debinv_ok | apply rd_cmap_ok ].
Qed.

(* ------------------------------------------------------------------ *)
(* Part 3a: rank tables (np.arange(len(labels)) + start on the sorted labels)  *)
(* ------------------------------------------------------------------ *)
Lemma index_of_Some v L : forall j, index_of v L = Some j -> (j < length L)%nat /\ nth j L 0 = v.
Proof.
  induction L as [|a L IH]; intros j; cbn [index_of]; [discriminate|].
  destruct (a =? v) eqn:E.
  - intros [= <-]. apply Z.eqb_eq in E. cbn. split; [lia|assumption].
  - destruct (index_of v L) as [i|]; cbn [option_map]; [|discriminate].
    intros [= <-]. destruct (IH i eq_refl) as [H1 H2]. cbn [length nth]. split; [lia|assumption].
Qed.
Lemma index_of_In v L : In v L -> exists j, index_of v L = Some j.
Proof.
  induction L as [|a L IH]; cbn [index_of In]; [intros []|].
  intros H. destruct (a =? v) eqn:E; [eexists; reflexivity|].
  apply Z.eqb_neq in E. destruct H as [H|H]; [contradiction|].
  destruct (IH H) as [j ->]. eexists; reflexivity.
Qed.
Lemma index_of_None v L : index_of v L = None <-> ~ In v L.
Proof.
  split.
  - intros E H. destruct (index_of_In _ _ H) as [j Hj]. congruence.
  - intros H. destruct (index_of v L) as [j|] eqn:E; [|reflexivity].
    exfalso. apply H. destruct (index_of_Some _ _ _ E) as [Hj <-]. now apply nth_In.
Qed.
Lemma index_of_nth L : ssorted L -> forall j, (j < length L)%nat -> index_of (nth j L 0) L = Some j.
Proof.
  induction L as [|a L IH]; intros HS j Hj; [cbn in Hj; lia|].
  apply ssorted_cons_inv in HS as [S F]. rewrite Forall_forall in F.
  destruct j as [|j]; cbn [nth index_of].
  - now rewrite Z.eqb_refl.
  - cbn [length] in Hj. assert (Hin : In (nth j L 0) L) by (apply nth_In; lia).
    specialize (F _ Hin). destruct (a =? nth j L 0) eqn:E; [apply Z.eqb_eq in E; lia|].
    rewrite IH by (auto; lia). reflexivity.
Qed.
Lemma index_of_mono L : ssorted L -> forall a b i j,
  index_of a L = Some i -> index_of b L = Some j -> (a < b <-> (i < j)%nat).
Proof.
  induction L as [|x L IH]; intros HS a b i j; cbn [index_of]; [discriminate|].
  apply ssorted_cons_inv in HS as [S F]. rewrite Forall_forall in F.
  destruct (x =? a) eqn:Ea; destruct (x =? b) eqn:Eb.
  - intros [= <-] [= <-]. apply Z.eqb_eq in Ea, Eb. lia.
  - intros [= <-]. destruct (index_of b L) as [j'|] eqn:Ej; cbn [option_map]; [|discriminate].
    intros [= <-]. apply Z.eqb_eq in Ea. subst x.
    destruct (index_of_Some _ _ _ Ej) as [Hj <-].
    assert (Hin : In (nth j' L 0) L) by (apply nth_In; lia). specialize (F _ Hin). lia.
  - destruct (index_of a L) as [i'|] eqn:Ei; cbn [option_map]; [|discriminate].
    intros [= <-] [= <-]. apply Z.eqb_eq in Eb. subst x.
    destruct (index_of_Some _ _ _ Ei) as [Hi <-].
    assert (Hin : In (nth i' L 0) L) by (apply nth_In; lia). specialize (F _ Hin). lia.
  - destruct (index_of a L) as [i'|] eqn:Ei; cbn [option_map]; [|discriminate].
    destruct (index_of b L) as [j'|] eqn:Ej; cbn [option_map]; [|discriminate].
    intros [= <-] [= <-]. rewrite (IH S a b i' j' Ei Ej). lia.
Qed.

(* rankS: the lookup table *)
Lemma rankS_notin start L v : ~ In v L -> rankS start L v = 0.
Proof. intros H. unfold rankS. now rewrite (proj2 (index_of_None v L) H). Qed.
Lemma rankS_in start L v : In v L ->
  exists j, index_of v L = Some j /\ rankS start L v = start + Z.of_nat j /\ (j < length L)%nat.
Proof.
  intros H. destruct (index_of_In _ _ H) as [j Hj]. exists j. unfold rankS. rewrite Hj.
  destruct (index_of_Some _ _ _ Hj). auto.
Qed.
Lemma rankS_zero_iff start L v : 0 < start -> (rankS start L v = 0 <-> ~ In v L).
Proof.
  intros Hs. split; [|apply rankS_notin].
  intros E H. destruct (rankS_in start L v H) as (j & _ & Ej & _). lia.
Qed.
Lemma rankS_nonneg start L v : 0 <= start -> 0 <= rankS start L v.
Proof. intros H. unfold rankS. destruct (index_of v L); lia. Qed.
Lemma rankS_inj start L u v : In u L -> In v L -> rankS start L u = rankS start L v -> u = v.
Proof.
  intros Hu Hv E. destruct (rankS_in start L u Hu) as (i & Ei & Ri & _).
  destruct (rankS_in start L v Hv) as (j & Ej & Rj & _).
  assert (i = j) by lia. subst j.
  destruct (index_of_Some _ _ _ Ei) as [_ <-]. destruct (index_of_Some _ _ _ Ej) as [_ <-]. reflexivity.
Qed.
Lemma rankS_mono start L u v : ssorted L -> In u L -> In v L ->
  (u < v <-> rankS start L u < rankS start L v).
Proof.
  intros HS Hu Hv. destruct (rankS_in start L u Hu) as (i & Ei & -> & _).
  destruct (rankS_in start L v Hv) as (j & Ej & -> & _).
  rewrite (index_of_mono L HS u v i j Ei Ej). lia.
Qed.
Lemma nth_zrange a n j : (j < n)%nat -> nth j (zrange a n) 0 = a + Z.of_nat j.
Proof.
  intros Hj. unfold zrange.
  transitivity (nth j (map (fun i => a + Z.of_nat i) (seq 0 n)) ((fun i => a + Z.of_nat i) 0%nat)).
  - apply nth_indep. rewrite map_length, seq_length. exact Hj.
  - pose proof (map_nth (fun i => a + Z.of_nat i) (seq 0 n) 0%nat j) as H. cbv beta in H.
    cbv beta. rewrite H. rewrite seq_nth by exact Hj. reflexivity.
Qed.
Lemma map_rankS start L : ssorted L -> map (rankS start L) L = zrange start (length L).
Proof.
  intros HS. apply (nth_ext _ _ 0 0); [now rewrite map_length, zrange_length|].
  intros j Hj. rewrite map_length in Hj. rewrite nth_zrange by assumption.
  rewrite (nth_indep _ 0 (rankS start L 0)) by (rewrite map_length; lia).
  rewrite map_nth. unfold rankS. now rewrite index_of_nth.
Qed.

Lemma get_labels_map_In (f : Z -> Z) d x :
  In x (get_labels (map f d)) <-> exists v, In v d /\ f v = x /\ x <> 0.
Proof.
  rewrite get_labels_In, in_map_iff. split.
  - intros [(v & E & Hv) Hx]. exists v. auto.
  - intros (v & Hv & E & Hx). split; [exists v; auto|assumption].
Qed.

(* Lemma B: relabelling through the rank table gives exactly start .. start+N-1 *)
Lemma relabel_labels start d : 0 < start ->
  get_labels (map (rankS start (get_labels d)) d) = zrange start (length (get_labels d)).
Proof.
  intros Hs. set (L := get_labels d). apply ssorted_ext; [apply get_labels_sorted|apply zrange_sorted|].
  intros x. rewrite get_labels_map_In, zrange_In. split.
  - intros (v & Hv & E & Hx). assert (Hin : In v L).
    { destruct (in_dec Z.eq_dec v L) as [H|H]; [assumption|]. rewrite rankS_notin in E by assumption. congruence. }
    destruct (rankS_in start L v Hin) as (j & _ & Ej & Hj). lia.
  - intros Hx. set (j := Z.to_nat (x - start)). assert (Hj : (j < length L)%nat) by (unfold j; lia).
    exists (nth j L 0). assert (Hin : In (nth j L 0) L) by (apply nth_In; exact Hj).
    split; [apply get_labels_In in Hin; tauto|]. split; [|lia].
    unfold rankS. rewrite index_of_nth; [unfold j; lia|apply get_labels_sorted|exact Hj].
Qed.

Lemma nth_map0 (f : Z -> Z) d p : (p < length d)%nat -> nth p (map f d) 0 = f (nth p d 0).
Proof.
  intros Hp. rewrite (nth_indep _ 0 (f 0)) by (rewrite map_length; exact Hp). apply map_nth.
Qed.
Lemma pixels_map (f : Z -> Z) d l :
  (forall u, In u d -> (f u = f l <-> u = l)) -> pixels (map f d) (f l) = pixels d l.
Proof.
  intros H. unfold pixels. rewrite map_length. apply filter_ext_in. intros p Hp.
  apply in_seq in Hp. rewrite nth_map0 by lia.
  assert (Hin : In (nth p d 0) d) by (apply nth_In; lia). specialize (H _ Hin).
  destruct (f (nth p d 0) =? f l) eqn:E1; destruct (nth p d 0 =? l) eqn:E2; try reflexivity.
  - apply Z.eqb_eq in E1. apply Z.eqb_neq in E2. tauto.
  - apply Z.eqb_neq in E1. apply Z.eqb_eq in E2. tauto.
Qed.
Lemma nonnegl_map (f : Z -> Z) d : (forall v, In v d -> 0 <= f v) -> nonnegl (map f d).
Proof.
  intros H. unfold nonnegl. rewrite Forall_forall. intros x Hx. apply in_map_iff in Hx as (v & <- & Hv). auto.
Qed.

(* Lemma C: relabelling through an order-preserving table leaves the list of slices unchanged *)
Lemma relabel_slices nx start d : 0 < start -> nonnegl d ->
  somes (raw_slices nx (map (rankS start (get_labels d)) d)) = somes (raw_slices nx d).
Proof.
  intros Hs Hd.
  assert (Hfd : nonnegl (map (rankS start (get_labels d)) d))
    by (apply nonnegl_map; intros; apply rankS_nonneg; lia).
  rewrite (slices_by_label nx _ Hfd), (slices_by_label nx _ Hd).
  rewrite relabel_labels by assumption.
  rewrite <- (map_rankS start (get_labels d)) by apply get_labels_sorted. rewrite map_map.
  apply map_ext_in. intros l Hl. f_equal. apply pixels_map.
  intros u Hu. split; [|now intros ->].
  intros E. destruct (in_dec Z.eq_dec u (get_labels d)) as [HuL|HuL].
  - eapply rankS_inj; eauto.
  - rewrite (rankS_notin start _ u HuL) in E. symmetry in E. apply rankS_zero_iff in E; [contradiction|assumption].
Qed.

(* ------------------------------------------------------------------ *)
(* Part 3b: mutators                                                    *)
(* ------------------------------------------------------------------ *)
Definition same_frame (c c' : core) :=
  c_ny c' = c_ny c /\ c_nx c' = c_nx c /\ c_lo c' = c_lo c /\ c_hi c' = c_hi c.
(* the label array was mapped through the lookup table f, and so was the deblend map *)
Definition applied (f : Z -> Z) (c c' : core) :=
  same_frame c c' /\ c_data c' = map f (c_data c) /\ c_dmap c' = update_dmap f (c_dmap c).
Definition consec_from (start : Z) (d : list Z) : list Z := map (rankS start (get_labels d)) d.

Lemma same_frame_refl c : same_frame c c.
Proof. repeat split. Qed.
Lemma good_reset c d dm : nonnegl d -> good (reset (with_data c d dm)).
Proof. intros H. split; [exact H|]. intros k v. cbn. discriminate. Qed.
Lemma applied_with_data f c :
  applied f c (with_data c (map f (c_data c)) (update_dmap f (c_dmap c))).
Proof. repeat split. Qed.

(* a strictly increasing integer list spanning exactly its length is a range *)
Lemma span_ge L : forall a, ssorted (a :: L) -> Z.of_nat (length (a :: L)) <= last (a :: L) 0 - a + 1.
Proof.
  induction L as [|b L IH]; intros a HS; [cbn; lia|].
  apply ssorted_cons_inv in HS as [HS1 F]. specialize (IH b HS1).
  assert (a < b) by (rewrite Forall_forall in F; apply F; now left).
  change (last (a :: b :: L) 0) with (last (b :: L) 0).
  change (length (a :: b :: L)) with (S (length (b :: L))). lia.
Qed.
Lemma span_tight L : forall a, ssorted (a :: L) ->
  last (a :: L) 0 - a + 1 = Z.of_nat (length (a :: L)) -> a :: L = zrange a (length (a :: L)).
Proof.
  induction L as [|b L IH]; intros a HS E; [cbn [length]; now rewrite zrange_S, zrange_0|].
  pose proof HS as HS0. apply ssorted_cons_inv in HS as [HS1 F].
  assert (a < b) by (rewrite Forall_forall in F; apply F; now left).
  pose proof (span_ge L b HS1) as G.
  change (last (a :: b :: L) 0) with (last (b :: L) 0) in E.
  change (length (a :: b :: L)) with (S (length (b :: L))) in *.
  assert (b = a + 1) by lia. subst b.
  rewrite zrange_S. f_equal. apply IH; [exact HS1|lia].
Qed.
Lemma consec_id start d : nonnegl d -> get_labels d <> [] -> hd 0 (get_labels d) = start ->
  last (get_labels d) 0 - hd 0 (get_labels d) + 1 = Z.of_nat (length (get_labels d)) ->
  consec_from start d = d.
Proof.
  intros Hd Hne Hhd Hspan. unfold consec_from.
  pose proof (get_labels_sorted d) as HS.
  destruct (get_labels d) as [|a L] eqn:EL; [congruence|]. cbn [hd] in *. subst a.
  pose proof (span_tight L start HS Hspan) as ER.
  rewrite <- (map_id d) at 2. apply map_ext_in. intros v Hv.
  destruct (Z.eq_dec v 0) as [->|Hv0].
  - apply rankS_notin. rewrite <- EL, get_labels_In. tauto.
  - assert (Hin : In v (start :: L)) by (rewrite <- EL; apply get_labels_In; auto).
    destruct (rankS_in start _ v Hin) as (j & Ej & -> & Hj).
    destruct (index_of_Some _ _ _ Ej) as [_ Hn]. rewrite ER, nth_zrange in Hn by exact Hj. lia.
Qed.
Lemma get_labels_nil_zero d : get_labels d = [] -> forall v, In v d -> v = 0.
Proof.
  intros E v Hv. destruct (Z.eq_dec v 0) as [|H]; [assumption|].
  assert (In v (get_labels d)) by (apply get_labels_In; auto). rewrite E in H0. destruct H0.
Qed.

Lemma length_zero_iff_nil {A} (l : list A) : Z.of_nat (length l) =? 0 = true <-> l = [].
Proof. destruct l; cbn; split; intros; try reflexivity; try discriminate. Qed.

Lemma relabel_consecutive_spec start s : good s ->
  good (snd (relabel_consecutive start s)) /\
  let d := c_data (st s) in let s' := snd (relabel_consecutive start s) in
  match fst (relabel_consecutive start s) with
  | Ok => 0 < start /\ get_labels d <> [] /\
          start + Z.of_nat (length (get_labels d)) - 1 <= c_hi (st s) /\
          c_data (st s') = consec_from start d /\
          (st s' = st s \/ applied (rankS start (get_labels d)) (st s) (st s'))
  | Warned => st s' = st s /\ get_labels d = []
  | ErrValue => st s' = st s /\ get_labels d <> [] /\
                (start <= 0 \/ c_hi (st s) < start + Z.of_nat (length (get_labels d)) - 1)
  | _ => False
  end.
Proof.
  intros G. unfold relabel_consecutive.
  rd_step rd_nlabels rd_nlabels_ok s G s1 Hst1 G1. cbn [fresh asZ]. unfold f_nlabels, f_labels.
  set (d := c_data (st s)). set (L := get_labels d).
  destruct (Z.of_nat (length L) =? 0) eqn:En.
  { cbn [fst snd]. split; [exact G1|]. split; [exact Hst1|]. now apply length_zero_iff_nil. }
  assert (HL : L <> []) by (intros C; apply length_zero_iff_nil in C; congruence).
  destruct (start <=? 0) eqn:Es.
  { cbn [fst snd]. split; [exact G1|]. split; [exact Hst1|]. split; [exact HL|]. left. lia. }
  rewrite Hst1. destruct (c_hi (st s) <? start + Z.of_nat (length L) - 1) eqn:Eh.
  { cbn [fst snd]. split; [exact G1|]. split; [exact Hst1|]. split; [exact HL|]. right. lia. }
  rd_step rd_labels rd_labels_ok s1 G1 s2 Hst2 G2. rewrite Hst1. cbn [fresh asL]. unfold f_labels. fold d. fold L.
  assert (Hst2' : st s2 = st s) by congruence.
  destruct ((hd 0 L =? start) && (last L 0 - hd 0 L + 1 =? Z.of_nat (length L))) eqn:Ec.
  { cbn [fst snd]. split; [exact G2|]. split; [lia|]. split; [exact HL|]. split; [lia|].
    apply andb_true_iff in Ec as [E1 E2]. apply Z.eqb_eq in E1, E2.
    rewrite Hst2'. split; [|left; reflexivity]. fold d. symmetry. apply consec_id; auto. apply (proj1 G). }
  rd_step rd_max rd_max_ok s2 G2 s3 Hst3 G3.
  assert (Hst3' : st s3 = st s) by congruence. rewrite Hst3'. fold d.
  set (c' := with_data (st s) (map (rankS start L) d) (update_dmap (rankS start L) (c_dmap (st s)))).
  assert (Hnn : nonnegl (map (rankS start L) d)) by (apply nonnegl_map; intros; apply rankS_nonneg; lia).
  assert (G4 : good (put KLabels (VL (zrange start (Z.to_nat (Z.of_nat (length L))))) (reset c'))).
  { apply good_put; [apply good_reset; exact Hnn|]. cbn [st reset fresh]. unfold f_labels. cbn [c' with_data c_data].
    unfold L. rewrite relabel_labels by lia. now rewrite Nat2Z.id. }
  cbn [fst snd]. split.
  - destruct (cache s2 KSlices) as [v|] eqn:Esl; [|exact G4].
    apply good_put; [exact G4|]. apply (proj2 G2) in Esl. subst v. rewrite Hst2'.
    cbn [put st reset fresh]. unfold f_slices, f_raw. cbn [c' with_data c_data c_nx]. f_equal.
    fold d. unfold L. symmetry. apply relabel_slices; [lia|apply (proj1 G)].
  - split; [lia|]. split; [exact HL|]. split; [lia|].
    assert (Est : forall v0, st (match cache s2 KSlices with
              | Some v => put KSlices v (put KLabels v0 (reset c')) | None => put KLabels v0 (reset c') end) = c')
      by (intros; destruct (cache s2 KSlices); reflexivity).
    rewrite Est. split; [reflexivity|]. right. apply applied_with_data.
Qed.

(* ---- reassign_labels ---- *)
Definition valid_labels (ls d : list Z) := forall l, In l ls -> 0 < l /\ In l d.
Definition reassign_arr (ls : list Z) (new : Z) (d : list Z) :=
  map (fun v => if memZ v ls then new else v) d.
Definition maybe_consec (relabel : bool) (d : list Z) := if relabel then consec_from 1 d else d.

Lemma valid_reflect ls d :
  forallb (fun l => (0 <? l) && memZ l (get_labels d)) ls = true <-> valid_labels ls d.
Proof.
  rewrite forallb_forall. unfold valid_labels. split; intros H l Hl; specialize (H l Hl).
  - apply andb_true_iff in H as [H1 H2]. apply Z.ltb_lt in H1. apply memZ_In, get_labels_In in H2. tauto.
  - destruct H as [H1 H2]. apply andb_true_iff. split; [now apply Z.ltb_lt|].
    apply memZ_In, get_labels_In. split; [assumption|lia].
Qed.
Lemma check_labels_spec ls s : good s ->
  fst (check_labels ls s) = forallb (fun l => (0 <? l) && memZ l (get_labels (c_data (st s)))) ls /\
  st (snd (check_labels ls s)) = st s /\ good (snd (check_labels ls s)).
Proof.
  intros G. unfold check_labels. rd_step rd_labels rd_labels_ok s G s1 Hst1 G1.
  cbn [fst snd]. auto.
Qed.
Lemma relabel_fun_on_data ls new d v : valid_labels ls d -> In v d ->
  relabel_fun ls new (get_labels d) v = if memZ v ls then new else v.
Proof.
  intros Hv Hin. unfold relabel_fun. destruct (memZ v ls) eqn:E1; [reflexivity|].
  destruct (memZ v (get_labels d)) eqn:E2; [reflexivity|].
  apply memZ_false in E2. rewrite get_labels_In in E2.
  destruct (Z.eq_dec v 0); [congruence|tauto].
Qed.
Lemma reassign_arr_nil new d : reassign_arr [] new d = d.
Proof. unfold reassign_arr. cbn. apply map_id. Qed.
Lemma consec_zero d : get_labels d = [] -> consec_from 1 d = d.
Proof.
  intros E. unfold consec_from. rewrite E. rewrite <- (map_id d) at 2.
  apply map_ext_in. intros v Hv. rewrite (get_labels_nil_zero d E v Hv). reflexivity.
Qed.
Lemma max_of_labels d : get_labels d <> [] -> nonnegl d ->
  forall v, In v d -> 0 <= v <= max_of (Z.of_nat (length (get_labels d))) (get_labels d).
Proof.
  intros Hne Hd v Hv. unfold max_of.
  destruct (Z.of_nat (length (get_labels d)) =? 0) eqn:E; [apply length_zero_iff_nil in E; congruence|].
  unfold nonnegl in Hd. rewrite Forall_forall in Hd. split; [auto|].
  destruct (Z.eq_dec v 0) as [->|H0]; [apply maxz_nonneg|].
  apply maxz_ge, get_labels_In. auto.
Qed.
(* the second table of relabel=True is built from the first lookup table; it has the labels
   of the reassigned array *)
Lemma table_labels ls new d : valid_labels ls d -> nonnegl d -> get_labels d <> [] ->
  let rm := relabel_fun ls new (get_labels d) in
  let mx := max_of (Z.of_nat (length (get_labels d))) (get_labels d) in
  get_labels (map rm (zrange 0 (Z.to_nat (mx + 1)))) = get_labels (map rm d).
Proof.
  intros Hv Hd Hne rm mx. apply get_labels_ext. intros x Hx. rewrite !in_map_iff. split.
  - intros (i & Ei & Hi). unfold rm, relabel_fun in Ei.
    destruct (memZ i ls) eqn:E1.
    + apply memZ_In in E1. destruct (Hv i E1) as [_ Hid]. exists i. split; [|exact Hid].
      unfold rm, relabel_fun. apply memZ_In in E1. now rewrite E1.
    + destruct (memZ i (get_labels d)) eqn:E2; [|congruence].
      apply memZ_In, get_labels_In in E2 as [Hid _]. exists i. split; [|exact Hid].
      unfold rm, relabel_fun. rewrite E1. subst x.
      assert (E2 : memZ i (get_labels d) = true) by (apply memZ_In, get_labels_In; split; auto; congruence).
      now rewrite E2.
  - intros (v & Ev & Hvd). exists v. split; [exact Ev|].
    apply zrange_In. pose proof (max_of_labels d Hne Hd v Hvd). fold mx in H. lia.
Qed.

Lemma reassign_spec ls new relabel s : good s ->
  good (snd (reassign ls new relabel s)) /\
  let d := c_data (st s) in let s' := snd (reassign ls new relabel s) in
  match fst (reassign ls new relabel s) with
  | Ok => valid_labels ls d /\ 0 <= new /\ (ls <> [] -> new <= c_hi (st s)) /\
          c_data (st s') = maybe_consec relabel (reassign_arr ls new d) /\
          (st s' = st s \/ exists f, applied f (st s) (st s'))
  | ErrValue => st s' = st s /\
                (~ valid_labels ls d \/ new < 0 \/
                 (ls = [] /\ relabel = true /\ c_hi (st s) < Z.of_nat (length (get_labels d))))
  | ErrOverflow => st s' = st s /\ valid_labels ls d /\ ls <> [] /\ c_hi (st s) < new
  | _ => False
  end.
Proof.
  intros G. unfold reassign.
  destruct (check_labels_spec ls s G) as (Eok & Hst1 & G1).
  destruct (check_labels ls s) as [ok s1]. cbn [fst snd] in Eok, Hst1, G1. subst ok.
  set (d := c_data (st s)).
  destruct (forallb (fun l => (0 <? l) && memZ l (get_labels d)) ls) eqn:Ev; cbn [negb].
  2:{ cbn [fst snd]. split; [exact G1|]. split; [exact Hst1|]. left. intros C. apply valid_reflect in C. congruence. }
  apply valid_reflect in Ev.
  destruct (new <? 0) eqn:En.
  { cbn [fst snd]. split; [exact G1|]. split; [exact Hst1|]. right; left. lia. }
  destruct ls as [|l0 ls0].
  - (* empty label set *)
    destruct relabel.
    + rd_step rd_nlabels rd_nlabels_ok s1 G1 s2 Hst2 G2. rewrite Hst1. cbn [fresh asZ]. unfold f_nlabels, f_labels. fold d.
      destruct (Z.of_nat (length (get_labels d)) =? 0) eqn:E0.
      * apply length_zero_iff_nil in E0. cbn [fst snd]. split; [exact G2|].
        split; [exact Ev|]. split; [lia|]. split; [congruence|].
        assert (Hst2' : st s2 = st s) by congruence. rewrite Hst2'. fold d.
        split; [|left; reflexivity]. rewrite reassign_arr_nil. cbn [maybe_consec]. symmetry. now apply consec_zero.
      * pose proof (relabel_consecutive_spec 1 s2 G2) as [G3 Sp].
        assert (Hst2' : st s2 = st s) by congruence. rewrite Hst2' in Sp. fold d in Sp. cbv zeta in Sp.
        split; [exact G3|]. cbv zeta.
        destruct (fst (relabel_consecutive 1 s2)); try contradiction.
        -- destruct Sp as (_ & _ & _ & Ed & Ha). split; [exact Ev|]. split; [lia|]. split; [congruence|].
           rewrite reassign_arr_nil. cbn [maybe_consec]. split; [exact Ed|].
           destruct Ha as [Ha|Ha]; [left; exact Ha|right; eexists; exact Ha].
        -- destruct Sp as (_ & E). apply (proj2 (length_zero_iff_nil _)) in E. congruence.
        -- destruct Sp as (Es & _ & [Hc|Hc]); [lia|]. split; [exact Es|]. right; right. repeat split; lia.
    + cbn [fst snd]. split; [exact G1|]. split; [exact Ev|]. split; [lia|]. split; [congruence|].
      rewrite Hst1. fold d. rewrite reassign_arr_nil. cbn [maybe_consec]. split; [reflexivity|left; reflexivity].
  - (* non-empty label set *)
    set (ls := l0 :: ls0) in *.
    rd_step rd_max rd_max_ok s1 G1 s2 Hst2 G2.
    rd_step rd_labels rd_labels_ok s2 G2 s3 Hst3 G3.
    assert (Hst3' : st s3 = st s) by congruence. rewrite Hst3', Hst2, Hst1.
    cbn [fresh asL asZ]. unfold f_max, f_nlabels, f_labels. fold d.
    destruct (c_hi (st s) <? new) eqn:Eh.
    { cbn [fst snd]. split; [exact G3|]. split; [exact Hst3'|]. split; [exact Ev|]. split; [discriminate|lia]. }
    assert (Hne : get_labels d <> []).
    { intros C. destruct (Ev l0 (or_introl eq_refl)) as [H1 H2].
      assert (In l0 (get_labels d)) by (apply get_labels_In; split; [assumption|lia]). rewrite C in H. destruct H. }
    pose proof (proj1 G) as Hd. unfold nonneg in Hd. fold d in Hd.
    cbn [fst snd reset st with_data c_data].
    assert (Hdata : map (if relabel
         then fun v => rankS 1 (get_labels (map (relabel_fun ls new (get_labels d))
                 (zrange 0 (Z.to_nat (max_of (Z.of_nat (length (get_labels d))) (get_labels d) + 1)))))
                 (relabel_fun ls new (get_labels d) v)
         else relabel_fun ls new (get_labels d)) d = maybe_consec relabel (reassign_arr ls new d)).
    { assert (E1 : map (relabel_fun ls new (get_labels d)) d = reassign_arr ls new d)
        by (apply map_ext_in; intros v Hv; now apply relabel_fun_on_data).
      destruct relabel; cbn [maybe_consec]; [|exact E1].
      rewrite (table_labels ls new d Ev Hd Hne). unfold consec_from. rewrite <- E1, map_map. reflexivity. }
    split.
    + apply good_reset. rewrite Hdata. destruct relabel; cbn [maybe_consec].
      * apply nonnegl_map. intros. apply rankS_nonneg. lia.
      * apply nonnegl_map. intros v Hv. destruct (memZ v ls); [lia|].
        unfold nonnegl in Hd. rewrite Forall_forall in Hd. auto.
    + split; [exact Ev|]. split; [lia|]. split; [intros _; lia|]. split; [exact Hdata|].
      right. eexists. apply applied_with_data.
Qed.

(* ---- uniform statement for the label-removing mutators ---- *)
(* [valid]: the documented argument domain; [target]: the documented resulting array.
   Failure leaves array, dtype and deblend map untouched; success gives exactly the target;
   documented arguments never fail unless the dtype cannot even count the labels
   (impossible for a real array: N distinct positive labels need max(dtype) >= N). *)
Definition too_small (c : core) := c_hi c < Z.of_nat (length (get_labels (c_data c))).
Definition mspec (s : state) (r : outcome * state) (valid : Prop) (target : list Z) :=
  good (snd r) /\
  (fst r = Ok -> valid /\ c_data (st (snd r)) = target /\
                 (st (snd r) = st s \/ exists f, applied f (st s) (st (snd r)))) /\
  (fst r <> Ok -> st (snd r) = st s) /\
  (valid -> fst r = Ok \/ too_small (st s)).

Lemma reassign_mspec ls new relabel s : good s ->
  mspec s (reassign ls new relabel s)
        (valid_labels ls (c_data (st s)) /\ 0 <= new /\ (ls <> [] -> new <= c_hi (st s)))
        (maybe_consec relabel (reassign_arr ls new (c_data (st s)))).
Proof.
  intros G. destruct (reassign_spec ls new relabel s G) as [G' Sp]. cbv zeta in Sp.
  split; [exact G'|]. destruct (fst (reassign ls new relabel s)) eqn:E.
  - destruct Sp as (A & B & C & D & F). split; [intros _; split; [split; [exact A|split; [exact B|exact C]]|split; [exact D|exact F]]|].
    split; [intros H; congruence|]. intros _. left. reflexivity.
  - contradiction.
  - destruct Sp as (A & B). split; [discriminate|]. split; [intros _; exact A|].
    intros (V & N & H). right. destruct B as [B|[B|(B1 & B2 & B3)]]; [contradiction|lia|exact B3].
  - destruct Sp as (A & B & C & D). split; [discriminate|]. split; [intros _; exact A|].
    intros (V & N & H). specialize (H C). lia.
  - contradiction.
Qed.

Lemma mspec_st_eq s s1 r valid target : st s1 = st s -> mspec s1 r valid target -> mspec s r valid target.
Proof. unfold mspec. intros ->. auto. Qed.

Lemma remove_mspec ls relabel s : good s ->
  mspec s (remove ls relabel s) (valid_labels ls (c_data (st s)))
        (maybe_consec relabel (reassign_arr ls 0 (c_data (st s)))).
Proof.
  intros G. unfold remove.
  destruct (check_labels_spec ls s G) as (Eok & Hst1 & G1).
  destruct (check_labels ls s) as [ok s1]. cbn [fst snd] in Eok, Hst1, G1. subst ok.
  destruct (forallb _ ls) eqn:Ev; cbn [negb].
  - apply valid_reflect in Ev. pose proof (reassign_mspec ls 0 relabel s1 G1) as (A & B & C & D).
    rewrite Hst1 in *. split; [exact A|]. split; [|split; [exact C|]].
    + intros E. destruct (B E) as ((V & _) & T & F). auto.
    + intros V. destruct (Z_lt_le_dec (c_hi (st s)) 0) as [Hh|Hh].
      * right. unfold too_small. lia.
      * apply D. split; [exact V|]. split; [lia|intros _; exact Hh].
  - cbn [fst snd]. split; [exact G1|]. split; [discriminate|]. split; [intros _; exact Hst1|].
    intros V. apply valid_reflect in V. congruence.
Qed.

Definition keep_arr (ls d : list Z) := map (fun v => if memZ v ls then v else 0) d.
Lemma keep_as_remove ls d :
  reassign_arr (filter (fun l => negb (memZ l ls)) (get_labels d)) 0 d = keep_arr ls d.
Proof.
  apply map_ext_in. intros v Hv.
  destruct (memZ v (filter (fun l => negb (memZ l ls)) (get_labels d))) eqn:E.
  - apply memZ_In, filter_In in E as [_ E]. apply negb_true_iff in E. now rewrite E.
  - destruct (memZ v ls) eqn:E2; [reflexivity|].
    destruct (Z.eq_dec v 0) as [|H0]; [assumption|]. exfalso.
    apply memZ_false in E. apply E. apply filter_In. split; [apply get_labels_In; auto|].
    now rewrite E2.
Qed.

Lemma keep_mspec ls relabel s : good s ->
  mspec s (keep ls relabel s) (valid_labels ls (c_data (st s)))
        (maybe_consec relabel (keep_arr ls (c_data (st s)))).
Proof.
  intros G. unfold keep.
  destruct (check_labels_spec ls s G) as (Eok & Hst1 & G1).
  destruct (check_labels ls s) as [ok s1]. cbn [fst snd] in Eok, Hst1, G1. subst ok.
  destruct (forallb _ ls) eqn:Ev; cbn [negb].
  - apply valid_reflect in Ev.
    rd_step rd_labels rd_labels_ok s1 G1 s2 Hst2 G2. rewrite Hst1. cbn [fresh asL]. unfold f_labels.
    assert (Hst2' : st s2 = st s) by congruence.
    pose proof (remove_mspec (filter (fun l => negb (memZ l ls)) (get_labels (c_data (st s)))) relabel s2 G2)
      as (A & B & C & D).
    rewrite Hst2' in *. rewrite keep_as_remove in B.
    split; [exact A|]. split; [|split; [exact C|]].
    + intros E. destruct (B E) as (_ & T & F). auto.
    + intros _. apply D.
      intros l Hl. apply filter_In in Hl as [Hl _]. apply get_labels_In in Hl as [H1 H2].
      split; [|exact H1]. pose proof (proj1 G) as Hd. unfold nonneg, nonnegl in Hd.
      rewrite Forall_forall in Hd. specialize (Hd _ H1). lia.
  - cbn [fst snd]. split; [exact G1|]. split; [discriminate|]. split; [intros _; exact Hst1|].
    intros V. apply valid_reflect in V. congruence.
Qed.

(* ---- remove_masked_labels / remove_border_labels ---- *)
Definition masked_labels (mask : list bool) (partial : bool) (d : list Z) : list Z :=
  let inm := get_labels (select mask d) in
  if partial then inm
  else filter (fun l => negb (memZ l (get_labels (select (map negb mask) d)))) inm.

Lemma select_In {A} (mask : list bool) : forall (d : list A) x,
  In x (select mask d) <-> exists p, nth_error mask p = Some true /\ nth_error d p = Some x.
Proof.
  unfold select. induction mask as [|b mask IH]; intros d x.
  - cbn. split; [intros []|]. intros (p & H & _). destruct p; discriminate.
  - destruct d as [|a d].
    + cbn. split; [intros []|]. intros (p & _ & H). destruct p; discriminate.
    + cbn [combine filter fst]. destruct b; cbn [map snd In].
      * rewrite IH. split.
        -- intros [->|(p & H1 & H2)]; [exists 0%nat; auto|exists (S p); auto].
        -- intros (p & H1 & H2). destruct p as [|p]; cbn in H1, H2; [left; congruence|right; eauto].
      * rewrite IH. split.
        -- intros (p & H1 & H2). exists (S p); auto.
        -- intros (p & H1 & H2). destruct p as [|p]; cbn in H1, H2; [discriminate|eauto].
Qed.
Lemma select_sub {A} mask (d : list A) x : In x (select mask d) -> In x d.
Proof. intros H. apply select_In in H as (p & _ & H). eapply nth_error_In; eauto. Qed.
Lemma select_none {A} mask (d : list A) : (forall b, In b mask -> b = false) -> select mask d = [].
Proof.
  intros H. destruct (select mask d) as [|x l] eqn:E; [reflexivity|]. exfalso.
  assert (Hx : In x (select mask d)) by (rewrite E; now left).
  apply select_In in Hx as (p & H1 & _). apply nth_error_In in H1. specialize (H _ H1). discriminate.
Qed.
Lemma masked_labels_valid mask partial d : nonnegl d -> valid_labels (masked_labels mask partial d) d.
Proof.
  intros Hd l Hl. assert (Hin : In l (get_labels (select mask d))).
  { unfold masked_labels in Hl. destruct partial; [exact Hl|]. apply filter_In in Hl. tauto. }
  apply get_labels_In in Hin as [H1 H2]. apply select_sub in H1.
  split; [|exact H1]. unfold nonnegl in Hd. rewrite Forall_forall in Hd. specialize (Hd _ H1). lia.
Qed.
(* which labels are removed: those with a pixel under the mask (partial_overlap=True), resp.
   those with a pixel under the mask and none outside it *)
Lemma masked_labels_In mask partial d l : length mask = length d ->
  (In l (masked_labels mask partial d) <->
   l <> 0 /\ (exists p, nth_error mask p = Some true /\ nth_error d p = Some l) /\
   (partial = false -> ~ exists p, nth_error mask p = Some false /\ nth_error d p = Some l)).
Proof.
  intros Hlen. unfold masked_labels.
  assert (Hneg : forall p, nth_error (map negb mask) p = Some true <-> nth_error mask p = Some false).
  { intros p. rewrite nth_error_map. destruct (nth_error mask p) as [[|]|]; cbn; split; congruence. }
  destruct partial.
  - rewrite get_labels_In, select_In. split; [intros [H1 H2]|intros (H1 & H2 & _)]; auto.
    split; [exact H2|]. split; [exact H1|discriminate].
  - rewrite filter_In, negb_true_iff, memZ_false, !get_labels_In, !select_In. split.
    + intros [[H1 H2] H3]. split; [exact H2|]. split; [exact H1|]. intros _ (p & Hp1 & Hp2).
      apply H3. split; [|exact H2]. exists p. split; [apply Hneg; exact Hp1|exact Hp2].
    + intros (H1 & H2 & H3). split; [tauto|]. intros [(p & Hp1 & Hp2) _].
      apply (H3 eq_refl). exists p. split; [apply Hneg; exact Hp1|exact Hp2].
Qed.

Lemma remove_masked_mspec mny mnx mask partial relabel s : good s ->
  mspec s (remove_masked mny mnx mask partial relabel s)
        (mny = c_ny (st s) /\ mnx = c_nx (st s))
        (maybe_consec relabel
           (reassign_arr (masked_labels mask partial (c_data (st s))) 0 (c_data (st s)))).
Proof.
  intros G. unfold remove_masked.
  rd_step rd_shape rd_shape_ok s G s1 Hst1 G1. rewrite Hst1.
  destruct ((mny =? c_ny (st s))%nat && (mnx =? c_nx (st s))%nat) eqn:E; cbn [negb].
  - apply andb_true_iff in E as [E1 E2]. apply Nat.eqb_eq in E1, E2.
    fold (masked_labels mask partial (c_data (st s))).
    pose proof (remove_mspec (masked_labels mask partial (c_data (st s))) relabel s1 G1) as (A & B & C & D).
    rewrite Hst1 in *. split; [exact A|]. split; [|split; [exact C|]].
    + intros Eo. destruct (B Eo) as (_ & T & F). auto.
    + intros _. apply D. apply masked_labels_valid, (proj1 G).
  - cbn [fst snd]. split; [exact G1|]. split; [discriminate|]. split; [intros _; exact Hst1|].
    intros [-> ->]. rewrite !Nat.eqb_refl in E. discriminate.
Qed.

Lemma remove_border_mspec w partial relabel s : good s ->
  let ny := c_ny (st s) in let nx := c_nx (st s) in
  mspec s (remove_border w partial relabel s)
        (2 * w < Z.min (Z.of_nat ny) (Z.of_nat nx))
        (maybe_consec relabel
           (reassign_arr (masked_labels (border_mask ny nx w) partial (c_data (st s))) 0 (c_data (st s)))).
Proof.
  intros G ny nx. unfold remove_border.
  rd_step rd_shape rd_shape_ok s G s1 Hst1 G1. rewrite Hst1. fold ny nx.
  destruct (Z.min (Z.of_nat ny) (Z.of_nat nx) <=? 2 * w) eqn:E.
  - cbn [fst snd]. split; [exact G1|]. split; [discriminate|]. split; [intros _; exact Hst1|]. lia.
  - pose proof (remove_masked_mspec ny nx (border_mask ny nx w) partial relabel s1 G1) as (A & B & C & D).
    rewrite Hst1 in *. split; [exact A|]. split; [|split; [exact C|]].
    + intros Eo. destruct (B Eo) as (_ & T & F). split; [lia|auto].
    + intros _. apply D. split; reflexivity.
Qed.

(* Python's border_mask[:w] / border_mask[n-w:] for 0 <= w *)
Lemma in_border_spec n w i : 0 <= w -> 0 <= i < n ->
  (in_border n w i = true <-> i < w \/ n - w <= i).
Proof.
  intros Hw Hi. unfold in_border. destruct (w <? 0) eqn:E; [lia|].
  rewrite orb_true_iff, Z.ltb_lt, Z.leb_le. lia.
Qed.
Lemma border_mask_zero ny nx b : In b (border_mask ny nx 0) -> b = false.
Proof.
  unfold border_mask. intros H. apply in_map_iff in H as (p & <- & Hp). apply in_seq in Hp.
  destruct nx as [|nx']; [lia|]. set (nx := S nx') in *.
  assert (Hr : (p / nx < ny)%nat) by (apply Nat.div_lt_upper_bound; lia).
  assert (Hc : (p mod nx < nx)%nat) by (apply Nat.mod_upper_bound; lia).
  unfold rowZ, colZ, in_border. cbn [Z.ltb Z.compare].
  apply orb_false_iff. split; apply orb_false_iff; split; try apply Z.ltb_ge; try apply Z.leb_gt; lia.
Qed.
Lemma border_zero_labels ny nx partial d : masked_labels (border_mask ny nx 0) partial d = [].
Proof.
  unfold masked_labels. rewrite (select_none (border_mask ny nx 0) d (border_mask_zero ny nx)).
  destruct partial; reflexivity.
Qed.

(* ---- the data setter ---- *)
Lemma existsb_neg_false d : existsb (fun v => v <? 0) d = false -> nonnegl d.
Proof.
  intros H. unfold nonnegl. rewrite Forall_forall. intros x Hx.
  destruct (Z_lt_le_dec x 0) as [Hn|]; [|assumption]. exfalso.
  assert (existsb (fun v => v <? 0) d = true) by (apply existsb_exists; exists x; split; [assumption|now apply Z.ltb_lt]).
  congruence.
Qed.
Lemma good_construct ny nx d lo hi : nonnegl d -> good (construct ny nx d lo hi).
Proof.
  intros H. unfold construct. apply good_put; [|reflexivity].
  split; [exact H|]. intros k v. cbn. discriminate.
Qed.
Lemma set_data_spec isint ny nx d lo hi s : good s ->
  good (snd (set_data isint ny nx d lo hi s)) /\
  match fst (set_data isint ny nx d lo hi s) with
  | Ok => isint = true /\ nonnegl d /\
          st (snd (set_data isint ny nx d lo hi s)) =
            {| c_ny := ny; c_nx := nx; c_data := d; c_lo := lo; c_hi := hi; c_dmap := [] |}
  | ErrType => isint = false /\ snd (set_data isint ny nx d lo hi s) = s
  | ErrValue => isint = true /\ ~ nonnegl d /\ snd (set_data isint ny nx d lo hi s) = s
  | _ => False
  end.
Proof.
  intros G. unfold set_data. destruct isint; cbn [negb]; [|cbn; auto].
  destruct (existsb (fun v => v <? 0) d) eqn:E.
  - cbn [fst snd]. split; [exact G|]. split; [reflexivity|]. split; [|reflexivity].
    intros C. apply existsb_exists in E as (x & Hx & Hn). apply Z.ltb_lt in Hn.
    unfold nonnegl in C. rewrite Forall_forall in C. specialize (C _ Hx). lia.
  - apply existsb_neg_false in E. cbn [fst snd]. split; [now apply good_construct|].
    split; [reflexivity|]. split; [exact E|reflexivity].
Qed.

(* ------------------------------------------------------------------ *)
(* Part 3c: the history machine                                         *)
(* ------------------------------------------------------------------ *)
Lemma mutate_good o s : good s -> good (snd (mutate o s)).
Proof.
  intros G. destruct o; cbn [mutate].
  - cbn [snd]. apply (rd_ok k s G).
  - apply (reassign_spec ls new relabel s G).
  - apply (relabel_consecutive_spec start s G).
  - apply (keep_mspec ls relabel s G).
  - apply (remove_mspec ls relabel s G).
  - apply (remove_border_mspec w partial relabel s G).
  - apply (remove_masked_mspec mny mnx mask partial relabel s G).
  - apply (set_data_spec isint ny nx d lo hi s G).
  - exact G.
Qed.
Lemma run_good ops : forall s, good s -> good (run s ops).
Proof.
  induction ops as [|o ops IH]; intros s G; [exact G|].
  change (run s (o :: ops)) with (run (snd (mutate o s)) ops). apply IH. now apply mutate_good.
Qed.
Lemma init_good kind ny nx d lo hi dm : nonnegl d -> good (init_state kind ny nx d lo hi dm).
Proof.
  intros H. unfold init_state. destruct (kind =? 0); [now apply good_construct|].
  destruct (kind =? 1).
  - apply good_put; [apply good_put|]; try reflexivity. split; [exact H|]. intros k v. cbn. discriminate.
  - split; [exact H|]. intros k v. cbn. discriminate.
Qed.

(* cache_coherent: after ANY history, every cached entry equals the value a freshly
   constructed object computes from the current array, and every read returns that value *)
Lemma cache_coherent_lemma s0 ops : good s0 ->
  let s := run s0 ops in
  (forall k v, cache s k = Some v -> v = fresh (st s) k) /\
  (forall k, fst (rd k s) = fresh (st s) k /\ st (snd (rd k s)) = st s).
Proof.
  intros G s. pose proof (run_good ops s0 G) as Gs. fold s in Gs. split; [exact (proj2 Gs)|].
  intros k. destruct (rd_ok k s Gs) as (A & B & _). auto.
Qed.

(* ------------------------------------------------------------------ *)
(* Part 4: what relabel=True / relabel_consecutive produce              *)
(* ------------------------------------------------------------------ *)
Lemma consec_length start d : length (consec_from start d) = length d.
Proof. unfold consec_from. apply map_length. Qed.
Lemma consec_nth start d p : (p < length d)%nat ->
  nth p (consec_from start d) 0 = rankS start (get_labels d) (nth p d 0).
Proof. intros Hp. unfold consec_from. now apply nth_map0. Qed.
(* labels are exactly start..start+N-1; zero pixels stay zero and only they; the renumbering
   is an order-preserving bijection of the old labels *)
Lemma consec_spec start d : 0 < start ->
  get_labels (consec_from start d) = zrange start (length (get_labels d)) /\
  length (consec_from start d) = length d /\
  (forall p, (p < length d)%nat -> (nth p (consec_from start d) 0 = 0 <-> nth p d 0 = 0)) /\
  (forall p q, (p < length d)%nat -> (q < length d)%nat -> nth p d 0 <> 0 -> nth q d 0 <> 0 ->
     (nth p d 0 < nth q d 0 <-> nth p (consec_from start d) 0 < nth q (consec_from start d) 0) /\
     (nth p d 0 = nth q d 0 <-> nth p (consec_from start d) 0 = nth q (consec_from start d) 0)).
Proof.
  intros Hs. split; [now apply relabel_labels|]. split; [apply consec_length|].
  assert (Hin : forall p, (p < length d)%nat -> nth p d 0 <> 0 -> In (nth p d 0) (get_labels d)).
  { intros p Hp H0. apply get_labels_In. split; [now apply nth_In|exact H0]. }
  split.
  - intros p Hp. rewrite consec_nth by exact Hp. rewrite (rankS_zero_iff start _ _ Hs).
    rewrite get_labels_In. split.
    + intros H. destruct (Z.eq_dec (nth p d 0) 0); [assumption|]. exfalso. apply H. split; [now apply nth_In|assumption].
    + intros -> [_ H]. congruence.
  - intros p q Hp Hq H0p H0q. rewrite !consec_nth by assumption.
    pose proof (Hin p Hp H0p) as Ip. pose proof (Hin q Hq H0q) as Iq. split.
    + apply rankS_mono; auto using get_labels_sorted.
    + split; [now intros ->|]. now apply rankS_inj.
Qed.

Lemma frame_of c c' : (c' = c \/ exists f, applied f c c') -> same_frame c c'.
Proof. intros [->|(f & H & _)]; [apply same_frame_refl|exact H]. Qed.

(* every step either leaves (array, dtype, map) alone, maps array and deblend map through one
   lookup table, or is a successful data assignment *)
Lemma mutate_shape o s : good s ->
  let c := st s in let c' := st (snd (mutate o s)) in
  c' = c \/ (exists f, applied f c c') \/
  (exists isint ny nx d lo hi, o = SetData isint ny nx d lo hi /\ c_dmap c' = [] /\
      c_data c' = d /\ c_ny c' = ny /\ c_nx c' = nx /\ c_lo c' = lo /\ c_hi c' = hi).
Proof.
  intros G c c'. unfold c, c'. clear c c'.
  assert (M : forall r valid target, mspec s r valid target ->
            st (snd r) = st s \/ (exists f, applied f (st s) (st (snd r)))).
  { intros r valid target (_ & B & C & _). destruct (fst r) eqn:E;
      try (left; apply C; congruence). destruct (B eq_refl) as (_ & _ & F). exact F. }
  destruct o; cbn [mutate].
  - left. cbn [snd]. apply (rd_ok k s G).
  - destruct (M _ _ _ (reassign_mspec ls new relabel s G)); auto.
  - pose proof (relabel_consecutive_spec start s G) as [_ Sp]. cbv zeta in Sp.
    destruct (fst (relabel_consecutive start s)); try contradiction.
    + destruct Sp as (_ & _ & _ & _ & [F|F]); [left; exact F|right; left; eexists; exact F].
    + left. apply Sp. + left. apply Sp.
  - destruct (M _ _ _ (keep_mspec ls relabel s G)); auto.
  - destruct (M _ _ _ (remove_mspec ls relabel s G)); auto.
  - destruct (M _ _ _ (remove_border_mspec w partial relabel s G)); auto.
  - destruct (M _ _ _ (remove_masked_mspec mny mnx mask partial relabel s G)); auto.
  - pose proof (set_data_spec isint ny nx d lo hi s G) as [_ Sp].
    destruct (fst (set_data isint ny nx d lo hi s)); try contradiction.
    + destruct Sp as (_ & _ & E). right; right. exists isint, ny, nx, d, lo, hi. rewrite E. cbn. repeat split.
    + left. destruct Sp as (_ & _ & ->). reflexivity.
    + left. destruct Sp as (_ & ->). reflexivity.
  - left. reflexivity.
Qed.

(* dtype / shape are preserved by everything except a data assignment *)
Definition is_setdata (o : op) : bool := match o with SetData _ _ _ _ _ _ => true | _ => false end.
Lemma mutate_frame o s : good s -> is_setdata o = false -> same_frame (st s) (st (snd (mutate o s))).
Proof.
  intros G H. destruct (mutate_shape o s G) as [E|[(f & E & _)|(i & ny & nx & d & lo & hi & E & _)]].
  - rewrite E. apply same_frame_refl.
  - exact E.
  - subst o. discriminate.
Qed.
Lemma same_frame_trans a b c : same_frame a b -> same_frame b c -> same_frame a c.
Proof. unfold same_frame. intros (A1 & A2 & A3 & A4) (B1 & B2 & B3 & B4). repeat split; congruence. Qed.
Lemma run_cons s o ops : run s (o :: ops) = run (snd (mutate o s)) ops.
Proof. reflexivity. Qed.
Lemma run_frame ops : forall s, good s -> forallb (fun o => negb (is_setdata o)) ops = true ->
  same_frame (st s) (st (run s ops)).
Proof.
  induction ops as [|o ops IH]; intros s G H; [apply same_frame_refl|].
  cbn [forallb] in H. apply andb_true_iff in H as [H1 H2]. apply negb_true_iff in H1.
  rewrite run_cons. eapply same_frame_trans; [apply (mutate_frame o s G H1)|].
  apply IH; [now apply mutate_good|exact H2].
Qed.

(* ------------------------------------------------------------------ *)
(* Part 5: deblend bookkeeping names only labels present in the array   *)
(* ------------------------------------------------------------------ *)
Definition dmap_ok (c : core) := forall p cs, In (p, cs) (c_dmap c) ->
  cs <> [] /\ forall x, In x cs -> In x (get_labels (c_data c)).

Lemma dmap_ok_applied f c c' : dmap_ok c -> applied f c c' -> dmap_ok c'.
Proof.
  intros H (_ & Ed & Em) p cs Hin. rewrite Em in Hin. unfold update_dmap in Hin.
  apply filter_In in Hin as [Hin Hne]. apply in_map_iff in Hin as ([p0 cs0] & E & Hin0).
  injection E as <- <-. split.
  - intros C. rewrite C in Hne. discriminate.
  - intros x Hx. apply filter_In in Hx as [Hx Hnz]. apply nonzero_true in Hnz.
    apply in_map_iff in Hx as (y & <- & Hy). rewrite Ed. apply get_labels_map_In.
    exists y. split; [|split; [reflexivity|exact Hnz]].
    destruct (H p0 cs0 Hin0) as [_ Hc]. apply Hc, get_labels_In in Hy. tauto.
Qed.
Lemma mutate_dmap_ok o s : good s -> dmap_ok (st s) -> dmap_ok (st (snd (mutate o s))).
Proof.
  intros G H. destruct (mutate_shape o s G) as [E|[(f & E)|(i & ny & nx & d & lo & hi & _ & E & _)]].
  - rewrite E. exact H.
  - eapply dmap_ok_applied; eauto.
  - intros p cs Hin. rewrite E in Hin. destruct Hin.
Qed.
Lemma run_dmap_ok ops : forall s, good s -> dmap_ok (st s) -> dmap_ok (st (run s ops)).
Proof.
  induction ops as [|o ops IH]; intros s G H; [exact H|].
  rewrite run_cons. apply IH; [now apply mutate_good|now apply mutate_dmap_ok].
Qed.

Lemma insert_sorted_In a l x : In x (insert_sorted a l) <-> x = a \/ In x l.
Proof.
  induction l as [|b l IH]; cbn [insert_sorted].
  - cbn. split; [intros [H|[]]; auto|intros [H|[]]; auto].
  - destruct (a <=? b); cbn [In].
    + split; [intros [H|H]; auto|intros [H|H]; auto].
    + rewrite IH. split; [intros [H|[H|H]]; auto|intros [H|[H|H]]; auto].
Qed.
Lemma sortZ_In l x : In x (sortZ l) <-> In x l.
Proof.
  induction l as [|a l IH]; [cbn; tauto|]. unfold sortZ. cbn [fold_right]. fold (sortZ l).
  rewrite insert_sorted_In, IH. cbn [In]. split; [intros [H|H]; auto|intros [H|H]; auto].
Qed.
Lemma deb_labels_In dm x : In x (deb_labels dm) <-> exists p cs, In (p, cs) dm /\ In x cs.
Proof.
  unfold deb_labels. destruct dm as [|e dm'] eqn:E.
  - split; [intros []|intros (p & cs & [] & _)].
  - rewrite <- E. rewrite sortZ_In, in_concat. split.
    + intros (cs & Hcs & Hx). apply in_map_iff in Hcs as ([p cs'] & <- & Hin). exists p, cs'. auto.
    + intros (p & cs & Hin & Hx). exists cs. split; [|exact Hx]. apply in_map_iff. exists (p, cs). auto.
Qed.
Lemma deb_pairs_In dm c p : In (c, p) (deb_pairs dm) <-> exists cs, In (p, cs) dm /\ In c cs.
Proof.
  unfold deb_pairs. rewrite in_flat_map. split.
  - intros ([p0 cs] & Hin & Hc). apply in_map_iff in Hc as (c0 & E & Hc0). injection E as <- <-. eauto.
  - intros (cs & Hin & Hc). exists (p, cs). split; [exact Hin|]. apply in_map_iff. eauto.
Qed.
Lemma deb_map_keys dm c p : In (c, p) (deb_map dm) -> exists p' cs, In (p', cs) dm /\ In c cs.
Proof.
  unfold deb_map. intros H. apply in_map_iff in H as (c0 & E & Hc). injection E as <- _.
  apply unique_In, in_map_iff in Hc as ([c1 p1] & <- & Hin). apply deb_pairs_In in Hin as (cs & H1 & H2).
  exists p1, cs. auto.
Qed.

Lemma bookkeeping_lemma s0 ops : good s0 -> dmap_ok (st s0) ->
  let s := run s0 ops in let labels := get_labels (c_data (st s)) in
  (forall p cs, In (p, cs) (c_dmap (st s)) -> cs <> [] /\ forall x, In x cs -> In x labels) /\
  (forall l, fst (rd KDebLabels s) = VL l -> forall x, In x l -> In x labels) /\
  (forall m, fst (rd KDebMap s) = VPairs m -> forall c p, In (c, p) m -> In c labels) /\
  (forall m, fst (rd KDebInv s) = VMap m -> forall p cs x, In (p, cs) m -> In x cs -> In x labels).
Proof.
  intros G H s labels. pose proof (run_good ops s0 G) as Gs. pose proof (run_dmap_ok ops s0 G H) as Hs.
  fold s in Gs, Hs. split; [exact Hs|]. split; [|split].
  - intros l E x Hx. destruct (rd_ok KDebLabels s Gs) as (A & _). rewrite A in E. cbn [fresh] in E.
    injection E as <-. apply deb_labels_In in Hx as (p & cs & Hin & Hx). now apply (Hs p cs Hin).
  - intros m E c p Hin. destruct (rd_ok KDebMap s Gs) as (A & _). rewrite A in E. cbn [fresh] in E.
    injection E as <-. apply deb_map_keys in Hin as (p' & cs & Hin & Hc). now apply (Hs p' cs Hin).
  - intros m E p cs x Hin Hx. destruct (rd_ok KDebInv s Gs) as (A & _). rewrite A in E. cbn [fresh] in E.
    injection E as <-. now apply (Hs p cs Hin).
Qed.

(* ------------------------------------------------------------------ *)
(* Part 4b: statements in the form used by C05_Properties               *)
(* ------------------------------------------------------------------ *)
Lemma last_In (l : list Z) : l <> [] -> In (last l 0) l.
Proof.
  induction l as [|a l IH]; [congruence|]. intros _. destruct l as [|b l]; [now left|].
  right. apply IH. discriminate.
Qed.
(* a real array of dtype max c_hi >= 0 can always count its labels *)
Lemma bounded_not_too_small c : nonnegl (c_data c) -> 0 <= c_hi c ->
  Forall (fun v => v <= c_hi c) (c_data c) -> ~ too_small c.
Proof.
  intros Hd Hh Hb. unfold too_small. pose proof (get_labels_sorted (c_data c)) as HS.
  destruct (get_labels (c_data c)) as [|a L] eqn:E; [cbn; lia|].
  pose proof (span_ge L a HS) as Hsp.
  assert (Ha : In a (get_labels (c_data c))) by (rewrite E; now left).
  assert (Hl : In (last (a :: L) 0) (get_labels (c_data c))) by (rewrite E; apply last_In; discriminate).
  apply get_labels_In in Ha as [Ha1 Ha2]. apply get_labels_In in Hl as [Hl1 _].
  unfold nonnegl in Hd. rewrite Forall_forall in Hd, Hb.
  specialize (Hd _ Ha1). specialize (Hb _ Hl1). lia.
Qed.

Lemma border_zero_lemma partial relabel s : good s ->
  let r := remove_border 0 partial relabel s in
  (fst r = Ok -> c_data (st (snd r)) = maybe_consec relabel (c_data (st s))) /\
  (fst r <> Ok -> st (snd r) = st s) /\
  (0 < Z.min (Z.of_nat (c_ny (st s))) (Z.of_nat (c_nx (st s))) -> fst r = Ok \/ too_small (st s)).
Proof.
  intros G r. destruct (remove_border_mspec 0 partial relabel s G) as (_ & B & C & D).
  fold r in B, C, D. rewrite border_zero_labels, reassign_arr_nil in B.
  split; [intros E; apply (B E)|]. split; [exact C|]. intros H. apply D. lia.
Qed.

(* a failed call changes neither the array, nor the dtype/shape, nor the deblend map *)
Definition is_failure (o : outcome) : bool :=
  match o with Ok | Warned => false | _ => true end.
Lemma failure_unchanged o s : good s -> is_failure (fst (mutate o s)) = true ->
  st (snd (mutate o s)) = st s.
Proof.
  intros G.
  assert (M : forall r valid target, mspec s r valid target -> is_failure (fst r) = true -> st (snd r) = st s).
  { intros r valid target (_ & _ & C & _) H. apply C. intros E. rewrite E in H. discriminate. }
  destruct o; cbn [mutate].
  - cbn [fst]. discriminate.
  - apply (M _ _ _ (reassign_mspec ls new relabel s G)).
  - pose proof (relabel_consecutive_spec start s G) as [_ Sp]. cbv zeta in Sp.
    destruct (fst (relabel_consecutive start s)); try contradiction; try discriminate. intros _. apply Sp.
  - apply (M _ _ _ (keep_mspec ls relabel s G)).
  - apply (M _ _ _ (remove_mspec ls relabel s G)).
  - apply (M _ _ _ (remove_border_mspec w partial relabel s G)).
  - apply (M _ _ _ (remove_masked_mspec mny mnx mask partial relabel s G)).
  - pose proof (set_data_spec isint ny nx d lo hi s G) as [_ Sp].
    destruct (fst (set_data isint ny nx d lo hi s)); try contradiction; try discriminate; intros _.
    + destruct Sp as (_ & _ & ->). reflexivity.
    + destruct Sp as (_ & ->). reflexivity.
  - discriminate.
Qed.

(* ------------------------------------------------------------------ *)
(* Part 6: one polygon / one segment per label                          *)
(* ------------------------------------------------------------------ *)
Section Polygons.
Variable nx : nat.
Variable d : list Z.
Let n := length d.
Let lab := comp_lab nx d.

Lemma nbrs8_lt p q : (p < n)%nat -> In q (nbrs8 nx d p) -> (q < n)%nat.
Proof. intros _ H. unfold nbrs8 in H. apply filter_In in H as [H _]. apply in_seq in H. unfold n. lia. Qed.
Lemma absdiff_sym a b : absdiff a b = absdiff b a.
Proof. unfold absdiff. destruct (a <=? b)%nat eqn:E1; destruct (b <=? a)%nat eqn:E2; try reflexivity.
  - apply Nat.leb_le in E1, E2. lia.
  - apply Nat.leb_gt in E1, E2. lia. Qed.
Lemma adj8_sym p q : adj8 nx d p q = adj8 nx d q p.
Proof.
  unfold adj8. rewrite (absdiff_sym (p / nx) (q / nx)), (absdiff_sym (p mod nx) (q mod nx)).
  rewrite (Nat.eqb_sym p q), (Z.eqb_sym (nth p d 0) (nth q d 0)). reflexivity.
Qed.
Lemma nbrs8_sym p q : (p < n)%nat -> (q < n)%nat -> In q (nbrs8 nx d p) -> In p (nbrs8 nx d q).
Proof.
  intros Hp Hq H. unfold nbrs8 in *. apply filter_In in H as [_ H]. apply filter_In.
  split; [apply in_seq; unfold n in Hp; lia|]. now rewrite adj8_sym.
Qed.
Lemma adj8_value p q : adj8 nx d p q = true -> nth p d 0 = nth q d 0.
Proof. unfold adj8. intros H. apply andb_true_iff in H as [_ H]. now apply Z.eqb_eq. Qed.
Lemma conn_value p r : conn n (fgp d) (nbrs8 nx d) p r -> nth p d 0 = nth r d 0.
Proof.
  induction 1 as [a b H| a | a b c _ IH1 _ IH2]; [|reflexivity|congruence].
  destruct H as (_ & _ & _ & _ & Hin). unfold nbrs8 in Hin. apply filter_In in Hin as [_ Hin].
  now apply adj8_value.
Qed.
Lemma comp_lab_fix : Inv n (fgp d) (nbrs8 nx d) lab /\ Conn.step n (fgp d) (nbrs8 nx d) lab = lab.
Proof.
  unfold lab, comp_lab. fold n. destruct (components_total n (fgp d) (nbrs8 nx d)) as [l E].
  rewrite E. apply (components_correct n (fgp d) (nbrs8 nx d) nbrs8_lt l E).
Qed.

(* the values carried by the regions are exactly the non-zero values of the array *)
Lemma region_values x : In x (map snd (regions_of lab d)) <-> In x d /\ x <> 0.
Proof.
  destruct comp_lab_fix as [HI HF].
  pose proof (fixpoint_correct n (fgp d) (nbrs8 nx d) nbrs8_sym lab HI HF) as FC.
  unfold regions_of. rewrite map_map. cbn [snd]. rewrite in_map_iff. split.
  - intros (p & <- & Hp). apply filter_In in Hp as [Hp Hr]. apply in_seq in Hp.
    apply Nat.eqb_eq in Hr. assert (Hpn : (p < n)%nat) by (unfold n; lia).
    destruct (FC p Hpn) as (F0 & _ & _). unfold get in F0.
    split; [apply nth_In; lia|]. intros C.
    assert (fgp d p = false) by (unfold fgp, nonzero; rewrite C; reflexivity).
    apply F0 in H. lia.
  - intros [Hx H0]. destruct (In_nth _ _ 0 Hx) as (q & Hq & Eq). fold n in Hq.
    assert (Fq : fgp d q = true) by (unfold fgp; apply nonzero_true; congruence).
    destruct HI as [_ HI]. destruct (HI q Hq) as [_ HI1]. destruct (HI1 Fq) as (r & Er & Hr & Cr).
    exists r. split; [rewrite <- (conn_value q r Cr); exact Eq|].
    apply filter_In. split; [apply in_seq; fold n; lia|].
    apply Nat.eqb_eq. rewrite <- Er. symmetry.
    apply (fix_conn n (fgp d) (nbrs8 nx d) nbrs8_sym lab q r HF Cr).
Qed.
End Polygons.

(* list.sort(key = value) and itertools.groupby *)
Definition vsorted (l : list (nat * Z)) := StronglySorted (fun a b => snd a <= snd b) l.
Lemma insert_by_In x l y : In y (insert_by x l) <-> y = x \/ In y l.
Proof.
  induction l as [|a l IH]; cbn [insert_by].
  - cbn. split; [intros [H|[]]; auto|intros [H|[]]; auto].
  - destruct (snd x <=? snd a); cbn [In].
    + split; [intros [H|H]; auto|intros [H|H]; auto].
    + rewrite IH. split; [intros [H|[H|H]]; auto|intros [H|[H|H]]; auto].
Qed.
Lemma insert_by_sorted x l : vsorted l -> vsorted (insert_by x l).
Proof.
  induction l as [|a l IH]; cbn [insert_by]; intros H.
  - constructor; constructor.
  - inversion H as [|? ? HS HF]; subst. destruct (snd x <=? snd a) eqn:E.
    + apply Z.leb_le in E. constructor; [exact H|]. constructor; [exact E|].
      rewrite Forall_forall in *. intros y Hy. specialize (HF _ Hy). lia.
    + apply Z.leb_gt in E. constructor; [apply IH; exact HS|].
      rewrite Forall_forall in *. intros y Hy. apply insert_by_In in Hy as [->|Hy]; [lia|auto].
Qed.
Lemma sort_by_val_In l y : In y (sort_by_val l) <-> In y l.
Proof.
  induction l as [|a l IH]; [cbn; tauto|]. unfold sort_by_val. cbn [fold_right]. fold (sort_by_val l).
  rewrite insert_by_In, IH. cbn [In]. split; [intros [H|H]; auto|intros [H|H]; auto].
Qed.
Lemma sort_by_val_sorted l : vsorted (sort_by_val l).
Proof.
  induction l as [|a l IH]; [constructor|]. unfold sort_by_val. cbn [fold_right]. fold (sort_by_val l).
  now apply insert_by_sorted.
Qed.
Lemma groupby_nil l : groupby l = [] -> l = [].
Proof.
  destruct l as [|[p v] r]; [reflexivity|]. cbn [groupby].
  destruct (groupby r) as [|[v' ps] g]; [discriminate|]. destruct (v =? v'); discriminate.
Qed.
(* on a list sorted by value, the group keys are the sorted distinct values *)
Lemma groupby_keys l : vsorted l -> map fst (groupby l) = unique (map snd l).
Proof.
  induction l as [|[p v] r IH]; intros H; [reflexivity|].
  inversion H as [|? ? HS HF]; subst. specialize (IH HS). cbn [groupby map snd].
  change (unique (v :: map snd r)) with (insert_uniq v (unique (map snd r))).
  destruct (groupby r) as [|[v' ps] g] eqn:Eg.
  - apply groupby_nil in Eg. subst r. reflexivity.
  - cbn [map fst] in IH. rewrite <- IH.
    assert (Hle : v <= v').
    { assert (Hin : In v' (unique (map snd r))) by (rewrite <- IH; now left).
      apply unique_In, in_map_iff in Hin as (y & <- & Hy). rewrite Forall_forall in HF. apply (HF _ Hy). }
    cbn [insert_uniq]. destruct (v =? v') eqn:E.
    + apply Z.eqb_eq in E. subst v'. rewrite Z.ltb_irrefl. reflexivity.
    + apply Z.eqb_neq in E. assert (Hlt : v <? v' = true) by (apply Z.ltb_lt; lia). rewrite Hlt. reflexivity.
Qed.

Lemma polygon_keys nx d : map fst (groupby (geo_of nx d)) = get_labels d.
Proof.
  unfold geo_of. rewrite groupby_keys by apply sort_by_val_sorted.
  apply ssorted_ext; [apply unique_sorted|apply get_labels_sorted|].
  intros x. rewrite unique_In, get_labels_In, <- (region_values nx d x), !in_map_iff.
  split; intros (y & E & Hy); exists y; (split; [exact E|]).
  - exact (proj1 (sort_by_val_In _ _) Hy).
  - exact (proj2 (sort_by_val_In _ _) Hy).
Qed.
Lemma polygons_per_label nx d :
  length (polygons_of nx d (geo_of nx d)) = length (get_labels d).
Proof. unfold polygons_of. rewrite map_length, <- (polygon_keys nx d), map_length. reflexivity. Qed.

(* zip(labels, slices, bbox, areas, polygons, strict=True) *)
Definition seg_label (sg : segment) : Z := let '(l, _, _, _, _) := sg in l.
Lemma segs_labels L : forall S B A P,
  length S = length L -> length B = length L -> length A = length L -> length P = length L ->
  map seg_label (segs_of L S B A P) = L.
Proof.
  unfold segs_of. induction L as [|l L IH]; intros S B A P HS HB HA HP; [reflexivity|].
  destruct S as [|s S]; [discriminate|]. destruct B as [|b B]; [discriminate|].
  destruct A as [|a A]; [discriminate|]. destruct P as [|p P]; [discriminate|].
  cbn [combine map seg_label]. f_equal. apply IH; cbn in *; lia.
Qed.
Lemma areas_length nx d L S : length S = length L -> length (areas_of nx d L S) = length L.
Proof. intros H. unfold areas_of. rewrite map_length, combine_length. lia. Qed.

Lemma one_entry_per_label_lemma c : nonneg c ->
  let labels := get_labels (c_data c) in
  length (f_polys c) = length labels /\
  map fst (groupby (f_geo c)) = labels /\
  length (f_slices c) = length labels /\ length (f_areas c) = length labels /\
  (forall sg, fresh c KSegments = VSeg sg -> map seg_label sg = labels /\ length sg = length labels).
Proof.
  intros Hc labels. unfold f_polys, f_geo, f_slices, f_raw, f_areas, f_labels.
  assert (HS : length (somes (raw_slices (c_nx c) (c_data c))) = length labels)
    by (rewrite slices_by_label by exact Hc; now rewrite map_length).
  assert (HP : length (polygons_of (c_nx c) (c_data c) (geo_of (c_nx c) (c_data c))) = length labels)
    by apply polygons_per_label.
  assert (HA : length (areas_of (c_nx c) (c_data c) labels (somes (raw_slices (c_nx c) (c_data c)))) = length labels)
    by (apply areas_length; exact HS).
  split; [exact HP|]. split; [apply polygon_keys|]. split; [exact HS|]. split; [exact HA|].
  intros sg E. cbn [fresh] in E. injection E as <-.
  assert (EL : map seg_label (segs_of (f_labels c) (f_slices c) (f_slices c) (f_areas c) (f_polys c)) = labels).
  { apply segs_labels; unfold f_labels, f_slices, f_raw, f_areas, f_polys, f_geo, f_labels; assumption. }
  split; [exact EL|]. rewrite <- (map_length seg_label), EL. reflexivity.
Qed.

Lemma one_entry_history s0 ops : good s0 ->
  let s := run s0 ops in let labels := get_labels (c_data (st s)) in
  (forall pl, fst (rd KPolygons s) = VPoly pl -> length pl = length labels) /\
  (forall sg, fst (rd KSegments s) = VSeg sg -> map seg_label sg = labels /\ length sg = length labels).
Proof.
  intros G s labels. pose proof (run_good ops s0 G) as Gs. fold s in Gs.
  destruct (one_entry_per_label_lemma (st s) (proj1 Gs)) as (A & _ & _ & _ & E). split.
  - intros pl H. destruct (rd_ok KPolygons s Gs) as (R & _). rewrite R in H. cbn [fresh] in H.
    injection H as <-. exact A.
  - intros sg H. destruct (rd_ok KSegments s Gs) as (R & _). rewrite R in H. now apply E.
Qed.
