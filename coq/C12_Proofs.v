From Coq Require Import List Arith ZArith Bool Lia.
From PV Require Import lib.Cases lib.Conn C12_Model.
Import ListNotations.
