(* C12 -- proofs, part 1: generic facts about the stable sort, the runs (table groups),
   argsort / order_by (the un-grouping permutation). *)
From Coq Require Import List Arith ZArith Bool Lia ZifyBool Relations Sorted Permutation.
From PV Require Import lib.Cases lib.Conn C12_Model.
Import ListNotations.
Open Scope Z_scope.

(* ------------------------------------------------------------------ *)
(* generic list facts *)
Lemma map_nth_seq {A} (l : list A) d : map (fun i => nth i l d) (seq 0 (length l)) = l.
Proof.
  induction l as [|a l IH]; [reflexivity|]. cbn [length seq map nth]. f_equal.
  rewrite <- seq_shift, map_map. exact IH.
Qed.

Lemma map_snd_combine {A B} (la : list A) (lb : list B) :
  length la = length lb -> map snd (combine la lb) = lb.
Proof. revert lb; induction la as [|a la IH]; intros [|b lb] H; cbn in *; try lia; [reflexivity|]. f_equal. apply IH. lia. Qed.
Lemma map_fst_combine {A B} (la : list A) (lb : list B) :
  length la = length lb -> map fst (combine la lb) = la.
Proof. revert lb; induction la as [|a la IH]; intros [|b lb] H; cbn in *; try lia; [reflexivity|]. f_equal. apply IH. lia. Qed.

Lemma in_combine_nth {A} (l : list A) d p :
  In p (combine l (seq 0 (length l))) -> fst p = nth (snd p) l d.
Proof.
  intros H. destruct p as [a i]. cbn.
  destruct (In_nth _ _ (d, 0%nat) H) as (k & Hk & E).
  rewrite combine_length, seq_length, Nat.min_id in Hk.
  rewrite combine_nth in E by (rewrite seq_length; reflexivity).
  rewrite seq_nth in E by exact Hk. injection E as E1 E2. subst. cbn. reflexivity.
Qed.

(* ------------------------------------------------------------------ *)
Section Sorting.
Context {A : Type} (key : A -> Z).

Definition ksorted (l : list A) := StronglySorted (fun a b => key a <= key b) l.

Lemma sort_by_cons a l : sort_by key (a :: l) = insert_by key a (sort_by key l).
Proof. reflexivity. Qed.

Lemma insert_by_perm a l : Permutation (insert_by key a l) (a :: l).
Proof.
  induction l as [|b l IH]; cbn; [reflexivity|]. destruct (key a <=? key b); [reflexivity|].
  etransitivity; [apply perm_skip, IH|apply perm_swap].
Qed.
Lemma sort_by_perm l : Permutation (sort_by key l) l.
Proof.
  induction l as [|a l IH]; [constructor|]. rewrite sort_by_cons.
  etransitivity; [apply insert_by_perm|]. apply perm_skip, IH.
Qed.
Lemma sort_by_length l : length (sort_by key l) = length l.
Proof. apply Permutation_length, sort_by_perm. Qed.
Lemma sort_by_in x l : In x (sort_by key l) <-> In x l.
Proof. split; apply Permutation_in; [|symmetry]; apply sort_by_perm. Qed.

Lemma insert_by_sorted a l : ksorted l -> ksorted (insert_by key a l).
Proof.
  induction 1 as [|b l Hs IH Hall]; cbn.
  - repeat constructor.
  - destruct (key a <=? key b) eqn:E.
    + constructor; [constructor; auto|]. constructor; [lia|].
      eapply Forall_impl; [|exact Hall]. cbn; intros; lia.
    + constructor; [exact IH|]. rewrite Forall_forall in *. intros x Hx.
      apply (Permutation_in _ (insert_by_perm a l)) in Hx. destruct Hx as [<-|Hx]; [lia|auto].
Qed.
Lemma sort_by_sorted l : ksorted (sort_by key l).
Proof. induction l as [|a l IH]; [constructor|]. rewrite sort_by_cons. apply insert_by_sorted, IH. Qed.

(* stability: the elements with a given key keep their relative order *)
Lemma insert_by_filter v a l :
  filter (fun x => key x =? v) (insert_by key a l) =
  if key a =? v then a :: filter (fun x => key x =? v) l else filter (fun x => key x =? v) l.
Proof.
  induction l as [|b l IH]; cbn; [reflexivity|].
  destruct (key a <=? key b) eqn:E; cbn; [reflexivity|].
  rewrite IH. destruct (key a =? v) eqn:Ea, (key b =? v) eqn:Eb; try reflexivity. lia.
Qed.
Lemma sort_by_stable v l :
  filter (fun x => key x =? v) (sort_by key l) = filter (fun x => key x =? v) l.
Proof.
  induction l as [|a l IH]; [reflexivity|]. rewrite sort_by_cons, insert_by_filter, IH. reflexivity.
Qed.

(* a sorted list is a fixed point *)
Lemma insert_by_head a l : Forall (fun b => key a <= key b) l -> insert_by key a l = a :: l.
Proof. destruct l as [|b l]; [reflexivity|]. intros H. inversion H; subst. cbn.
  destruct (key a <=? key b) eqn:E; [reflexivity|lia]. Qed.
Lemma sort_by_id l : ksorted l -> sort_by key l = l.
Proof. induction 1 as [|a l Hs IH Hall]; [reflexivity|]. rewrite sort_by_cons, IH. apply insert_by_head, Hall. Qed.

(* two sorted permutations of each other with pairwise distinct keys are equal *)
Lemma sorted_perm_unique l1 l2 :
  ksorted l1 -> ksorted l2 -> Permutation l1 l2 -> NoDup (map key l1) -> l1 = l2.
Proof.
  intros H1; revert l2; induction H1 as [|a l1 Hs1 IH Hall1]; intros l2 H2 Hp Hnd.
  - apply Permutation_nil in Hp. subst; reflexivity.
  - destruct H2 as [|b l2 Hs2 Hall2]; [apply Permutation_sym, Permutation_nil in Hp; discriminate|].
    assert (Eab : a = b).
    { assert (Ha : In a (b :: l2)) by (eapply Permutation_in; [exact Hp|left; reflexivity]).
      assert (Hb : In b (a :: l1)) by (eapply Permutation_in; [symmetry; exact Hp|left; reflexivity]).
      destruct Ha as [Ha|Ha]; [auto|]. destruct Hb as [Hb|Hb]; [auto|].
      rewrite Forall_forall in Hall1, Hall2. pose proof (Hall1 _ Hb). pose proof (Hall2 _ Ha).
      assert (Ek : key a = key b) by lia.
      exfalso. cbn in Hnd. inversion Hnd as [|? ? Hnotin _]; subst. apply Hnotin.
      rewrite Ek. apply in_map, Hb. }
    subst b. f_equal. apply IH; auto.
    + eapply Permutation_cons_inv; exact Hp.
    + cbn in Hnd. inversion Hnd; auto.
Qed.

End Sorting.

(* sorting commutes with a key-preserving map *)
Lemma insert_by_map {A B} (key : A -> Z) (key' : B -> Z) (f : B -> A) b l :
  key (f b) = key' b -> (forall x, In x l -> key (f x) = key' x) ->
  map f (insert_by key' b l) = insert_by key (f b) (map f l).
Proof.
  intros Hb. induction l as [|c l IH]; intros H; cbn; [reflexivity|].
  rewrite Hb, (H c (or_introl eq_refl)). destruct (key' b <=? key' c); cbn; [reflexivity|].
  f_equal. apply IH. intros x Hx. apply H. right; exact Hx.
Qed.
Lemma sort_by_map {A B} (key : A -> Z) (key' : B -> Z) (f : B -> A) l :
  (forall x, In x l -> key (f x) = key' x) -> map f (sort_by key' l) = sort_by key (map f l).
Proof.
  induction l as [|b l IH]; intros H; [reflexivity|]. cbn [map]. rewrite !sort_by_cons.
  rewrite (insert_by_map key key').
  - f_equal. apply IH. intros; apply H; right; auto.
  - apply H; left; auto.
  - intros x Hx. apply H. right. apply (proj1 (sort_by_in key' x l) Hx).
Qed.

(* ------------------------------------------------------------------ *)
(* un-grouping: indexing a list with argsort of its keys IS the stable sort by key *)
Lemma order_by_argsort {A} (key : A -> Z) (l : list A) d :
  order_by (argsort (map key l)) l d = sort_by key l.
Proof.
  unfold order_by, argsort. rewrite map_map, map_length.
  rewrite (sort_by_map key fst (fun p => nth (snd p) l d)).
  - f_equal. rewrite <- (map_map snd (fun i => nth i l d)).
    rewrite map_snd_combine by (rewrite map_length, seq_length; reflexivity).
    apply map_nth_seq.
  - intros p Hp. rewrite <- (map_length key l) in Hp.
    rewrite (in_combine_nth (map key l) (key d) p Hp). symmetry. apply map_nth.
Qed.

Lemma order_by_map {A B} (f : A -> B) idx (l : list A) d :
  order_by idx (map f l) (f d) = map f (order_by idx l d).
Proof. unfold order_by. rewrite map_map. apply map_ext. intros i. apply map_nth. Qed.

Lemma filter_all_false {A} (f : A -> bool) l : (forall x, In x l -> f x = false) -> filter f l = [].
Proof. induction l as [|a l IH]; intros H; [reflexivity|]. cbn. rewrite (H a (or_introl eq_refl)). apply IH. intros; apply H; right; auto. Qed.
Lemma filter_all_true {A} (f : A -> bool) l : (forall x, In x l -> f x = true) -> filter f l = l.
Proof. induction l as [|a l IH]; intros H; [reflexivity|]. cbn. rewrite (H a (or_introl eq_refl)). f_equal. apply IH. intros; apply H; right; auto. Qed.

Lemma sorted_lt_notin (x : Z) l : Forall (Z.lt x) l -> ~ In x l.
Proof. rewrite Forall_forall. intros H Hin. specialize (H _ Hin). lia. Qed.
Lemma sorted_lt_nodup (l : list Z) : StronglySorted Z.lt l -> NoDup l.
Proof. induction 1 as [|a l Hs IH Hall]; constructor; auto. apply sorted_lt_notin, Hall. Qed.

(* ------------------------------------------------------------------ *)
(* Table.groups: maximal runs of equal key *)
Section Runs.
Context {A : Type} (key : A -> Z).
Definition hk (g : list A) : Z := match g with [] => 0 | b :: _ => key b end.

Lemma runs_cons a l : runs key (a :: l) =
  match runs key l with
  | (b :: g) :: gs => if key a =? key b then (a :: b :: g) :: gs else [a] :: (b :: g) :: gs
  | _ => [[a]]
  end.
Proof. reflexivity. Qed.

Lemma runs_nonempty l : Forall (fun g => g <> []) (runs key l).
Proof.
  induction l as [|a l IH]; [constructor|]. rewrite runs_cons.
  destruct (runs key l) as [|[|b g] gs].
  - repeat constructor; discriminate.
  - repeat constructor; discriminate.
  - inversion IH; subst. destruct (key a =? key b); repeat constructor; auto; discriminate.
Qed.

Lemma runs_nil_inv l : runs key l = [] -> l = [].
Proof.
  destruct l as [|a l]; [reflexivity|]. rewrite runs_cons.
  destruct (runs key l) as [|[|b g] gs]; try discriminate. destruct (key a =? key b); discriminate.
Qed.

Lemma concat_runs l : concat (runs key l) = l.
Proof.
  induction l as [|a l IH]; [reflexivity|]. rewrite runs_cons.
  pose proof (runs_nonempty l) as Hne.
  destruct (runs key l) as [|[|b g] gs] eqn:E.
  - apply runs_nil_inv in E. subst. reflexivity.
  - inversion Hne; subst. congruence.
  - destruct (key a =? key b); cbn in *; f_equal; exact IH.
Qed.

Lemma runs_const l : Forall (fun g => forall x, In x g -> key x = hk g) (runs key l).
Proof.
  induction l as [|a l IH]; [constructor|]. rewrite runs_cons.
  destruct (runs key l) as [|[|b g] gs].
  - constructor; [|constructor]. intros x [<-|[]]. reflexivity.
  - constructor; [|constructor]. intros x [<-|[]]. reflexivity.
  - inversion IH as [|? ? Hb Hgs]; subst. destruct (key a =? key b) eqn:E.
    + constructor; [|exact Hgs]. intros x [<-|Hx]; [reflexivity|]. cbn. rewrite (Hb x Hx). cbn. lia.
    + constructor; [|constructor; auto]. intros x [<-|[]]. reflexivity.
Qed.

Lemma runs_heads_sorted l : ksorted key l -> StronglySorted Z.lt (map hk (runs key l)).
Proof.
  induction 1 as [|a l Hs IH Hall]; [constructor|]. rewrite runs_cons.
  pose proof (concat_runs l) as Hc.
  destruct (runs key l) as [|[|b g] gs].
  - cbn. repeat constructor.
  - cbn. repeat constructor.
  - assert (Hab : key a <= key b).
    { rewrite Forall_forall in Hall. apply Hall. rewrite <- Hc. cbn. left; reflexivity. }
    cbn [map hk] in IH. inversion IH as [|? ? Hs' Hall']; subst.
    destruct (key a =? key b) eqn:E; cbn [map hk].
    + constructor; [exact Hs'|]. eapply Forall_impl; [|exact Hall']. cbn; intros; lia.
    + constructor; [exact IH|]. constructor; [lia|].
      eapply Forall_impl; [|exact Hall']. cbn; intros; lia.
Qed.

(* a run is exactly the sub-list of the elements carrying its key *)
Lemma filter_concat_run (rs : list (list A)) :
  Forall (fun g => forall x, In x g -> key x = hk g) rs -> NoDup (map hk rs) ->
  forall g, In g rs -> filter (fun x => key x =? hk g) (concat rs) = g.
Proof.
  induction rs as [|r rs IH]; intros Hc Hnd g Hg; [destruct Hg|].
  inversion Hc as [|? ? Hr Hrs]; subst. cbn in Hnd. inversion Hnd as [|? ? Hnotin Hnd']; subst.
  cbn [concat]. rewrite filter_app. destruct Hg as [->|Hg].
  - rewrite filter_all_true by (intros x Hx; rewrite (Hr x Hx); lia).
    rewrite filter_all_false; [apply app_nil_r|].
    intros x Hx. apply in_concat in Hx. destruct Hx as (g' & Hg' & Hx).
    rewrite Forall_forall in Hrs. rewrite (Hrs g' Hg' x Hx).
    destruct (hk g' =? hk g) eqn:E; [|reflexivity]. exfalso. apply Hnotin.
    assert (E' : hk g = hk g') by lia. rewrite E'. apply in_map, Hg'.
  - rewrite filter_all_false; [cbn; apply IH; auto|].
    intros x Hx. rewrite (Hr x Hx). destruct (hk r =? hk g) eqn:E; [|reflexivity]. exfalso. apply Hnotin.
    assert (E' : hk r = hk g) by lia. rewrite E'. apply in_map, Hg.
Qed.

(* groups of the table sorted on the key: the sub-lists of equal key, in the original
   (input) order of their members, one per distinct key, in increasing key order *)
Theorem groups_spec (l : list A) :
  let gs := runs key (sort_by key l) in
  concat gs = sort_by key l /\
  StronglySorted Z.lt (map hk gs) /\
  (forall g, In g gs -> g <> [] /\ g = filter (fun x => key x =? hk g) l) /\
  (forall x, In x l -> In (filter (fun y => key y =? key x) l) gs).
Proof.
  cbv zeta. pose proof (concat_runs (sort_by key l)) as Hc.
  pose proof (runs_heads_sorted _ (sort_by_sorted key l)) as Hs.
  pose proof (runs_const (sort_by key l)) as Hk.
  pose proof (runs_nonempty (sort_by key l)) as Hne.
  assert (Hg : forall g, In g (runs key (sort_by key l)) -> g = filter (fun x => key x =? hk g) l).
  { intros g Hg. rewrite <- (sort_by_stable key (hk g) l), <- Hc at 1. symmetry.
    apply filter_concat_run; auto. apply sorted_lt_nodup, Hs. }
  repeat split; auto.
  - rewrite Forall_forall in Hne. apply Hne, H.
  - intros x Hx. apply (sort_by_in key) in Hx. rewrite <- Hc in Hx. apply in_concat in Hx.
    destruct Hx as (g & Hg1 & Hx). rewrite Forall_forall in Hk. rewrite (Hk g Hg1 x Hx).
    rewrite <- (Hg g Hg1). exact Hg1.
Qed.
End Runs.

(* ------------------------------------------------------------------ *)
(* more list facts *)
Lemma combine_app {A B} (a1 a2 : list A) (b1 b2 : list B) :
  length a1 = length b1 -> combine (a1 ++ a2) (b1 ++ b2) = combine a1 b1 ++ combine a2 b2.
Proof. revert b1; induction a1 as [|a a1 IH]; intros [|b b1] H; cbn in *; try lia; [reflexivity|]. f_equal. apply IH. lia. Qed.

Lemma in_combine_map_seq {A B} (f : nat -> A) n (L : list B) d a b :
  length L = n -> In (a, b) (combine (map f (seq 0 n)) L) ->
  exists j, (j < n)%nat /\ a = f j /\ b = nth j L d.
Proof.
  intros HL Hin. destruct (In_nth _ _ (f 0%nat, d) Hin) as (j & Hj & E).
  rewrite combine_length, map_length, seq_length, HL, Nat.min_id in Hj.
  rewrite combine_nth in E by (rewrite map_length, seq_length; auto).
  injection E as E1 E2. exists j. repeat split; auto.
  rewrite <- E1. rewrite (map_nth f (seq 0 n) 0%nat j), seq_nth by exact Hj. reflexivity.
Qed.

Lemma split_res_length ns r : ns <> [] -> length (split_res ns r) = length ns.
Proof.
  revert r; induction ns as [|n ns IH]; intros r H; [congruence|].
  destruct ns as [|m ns]; [reflexivity|].
  change (split_res (n :: m :: ns) r) with (firstn n r :: split_res (m :: ns) (skipn n r)).
  cbn [length]. f_equal. apply IH. discriminate.
Qed.

Fixpoint pos_by_id (i : Z) (l : list src) : nat :=
  match l with [] => 0%nat | a :: r => if s_id a =? i then 0%nat else S (pos_by_id i r) end.
Lemma pos_by_id_nth g : NoDup (map s_id g) -> forall j, (j < length g)%nat ->
  pos_by_id (s_id (nth j g src0)) g = j.
Proof.
  induction g as [|a g IH]; intros Hnd j Hj; [cbn in Hj; lia|].
  cbn in Hnd. inversion Hnd as [|? ? Hnotin Hnd']; subst. destruct j as [|j]; cbn.
  - rewrite Z.eqb_refl. reflexivity.
  - cbn in Hj. destruct (s_id a =? s_id (nth j g src0)) eqn:E.
    + exfalso. apply Hnotin. assert (E' : s_id a = s_id (nth j g src0)) by lia. rewrite E'.
      apply in_map, nth_In. lia.
    + f_equal. apply IH; auto. lia.
Qed.

Lemma NoDup_map_filter {A B} (f : A -> B) (P : A -> bool) l : NoDup (map f l) -> NoDup (map f (filter P l)).
Proof.
  induction l as [|a l IH]; intros H; [constructor|]. cbn in H. inversion H as [|? ? Hn Hd]; subst.
  cbn. destruct (P a); [|auto]. cbn. constructor; [|auto].
  intros Hin. apply Hn. apply in_map_iff in Hin. destruct Hin as (x & E & Hx).
  apply filter_In in Hx. apply in_map_iff. exists x. tauto.
Qed.

(* ------------------------------------------------------------------ *)
Section PhotProofs.
Variables (ny nx fy fx sc : Z) (msk : option (list bool)) (data : list (option Z))
  (errbad : option (list bool)) (xyb : option (option Z * option Z))
  (fixed : bool * bool * bool) (nextra : Z) (fitter : nat -> callin -> fitout).

Notation FD := (fit_data ny nx fy fx sc msk).
Notation FD1 := (fit_data1 ny nx fy fx sc msk).
Notation MC := (make_call nx data xyb).
Notation FG := (fit_groups ny nx fy fx sc msk data errbad xyb fitter).
Notation PG := (per_group fixed nextra).
Notation PGS := (per_groups fixed nextra).
Notation PHOT := (photometry ny nx fy fx sc msk data errbad xyb fixed nextra fitter).

Lemma fit_data_Forall2 g : forall fd, FD g = inr fd -> Forall2 (fun s d => FD1 s = inr d) g fd.
Proof.
  induction g as [|s g IH]; intros fd H; cbn in H.
  - injection H as <-. constructor.
  - destruct (FD1 s) as [e|d] eqn:E1; [discriminate|].
    destruct (FD g) as [e|ds] eqn:E2; [discriminate|].
    injection H as <-. constructor; auto.
Qed.

Lemma fit_groups_ok gs : forall k calls rs,
  FG k gs = (calls, None, rs) ->
  length calls = length gs /\ length rs = length gs /\
  forall i g, nth_error gs i = Some g ->
    exists fd, FD g = inr fd /\ existsb (wbad nx errbad) (flat_map fst fd) = false /\
      nth_error calls i = Some (MC g fd) /\
      nth_error rs i = Some (mkG g fd (fitter (k + i)%nat (MC g fd))).
Proof.
  induction gs as [|g gs IH]; intros k calls rs H; cbn in H.
  - injection H as <- <-. repeat split; auto. intros [|i] g H; discriminate.
  - destruct (FD g) as [e|fd] eqn:Efd; [discriminate|].
    destruct (existsb (wbad nx errbad) (flat_map fst fd)) eqn:Ew; [discriminate|].
    destruct (FG (S k) gs) as [[c e] r] eqn:Erec. injection H as <- -> <-.
    destruct (IH _ _ _ Erec) as (L1 & L2 & Hn). cbn [length]. repeat split; try lia.
    intros [|i] g' Hg'; cbn in Hg'.
    + injection Hg' as <-. exists fd. rewrite Nat.add_0_r. cbn. auto.
    + destruct (Hn i g' Hg') as (fd' & H1 & H2 & H3 & H4). exists fd'.
      replace (k + S i)%nat with (S k + i)%nat by lia. cbn. auto.
Qed.

(* the record of slot j of group number gi *)
Definition rec_of (gi : nat) (r : gres) (j : nat) : psrc :=
  let fd := nth j (gr_fd r) ([], None) in
  mkP (nth j (gr_srcs r) src0) (nth j (fo_par (gr_out r)) (0, 0, 0)) (gr_out r)
      (errs_of fixed nextra (length (gr_srcs r)) j (fo_cov (gr_out r)))
      (length (fst fd)) (snd fd) (length (gr_srcs r)) gi j (nth j (fo_ext (gr_out r)) []).
Lemma per_group_eq gi r : PG gi r = map (rec_of gi r) (seq 0 (length (gr_srcs r))).
Proof. reflexivity. Qed.

Lemma per_group_srcs gi r : map p_src (PG gi r) = gr_srcs r.
Proof. rewrite per_group_eq, map_map. cbn. apply map_nth_seq. Qed.
Lemma per_groups_srcs rs : forall gi, map p_src (PGS gi rs) = concat (map gr_srcs rs).
Proof.
  induction rs as [|r rs IH]; intros gi; [reflexivity|].
  change (PGS gi (r :: rs)) with (PG gi r ++ PGS (S gi) rs).
  rewrite map_app, per_group_srcs, IH. reflexivity.
Qed.

Definition wf_gres (r : gres) := gr_srcs r <> [] /\ length (gr_fd r) = length (gr_srcs r).

Lemma group_resids_length key r : wf_gres r -> length (group_resids key r) = length (gr_srcs r).
Proof.
  intros [Hne Hl]. unfold group_resids. rewrite split_res_length, map_length; [exact Hl|].
  destruct (gr_fd r); [|discriminate]. cbn in Hl. destruct (gr_srcs r); [congruence|discriminate].
Qed.

Lemma per_groups_resids_length key rs : Forall wf_gres rs -> forall gi,
  length (PGS gi rs) = length (flat_map (group_resids key) rs).
Proof.
  induction 1 as [|r rs Hr Hrs IH]; intros gi; [reflexivity|].
  change (PGS gi (r :: rs)) with (PG gi r ++ PGS (S gi) rs). cbn [flat_map].
  rewrite !app_length, (IH (S gi)), group_resids_length by exact Hr.
  rewrite per_group_eq, map_length, seq_length. reflexivity.
Qed.

(* every (record, residual chunk) pair of the flattened lists comes from one slot of one group *)
Lemma in_combine_groups key rs : Forall wf_gres rs -> forall gi p res,
  In (p, res) (combine (PGS gi rs) (flat_map (group_resids key) rs)) ->
  exists i r j, nth_error rs i = Some r /\ (j < length (gr_srcs r))%nat /\
     p = rec_of (gi + i) r j /\ res = nth j (group_resids key r) [].
Proof.
  induction 1 as [|r rs Hr Hrs IH]; intros gi p res Hin; [destruct Hin|].
  change (PGS gi (r :: rs)) with (PG gi r ++ PGS (S gi) rs) in Hin. cbn [flat_map] in Hin.
  rewrite combine_app in Hin
    by (rewrite group_resids_length by exact Hr; rewrite per_group_eq, map_length, seq_length; reflexivity).
  apply in_app_or in Hin. destruct Hin as [Hin|Hin].
  - rewrite per_group_eq in Hin.
    apply (in_combine_map_seq _ _ _ []) in Hin; [|apply group_resids_length, Hr].
    destruct Hin as (j & Hj & -> & ->). exists 0%nat, r, j. rewrite Nat.add_0_r. cbn. auto.
  - destruct (IH _ _ _ Hin) as (i & r' & j & H1 & H2 & H3 & H4).
    exists (S i), r', j. replace (gi + S i)%nat with (S gi + i)%nat by lia. cbn. auto.
Qed.
End PhotProofs.

(* ------------------------------------------------------------------ *)
Lemma Forall2_len {A B} (R : A -> B -> Prop) l1 l2 : Forall2 R l1 l2 -> length l1 = length l2.
Proof. induction 1; cbn; auto. Qed.

Lemma combine_map_same {A B C} (f : A -> B) (g : A -> C) l :
  combine (map f l) (map g l) = map (fun i => (f i, g i)) l.
Proof. induction l as [|a l IH]; [reflexivity|]. cbn. f_equal. exact IH. Qed.

Lemma order_by_combine {A B} idx (P : list A) (R : list B) dp dr : length P = length R ->
  combine (order_by idx P dp) (order_by idx R dr) = order_by idx (combine P R) (dp, dr).
Proof.
  intros H. unfold order_by. rewrite combine_map_same. apply map_ext. intros i.
  symmetry. apply combine_nth, H.
Qed.

Lemma NoDup_map_of_nat l : NoDup l -> NoDup (map Z.of_nat l).
Proof.
  induction 1 as [|a l Hn Hd IH]; [constructor|]. cbn. constructor; [|exact IH].
  intros Hin. apply in_map_iff in Hin. destruct Hin as (x & E & Hx). apply Hn.
  assert (x = a) by lia. subst. exact Hx.
Qed.
Lemma default_ids_nodup n : NoDup (default_ids n).
Proof. apply NoDup_map_of_nat, seq_NoDup. Qed.
Lemma default_ids_sorted n : ksorted (fun z : Z => z) (default_ids n).
Proof.
  unfold default_ids. generalize 1%nat. induction n as [|n IH]; intros a; [constructor|].
  cbn. constructor; [apply IH|]. apply Forall_forall. intros x Hx.
  apply in_map_iff in Hx. destruct Hx as (y & <- & Hy). apply in_seq in Hy. lia.
Qed.

(* sources whose ids are a permutation of 1..N, put in id order *)
Lemma sorted_ids srcs : Permutation (map s_id srcs) (default_ids (length srcs)) ->
  map s_id (sort_by s_id srcs) = default_ids (length srcs).
Proof.
  intros Hp. rewrite (sort_by_map (fun z : Z => z) s_id s_id) by reflexivity.
  apply (sorted_perm_unique (fun z : Z => z)).
  - apply sort_by_sorted.
  - apply default_ids_sorted.
  - etransitivity; [apply sort_by_perm|exact Hp].
  - rewrite map_id. eapply Permutation_NoDup; [|apply default_ids_nodup].
    symmetry. etransitivity; [apply sort_by_perm|exact Hp].
Qed.

(* join(init_params, fit_params) on the id column *)
Lemma join_rows_aux (F : list (psrc * list Z)) : forall (S : list src) (a : nat),
  map s_id S = map Z.of_nat (seq (Datatypes.S a) (length S)) -> (a + length S <= length F)%nat ->
  flat_map (fun si => match nth_error F (Z.to_nat (s_id si - 1)) with
                      | Some f => if 1 <=? s_id si then [(si, f)] else []
                      | None => [] end) S
  = combine S (skipn a F).
Proof.
  induction S as [|s S IH]; intros a Hid Hlen; [reflexivity|].
  cbn [length seq map] in Hid. injection Hid as Hs Hid. cbn [flat_map length] in *.
  replace (Z.to_nat (s_id s - 1)) with a by lia.
  destruct (nth_error F a) as [f|] eqn:Ef; [|apply nth_error_None in Ef; lia].
  replace (1 <=? s_id s) with true by lia.
  rewrite (IH (Datatypes.S a)) by (auto; lia).
  assert (Esk : skipn a F = f :: skipn (Datatypes.S a) F).
  { clear -Ef. revert F Ef; induction a as [|a IHa]; intros [|x F] Ef; cbn in *; try discriminate.
    - injection Ef as ->. reflexivity.
    - apply IHa, Ef. }
  rewrite Esk. reflexivity.
Qed.
Lemma join_rows_sorted srcs F :
  map s_id (sort_by s_id srcs) = default_ids (length srcs) -> length F = length srcs ->
  join_rows srcs F = combine (sort_by s_id srcs) F.
Proof.
  intros Hid HF. unfold join_rows. rewrite (join_rows_aux F (sort_by s_id srcs) 0%nat).
  - reflexivity.
  - rewrite sort_by_length. exact Hid.
  - rewrite sort_by_length. lia.
Qed.

Lemma Forall2_map_combine {A B C} (h : B -> A) (g : A * B -> C) (Q : A -> C -> Prop) (F : list B) :
  (forall x, In x F -> Q (h x) (g (h x, x))) -> Forall2 Q (map h F) (map g (combine (map h F) F)).
Proof.
  induction F as [|x F IH]; intros H; cbn; constructor.
  - apply H. left; reflexivity.
  - apply IH. intros; apply H; right; auto.
Qed.

Section PhotMain.
Variables (ny nx fy fx sc : Z) (msk : option (list bool)) (data : list (option Z))
  (errbad : option (list bool)) (xyb : option (option Z * option Z))
  (fixed : bool * bool * bool) (nextra : Z) (fitter : nat -> callin -> fitout).

Notation FD := (fit_data ny nx fy fx sc msk).
Notation MC := (make_call nx data xyb).
Notation FG := (fit_groups ny nx fy fx sc msk data errbad xyb fitter).
Notation PGS := (per_groups fixed nextra).
Notation PHOT := (photometry ny nx fy fx sc msk data errbad xyb fixed nextra fitter).
Notation REC := (rec_of fixed nextra).

(* ---- the specification of one output row, written WITHOUT any sorting, grouping
        or permutation: everything is looked up through the source itself ---- *)
(* the sources that share the group id of s, in input order *)
Definition group_of (srcs : list src) (s : src) : list src :=
  filter (fun s' => s_gid s' =? s_gid s) srcs.
Definition fd_of (g : list src) := match FD g with inr fd => fd | inl _ => [] end.
(* what fitter call number k was given for the group of s *)
Definition call_of (srcs : list src) (s : src) : callin :=
  MC (group_of srcs s) (fd_of (group_of srcs s)).
Definition key_of (fo : fitout) : rkey :=
  match fo_fun fo, fo_fvec fo with Some _, _ => KFun | None, Some _ => KFvec | None, None => KNone end.

Definition spec_psrc (srcs : list src) (k : nat) (s : src) : psrc :=
  let g := group_of srcs s in
  let j := pos_by_id (s_id s) g in          (* position of s inside its group *)
  let fo := fitter k (call_of srcs s) in    (* what the fitter returned for that group *)
  let d := nth j (fd_of g) ([], None) in    (* fit data of s itself *)
  mkP s (nth j (fo_par fo) (0, 0, 0)) fo (errs_of fixed nextra (length g) j (fo_cov fo))
      (length (fst d)) (snd d) (length g) k j (nth j (fo_ext fo) []).
Definition spec_res (srcs : list src) (key : rkey) (k : nat) (s : src) : list Z :=
  let g := group_of srcs s in
  nth (pos_by_id (s_id s) g)
      (split_res (map (fun d => length (fst d)) (fd_of g)) (resid_of key (fitter k (call_of srcs s)))) [].
Definition spec_row (srcs : list src) (key : rkey) (k : nat) (s : src) : orow :=
  let p := spec_psrc srcs k s in
  let res := spec_res srcs key k s in
  mkRow s (Z.of_nat (p_gsize p)) (p_par p) (err_cols fixed p) (Z.of_nat (p_npix p))
        (flags ny nx fy fx sc xyb p) (qfit_num key res) (cfit_num key res (p_cen p)) k (p_slot p) (p_ext p).

Lemma fit_groups_srcs gs : forall k calls rs, FG k gs = (calls, None, rs) -> map gr_srcs rs = gs.
Proof.
  induction gs as [|g gs IH]; intros k calls rs H; cbn in H.
  - injection H as <- <-. reflexivity.
  - destruct (FD g) as [e|fd]; [discriminate|].
    destruct (existsb (wbad nx errbad) (flat_map fst fd)); [discriminate|].
    destruct (FG (S k) gs) as [[c e] r] eqn:Erec. injection H as <- -> <-.
    cbn. f_equal. eapply IH, Erec.
Qed.

Lemma pick_key_calls gs : forall calls rs, FG 0 gs = (calls, None, rs) ->
  pick_key rs = match calls with c :: _ => key_of (fitter 0%nat c) | [] => KNone end.
Proof.
  destruct gs as [|g gs]; intros calls rs H; cbn in H.
  - injection H as <- <-. reflexivity.
  - destruct (FD g) as [e|fd]; [discriminate|].
    destruct (existsb (wbad nx errbad) (flat_map fst fd)); [discriminate|].
    destruct (FG 1 gs) as [[c e] r]. injection H as <- -> <-. reflexivity.
Qed.

(* groups are formed and fitted correctly: every (record, residual) pair of the flattened
   per-group lists is the specification record of its own source *)
Lemma grouped_records srcs calls rs key :
  NoDup (map s_id srcs) ->
  FG 0 (runs s_gid (sort_by s_gid srcs)) = (calls, None, rs) ->
  Forall (wf_gres) rs /\
  forall p res, In (p, res) (combine (PGS 0 rs) (flat_map (group_resids key) rs)) ->
    In (p_src p) srcs /\ p = spec_psrc srcs (p_grp p) (p_src p) /\
    res = spec_res srcs key (p_grp p) (p_src p) /\
    nth_error calls (p_grp p) = Some (call_of srcs (p_src p)) /\
    FD (group_of srcs (p_src p)) = inr (fd_of (group_of srcs (p_src p))) /\
    existsb (wbad nx errbad) (flat_map fst (fd_of (group_of srcs (p_src p)))) = false.
Proof.
  intros Hnd HFG.
  destruct (groups_spec s_gid srcs) as (Hc & Hs & Hg & _).
  destruct (fit_groups_ok _ _ _ _ _ _ _ _ _ _ _ _ _ _ HFG) as (L1 & L2 & Hn).
  assert (Hwf : Forall wf_gres rs).
  { apply Forall_forall. intros r Hr. destruct (In_nth_error _ _ Hr) as (i & Hi).
    assert (Hi' : (i < length (runs s_gid (sort_by s_gid srcs)))%nat)
      by (rewrite <- L2; apply nth_error_Some; congruence).
    destruct (nth_error (runs s_gid (sort_by s_gid srcs)) i) as [g|] eqn:Eg;
      [|apply nth_error_None in Eg; lia].
    destruct (Hn i g Eg) as (fd & Hfd & _ & _ & Hr'). rewrite Hi in Hr'. injection Hr' as ->.
    split; cbn.
    - apply (Hg g), (nth_error_In _ _ Eg).
    - symmetry. eapply Forall2_len, fit_data_Forall2, Hfd. }
  split; [exact Hwf|]. intros p res Hin.
  destruct (in_combine_groups fixed nextra key rs Hwf _ _ _ Hin) as (i & r & j & Hi & Hj & -> & ->).
  cbn [Nat.add] in *.
  assert (Hi' : (i < length (runs s_gid (sort_by s_gid srcs)))%nat)
    by (rewrite <- L2; apply nth_error_Some; congruence).
  destruct (nth_error (runs s_gid (sort_by s_gid srcs)) i) as [g|] eqn:Eg;
    [|apply nth_error_None in Eg; lia].
  destruct (Hn i g Eg) as (fd & Hfd & Hw & Hcall & Hr'). rewrite Hi in Hr'. injection Hr' as ->.
  cbn [gr_srcs] in Hj. cbn [Nat.add] in Hcall.
  destruct (Hg g (nth_error_In _ _ Eg)) as (Hne & Egf).
  set (s := nth j g src0).
  assert (Hsg : In s g) by (apply nth_In, Hj).
  assert (Hs_srcs : In s srcs /\ s_gid s = hk s_gid g).
  { rewrite Egf in Hsg. apply filter_In in Hsg. destruct Hsg as [H1 H2]. split; [exact H1|lia]. }
  destruct Hs_srcs as [Hs_in Hs_gid].
  assert (Egrp : group_of srcs s = g).
  { unfold group_of. rewrite Hs_gid. symmetry. exact Egf. }
  assert (Epos : pos_by_id (s_id s) g = j).
  { apply pos_by_id_nth; [|exact Hj]. rewrite Egf. apply NoDup_map_filter, Hnd. }
  assert (Efd : fd_of g = fd) by (unfold fd_of; rewrite Hfd; reflexivity).
  unfold rec_of, spec_psrc, spec_res, call_of, group_resids. cbn [gr_srcs gr_fd gr_out p_src p_grp].
  fold s. rewrite Egrp, Epos, Efd. repeat split; auto.
Qed.

(* what is claimed of the output row of source s *)
Definition row_ok (srcs : list src) (calls : list callin) (key : rkey) (s : src) (row : orow) :=
  exists k, FD (group_of srcs s) = inr (fd_of (group_of srcs s)) /\
            existsb (wbad nx errbad) (flat_map fst (fd_of (group_of srcs s))) = false /\
            nth_error calls k = Some (call_of srcs s) /\
            row = spec_row srcs key k s.

(* THE un-grouping theorem.  Sources carry ids that are a permutation of 1..N (the default
   ids are 1..N in input order) and ARBITRARY group ids.  If the run succeeds, the output
   rows are in one-to-one positional correspondence with the sources taken in id order,
   and the row of source s is [spec_row ... s]: s's own init values, the size of s's own
   group, the parameters / covariance slice / fit_info the fitter returned for the
   sub-model named s in the call made for s's group, s's own npixfit, centre index,
   residual slice and flags. *)
Lemma photometry_rows srcs r :
  Permutation (map s_id srcs) (default_ids (length srcs)) ->
  PHOT srcs = r -> res_err r = None ->
  let key := match res_calls r with c :: _ => key_of (fitter 0%nat c) | [] => KNone end in
  map s_id (sort_by s_id srcs) = default_ids (length srcs) /\
  Forall2 (row_ok srcs (res_calls r) key) (sort_by s_id srcs) (res_rows r).
Proof.
  intros Hp Hr He. cbv zeta.
  pose proof (sorted_ids srcs Hp) as Hid. split; [exact Hid|].
  assert (Hnd : NoDup (map s_id srcs))
    by (eapply Permutation_NoDup; [symmetry; exact Hp|apply default_ids_nodup]).
  unfold photometry in Hr. cbv zeta in Hr.
  destruct (existsb (invalid ny nx fy fx sc) srcs) eqn:Einv; [subst r; discriminate|].
  destruct (FG 0 (runs s_gid (sort_by s_gid srcs))) as [[calls e] rs] eqn:HFG.
  destruct e as [e|]; [subst r; discriminate|].
  pose proof (pick_key_calls _ _ _ HFG) as Hkey.
  destruct (grouped_records srcs calls rs (pick_key rs) Hnd HFG) as (Hwf & Hrec).
  set (P := PGS 0 rs) in *. set (R := flat_map (group_resids (pick_key rs)) rs) in *.
  set (idx := argsort (map s_id (sort_by s_gid srcs))) in *.
  assert (HPR : length P = length R) by apply per_groups_resids_length, Hwf.
  assert (Hsrc : map p_src P = sort_by s_gid srcs).
  { unfold P. rewrite per_groups_srcs, (fit_groups_srcs _ _ _ _ HFG). apply concat_runs. }
  pose (kf := fun pr : psrc * list Z => s_id (p_src (fst pr))).
  assert (HF : combine (order_by idx P psrc0) (order_by idx R []) = sort_by kf (combine P R)).
  { rewrite order_by_combine by exact HPR. unfold idx. rewrite <- Hsrc.
    replace (map s_id (map p_src P)) with (map kf (combine P R)).
    - apply order_by_argsort.
    - unfold kf. rewrite <- (map_map fst (fun p => s_id (p_src p))), map_fst_combine by exact HPR.
      rewrite map_map. reflexivity. }
  rewrite HF in Hr.
  set (F := sort_by kf (combine P R)) in *.
  assert (HFsrc : map (fun pr : psrc * list Z => p_src (fst pr)) F = sort_by s_id srcs).
  { unfold F. rewrite (sort_by_map s_id kf (fun pr => p_src (fst pr))) by reflexivity.
    rewrite <- (map_map fst p_src), map_fst_combine, Hsrc by exact HPR.
    apply (sorted_perm_unique s_id).
    - apply sort_by_sorted.
    - apply sort_by_sorted.
    - etransitivity; [apply sort_by_perm|]. etransitivity; [apply sort_by_perm|].
      symmetry; apply sort_by_perm.
    - eapply Permutation_NoDup; [|exact Hnd]. apply Permutation_map. symmetry.
      etransitivity; [apply sort_by_perm|apply sort_by_perm]. }
  assert (HFlen : length F = length srcs).
  { rewrite <- (sort_by_length s_id srcs), <- HFsrc, map_length. reflexivity. }
  rewrite (join_rows_sorted srcs F Hid HFlen) in Hr.
  rewrite combine_length, sort_by_length, HFlen, Nat.min_id, Nat.eqb_refl in Hr. cbn [negb] in Hr.
  subst r. cbn [res_calls res_rows]. rewrite <- Hkey.
  rewrite <- HFsrc. apply Forall2_map_combine.
  intros [p res] Hin. apply (proj1 (sort_by_in kf (p, res) (combine P R))) in Hin.
  destruct (Hrec p res Hin) as (H1 & H2 & H3 & H4 & H5 & H6).
  exists (p_grp p). split; [exact H5|]. split; [exact H6|]. split; [exact H4|]. cbn [fst snd].
  unfold spec_row. rewrite <- H2, <- H3. reflexivity.
Qed.
End PhotMain.
