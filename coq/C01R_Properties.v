(* C01R_Properties.v -- property C01, clause "the 'exact' mask weight of each pixel equals the
   geometric fraction of that pixel covered by the shape", circle kernel, over the REALS.

   What is proved (all FULL, no `_partial` theorem was needed):
     for every radius r >= 0 and every rectangle xmin <= xmax, ymin <= ymax (any position
     relative to the axes), the transcription of `circular_overlap_single_exact`
     (C01R_Model.v, fuel 3) returns  Some (area of rectangle /\ disc),  where the area is
     `rect_disc_area` = the integral over x of the length of the vertical section
     (C01R_Model.v explains why this is the area; `section_is_interval` below proves that the
     integrand is the length of the section).  `circular_overlap_core` is that area on
     first-quadrant rectangles in each of its six branches, boundaries included.

   Trusted base / what this does NOT say: the statement is about the real-number formula,
   not about IEEE doubles (rounding is outside this file; the harness compares the compiled
   kernel with independent area oracles); the .pyx text is tied to the transcription by
   reading, statement by statement (comments in C01R_Model.v quote the source).

   Assumptions: only the four standard-library ones that come with Coq's real numbers and
   Coquelicot, as listed by Print Assumptions after each theorem:
   ClassicalDedekindReals.sig_forall_dec, ClassicalDedekindReals.sig_not_dec,
   FunctionalExtensionality.functional_extensionality_dep, Classical_Prop.classic.
   None is declared in this development. *)

From Coq Require Import Reals Lra.
Set Warnings "-ambiguous-paths".
From Coquelicot Require Import Coquelicot.
Set Warnings "ambiguous-paths".
From PV Require Import C01R_Model C01R_Proofs.
Open Scope R_scope.

(* ------------------------------------------------------------------------- *)
(* Step 2: the primitive of sqrt (r^2 - x^2)                                  *)
(* ------------------------------------------------------------------------- *)

Theorem sqrt_circle_antiderivative : forall r x : R,
  0 < r -> - r < x < r ->
  is_derive (circ_prim r) x (sqrt (r ^ 2 - x ^ 2)).
Proof. exact circ_prim_derive. Qed.
Print Assumptions sqrt_circle_antiderivative.

(* closed interval, end points -r and r included (mean value theorem + continuity of asin
   at -1 and 1) *)
Theorem sqrt_circle_integral : forall r a b : R,
  0 < r -> - r <= a -> a <= b -> b <= r ->
  is_RInt (fun x => sqrt (r ^ 2 - x ^ 2)) a b (circ_prim r b - circ_prim r a).
Proof. exact semicircle_is_RInt. Qed.
Print Assumptions sqrt_circle_integral.

(* ------------------------------------------------------------------------- *)
(* Step 3: algebraic facts about the helper kernels                           *)
(* ------------------------------------------------------------------------- *)

Theorem floor_sqrt_is_sqrt : forall x : R, floor_sqrt x = sqrt x.
Proof. exact floor_sqrt_eq. Qed.
Print Assumptions floor_sqrt_is_sqrt.

Theorem area_triangle_is_half_cross_product : forall x1 y1 x2 y2 x3 y3 : R,
  area_triangle x1 y1 x2 y2 x3 y3
  = Rabs ((x2 - x1) * (y3 - y1) - (x3 - x1) * (y2 - y1)) / 2.
Proof. exact area_triangle_cross. Qed.
Print Assumptions area_triangle_is_half_cross_product.

(* chord formula: two points of the circle at angles a1 <= a2 (measured from the y axis),
   central angle at most PI *)
Theorem area_arc_central_angle : forall r a1 a2 : R,
  0 < r -> a1 <= a2 -> a2 - a1 <= PI ->
  area_arc (r * sin a1) (r * cos a1) (r * sin a2) (r * cos a2) r
  = r ^ 2 / 2 * ((a2 - a1) - sin (a2 - a1)).
Proof. exact area_arc_angles. Qed.
Print Assumptions area_arc_central_angle.

(* area_arc = (area under the arc) - (trapezoid under the chord) for two points of the
   upper half circle *)
Theorem area_arc_is_segment_area : forall r x1 y1 x2 y2 : R,
  0 < r -> 0 <= y1 -> 0 <= y2 ->
  x1 ^ 2 + y1 ^ 2 = r ^ 2 -> x2 ^ 2 + y2 ^ 2 = r ^ 2 -> x1 <= x2 ->
  area_arc x1 y1 x2 y2 r
  = RInt (fun x => sqrt (r ^ 2 - x ^ 2)) x1 x2 - (x2 - x1) * (y1 + y2) / 2.
Proof. exact C01R_Proofs.area_arc_is_segment_area. Qed.
Print Assumptions area_arc_is_segment_area.

Theorem area_arc_is_segment_area_closed_form : forall r x1 y1 x2 y2 : R,
  0 < r -> 0 <= y1 -> 0 <= y2 ->
  x1 ^ 2 + y1 ^ 2 = r ^ 2 -> x2 ^ 2 + y2 ^ 2 = r ^ 2 -> x1 <= x2 ->
  area_arc x1 y1 x2 y2 r
  = circ_prim r x2 - circ_prim r x1 - (x2 - x1) * (y1 + y2) / 2.
Proof. exact area_arc_segment. Qed.
Print Assumptions area_arc_is_segment_area_closed_form.

(* the 90-degree relabelling; no hypothesis at all *)
Theorem core_swap : forall a b c d r : R,
  circular_overlap_core a b c d r = circular_overlap_core b a d c r.
Proof. exact C01R_Proofs.core_swap. Qed.
Print Assumptions core_swap.

(* ------------------------------------------------------------------------- *)
(* The specification means what it says                                       *)
(* ------------------------------------------------------------------------- *)

(* For |x| <= r the vertical section of rectangle /\ disc at abscissa x is exactly the
   interval between the two bounds whose (clamped) difference is section_len ... *)
Theorem section_is_interval : forall ymin ymax r x y : R,
  x ^ 2 <= r ^ 2 ->
  (ymin <= y <= ymax /\ x ^ 2 + y ^ 2 <= r ^ 2) <->
  (Rmax ymin (- half_chord r x) <= y <= Rmin ymax (half_chord r x)).
Proof. exact C01R_Proofs.section_is_interval. Qed.
Print Assumptions section_is_interval.

(* ... and for |x| > r the section is empty and section_len is 0. *)
Theorem section_outside_empty : forall ymin ymax r x : R,
  r ^ 2 < x ^ 2 ->
  (forall y, ~ (ymin <= y <= ymax /\ x ^ 2 + y ^ 2 <= r ^ 2)) /\ section_len ymin ymax r x = 0.
Proof. exact C01R_Proofs.section_outside_empty. Qed.
Print Assumptions section_outside_empty.

Theorem area_spec_is_rect_disc_area : forall xmin ymin xmax ymax r : R,
  0 <= ymin -> area_spec xmin ymin xmax ymax r = rect_disc_area xmin ymin xmax ymax r.
Proof. exact C01R_Proofs.area_spec_is_rect_disc_area. Qed.
Print Assumptions area_spec_is_rect_disc_area.

Theorem area_bounds : forall xmin ymin xmax ymax r : R,
  xmin <= xmax -> ymin <= ymax ->
  0 <= rect_disc_area xmin ymin xmax ymax r <= (xmax - xmin) * (ymax - ymin).
Proof. exact C01R_Proofs.area_bounds. Qed.
Print Assumptions area_bounds.

(* sanity of the specification: the bounding square of the disc has overlap PI r^2 *)
Theorem full_disc_area : forall r : R,
  0 < r -> rect_disc_area (- r) (- r) r r r = PI * r ^ 2.
Proof. exact C01R_Proofs.full_disc_area. Qed.
Print Assumptions full_disc_area.

Theorem area_split_x : forall xmin ymin xmax ymax r c : R,
  rect_disc_area xmin ymin xmax ymax r
  = rect_disc_area xmin ymin c ymax r + rect_disc_area c ymin xmax ymax r.
Proof. exact C01R_Proofs.area_split_x. Qed.
Print Assumptions area_split_x.

Theorem area_split_y : forall xmin ymin xmax ymax r : R,
  ymin <= 0 -> 0 <= ymax ->
  rect_disc_area xmin ymin xmax ymax r
  = rect_disc_area xmin ymin xmax 0 r + rect_disc_area xmin 0 xmax ymax r.
Proof. exact C01R_Proofs.area_split_y. Qed.
Print Assumptions area_split_y.

Theorem area_refl_x : forall xmin ymin xmax ymax r : R,
  rect_disc_area (- xmax) ymin (- xmin) ymax r = rect_disc_area xmin ymin xmax ymax r.
Proof. exact C01R_Proofs.area_refl_x. Qed.
Print Assumptions area_refl_x.

Theorem area_refl_y : forall xmin ymin xmax ymax r : R,
  rect_disc_area xmin (- ymax) xmax (- ymin) r = rect_disc_area xmin ymin xmax ymax r.
Proof. exact C01R_Proofs.area_refl_y. Qed.
Print Assumptions area_refl_y.

(* ------------------------------------------------------------------------- *)
(* Step 4: circular_overlap_core, branch by branch (first-quadrant rectangle)  *)
(* ------------------------------------------------------------------------- *)

Theorem core_outside_zero : forall xmin ymin xmax ymax r : R,
  0 <= xmin -> xmin <= xmax -> 0 <= ymin -> ymin <= ymax ->
  xmin * xmin + ymin * ymin > r * r ->
  circular_overlap_core xmin ymin xmax ymax r = 0 /\ area_spec xmin ymin xmax ymax r = 0.
Proof. exact C01R_Proofs.core_outside_zero. Qed.
Print Assumptions core_outside_zero.

Theorem core_inside_full : forall xmin ymin xmax ymax r : R,
  0 <= xmin -> xmin <= xmax -> 0 <= ymin -> ymin <= ymax ->
  xmax * xmax + ymax * ymax < r * r ->
  circular_overlap_core xmin ymin xmax ymax r = (xmax - xmin) * (ymax - ymin)
  /\ area_spec xmin ymin xmax ymax r = (xmax - xmin) * (ymax - ymin).
Proof. exact C01R_Proofs.core_inside_full. Qed.
Print Assumptions core_inside_full.

(* three corners inside (branch `if d1 < r and d2 < r`): rectangle - corner triangle + segment *)
Theorem core_three_corners : forall xmin ymin xmax ymax r : R,
  0 < r -> 0 <= xmin -> xmin <= xmax -> 0 <= ymin -> ymin <= ymax ->
  xmax ^ 2 + ymin ^ 2 <= r ^ 2 -> xmin ^ 2 + ymax ^ 2 <= r ^ 2 -> r ^ 2 <= xmax ^ 2 + ymax ^ 2 ->
  let x1 := sqrt (r ^ 2 - ymax ^ 2) in let y2 := sqrt (r ^ 2 - xmax ^ 2) in
  (xmax - xmin) * (ymax - ymin) - area_triangle x1 ymax xmax y2 xmax ymax
    + area_arc x1 ymax xmax y2 r
  = area_spec xmin ymin xmax ymax r.
Proof. exact core_case_three. Qed.
Print Assumptions core_three_corners.

(* two lower corners inside (branch `elif d1 < r`) *)
Theorem core_two_corners_bottom : forall xmin ymin xmax ymax r : R,
  0 < r -> 0 <= xmin -> xmin <= xmax -> 0 <= ymin -> ymin <= ymax ->
  xmax ^ 2 + ymin ^ 2 <= r ^ 2 -> r ^ 2 <= xmin ^ 2 + ymax ^ 2 ->
  let y1 := sqrt (r ^ 2 - xmin ^ 2) in let y2 := sqrt (r ^ 2 - xmax ^ 2) in
  area_arc xmin y1 xmax y2 r
    + area_triangle xmin y1 xmin ymin xmax ymin
    + area_triangle xmin y1 xmax ymin xmax y2
  = area_spec xmin ymin xmax ymax r.
Proof. exact core_case_two_bottom. Qed.
Print Assumptions core_two_corners_bottom.

(* two left corners inside (branch `elif d2 < r`) *)
Theorem core_two_corners_left : forall xmin ymin xmax ymax r : R,
  0 < r -> 0 <= xmin -> xmin <= xmax -> 0 <= ymin -> ymin <= ymax ->
  xmin ^ 2 + ymax ^ 2 <= r ^ 2 -> r ^ 2 <= xmax ^ 2 + ymin ^ 2 ->
  let x1 := sqrt (r ^ 2 - ymin ^ 2) in let x2 := sqrt (r ^ 2 - ymax ^ 2) in
  area_arc x1 ymin x2 ymax r
    + area_triangle x1 ymin xmin ymin xmin ymax
    + area_triangle x1 ymin xmin ymax x2 ymax
  = area_spec xmin ymin xmax ymax r.
Proof. exact core_case_two_left. Qed.
Print Assumptions core_two_corners_left.

(* one corner inside (final `else`) *)
Theorem core_one_corner : forall xmin ymin xmax ymax r : R,
  0 < r -> 0 <= xmin -> xmin <= xmax -> 0 <= ymin -> ymin <= ymax ->
  xmin ^ 2 + ymin ^ 2 <= r ^ 2 -> r ^ 2 <= xmax ^ 2 + ymin ^ 2 -> r ^ 2 <= xmin ^ 2 + ymax ^ 2 ->
  let x1 := sqrt (r ^ 2 - ymin ^ 2) in let y2 := sqrt (r ^ 2 - xmin ^ 2) in
  area_arc x1 ymin xmin y2 r + area_triangle x1 ymin xmin y2 xmin ymin
  = area_spec xmin ymin xmax ymax r.
Proof. exact core_case_one. Qed.
Print Assumptions core_one_corner.

(* all six branches together, with the source's own branch conditions *)
Theorem core_is_area : forall xmin ymin xmax ymax r : R,
  0 <= r -> 0 <= xmin -> xmin <= xmax -> 0 <= ymin -> ymin <= ymax ->
  circular_overlap_core xmin ymin xmax ymax r = area_spec xmin ymin xmax ymax r.
Proof. exact C01R_Proofs.core_is_area. Qed.
Print Assumptions core_is_area.

(* ------------------------------------------------------------------------- *)
(* Step 5: circular_overlap_single_exact on an arbitrary rectangle             *)
(* ------------------------------------------------------------------------- *)

Theorem single_exact_total : forall xmin ymin xmax ymax r : R,
  0 <= r -> xmin <= xmax -> ymin <= ymax ->
  circular_overlap_single_exact single_exact_fuel xmin ymin xmax ymax r <> None.
Proof. exact C01R_Proofs.single_exact_total. Qed.
Print Assumptions single_exact_total.

Theorem single_exact_fuel_irrelevant : forall (k : nat) (xmin ymin xmax ymax r : R),
  0 <= r -> xmin <= xmax -> ymin <= ymax ->
  circular_overlap_single_exact (S (S k)) xmin ymin xmax ymax r
  = circular_overlap_single_exact single_exact_fuel xmin ymin xmax ymax r.
Proof. exact C01R_Proofs.single_exact_fuel_irrelevant. Qed.
Print Assumptions single_exact_fuel_irrelevant.

(* MAIN THEOREM: the kernel returns the area of rectangle /\ disc *)
Theorem single_exact_is_area : forall xmin ymin xmax ymax r : R,
  0 <= r -> xmin <= xmax -> ymin <= ymax ->
  circular_overlap_single_exact single_exact_fuel xmin ymin xmax ymax r
  = Some (rect_disc_area xmin ymin xmax ymax r).
Proof. exact C01R_Proofs.single_exact_is_area. Qed.
Print Assumptions single_exact_is_area.

(* the weight stored by circular_overlap_grid, `single_exact(...) / (dx * dy)`, is the
   covered fraction of the pixel and lies in [0, 1] *)
Theorem exact_weight_is_area_fraction : forall xmin ymin xmax ymax r v : R,
  0 <= r -> xmin < xmax -> ymin < ymax ->
  circular_overlap_single_exact single_exact_fuel xmin ymin xmax ymax r = Some v ->
  v / ((xmax - xmin) * (ymax - ymin))
    = rect_disc_area xmin ymin xmax ymax r / ((xmax - xmin) * (ymax - ymin))
  /\ 0 <= v / ((xmax - xmin) * (ymax - ymin)) <= 1.
Proof. exact C01R_Proofs.exact_weight_is_area_fraction. Qed.
Print Assumptions exact_weight_is_area_fraction.

(* a closed-form instance: the kernel applied to the bounding square returns PI r^2 *)
Theorem kernel_on_bounding_square : forall r : R,
  0 < r ->
  circular_overlap_single_exact single_exact_fuel (- r) (- r) r r r = Some (PI * r ^ 2).
Proof. exact C01R_Proofs.kernel_on_bounding_square. Qed.
Print Assumptions kernel_on_bounding_square.

(* ------------------------------------------------------------------------- *)
(* Examples: the hypotheses of every implication above are satisfiable, and    *)
(* concrete instances (values in R cannot be obtained by vm_compute; they are  *)
(* obtained from the theorems).                                                *)
(* ------------------------------------------------------------------------- *)

Example ex_antiderivative_hyps : 0 < 5 /\ - 5 < 3 < 5.
Proof. lra. Qed.

Example ex_integral_hyps_closed_ends : 0 < 5 /\ - 5 <= - 5 /\ - 5 <= 5 /\ 5 <= 5.
Proof. lra. Qed.

(* (3,4) and (4,3) on the circle of radius 5 *)
Example ex_segment_hyps :
  0 < 5 /\ 0 <= 4 /\ 0 <= 3 /\ 3 ^ 2 + 4 ^ 2 = 5 ^ 2 /\ 4 ^ 2 + 3 ^ 2 = 5 ^ 2 /\ 3 <= 4.
Proof. lra. Qed.

Example ex_central_angle_hyps : 0 < 1 /\ 0 <= PI / 2 /\ PI / 2 - 0 <= PI.
Proof. generalize PI_RGT_0. lra. Qed.

(* one rectangle for each branch of circular_overlap_core, radius 5 *)
Example ex_outside : 0 <= 4 /\ 4 <= 5 /\ 0 <= 4 /\ 4 <= 5 /\ 4 * 4 + 4 * 4 > 5 * 5.
Proof. lra. Qed.
Example ex_inside : 0 <= 0 /\ 0 <= 1 /\ 0 <= 0 /\ 0 <= 1 /\ 1 * 1 + 1 * 1 < 5 * 5.
Proof. lra. Qed.
Example ex_three_corners :
  0 < 5 /\ 0 <= 0 /\ 0 <= 4 /\ 0 <= 0 /\ 0 <= 4 /\
  4 ^ 2 + 0 ^ 2 <= 5 ^ 2 /\ 0 ^ 2 + 4 ^ 2 <= 5 ^ 2 /\ 5 ^ 2 <= 4 ^ 2 + 4 ^ 2.
Proof. lra. Qed.
Example ex_two_bottom :
  0 < 5 /\ 0 <= 0 /\ 0 <= 3 /\ 0 <= 0 /\ 0 <= 10 /\
  3 ^ 2 + 0 ^ 2 <= 5 ^ 2 /\ 5 ^ 2 <= 0 ^ 2 + 10 ^ 2.
Proof. lra. Qed.
Example ex_two_left :
  0 < 5 /\ 0 <= 0 /\ 0 <= 10 /\ 0 <= 0 /\ 0 <= 3 /\
  0 ^ 2 + 3 ^ 2 <= 5 ^ 2 /\ 5 ^ 2 <= 10 ^ 2 + 0 ^ 2.
Proof. lra. Qed.
Example ex_one_corner :
  0 < 5 /\ 0 <= 3 /\ 3 <= 10 /\ 0 <= 3 /\ 3 <= 10 /\
  3 ^ 2 + 3 ^ 2 <= 5 ^ 2 /\ 5 ^ 2 <= 10 ^ 2 + 3 ^ 2 /\ 5 ^ 2 <= 3 ^ 2 + 10 ^ 2.
Proof. lra. Qed.

(* a rectangle straddling both axes (four recursive pieces) *)
Example ex_single_exact_hyps : 0 <= 5 /\ - 1 <= 2 /\ - 3 <= 4.
Proof. lra. Qed.

(* boundary instance: the corner (3,4) lies ON the circle of radius 5; the source's strict
   test `xmax*xmax + ymax*ymax < r*r` fails, the arc branch is taken, and it still yields the
   full rectangle area 12 *)
Example ex_core_corner_on_circle : circular_overlap_core 0 0 3 4 5 = 12.
Proof.
  rewrite C01R_Proofs.core_is_area by lra.
  rewrite <- (core_case_inside 0 0 3 4 5) by lra. ring.
Qed.
Print Assumptions ex_core_corner_on_circle.

(* unit pixel far inside / far outside a disc of radius 5: weights 1 and 0 *)
Example ex_pixel_inside :
  circular_overlap_single_exact single_exact_fuel (- 1) (- 1) 0 0 5 = Some 1.
Proof.
  rewrite C01R_Proofs.single_exact_is_area by lra. f_equal.
  transitivity (rect_disc_area 0 0 1 1 5).
  - rewrite <- (C01R_Proofs.area_refl_y 0 0 1 1 5), <- (C01R_Proofs.area_refl_x 0 (- (1)) 1 (- 0) 5).
    f_equal; lra.
  - rewrite <- C01R_Proofs.area_spec_is_rect_disc_area by lra.
    rewrite <- (core_case_inside 0 0 1 1 5) by lra. ring.
Qed.

Example ex_pixel_outside :
  circular_overlap_single_exact single_exact_fuel 4 4 5 5 5 = Some 0.
Proof.
  rewrite C01R_Proofs.single_exact_is_area by lra. f_equal.
  rewrite <- C01R_Proofs.area_spec_is_rect_disc_area by lra.
  symmetry. apply core_case_outside; lra.
Qed.
