(* C04 — the staged code path (C04_PathModel.detect_path) refines the one-step model
   (C04_Model.detect); pre-seeded labels / slices / areas are the fresh ones. *)
From Coq Require Import List Arith ZArith Bool Lia Relations Sorted Permutation.
From PV Require Import lib.Cases lib.Conn C04_Model C04_Proofs C04_PathModel.
Import ListNotations.

(* ---------- generic list facts ---------- *)
Lemma map_seq_nth (f : nat -> nat) (img : list nat) :
  map (fun p => f (nth p img 0)) (seq 0 (length img)) = map f img.
Proof.
  apply nth_ext with (d := f 0) (d' := f 0).
  - rewrite !map_length, seq_length. reflexivity.
  - intros i Hi. rewrite map_length, seq_length in Hi.
    rewrite (map_nth f img 0 i).
    rewrite (nth_indep _ (f 0) ((fun p => f (nth p img 0)) 0)) by (rewrite map_length, seq_length; lia).
    rewrite (map_nth (fun p => f (nth p img 0))). rewrite seq_nth by lia. reflexivity.
Qed.

Lemma filter_andb {A} (f g : A -> bool) l :
  filter (fun x => f x && g x) l = filter g (filter f l).
Proof.
  induction l as [|a l IH]; [reflexivity|]. cbn. destruct (f a); cbn; [destruct (g a); rewrite IH; reflexivity|exact IH].
Qed.

Lemma filter_map_comm {A B} (g : A -> B) (f : B -> bool) l :
  filter f (map g l) = map g (filter (fun x => f (g x)) l).
Proof. induction l as [|a l IH]; [reflexivity|]. cbn. destruct (f (g a)); cbn; rewrite IH; reflexivity. Qed.

Lemma filter_len_le {A} (f : A -> bool) l : length (filter f l) <= length l.
Proof. induction l as [|a l IH]; cbn; [lia|]. destruct (f a); cbn; lia. Qed.

Lemma filter_full {A} (f : A -> bool) l : length (filter f l) = length l -> filter f l = l.
Proof.
  induction l as [|a l IH]; [reflexivity|]. cbn. destruct (f a); cbn.
  - intros [= H]. f_equal. auto.
  - intros H. pose proof (filter_len_le f l). lia.
Qed.

Lemma filter_full_all {A} (f : A -> bool) l : filter f l = l -> forall x, In x l -> f x = true.
Proof. intros E x Hx. rewrite <- E in Hx. apply filter_In in Hx. tauto. Qed.

Lemma seq_map_nth (A : list nat) : map (fun l => nth (l - 1) A 0) (seq 1 (length A)) = A.
Proof.
  apply nth_ext with (d := 0) (d' := 0); [rewrite map_length, seq_length; reflexivity|].
  intros i Hi. rewrite map_length, seq_length in Hi.
  rewrite (nth_indep _ 0 ((fun l => nth (l - 1) A 0) 0)) by (rewrite map_length, seq_length; lia).
  rewrite (map_nth (fun l => nth (l - 1) A 0)). rewrite seq_nth by lia. f_equal. lia.
Qed.

Lemma memb_In v l : memb v l = true <-> In v l.
Proof.
  unfold memb. rewrite existsb_exists. split.
  - intros (x & Hx & E). apply Nat.eqb_eq in E. subst. auto.
  - intros H. exists v. split; [auto|apply Nat.eqb_refl].
Qed.
Lemma memb_false v l : memb v l = false <-> ~ In v l.
Proof. rewrite <- memb_In. destruct (memb v l); split; congruence. Qed.

Lemma index_of_map_inj (g : nat -> nat) x L :
  (forall a, In a L -> g a = g x -> a = x) -> index_of (g x) (map g L) = index_of x L.
Proof.
  induction L as [|a L IH]; intros Hinj; [reflexivity|]. cbn.
  destruct (Nat.eqb_spec (g a) (g x)) as [E|E], (Nat.eqb_spec a x) as [E'|E'].
  - reflexivity.
  - exfalso. apply E'. apply Hinj; [left; reflexivity|auto].
  - subst. congruence.
  - f_equal. apply IH. intros b Hb. apply Hinj. right; auto.
Qed.

Lemma index_of_seq1 l K : 1 <= l <= K -> index_of l (seq 1 K) = l - 1.
Proof.
  intros H. assert (G : forall a K, a <= l < a + K -> index_of l (seq a K) = l - a).
  { clear. intros a K; revert a; induction K as [|K IH]; intros a H; [lia|]. cbn [seq index_of].
    destruct (Nat.eqb_spec a l) as [->|Hne]; [lia|]. rewrite IH by lia. lia. }
  apply G. lia.
Qed.

Lemma minl_le l d x : In x l -> minl l d <= x.
Proof. induction l as [|a l IH]; [intros []|]. change (minl (a :: l) d) with (Nat.min a (minl l d)).
  intros [->|H]; [lia|]. specialize (IH H). lia. Qed.
Lemma le_maxl l x : In x l -> x <= maxl l.
Proof. induction l as [|a l IH]; [intros []|]. change (maxl (a :: l)) with (Nat.max a (maxl l)).
  intros [->|H]; [lia|]. specialize (IH H). lia. Qed.
Lemma minl_in l d : l <> [] -> (forall x, In x l -> x <= d) -> In (minl l d) l.
Proof.
  induction l as [|a l IH]; [congruence|]. intros _ Hd. change (minl (a :: l) d) with (Nat.min a (minl l d)).
  destruct l as [|b l].
  - change (minl [] d) with d. left. specialize (Hd a (or_introl eq_refl)). lia.
  - assert (IH' : In (minl (b :: l) d) (b :: l)). { apply IH; [discriminate|]. intros x Hx. apply Hd. right; auto. }
    destruct (Nat.min_spec a (minl (b :: l) d)) as [[_ E]|[_ E]]; rewrite E; [left; reflexivity|right; exact IH'].
Qed.
Lemma maxl_in l : l <> [] -> In (maxl l) l.
Proof.
  induction l as [|a l IH]; [congruence|]. intros _. change (maxl (a :: l)) with (Nat.max a (maxl l)).
  destruct l as [|b l].
  - change (maxl []) with 0. left. lia.
  - assert (IH' : In (maxl (b :: l)) (b :: l)) by (apply IH; discriminate).
    destruct (Nat.max_spec a (maxl (b :: l))) as [[_ E]|[_ E]]; rewrite E; [right; exact IH'|left; reflexivity].
Qed.
Lemma maxl_eq l N : (forall x, In x l -> x <= N) -> (N = 0 \/ In N l) -> maxl l = N.
Proof.
  intros Hle HN. apply Nat.le_antisymm.
  - clear HN. induction l as [|a l IH]; [cbn; lia|]. change (maxl (a :: l)) with (Nat.max a (maxl l)). pose proof (Hle a (or_introl eq_refl)).
    assert (maxl l <= N) by (apply IH; intros x Hx; apply Hle; right; auto). lia.
  - destruct HN as [->|HN]; [lia|apply le_maxl; auto].
Qed.

Lemma count_occ_map_inj_on (f : nat -> nat) l x :
  (forall v, In v l -> (f v = x <-> v = x)) -> count_occ Nat.eq_dec (map f l) x = count_occ Nat.eq_dec l x.
Proof.
  induction l as [|a l IH]; intros H; [reflexivity|]. cbn.
  pose proof (H a (or_introl eq_refl)) as Ha.
  destruct (Nat.eq_dec (f a) x) as [E|E], (Nat.eq_dec a x) as [E'|E']; try tauto;
    rewrite IH by (intros v Hv; apply H; right; auto); reflexivity.
Qed.

Lemma combine_map_fst {A} (f : nat -> A) L : map fst (combine L (map f L)) = L.
Proof. induction L as [|a L IH]; [reflexivity|]. cbn. f_equal. exact IH. Qed.
Lemma combine_map_filter_snd {A} (f : nat -> A) (k : nat -> bool) L :
  map snd (filter (fun ls => k (fst ls)) (combine L (map f L))) = map f (filter k L).
Proof. induction L as [|a L IH]; [reflexivity|]. cbn. destruct (k a); cbn; rewrite IH; reflexivity. Qed.
Lemma combine_map_filter_fst {A} (f : nat -> A) (k : nat -> bool) L :
  map fst (filter (fun ls => k (fst ls)) (combine L (map f L))) = filter k L.
Proof. induction L as [|a L IH]; [reflexivity|]. cbn. destruct (k a); cbn; rewrite IH; reflexivity. Qed.

(* ---------- slices ---------- *)
Lemma in_pixels_of out l p : In p (pixels_of out l) <-> p < length out /\ nth p out 0 = l.
Proof. unfold pixels_of. rewrite filter_In, in_seq, Nat.eqb_eq. intuition lia. Qed.

(* [slice_of] contains every pixel carrying the label ... *)
Lemma slice_of_contains nx out l p :
  p < length out -> nth p out 0 = l -> in_slice nx (slice_of nx out l) p = true.
Proof.
  intros Hp E. assert (Hin : In p (pixels_of out l)) by (apply in_pixels_of; auto).
  unfold slice_of, in_slice.
  assert (Hy : In (p / nx) (map (fun p => p / nx) (pixels_of out l))) by (apply (in_map (fun p => p / nx)); auto).
  assert (Hx : In (p mod nx) (map (fun p => p mod nx) (pixels_of out l))) by (apply (in_map (fun p => p mod nx)); auto).
  pose proof (minl_le _ (length out) _ Hy). pose proof (le_maxl _ _ Hy).
  pose proof (minl_le _ nx _ Hx). pose proof (le_maxl _ _ Hx).
  rewrite !andb_true_iff, !Nat.leb_le, !Nat.ltb_lt. lia.
Qed.

(* ... and each of its four edges is touched by one (tightness) *)
Lemma slice_of_tight nx out l : 0 < nx -> (exists p, p < length out /\ nth p out 0 = l) ->
  let '((y0, y1), (x0, x1)) := slice_of nx out l in
  (exists p, p < length out /\ nth p out 0 = l /\ p / nx = y0) /\
  (exists p, p < length out /\ nth p out 0 = l /\ S (p / nx) = y1) /\
  (exists p, p < length out /\ nth p out 0 = l /\ p mod nx = x0) /\
  (exists p, p < length out /\ nth p out 0 = l /\ S (p mod nx) = x1).
Proof.
  intros Hnx (p0 & Hp0 & E0). unfold slice_of.
  set (ps := pixels_of out l).
  assert (Hne : ps <> []). { assert (In p0 ps) by (apply in_pixels_of; auto). destruct ps; [contradiction|discriminate]. }
  assert (Hney : map (fun p => p / nx) ps <> []) by (destruct ps; [congruence|discriminate]).
  assert (Hnex : map (fun p => p mod nx) ps <> []) by (destruct ps; [congruence|discriminate]).
  assert (back : forall (f : nat -> nat) v, In v (map f ps) -> exists p, p < length out /\ nth p out 0 = l /\ f p = v).
  { intros f v Hv. apply in_map_iff in Hv as (p & <- & Hp). apply in_pixels_of in Hp as [Hp E]. exists p. auto. }
  repeat split.
  - apply (back (fun p => p / nx)). apply minl_in; [auto|].
    intros y Hy. apply in_map_iff in Hy as (p & <- & Hp). apply in_pixels_of in Hp as [Hp _].
    pose proof (Nat.div_le_upper_bound p nx p ltac:(lia)). assert (p / nx <= p); [|lia].
    apply Nat.div_le_upper_bound; [lia|]. nia.
  - destruct (back (fun p => p / nx) (maxl (map (fun p => p / nx) ps)) (maxl_in _ Hney)) as (p & A & B & C).
    exists p. cbn in C. auto.
  - apply (back (fun p => p mod nx)). apply minl_in; [auto|].
    intros x Hx. apply in_map_iff in Hx as (p & <- & _). pose proof (Nat.mod_upper_bound p nx ltac:(lia)). lia.
  - destruct (back (fun p => p mod nx) (maxl (map (fun p => p mod nx) ps)) (maxl_in _ Hnex)) as (p & A & B & C).
    exists p. cbn in C. auto.
Qed.

(* counting / zeroing through a slice that contains the whole label = counting / zeroing everywhere *)
Definition covers (nx : nat) (img : list nat) (s : slice) (l : nat) :=
  forall p, p < length img -> nth p img 0 = l -> in_slice nx s p = true.

Lemma count_in_covers nx img s l : covers nx img s l -> count_in nx img s l = count_occ Nat.eq_dec img l.
Proof.
  intros H. unfold count_in. rewrite count_occ_positions. f_equal. apply filter_ext_in.
  intros p Hp. apply in_seq in Hp. destruct (Nat.eqb_spec (nth p img 0) l) as [E|E]; [|apply andb_false_r].
  rewrite (H p ltac:(lia) E). reflexivity.
Qed.

Definition zap (l v : nat) : nat := if v =? l then 0 else v.
Lemma zero_in_covers nx img s l : covers nx img s l -> zero_in nx img s l = map (zap l) img.
Proof.
  intros H. unfold zero_in. rewrite <- (map_seq_nth (zap l) img). apply map_ext_in.
  intros p Hp. apply in_seq in Hp. unfold zap. destruct (Nat.eqb_spec (nth p img 0) l) as [E|E].
  - rewrite (H p ltac:(lia) E). reflexivity.
  - rewrite andb_false_r. reflexivity.
Qed.

Lemma nth_map0 (f : nat -> nat) img p : f 0 = 0 -> nth p (map f img) 0 = f (nth p img 0).
Proof. intros H. rewrite <- H at 1. apply map_nth. Qed.

(* ---------- the removal loop in closed form ---------- *)
Section Prune.
Variables (nx npix : nat).
Definition keepc (img : list nat) (l : nat) : bool := negb (count_occ Nat.eq_dec img l <? npix).
Definition removed (img : list nat) (L : list nat) : list nat := filter (fun l => negb (keepc img l)) L.
Definition kill (D : list nat) (v : nat) : nat := if memb v D then 0 else v.

Lemma kill_0 D : kill D 0 = 0.
Proof. unfold kill. destruct (memb 0 D); reflexivity. Qed.

Lemma prune_closed ls : forall img,
  NoDup (map fst ls) -> ~ In 0 (map fst ls) ->
  (forall l s, In (l, s) ls -> covers nx img s l) ->
  prune nx npix img ls =
    (map (kill (removed img (map fst ls))) img,
     (filter (keepc img) (map fst ls), map snd (filter (fun x => keepc img (fst x)) ls))).
Proof.
  induction ls as [|[l s] r IH]; intros img Hnd H0 Hcov.
  - cbn. f_equal. symmetry. rewrite <- (map_id img) at 2. apply map_ext. intros v. reflexivity.
  - cbn [prune map fst filter].
    inversion Hnd as [|? ? Hnotin Hnd']; subst.
    assert (Hl0 : l <> 0) by (intros ->; apply H0; left; reflexivity).
    assert (H0' : ~ In 0 (map fst r)) by (intros H; apply H0; right; exact H).
    pose proof (Hcov l s (or_introl eq_refl)) as Hc.
    rewrite (count_in_covers _ _ _ _ Hc). unfold removed. cbn [filter map fst snd].
    assert (Ek : keepc img l = negb (count_occ Nat.eq_dec img l <? npix)) by reflexivity.
    destruct (count_occ Nat.eq_dec img l <? npix) eqn:Ecount; cbn [negb] in Ek; rewrite Ek; cbn [negb map snd].
    + (* removed *)
      rewrite (zero_in_covers _ _ _ _ Hc).
      assert (Hcnt : forall l', In l' (map fst r) -> count_occ Nat.eq_dec (map (zap l) img) l' = count_occ Nat.eq_dec img l').
      { intros l' Hl'. apply count_occ_map_inj_on. intros v _. unfold zap.
        destruct (Nat.eqb_spec v l) as [->|Hne]; [|tauto].
        split; [intros <-; exfalso; apply H0'; exact Hl'|intros <-; contradiction]. }
      rewrite IH; [|exact Hnd'|exact H0'|].
      * f_equal; [|f_equal].
        -- rewrite map_map. apply map_ext. intros v. fold (removed img (map fst r)).
           replace (removed (map (zap l) img) (map fst r)) with (removed img (map fst r)).
           2:{ unfold removed. apply filter_ext_in. intros l' Hl'. unfold keepc. rewrite Hcnt by auto. reflexivity. }
           unfold kill, zap. cbn [memb existsb]. fold (memb v (removed img (map fst r))).
           destruct (Nat.eqb_spec v l) as [->|Hne]; cbn [orb].
           ++ fold (memb 0 (removed img (map fst r))). destruct (memb 0 _); reflexivity.
           ++ reflexivity.
        -- apply filter_ext_in. intros l' Hl'. unfold keepc. rewrite Hcnt by auto. reflexivity.
        -- f_equal. apply filter_ext_in. intros [l' s'] Hin. cbn [fst]. unfold keepc. rewrite Hcnt; [reflexivity|].
           apply in_map_iff. exists (l', s'). auto.
      * intros l' s' Hin p Hp E. rewrite map_length in Hp. rewrite nth_map0 in E by (unfold zap; destruct (0 =? l); reflexivity).
        apply (Hcov l' s' (or_intror Hin) p Hp). unfold zap in E.
        destruct (nth p img 0 =? l); [|exact E]. exfalso. apply H0'. rewrite E. apply in_map_iff. exists (l', s'). auto.
    + (* kept *)
      rewrite IH; [|exact Hnd'|exact H0'|intros l' s' Hin; apply Hcov; right; exact Hin].
      reflexivity.
Qed.
End Prune.

(* ---------- the label map array ---------- *)
Lemma upd_length a i v : length (upd a i v) = length a.
Proof. revert i; induction a as [|x a IH]; intros [|i]; cbn; auto. Qed.
Lemma nth_upd a i v j : i < length a -> nth j (upd a i v) 0 = if j =? i then v else nth j a 0.
Proof.
  revert i j; induction a as [|x a IH]; intros [|i] [|j] Hi; cbn in *; try lia; auto.
  apply IH. lia.
Qed.

Lemma label_map_fold kl : forall a m, NoDup kl -> (forall l, In l kl -> l < length m) ->
  forall v, nth v (fold_left (fun m lk => upd m (fst lk) (snd lk)) (combine kl (seq a (length kl))) m) 0
            = if memb v kl then a + index_of v kl else nth v m 0.
Proof.
  induction kl as [|l r IH]; intros a m Hnd Hlt v; [reflexivity|].
  inversion Hnd as [|? ? Hnotin Hnd']; subst. cbn [length seq combine fold_left fst snd].
  rewrite IH; [|exact Hnd'|intros l' Hl'; rewrite upd_length; apply Hlt; right; exact Hl'].
  cbn [memb existsb index_of]. fold (memb v r).
  rewrite nth_upd by (apply Hlt; left; reflexivity). rewrite (Nat.eqb_sym l v).
  destruct (Nat.eqb_spec v l) as [->|Hne]; cbn [orb].
  - destruct (memb l r) eqn:M; [apply memb_In in M; contradiction|]. lia.
  - destruct (memb v r); lia.
Qed.

(* the label map sends the i-th kept label to i+1 and everything else (removed labels, 0) to 0;
   no index is out of range when the array has max(labels)+1 entries *)
Lemma label_map_spec M kl v : NoDup kl -> (forall l, In l kl -> l <= M) ->
  nth v (label_map M kl) 0 = if memb v kl then S (index_of v kl) else 0.
Proof.
  intros Hnd Hle. unfold label_map. rewrite label_map_fold; [|exact Hnd|].
  - destruct (memb v kl); [reflexivity|].
    destruct (Nat.lt_ge_cases v (S M)) as [Hv|Hv].
    + apply nth_repeat.
    + apply nth_overflow. rewrite repeat_length. lia.
  - intros l Hl. rewrite repeat_length. specialize (Hle l Hl). lia.
Qed.

(* ---------- the staged path, given the component labelling ---------- *)
Section PathProofs.
Variables (ny nx : nat) (conn8 : bool) (npix : nat) (fgl : list bool).
Notation n := (npx ny nx).
Notation fg := (fg fgl).
Notation nbrs := (nbrs ny nx conn8).
Notation pconn := (pconn ny nx conn8 fgl).

Section WithLab.
Variable lab : list nat.
Hypothesis Hc : components n fg nbrs = Some lab.

Notation A := (all_roots ny nx lab).
Notation K := (length (all_roots ny nx lab)).
Notation L0 := (lbl0 ny nx lab).
Notation img0 := (map (lbl0 ny nx lab) (seq 0 n)).
Notation roots := (roots ny nx npix lab).
Notation relabel := (relabel ny nx npix lab).
Definition gsel (l : nat) : nat := nth (l - 1) A 0.

Lemma in_all_roots r : In r A <-> r < n /\ get lab r = S r.
Proof. unfold all_roots. rewrite filter_In, in_seq, Nat.eqb_eq. intuition lia. Qed.
Lemma all_roots_nodup : NoDup A.
Proof. apply NoDup_filter_seq. Qed.

Lemma root_in_all p r : p < n -> get lab p = S r -> In r A.
Proof. intros Hp E. destruct (lab_root ny nx conn8 fgl lab Hc p r Hp E) as (Hr & Er & _). apply in_all_roots. auto. Qed.

Lemma img0_length : length img0 = n.
Proof. rewrite map_length, seq_length. reflexivity. Qed.
Lemma img0_nth p : p < n -> nth p img0 0 = L0 p.
Proof. intros Hp. apply nth_map_seq. exact Hp. Qed.

Lemma L0_range p : p < n -> L0 p = 0 \/ In (L0 p) (seq 1 K).
Proof.
  intros Hp. unfold lbl0. destruct (get lab p) as [|r] eqn:E; [left; reflexivity|right].
  apply in_seq. pose proof (index_of_lt r A (root_in_all p r Hp E)). lia.
Qed.

Lemma gsel_in l : In l (seq 1 K) -> In (gsel l) A.
Proof. intros H. apply in_seq in H. apply nth_In. lia. Qed.
Lemma gsel_inj a b : In a (seq 1 K) -> In b (seq 1 K) -> gsel a = gsel b -> a = b.
Proof.
  intros Ha Hb E. apply in_seq in Ha. apply in_seq in Hb. unfold gsel in E.
  assert (a - 1 = b - 1); [|lia].
  rewrite <- (index_of_nth_nodup (a - 1) A all_roots_nodup) by lia.
  rewrite <- (index_of_nth_nodup (b - 1) A all_roots_nodup) by lia. rewrite E. reflexivity.
Qed.

(* pixel i carries scipy label l  <->  its root is the l-th root *)
Lemma L0_eq_iff i l : i < n -> In l (seq 1 K) -> (L0 i =? l) = (get lab i =? S (gsel l)).
Proof.
  intros Hi Hl. pose proof Hl as Hl'. apply in_seq in Hl'. unfold lbl0.
  destruct (get lab i) as [|r] eqn:E.
  - destruct (Nat.eqb_spec 0 l); [lia|]. reflexivity.
  - pose proof (root_in_all i r Hi E) as Hr. unfold gsel.
    destruct (Nat.eqb_spec (S (index_of r A)) l) as [E1|E1], (Nat.eqb_spec (S r) (S (nth (l - 1) A 0))) as [E2|E2]; try reflexivity.
    + exfalso. apply E2. f_equal. rewrite <- E1. cbn [Nat.sub]. rewrite Nat.sub_0_r. symmetry. apply index_of_nth. exact Hr.
    + exfalso. apply E1. injection E2 as E2. rewrite E2. rewrite index_of_nth_nodup; [lia|apply all_roots_nodup|lia].
Qed.

Lemma L0_gsel i : i < n -> L0 i <> 0 -> get lab i = S (gsel (L0 i)).
Proof.
  intros Hi H0. destruct (L0_range i Hi) as [E|Hin]; [congruence|].
  apply Nat.eqb_eq. rewrite <- (L0_eq_iff i (L0 i) Hi Hin). apply Nat.eqb_refl.
Qed.

Lemma count_img0 l : In l (seq 1 K) -> count_occ Nat.eq_dec img0 l = size lab (S (gsel l)).
Proof.
  intros Hl. unfold size. rewrite !count_occ_positions. rewrite img0_length, (lab_length ny nx conn8 fgl lab Hc).
  f_equal. apply filter_ext_in. intros i Hi. apply in_seq in Hi.
  rewrite img0_nth by lia. apply L0_eq_iff; [lia|exact Hl].
Qed.

Lemma keepc_keepl l : In l (seq 1 K) -> keepc npix img0 l = keepl npix lab (S (gsel l)).
Proof.
  intros Hl. unfold keepc, keepl. rewrite (count_img0 l Hl). cbn [Nat.eqb negb andb].
  destruct (Nat.ltb_spec (size lab (S (gsel l))) npix) as [H|H], (Nat.leb_spec npix (size lab (S (gsel l)))) as [H'|H']; try reflexivity; lia.
Qed.

Notation kl := (filter (keepc npix img0) (seq 1 K)).
Notation D := (removed npix img0 (seq 1 K)).

Lemma kl_nodup : NoDup kl.
Proof. apply NoDup_filter, seq_NoDup. Qed.

Lemma roots_split : roots = filter (fun r => keepl npix lab (S r)) A.
Proof. unfold C04_Model.roots, all_roots. apply filter_andb. Qed.

Lemma roots_kl : roots = map gsel kl.
Proof.
  rewrite roots_split. rewrite <- (seq_map_nth A) at 1. fold gsel.
  change (fun l => nth (l - 1) A 0) with gsel. rewrite filter_map_comm. f_equal.
  apply filter_ext_in. intros l Hl. symmetry. apply keepc_keepl. exact Hl.
Qed.

Lemma D_kl_partition l : In l (seq 1 K) -> memb l D = negb (memb l kl).
Proof.
  intros Hl. destruct (keepc npix img0 l) eqn:E.
  - assert (H1 : memb l kl = true) by (apply memb_In, filter_In; auto).
    assert (H2 : memb l D = false). { apply memb_false. unfold removed. rewrite filter_In, E. cbn. intros [_ ?]; discriminate. }
    rewrite H1, H2. reflexivity.
  - assert (H1 : memb l kl = false). { apply memb_false. rewrite filter_In, E. intros [_ ?]; discriminate. }
    assert (H2 : memb l D = true). { apply memb_In. unfold removed. rewrite filter_In, E. auto. }
    rewrite H1, H2. reflexivity.
Qed.
Lemma zero_not_in_kl : memb 0 kl = false.
Proof. apply memb_false. rewrite filter_In, in_seq. lia. Qed.

(* one-step relabelling = rank of the scipy label among the kept scipy labels *)
Lemma relabel_staged p : p < n ->
  relabel p = if memb (L0 p) kl then S (index_of (L0 p) kl) else 0.
Proof.
  intros Hp. unfold C04_Model.relabel.
  destruct (get lab p) as [|r] eqn:E.
  - assert (E0 : L0 p = 0) by (unfold lbl0; rewrite E; reflexivity).
    rewrite E0, zero_not_in_kl. reflexivity.
  - assert (N0 : L0 p <> 0) by (unfold lbl0; rewrite E; discriminate).
    destruct (L0_range p Hp) as [?|Hin]; [congruence|].
    pose proof (L0_gsel p Hp N0) as Eg. rewrite E in Eg. injection Eg as Eg.
    assert (Ek' : keepl npix lab (S r) = keepc npix img0 (L0 p)) by (rewrite Eg; symmetry; apply keepc_keepl; exact Hin).
    rewrite Ek'. cbn [pred]. rewrite Eg.
    destruct (keepc npix img0 (L0 p)) eqn:Ek.
    + assert (M : memb (L0 p) kl = true) by (apply memb_In, filter_In; auto). rewrite M.
      f_equal. rewrite roots_kl. apply index_of_map_inj.
      intros a Ha Ea. apply gsel_inj; [apply filter_In in Ha; tauto|exact Hin|exact Ea].
    + assert (M : memb (L0 p) kl = false). { apply memb_false. rewrite filter_In, Ek. intros [_ ?]; discriminate. }
      rewrite M. reflexivity.
Qed.

(* the loop on the scipy image *)
Lemma prune_img0 :
  prune nx npix img0 (combine (seq 1 K) (map (slice_of nx img0) (seq 1 K))) =
  (map (kill D) img0, (kl, map (slice_of nx img0) kl)).
Proof.
  rewrite prune_closed.
  - rewrite combine_map_fst. f_equal. f_equal. apply combine_map_filter_snd.
  - rewrite combine_map_fst. apply seq_NoDup.
  - rewrite combine_map_fst. rewrite in_seq. lia.
  - intros l s Hin p Hp E.
    assert (s = slice_of nx img0 l).
    { clear -Hin. revert Hin. generalize (seq 1 K). intros Ls. induction Ls as [|a Ls IH]; cbn; [intros []|].
      intros [[= -> <-]|H]; [reflexivity|auto]. }
    subst s. apply slice_of_contains; auto.
Qed.

Lemma killed_nth p : p < n -> nth p (map (kill D) img0) 0 = kill D (L0 p).
Proof. intros Hp. rewrite nth_map0 by apply kill_0. rewrite img0_nth by exact Hp. reflexivity. Qed.

Lemma killed_zero_iff p : p < n -> (kill D (L0 p) = 0 <-> relabel p = 0).
Proof.
  intros Hp. rewrite relabel_staged by exact Hp. unfold kill.
  destruct (L0_range p Hp) as [E|Hin].
  - rewrite E, zero_not_in_kl. destruct (memb 0 D); tauto.
  - rewrite (D_kl_partition _ Hin). apply in_seq in Hin. destruct (memb (L0 p) kl); cbn [negb]; split; intros; try reflexivity; try lia; try discriminate.
Qed.

Lemma forallb_zero_map (f g : nat -> nat) :
  (forall p, p < n -> (f p = 0 <-> g p = 0)) ->
  forallb (Nat.eqb 0) (map f (seq 0 n)) = forallb (Nat.eqb 0) (map g (seq 0 n)).
Proof.
  intros H. apply eq_true_iff_eq. rewrite !forallb_forall. split; intros Hall x Hx;
    apply in_map_iff in Hx as (p & <- & Hp); pose proof Hp as Hp'; apply in_seq in Hp';
    apply Nat.eqb_eq; symmetry; apply H; try lia; symmetry; apply Nat.eqb_eq, Hall, in_map, Hp.
Qed.

Lemma map_kill_as_seq : map (kill D) img0 = map (fun p => kill D (L0 p)) (seq 0 n).
Proof. rewrite map_map. reflexivity. Qed.

Notation out := (map relabel (seq 0 n)).

Lemma nlabels_out : nlabels out = length kl.
Proof.
  change (nlabels out) with (maxl out). replace (length kl) with (length roots) by (rewrite roots_kl, map_length; reflexivity).
  apply maxl_eq.
  - intros x Hx. apply in_map_iff in Hx as (p & <- & Hp). apply in_seq in Hp.
    apply (relabel_le ny nx conn8 npix fgl lab Hc); lia.
  - destruct (length roots) as [|m] eqn:E; [left; reflexivity|right].
    destruct (relabel_onto ny nx conn8 npix fgl lab Hc (S m) ltac:(lia)) as (p & Hp & Ep & _).
    rewrite <- Ep. apply in_map, in_seq. lia.
Qed.

(* kept slices: ORIGINAL find_objects boxes of the kept scipy labels = tight boxes of the final labels *)
Lemma kept_slices : map (slice_of nx img0) kl = map (slice_of nx out) (seq 1 (length kl)).
Proof.
  rewrite <- (seq_map_nth kl) at 1. rewrite map_map. apply map_ext_in. intros j Hj. apply in_seq in Hj.
  set (l := nth (j - 1) kl 0).
  assert (Hl : In l kl) by (apply nth_In; lia).
  assert (Hpix : pixels_of img0 l = pixels_of out j).
  { unfold pixels_of. rewrite img0_length, map_length, seq_length. apply filter_ext_in. intros p Hp. apply in_seq in Hp.
    rewrite img0_nth by lia. rewrite (get_out ny nx npix lab p) by lia. rewrite relabel_staged by lia.
    destruct (memb (L0 p) kl) eqn:M.
    - apply memb_In in M.
      destruct (Nat.eqb_spec (L0 p) l) as [E|E], (Nat.eqb_spec (S (index_of (L0 p) kl)) j) as [E'|E']; try reflexivity.
      + exfalso. apply E'. rewrite E. unfold l. rewrite index_of_nth_nodup; [lia|apply kl_nodup|lia].
      + exfalso. apply E. unfold l. rewrite <- E'. cbn [Nat.sub]. rewrite Nat.sub_0_r. symmetry. apply index_of_nth. exact M.
    - apply memb_false in M. destruct (Nat.eqb_spec (L0 p) l) as [E|E]; [rewrite E in M; contradiction|].
      destruct (Nat.eqb_spec 0 j); [lia|reflexivity]. }
  unfold slice_of. rewrite Hpix, img0_length, map_length, seq_length. reflexivity.
Qed.

(* the relabel step through the label-map array *)
Lemma label_map_img p : p < n ->
  nth (kill D (L0 p)) (label_map (maxl (seq 1 K)) kl) 0 = relabel p.
Proof.
  intros Hp. rewrite label_map_spec; [|apply kl_nodup|].
  - rewrite relabel_staged by exact Hp. unfold kill.
    destruct (L0_range p Hp) as [E|Hin].
    + rewrite E. destruct (memb 0 D); rewrite zero_not_in_kl; reflexivity.
    + rewrite (D_kl_partition _ Hin). destruct (memb (L0 p) kl) eqn:M; cbn [negb]; [rewrite M; reflexivity|].
      rewrite zero_not_in_kl. reflexivity.
  - intros l Hl. apply filter_In in Hl as [Hl _]. apply le_maxl. exact Hl.
Qed.

Lemma staged_eq :
  let '(im, K') := ndi_label ny nx lab in
  let labels0 := seq 1 K' in
  let '(img1, (kl', ks)) := prune nx npix im (combine labels0 (map (slice_of nx im) labels0)) in
  forallb (Nat.eqb 0) img1 = forallb (Nat.eqb 0) out /\
  (forallb (Nat.eqb 0) img1 = false ->
   (if length labels0 =? length kl' then PSeg img1 labels0 ks
    else PSeg (map (fun v => nth v (label_map (maxl labels0) kl') 0) img1) (seq 1 (length kl')) ks)
   = PSeg out (seq 1 (nlabels out)) (map (slice_of nx out) (seq 1 (nlabels out)))).
Proof.
  unfold ndi_label. rewrite prune_img0. split.
  - rewrite map_kill_as_seq. apply forallb_zero_map. intros p Hp. apply killed_zero_iff. exact Hp.
  - intros _. rewrite nlabels_out, <- kept_slices. rewrite seq_length.
    destruct (Nat.eqb_spec K (length kl)) as [E|E].
    + (* nothing removed: no relabelling, labels = 1..K *)
      assert (Hall : kl = seq 1 K). { apply filter_full. rewrite seq_length. symmetry. exact E. }
      f_equal; [|rewrite <- E; reflexivity].
      rewrite map_kill_as_seq. apply map_ext_in. intros p Hp. apply in_seq in Hp.
      rewrite relabel_staged by lia. unfold kill.
      destruct (L0_range p ltac:(lia)) as [E0|Hin].
      * rewrite E0, zero_not_in_kl. destruct (memb 0 D); reflexivity.
      * rewrite (D_kl_partition _ Hin). assert (M : memb (L0 p) kl = true) by (apply memb_In; rewrite Hall; exact Hin).
        rewrite M. cbn [negb]. rewrite Hall at 1. apply in_seq in Hin. rewrite index_of_seq1 by lia. lia.
    + f_equal. rewrite map_kill_as_seq, map_map. apply map_ext_in. intros p Hp. apply in_seq in Hp.
      apply label_map_img. lia.
Qed.
End WithLab.

(* ---------- the refinement ---------- *)
Notation detect := (detect ny nx conn8 npix fgl).
Notation detect_path := (detect_path ny nx conn8 npix fgl).
Notation qualifies := (qualifies ny nx conn8 npix fgl).

Lemma no_fg_nodet : forallb (fun p => negb (fg p)) (seq 0 n) = true -> detect = NoDet.
Proof.
  intros H. apply detect_nodet. intros p Hp [F _]. rewrite forallb_forall in H.
  specialize (H p ltac:(apply in_seq; lia)). rewrite F in H. discriminate.
Qed.

Lemma detect_path_refines :
  match detect with
  | Fuel => False
  | NoDet => detect_path = PNoDet
  | Seg out => detect_path = PSeg out (seq 1 (nlabels out)) (map (slice_of nx out) (seq 1 (nlabels out)))
  end.
Proof.
  unfold C04_PathModel.detect_path.
  destruct (forallb (fun p => negb (fg p)) (seq 0 n)) eqn:Efg.
  - rewrite (no_fg_nodet Efg). reflexivity.
  - unfold C04_Model.detect. destruct (components_total n fg nbrs) as [lab Hc]. rewrite Hc.
    pose proof (staged_eq lab Hc) as H.
    destruct (ndi_label ny nx lab) as [im K']. cbv zeta in H. cbv zeta.
    destruct (prune nx npix im _) as [img1 [kl' ks]]. destruct H as [H1 H2]. rewrite H1.
    destruct (forallb (Nat.eqb 0) (map (relabel ny nx npix lab) (seq 0 n))) eqn:E; [reflexivity|].
    apply H2. rewrite H1. reflexivity.
Qed.
End PathProofs.

(* ---------- what a fresh SegmentationImage derives: universal facts (any label array) ---------- *)
Lemma areas_of_tight nx out L : areas_of nx out L (map (slice_of nx out) L) = map (area_of out) L.
Proof.
  unfold areas_of. induction L as [|l L IH]; [reflexivity|]. cbn [map combine fst snd]. f_equal; [|exact IH].
  apply count_in_covers. intros p Hp E. apply slice_of_contains; auto.
Qed.

Lemma fresh_slices_eq nx out : fresh_slices nx out = map (slice_of nx out) (fresh_labels out).
Proof.
  unfold fresh_slices, fresh_raw_slices, fresh_labels. induction (seq 1 (maxl out)) as [|l L IH]; [reflexivity|].
  cbn [map filter somes]. destruct (memb l out); cbn [somes map]; rewrite IH; reflexivity.
Qed.

Lemma fresh_labels_branches nx out : fresh_labels_from_raw nx out = fresh_labels out.
Proof.
  unfold fresh_labels_from_raw, fresh_raw_slices, fresh_labels. rewrite map_length, seq_length.
  set (F := fun l => if memb l out then Some (slice_of nx out l) else None).
  rewrite <- (combine_map_filter_fst F (fun l => memb l out)). f_equal.
  apply filter_ext_in. intros [l s] Hin. cbn [fst snd].
  assert (s = F l).
  { revert Hin. generalize (seq 1 (maxl out)). intros Ls. induction Ls as [|a Ls IH]; cbn; [intros []|].
    intros [[= -> <-]|H]; [reflexivity|auto]. }
  subst s. unfold F. destruct (memb l out); reflexivity.
Qed.

Lemma fresh_areas_eq nx out : fresh_areas nx out = map (area_of out) (fresh_labels out).
Proof. unfold fresh_areas. rewrite fresh_slices_eq. apply areas_of_tight. Qed.

Lemma filter_all_true {A} (f : A -> bool) l : (forall x, In x l -> f x = true) -> filter f l = l.
Proof.
  induction l as [|a l IH]; intros H; [reflexivity|]. cbn. rewrite (H a (or_introl eq_refl)). f_equal.
  apply IH. intros x Hx. apply H. right; exact Hx.
Qed.

Lemma fresh_labels_consecutive out N :
  maxl out = N -> (forall k, 1 <= k <= N -> In k out) -> fresh_labels out = seq 1 N.
Proof.
  intros Hm Hall. unfold fresh_labels. rewrite Hm. apply filter_all_true.
  intros k Hk. apply in_seq in Hk. apply memb_In, Hall. lia.
Qed.

(* ---------- consequences for [detect] / [detect_path] ---------- *)
Section Consequences.
Variables (ny nx : nat) (conn8 : bool) (npix : nat) (fgl : list bool).
Notation n := (npx ny nx).
Notation fg := (fg fgl).
Notation nbrs := (nbrs ny nx conn8).
Notation pconn := (pconn ny nx conn8 fgl).
Notation comp_size := (comp_size ny nx conn8 fgl).
Notation detect := (detect ny nx conn8 npix fgl).
Notation detect_path := (detect_path ny nx conn8 npix fgl).
Notation qualifies := (qualifies ny nx conn8 npix fgl).

Lemma path_seg_inv out labels slices : detect_path = PSeg out labels slices ->
  detect = Seg out /\ labels = seq 1 (nlabels out) /\ slices = map (slice_of nx out) (seq 1 (nlabels out)).
Proof.
  pose proof (detect_path_refines ny nx conn8 npix fgl) as H. destruct detect as [| |out0].
  - contradiction.
  - rewrite H. discriminate.
  - rewrite H. intros [= <- <- <-]. auto.
Qed.

Lemma path_nodet_iff : detect_path = PNoDet <-> detect = NoDet.
Proof.
  pose proof (detect_path_refines ny nx conn8 npix fgl) as H. destruct detect as [| |out0].
  - contradiction.
  - tauto.
  - rewrite H. split; discriminate.
Qed.

Lemma path_not_fuel : detect_path <> PFuel.
Proof.
  pose proof (detect_path_refines ny nx conn8 npix fgl) as H. destruct detect as [| |out0];
    [contradiction|rewrite H; discriminate|rewrite H; discriminate].
Qed.

Section WithLab2.
Variable lab : list nat.
Hypothesis Hc : components n fg nbrs = Some lab.
Notation roots := (roots ny nx npix lab).
Notation relabel := (relabel ny nx npix lab).
Notation out := (map relabel (seq 0 n)).

(* the kept roots = the first pixels of the qualifying components *)
Lemma in_roots_spec r : In r roots <-> r < n /\ qualifies r /\ (forall q, q < n -> pconn r q -> r <= q).
Proof.
  rewrite (in_roots ny nx conn8 npix fgl lab Hc). split.
  - intros (Hr & Er & Kr). split; [exact Hr|].
    assert (Q : qualifies r). { apply (keepl_spec ny nx conn8 npix fgl lab Hc r Hr). rewrite Er. exact Kr. }
    split; [exact Q|]. destruct Q as [F _].
    destruct (lab_facts ny nx conn8 fgl lab Hc r Hr) as (_ & B & _). destruct (B F) as (r' & E' & _ & _ & Hmin).
    assert (r' = r) by congruence. subst r'. exact Hmin.
  - intros (Hr & Q & Hmin). split; [exact Hr|]. pose proof Q as [F _].
    destruct (lab_facts ny nx conn8 fgl lab Hc r Hr) as (_ & B & _). destruct (B F) as (r' & E' & Cr & Hle & _).
    assert (r' = r). { destruct (lab_root ny nx conn8 fgl lab Hc r r' Hr E') as (Hr' & _). specialize (Hmin r' Hr' Cr). lia. }
    subst r'. split; [exact E'|]. rewrite <- E'. apply (keepl_spec ny nx conn8 npix fgl lab Hc r Hr). exact Q.
Qed.

Lemma nlabels_roots : nlabels out = length roots.
Proof. rewrite (nlabels_out ny nx conn8 npix fgl lab Hc). rewrite (roots_kl ny nx conn8 npix fgl lab Hc), map_length. reflexivity. Qed.

Lemma relabel_conn p q : pconn p q -> relabel p = relabel q.
Proof. intros C. unfold C04_Model.relabel. rewrite (lab_conn ny nx conn8 fgl lab Hc p q C). reflexivity. Qed.

Lemma area_comp_size p : p < n -> relabel p <> 0 -> comp_size p (area_of out (relabel p)).
Proof.
  intros Hp Np. exists (filter (fun q => relabel q =? relabel p) (seq 0 n)).
  split; [apply NoDup_filter_seq|]. split.
  - intros q. rewrite filter_In, in_seq, Nat.eqb_eq. split.
    + intros [Hq E]. split; [lia|]. apply (relabel_same ny nx conn8 npix fgl lab Hc p q); [exact Hp|lia|exact Np|congruence|congruence].
    + intros [Hq C]. split; [lia|]. symmetry. apply relabel_conn. exact C.
  - unfold area_of. rewrite count_occ_positions, map_length, seq_length. f_equal.
    apply filter_ext_in. intros q Hq. apply in_seq in Hq. rewrite (get_out ny nx npix lab q) by lia. reflexivity.
Qed.
End WithLab2.

(* N = number of qualifying components *)
Lemma seg_count out : detect = Seg out ->
  exists R, NoDup R /\
    (forall r, In r R <-> r < n /\ qualifies r /\ (forall q, q < n -> pconn r q -> r <= q)) /\
    nlabels out = length R.
Proof.
  unfold C04_Model.detect. destruct (components n fg nbrs) as [lab|] eqn:Hc; [|discriminate].
  destruct (forallb _ _); [discriminate|]. intros [= <-].
  exists (roots ny nx npix lab). split; [apply NoDup_filter_seq|]. split; [apply in_roots_spec; exact Hc|].
  apply nlabels_roots. exact Hc.
Qed.

Lemma seg_area out : detect = Seg out ->
  forall p, p < n -> nth p out 0 <> 0 -> comp_size p (area_of out (nth p out 0)).
Proof.
  unfold C04_Model.detect. destruct (components n fg nbrs) as [lab|] eqn:Hc; [|discriminate].
  destruct (forallb _ _); [discriminate|]. intros [= <-] p Hp. rewrite (get_out ny nx npix lab p Hp).
  apply area_comp_size; auto.
Qed.

Lemma seg_onto out : detect = Seg out ->
  (forall p, p < n -> nth p out 0 <= nlabels out) /\
  (forall k, 1 <= k <= nlabels out -> exists p, p < n /\ nth p out 0 = k).
Proof.
  intros Hd. destruct (detect_seg ny nx conn8 npix fgl out Hd) as (Hlen & _ & _ & (N & Hle & Honto) & _).
  assert (E : nlabels out = N).
  { change (nlabels out) with (maxl out). apply maxl_eq.
    - intros x Hx. apply (In_nth _ _ 0) in Hx as (p & Hp & <-). apply Hle. lia.
    - destruct N as [|m]; [left; reflexivity|right]. destruct (Honto (S m) ltac:(lia)) as (p & Hp & <-).
      apply nth_In. lia. }
  rewrite E. auto.
Qed.

Lemma nth_slices out k : 1 <= k <= nlabels out ->
  nth (k - 1) (map (slice_of nx out) (seq 1 (nlabels out))) ((0, 0), (0, 0)) = slice_of nx out k.
Proof.
  intros Hk. rewrite (nth_indep _ _ (slice_of nx out 0)) by (rewrite map_length, seq_length; lia).
  rewrite map_nth, seq_nth by lia. f_equal. lia.
Qed.

Lemma in_slice_bounds s p : in_slice nx s p = true ->
  let '((y0, y1), (x0, x1)) := s in y0 <= p / nx < y1 /\ x0 <= p mod nx < x1.
Proof.
  destruct s as [[y0 y1] [x0 x1]]. unfold in_slice. rewrite !andb_true_iff, !Nat.leb_le, !Nat.ltb_lt. lia.
Qed.

Lemma path_labels out labels slices : detect_path = PSeg out labels slices ->
  exists R, NoDup R /\
    (forall r, In r R <-> r < n /\ qualifies r /\ (forall q, q < n -> pconn r q -> r <= q)) /\
    labels = seq 1 (length R) /\
    (forall p, p < n -> nth p out 0 <= length R) /\
    (forall k, In k labels -> exists p, p < n /\ nth p out 0 = k).
Proof.
  intros H. apply path_seg_inv in H as (Hd & -> & _).
  destruct (seg_count out Hd) as (R & Hnd & HR & HN). destruct (seg_onto out Hd) as [Hle Honto].
  exists R. rewrite <- HN. split; [exact Hnd|]. split; [exact HR|]. split; [reflexivity|]. split; [exact Hle|].
  intros k Hk. apply in_seq in Hk. apply Honto. lia.
Qed.

Lemma path_areas out labels slices : detect_path = PSeg out labels slices ->
  areas_of nx out labels slices = map (area_of out) labels /\
  (forall p, p < n -> nth p out 0 <> 0 -> comp_size p (area_of out (nth p out 0))) /\
  (forall k, In k labels -> exists p, p < n /\ nth p out 0 = k /\ nth (k - 1) (areas_of nx out labels slices) 0 = area_of out k
                                     /\ comp_size p (area_of out k)).
Proof.
  intros H. apply path_seg_inv in H as (Hd & -> & ->).
  pose proof (areas_of_tight nx out (seq 1 (nlabels out))) as Ha.
  split; [exact Ha|]. split; [apply seg_area; exact Hd|].
  intros k Hk. apply in_seq in Hk. destruct (seg_onto out Hd) as [_ Honto].
  destruct (Honto k ltac:(lia)) as (p & Hp & E). exists p. split; [exact Hp|]. split; [exact E|]. split.
  - rewrite Ha. rewrite (nth_indep _ 0 (area_of out 0)) by (rewrite map_length, seq_length; lia).
    rewrite map_nth, seq_nth by lia. f_equal. lia.
  - rewrite <- E. apply seg_area; [exact Hd|exact Hp|lia].
Qed.

Lemma path_slices out labels slices : detect_path = PSeg out labels slices ->
  length slices = length labels /\
  forall k, 1 <= k <= length labels ->
    let '((y0, y1), (x0, x1)) := nth (k - 1) slices ((0, 0), (0, 0)) in
    (forall p, p < n -> nth p out 0 = k -> y0 <= p / nx < y1 /\ x0 <= p mod nx < x1) /\
    (exists p, p < n /\ nth p out 0 = k /\ p / nx = y0) /\
    (exists p, p < n /\ nth p out 0 = k /\ S (p / nx) = y1) /\
    (exists p, p < n /\ nth p out 0 = k /\ p mod nx = x0) /\
    (exists p, p < n /\ nth p out 0 = k /\ S (p mod nx) = x1).
Proof.
  intros H. apply path_seg_inv in H as (Hd & -> & ->). rewrite map_length. split; [reflexivity|].
  rewrite seq_length. intros k Hk. rewrite nth_slices by exact Hk.
  destruct (detect_seg ny nx conn8 npix fgl out Hd) as (Hlen & _).
  destruct (seg_onto out Hd) as [_ Honto]. destruct (Honto k Hk) as (p0 & Hp0 & E0).
  assert (Hnx : 0 < nx). { destruct nx; [|lia]. unfold npx in Hp0. lia. }
  pose proof (slice_of_tight nx out k Hnx) as T.
  pose proof (fun p Hp E => in_slice_bounds _ p (slice_of_contains nx out k p Hp E)) as Cn.
  destruct (slice_of nx out k) as [[y0 y1] [x0 x1]]. rewrite Hlen in *.
  split; [intros p Hp E; apply Cn; auto|]. apply T. exists p0. auto.
Qed.

Lemma path_fresh out labels slices : detect_path = PSeg out labels slices ->
  labels = fresh_labels out /\ labels = fresh_labels_from_raw nx out /\
  slices = fresh_slices nx out /\ areas_of nx out labels slices = fresh_areas nx out.
Proof.
  intros H. apply path_seg_inv in H as (Hd & -> & ->). destruct (seg_onto out Hd) as [_ Honto].
  destruct (detect_seg ny nx conn8 npix fgl out Hd) as (Hlen & _).
  assert (E : fresh_labels out = seq 1 (nlabels out)).
  { apply fresh_labels_consecutive; [reflexivity|]. intros k Hk. destruct (Honto k Hk) as (p & Hp & <-). apply nth_In. lia. }
  rewrite fresh_labels_branches. unfold fresh_areas. rewrite fresh_slices_eq, E. auto.
Qed.
End Consequences.

(* ---------- monotonicity: less foreground / larger npixels never creates a detection ---------- *)
Section Monotone.
Variables (ny nx : nat) (conn8 : bool) (npix npix' : nat) (fgl fgl' : list bool).
Notation n := (npx ny nx).
Hypothesis Hsub : forall p, p < n -> fg fgl' p = true -> fg fgl p = true.
Hypothesis Hnp : npix <= npix'.

Lemma pconn_mono p q : pconn ny nx conn8 fgl' p q -> pconn ny nx conn8 fgl p q.
Proof.
  induction 1 as [x y H| |x y z _ IH1 _ IH2]; [|apply rt_refl|eapply rt_trans; eauto].
  apply rt_step. destruct H as (Hx & Hy & Fx & Fy & Ha). repeat split; auto.
Qed.

Lemma comp_size_mono p k k' : comp_size ny nx conn8 fgl' p k' -> comp_size ny nx conn8 fgl p k -> k' <= k.
Proof.
  intros (S' & N' & H' & <-) (S & N & H & <-). apply NoDup_incl_length; [exact N'|].
  intros q Hq. apply H. apply H' in Hq as [Hq C]. split; [exact Hq|apply pconn_mono; exact C].
Qed.

Lemma qualifies_mono p : p < n -> qualifies ny nx conn8 npix' fgl' p -> qualifies ny nx conn8 npix fgl p.
Proof.
  intros Hp [F (k' & Hk' & Hle)]. pose proof (Hsub p Hp F) as F0. split; [exact F0|].
  destruct (comp_size_exists ny nx conn8 fgl p Hp F0) as (k & Hk & _). exists k. split; [exact Hk|].
  pose proof (comp_size_mono p k k' Hk' Hk). lia.
Qed.

Lemma detect_mono out' : detect ny nx conn8 npix' fgl' = Seg out' ->
  exists out, detect ny nx conn8 npix fgl = Seg out /\
    forall p, p < n -> nth p out' 0 <> 0 -> nth p out 0 <> 0.
Proof.
  intros Hd'. destruct (detect ny nx conn8 npix fgl) as [| |out] eqn:Hd.
  - exfalso. exact (detect_not_fuel _ _ _ _ _ Hd).
  - exfalso. assert (E : detect ny nx conn8 npix' fgl' = NoDet); [|congruence].
    apply detect_nodet. intros p Hp Q. apply (proj1 (detect_nodet _ _ _ _ _) Hd p Hp). apply qualifies_mono; auto.
  - exists out. split; [reflexivity|]. intros p Hp Np.
    destruct (detect_seg _ _ _ _ _ _ Hd') as (_ & Q' & _). destruct (detect_seg _ _ _ _ _ _ Hd) as (_ & Q & _).
    apply Q; [exact Hp|]. apply qualifies_mono; [exact Hp|]. apply Q'; auto.
Qed.
End Monotone.

(* masking more pixels or raising the threshold never creates foreground *)
Lemma fg_of_mono data thr thr' mask mask' p :
  (forall t', nth_error thr' p = Some (Some t') -> exists t, nth_error thr p = Some (Some t) /\ (t <= t')%Z) ->
  (nth_error mask' p = Some false -> nth_error mask p = Some false) ->
  nth_error (fg_of data thr' mask') p = Some true -> nth_error (fg_of data thr mask) p = Some true.
Proof.
  intros Ht Hm H. apply fg_of_spec in H as (d & t' & Hd & Ht' & Hm' & Hlt).
  destruct (Ht t' Ht') as (t & Et & Hle). apply fg_of_spec. exists d, t. repeat split; auto. lia.
Qed.
