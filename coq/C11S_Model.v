(* C11S — stretch: the sigma clip that C11 leaves as a Section variable, modelled in exact
   arithmetic over Q.

   astropy.stats.SigmaClip(sigma, sigma_lower, sigma_upper, maxiters, cenfunc in
   {'median','mean'}, stdfunc='std', grow=False) as installed
   (astropy/stats/sigma_clipping.py: _sigmaclip_noaxis; _sigmaclip_fast +
   src/compute_bounds.c: compute_sigma_clipped_bounds; photutils calls it from
   Background2D._sigmaclip_boxes).  Both code paths do, on the finite unmasked values:

       filtered := values;  iteration := 0;  nchanged := 1
       while nchanged != 0 and iteration < maxiters:          (maxiters or inf)
           iteration += 1
           cen := cenfunc(filtered);  std := sqrt(mean((filtered - mean(filtered))^2))
           lo  := cen - sigma_lower*std;   hi := cen + sigma_upper*std
           filtered := [v in filtered | lo <= v <= hi]
           nchanged := number removed
       mask := (values < lo) | (values > hi)         -- the LAST bounds, on the ORIGINAL values

   (the C loop counts only effective iterations and returns before recomputing the bounds,
   which is the same thing).  Consequences that the model keeps: the final mask is not the
   accumulated mask of the iterations; if an iteration rejects everything, the next one
   computes NaN bounds from the empty sample, nothing changes and NOTHING is masked;
   sigma_lower = (sigma_lower or sigma), maxiters = (maxiters or inf).

   No square roots:  x > s*std  is decided on squares with the sign of x and s
   ([gt_sqrt x s var], var = std^2); [gt_sqrt_spec] (C11S_Proofs) proves it equivalent to the
   comparison with the root whenever the root exists in Q.

   Executable functions normalise with [Qred] so that vm_compute stays small; all statements
   are up to [==]. *)
From Coq Require Import List Arith ZArith QArith Bool Lia.
From PV Require Import lib.Cases C11_Model.
Import ListNotations.
Open Scope Q_scope.

(* ---------------- statistics over Q ---------------- *)
Definition sumQ (l : list Q) : Q := fold_right (fun x s => Qred (x + s)) 0 l.
Definition lenQ (l : list Q) : Q := inject_Z (Z.of_nat (length l)).
(* np.mean / nanmean *)
Definition meanQ (l : list Q) : Q := Qred (sumQ l / lenQ l).
(* sum of squared deviations from m *)
Definition ssd (m : Q) (l : list Q) : Q :=
  fold_right (fun x s => Qred ((x - m) * (x - m) + s)) 0 l.
(* np.std(ddof=0)^2 = mean((x - mean)^2): the two-pass population variance *)
Definition varQ (l : list Q) : Q := Qred (ssd (meanQ l) l / lenQ l).
(* np.median / nanmedian: [qmedian] of C11_Model (insertion sort; the middle element, or the
   average of the two middle elements when the length is even) *)

Inductive cenfunc := CMedian | CMean.
Definition cen_of (c : cenfunc) (l : list Q) : Q :=
  match c with CMedian => qmedian l | CMean => meanQ l end.

(* x > s * sqrt(v2)   for v2 >= 0, decided without the root *)
Definition gt_sqrt (x s v2 : Q) : bool :=
  if Qle_bool 0 s
  then Qlt_bool 0 x && Qlt_bool (s * s * v2) (x * x)
  else Qlt_bool 0 x || Qlt_bool (x * x) (s * s * v2).

(* ---------------- one set of bounds ---------------- *)
Section Clip.
Variable cf : cenfunc.
Variables sl su : Q.            (* the resolved sigma_lower / sigma_upper *)

(* v is NOT rejected by the bounds computed from the sample [cur]:
     not (v < cen - sl*std)  and  not (v > cen + su*std);
   bounds of the empty sample are NaN: every comparison is False, nothing is rejected *)
Definition keep (cur : list Q) (v : Q) : bool :=
  match cur with
  | [] => true
  | _ :: _ =>
      let m := cen_of cf cur in
      let v2 := varQ cur in
      negb (gt_sqrt (m - v) sl v2 || gt_sqrt (v - m) su v2)
  end.

(* filtered_data[(filtered_data >= lo) & (filtered_data <= hi)] *)
Definition step (cur : list Q) : list Q := filter (keep cur) cur.

(* the sample from which the LAST bounds are computed; [fuel] = number of further iterations
   allowed after the one on [cur] (the first iteration always runs) *)
Fixpoint last_src (fuel : nat) (cur : list Q) : list Q :=
  match fuel with
  | O => cur
  | S f => let nxt := step cur in
           if Nat.eqb (length nxt) (length cur) then cur else last_src f nxt
  end.
(* SigmaClip._niterations (no-axis path) *)
Fixpoint niters (fuel : nat) (cur : list Q) : nat :=
  match fuel with
  | O => 1
  | S f => let nxt := step cur in
           if Nat.eqb (length nxt) (length cur) then 1 else S (niters f nxt)
  end.
End Clip.

(* ---------------- the whole clip ---------------- *)
Record params := mkParams {
  p_cen : cenfunc;
  p_lo : Q;                     (* resolved sigma_lower *)
  p_hi : Q;                     (* resolved sigma_upper *)
  p_maxiters : option nat       (* None = np.inf; Some 0 is turned into np.inf by the code *)
}.

(* iterations allowed after the first one; for maxiters = inf the length of the list is
   enough ([last_src_fuel_enough] in C11S_Proofs) *)
Definition fuel_of (mi : option nat) (n : nat) : nat :=
  match mi with
  | None => n
  | Some O => n
  | Some (S m) => m
  end.

Definition final_src (P : params) (l : list Q) : list Q :=
  last_src (p_cen P) (p_lo P) (p_hi P) (fuel_of (p_maxiters P) (length l)) l.
(* ~mask of SigmaClip(...)(values, masked=True): True = value survives *)
Definition keep_mask (P : params) (l : list Q) : list bool :=
  map (keep (p_cen P) (p_lo P) (p_hi P) (final_src P l)) l.
(* the surviving values, in order *)
Definition clip (P : params) (l : list Q) : list Q :=
  filter (keep (p_cen P) (p_lo P) (p_hi P) (final_src P l)) l.
Definition clip_niters (P : params) (l : list Q) : nat :=
  niters (p_cen P) (p_lo P) (p_hi P) (fuel_of (p_maxiters P) (length l)) l.

(* the instance for C11's [clip : list Z -> list Z] (scaled-integer pixel values) *)
Definition clipZ (P : params) (l : list Z) : list Z :=
  let s := final_src P (map inject_Z l) in
  filter (fun z => keep (p_cen P) (p_lo P) (p_hi P) s (inject_Z z)) l.

(* ---------------- correspondence ---------------- *)
(* `sigma_lower or sigma` *)
Definition resolve_sigma (o : option Q) (s : Q) : Q :=
  match o with
  | None => s
  | Some x => if Qeq_bool x 0 then s else x
  end.

(* (cenfunc = 'median', sigma, sigma_lower, sigma_upper, maxiters, den, values*den,
    implementation's ~mask, implementation's _niterations if observed) *)
Definition clip_case :=
  (bool * zq * option zq * option zq * option Z * Z * list Z * list bool * option Z)%type.

Definition case_params (med : bool) (sg : zq) (slo shi : option zq) (mi : option Z) : params :=
  mkParams (if med then CMedian else CMean)
           (resolve_sigma (option_map toQ slo) (toQ sg))
           (resolve_sigma (option_map toQ shi) (toQ sg))
           (option_map Z.to_nat mi).
Definition case_values (den : Z) (zs : list Z) : list Q :=
  map (fun z => Qmake z (Z.to_pos den)) zs.

Fixpoint blist_eqb (a b : list bool) : bool :=
  match a, b with
  | [], [] => true
  | x :: a', y :: b' => Bool.eqb x y && blist_eqb a' b'
  | _, _ => false
  end.

Definition check_clip_case (c : clip_case) : bool :=
  let '(med, sg, slo, shi, mi, den, zs, impl_keep, impl_niter) := c in
  let P := case_params med sg slo shi mi in
  let l := case_values den zs in
  blist_eqb (keep_mask P l) impl_keep
  && match impl_niter with
     | None => true
     | Some k => (Z.of_nat (clip_niters P l) =? k)%Z
     end.

Definition clip_model_out (c : clip_case) :=
  let '(med, sg, slo, shi, mi, den, zs, impl_keep, impl_niter) := c in
  let P := case_params med sg slo shi mi in
  let l := case_values den zs in
  (keep_mask P l, clip_niters P l, map Qred (final_src P l)).
