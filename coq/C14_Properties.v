(* C14 — peak and star finders return exactly the sources their contract selects.
   Property theorems only; each is closed by [exact] of a lemma of C14_Proofs.

   Reading guide.  Pixels are raster indices p = y*nx + x; [py nx p], [px nx p] are the row and
   column; [dget data p = Some v] says pixel p holds the non-NaN value v ([None] = NaN).  Values
   are doubles seen through a strictly monotone integer encoding, so every comparison below is
   the floating-point comparison of the code.  The last two boolean arguments of [find_peaks]/
   [cands] and the last three of [find_stars] are the repair switches of the model; [true] =
   repaired code (fixes/C14-1..3), [false] = the code as found (used only in [..._refuted]).
   [peak_spec ny nx data thr fp mask border p] is the property's selection predicate:
     p is inside the image, not NaN, not masked, not within the border strip, strictly above
     its threshold, and no in-image non-NaN pixel of its footprint neighbourhood is larger.
   [pass c r] = row r passes every configured predicate of the finder configuration c. *)
From Coq Require Import List Arith ZArith Bool Lia Permutation Sorted.
From PV Require Import lib.Cases C14_Model C14_Proofs.
Import ListNotations.
Open Scope Z_scope.

(* ---------------------------------------------------------------------- *)
(* find_peaks                                                              *)
(* ---------------------------------------------------------------------- *)

(* find_peaks (no npeaks) returns precisely the unmasked, non-border pixels that exceed the
   threshold and equal the maximum of their footprint neighbourhood, in raster order; every
   row carries the pixel's own (x, y, value).  (Footprints containing their centre: every
   box_size, the separation disk, every kernel footprint.) *)
Theorem find_peaks_spec : forall ny nx data thr fp mask border rows,
  In (0, 0) (offsets fp) ->
  find_peaks ny nx data thr fp mask border None true true = Some rows ->
  exists ps,
    rows = map (prow nx data (fillv data)) ps /\
    StronglySorted lt ps /\
    (forall p, In p ps <-> peak_spec ny nx data thr fp mask border p) /\
    (forall p, In p ps -> exists v, dget data p = Some v /\
                                    prow nx data (fillv data) p = (px nx p, py nx p, v)).
Proof. exact find_peaks_spec_lemma. Qed.
Print Assumptions find_peaks_spec.

(* the candidate set itself, for every npeaks *)
Theorem candidates_are_the_selected_pixels : forall ny nx data thr fp mask border p,
  In (0, 0) (offsets fp) ->
  (In p (cands ny nx data thr fp mask border true true) <-> peak_spec ny nx data thr fp mask border p).
Proof. exact cands_spec. Qed.
Print Assumptions candidates_are_the_selected_pixels.

(* footprints that do not contain their centre: the same statement about the padded image
   (pixels outside of the frame and NaN pixels count as the data minimum) *)
Theorem maximum_filter_equality_padded : forall ny nx data fp cm fill p,
  eq_max ny nx data fp cm fill p = true <->
  exists v, filled data fill p = Some v /\
    (forall o w, In o (offsets fp) ->
        pget ny nx data cm fill (py nx p + fst o) (px nx p + snd o) = Some w -> w <= v) /\
    (exists o, In o (offsets fp) /\
        pget ny nx data cm fill (py nx p + fst o) (px nx p + snd o) = Some v).
Proof. exact eq_max_padded_spec. Qed.
Print Assumptions maximum_filter_equality_padded.

(* box_size = (sy, sx): which offsets form the neighbourhood (even sizes are off-centre the
   scipy way), and the centre is always included *)
Theorem box_neighbourhood : forall sy sx dy dx,
  (0 < sy)%nat ->
  (In (dy, dx) (offsets (box sy sx)) <->
   - Z.of_nat (sy / 2) <= dy < Z.of_nat sy - Z.of_nat (sy / 2) /\
   - Z.of_nat (sx / 2) <= dx < Z.of_nat sx - Z.of_nat (sx / 2)).
Proof. exact offsets_box. Qed.
Print Assumptions box_neighbourhood.
Theorem box_contains_centre : forall sy sx, (0 < sy)%nat -> (0 < sx)%nat -> In (0, 0) (offsets (box sy sx)).
Proof. exact box_has_centre. Qed.
Print Assumptions box_contains_centre.

(* the border strip computed by the code (with its ny > 0 / nx > 0 guards and the clamping of
   as_pair) is the plain geometric strip, for two independent widths *)
Theorem border_arithmetic : forall ny nx border p,
  (p < ny * nx)%nat -> (in_border ny nx border p = true <-> border_px ny nx border p).
Proof. exact in_border_spec. Qed.
Print Assumptions border_arithmetic.

(* border_width = 0 is a no-op; a zero width along one axis excludes nothing along it *)
Theorem border_zero_is_noop : forall ny nx data thr fp mask npeaks cm nf,
  find_peaks ny nx data thr fp mask (Some (0, 0)%nat) npeaks cm nf =
  find_peaks ny nx data thr fp mask None npeaks cm nf.
Proof. exact border_zero_lemma. Qed.
Print Assumptions border_zero_is_noop.
Theorem border_zero_along_one_axis : forall ny nx b p,
  (p < ny * nx)%nat ->
  (border_px ny nx (Some (0%nat, b)) p <-> (p mod nx < Nat.min b nx \/ nx - Nat.min b nx <= p mod nx)%nat) /\
  (border_px ny nx (Some (b, 0%nat)) p <-> (p / nx < Nat.min b ny \/ ny - Nat.min b ny <= p / nx)%nat).
Proof. exact border_zero_axis_lemma. Qed.
Print Assumptions border_zero_along_one_axis.

(* npeaks = n keeps min(n, #qualifying) of the qualifying pixels and every kept value is >=
   every dropped one; kept and dropped together are exactly the qualifying pixels *)
Theorem topN_keeps_highest : forall ny nx data thr fp mask border n rows,
  In (0, 0) (offsets fp) ->
  find_peaks ny nx data thr fp mask border (Some n) true true = Some rows ->
  exists kept dropped,
    rows = map (prow nx data (fillv data)) kept /\
    length kept = Nat.min n (length (kept ++ dropped)) /\
    NoDup (kept ++ dropped) /\
    (forall p, In p (kept ++ dropped) <-> peak_spec ny nx data thr fp mask border p) /\
    (forall a b va vb, In a kept -> In b dropped -> dget data a = Some va -> dget data b = Some vb ->
        vb <= va).
Proof. exact find_peaks_topN_lemma. Qed.
Print Assumptions topN_keeps_highest.

(* the generic top-N selection used by npeaks and by brightest *)
Theorem topN_selection : forall (A : Type) (key : A -> Z) (l : list A) (n : nat),
  let kept := firstn n (isort key l) in
  let dropped := skipn n (isort key l) in
  Permutation l (kept ++ dropped) /\
  length kept = Nat.min n (length l) /\
  (forall a b, In a kept -> In b dropped -> key b <= key a) /\
  StronglySorted (ge_key key) kept.
Proof. exact @topN_spec. Qed.
Print Assumptions topN_selection.

(* None iff the image is constant (the code's early exit) or nothing qualifies; any npeaks *)
Theorem find_peaks_none_iff : forall ny nx data thr fp mask border npeaks,
  In (0, 0) (offsets fp) ->
  (find_peaks ny nx data thr fp mask border npeaks true true = None <->
   is_const data = true \/ forall p, ~ peak_spec ny nx data thr fp mask border p).
Proof. exact find_peaks_none_lemma. Qed.
Print Assumptions find_peaks_none_iff.
Theorem constant_image_meaning : forall data,
  is_const data = true <-> exists v0, dget data 0 = Some v0 /\ forall o, In o data -> o = Some v0.
Proof. exact is_const_spec. Qed.
Print Assumptions constant_image_meaning.

(* ---------------------------------------------------------------------- *)
(* StarFinderBase._find_stars                                              *)
(* ---------------------------------------------------------------------- *)

(* detected positions = the pixels selected by the property's predicate on the convolved image
   with the kernel footprint (min_separation = 0) or the separation disk, and the border
   (shape - 1) // 2 when exclude_border *)
Theorem find_stars_spec : forall ny nx conv thr kfp ms4 mask eb pos,
  In (0, 0) (offsets (stars_fp kfp ms4 true)) ->
  find_stars ny nx conv thr kfp ms4 mask eb true true true = Some pos ->
  exists ps,
    pos = map (fun p => (px nx p, py nx p)) ps /\ StronglySorted lt ps /\
    forall p, In p ps <->
      peak_spec ny nx conv (TScalar thr) (stars_fp kfp ms4 true) mask (stars_border kfp eb) p.
Proof. exact find_stars_spec_lemma. Qed.
Print Assumptions find_stars_spec.
Theorem find_stars_none_iff : forall ny nx conv thr kfp ms4 mask eb,
  In (0, 0) (offsets (stars_fp kfp ms4 true)) ->
  (find_stars ny nx conv thr kfp ms4 mask eb true true true = None <->
   is_const conv = true \/
   forall p, ~ peak_spec ny nx conv (TScalar thr) (stars_fp kfp ms4 true) mask (stars_border kfp eb) p).
Proof. exact find_stars_none_lemma. Qed.
Print Assumptions find_stars_none_iff.
(* the separation footprint: exactly the integer offsets within min_separation = ms4/4,
   also for a fractional separation; it contains its centre *)
Theorem separation_footprint : forall kfp ms4 dy dx,
  0 < ms4 ->
  (In (dy, dx) (offsets (stars_fp kfp ms4 true)) <-> 16 * (dx * dx + dy * dy) <= ms4 * ms4).
Proof. exact stars_fp_disk. Qed.
Print Assumptions separation_footprint.
Theorem separation_footprint_centre : forall ms4, 0 <= ms4 -> In (0, 0) (offsets (disk_fp true ms4)).
Proof. exact disk_has_centre. Qed.
Print Assumptions separation_footprint_centre.
Theorem border_from_kernel : forall kfp,
  stars_border kfp true = Some (((length kfp - 1) / 2)%nat, ((length (hd [] kfp) - 1) / 2)%nat) /\
  stars_border kfp false = None.
Proof. exact stars_border_spec. Qed.
Print Assumptions border_from_kernel.

(* separation: two detected positions not farther apart than min_separation are exact ties of
   the convolved image (partial: "separation satisfies the bound" holds up to exact ties;
   the tie case is [min_separation_ties_refuted], a known finding) *)
Theorem min_separation_partial : forall ny nx conv thr kfp ms4 mask eb pos x1 y1 x2 y2,
  0 < ms4 ->
  find_stars ny nx conv thr kfp ms4 mask eb true true true = Some pos ->
  In (x1, y1) pos -> In (x2, y2) pos ->
  16 * ((x1 - x2) * (x1 - x2) + (y1 - y2) * (y1 - y2)) <= ms4 * ms4 ->
  exists p q, (x1, y1) = (px nx p, py nx p) /\ (x2, y2) = (px nx q, py nx q) /\
              dget conv p = dget conv q.
Proof. exact find_stars_separation_lemma. Qed.
Print Assumptions min_separation_partial.

(* ... and at full strength whenever no two distinct pixels of the convolved image hold exactly
   the same value: any two detected positions are farther apart than min_separation *)
Theorem min_separation_without_ties : forall ny nx conv thr kfp ms4 mask eb pos x1 y1 x2 y2,
  0 < ms4 ->
  find_stars ny nx conv thr kfp ms4 mask eb true true true = Some pos ->
  In (x1, y1) pos -> In (x2, y2) pos -> (x1, y1) <> (x2, y2) ->
  (forall p q v, (px nx p, py nx p) <> (px nx q, py nx q) ->
                 dget conv p = Some v -> dget conv q = Some v -> False) ->
  ms4 * ms4 < 16 * ((x1 - x2) * (x1 - x2) + (y1 - y2) * (y1 - y2)).
Proof. exact find_stars_separation_strict. Qed.
Print Assumptions min_separation_without_ties.

(* ---------------------------------------------------------------------- *)
(* catalog filters of DAOStarFinder / IRAFStarFinder / StarFinder          *)
(* ---------------------------------------------------------------------- *)

(* a row is output iff it passes every configured predicate; order is the detection order *)
Theorem filters_are_conjunction : forall c rows out,
  c_bright c = None -> apply_all c rows = Some out ->
  map snd out = filter (pass c) rows /\
  (forall r, In r (map snd out) <-> In r rows /\ pass c r = true).
Proof. exact apply_all_conj. Qed.
Print Assumptions filters_are_conjunction.
(* with or without brightest: only passing rows are output *)
Theorem only_passing_rows_are_output : forall c rows out,
  apply_all c rows = Some out ->
  map fst out = map Z.of_nat (seq 1 (length out)) /\
  forall r, In r (map snd out) -> In r rows /\ pass c r = true.
Proof. exact apply_all_sound. Qed.
Print Assumptions only_passing_rows_are_output.
(* what "passes" means: finite listed attributes (IRAF: more than one non-zero pixel), and
   INCLUSIVE bounds *)
Theorem finite_filter_meaning : forall c r,
  pass_finite c r = true <->
  (forall i, In i (c_fin c) -> exists v, attr r i = Some v /\ - INF < v < INF) /\
  (forall i, c_count c = Some i -> exists v, attr r i = Some v /\ ONE < v).
Proof. exact pass_finite_spec. Qed.
Print Assumptions finite_filter_meaning.
Theorem bounds_filter_meaning : forall c r,
  pass_bounds c r = true <->
  (forall i lo hi, In (i, lo, hi) (c_rng c) -> exists v, attr r i = Some v /\ lo <= v <= hi) /\
  (forall i pm, c_pmax c = Some (i, pm) -> exists v, attr r i = Some v /\ v <= pm).
Proof. exact pass_bounds_spec. Qed.
Print Assumptions bounds_filter_meaning.
Theorem dao_bounds : forall z sl sh rl rh pm b r,
  pass_bounds (dao_cfg z sl sh rl rh pm b) r = true <->
  (exists s, attr r 4 = Some s /\ sl <= s <= sh) /\
  (exists a, attr r 5 = Some a /\ rl <= a <= rh) /\
  (exists a, attr r 6 = Some a /\ rl <= a <= rh) /\
  (forall m, pm = Some m -> exists k, attr r 7 = Some k /\ k <= m).
Proof. exact dao_bounds_meaning. Qed.
Print Assumptions dao_bounds.
Theorem iraf_bounds : forall sl sh rl rh pm b r,
  pass_bounds (iraf_cfg sl sh rl rh pm b) r = true <->
  (exists s, attr r 2 = Some s /\ sl <= s <= sh) /\
  (exists a, attr r 3 = Some a /\ rl <= a <= rh) /\
  (forall m, pm = Some m -> exists k, attr r 6 = Some k /\ k <= m).
Proof. exact iraf_bounds_meaning. Qed.
Print Assumptions iraf_bounds.
Theorem starfinder_bounds : forall pm b r,
  pass_bounds (sf_cfg pm b) r = true <->
  (forall m, pm = Some m -> exists k, attr r 5 = Some k /\ k <= m).
Proof. exact sf_bounds_meaning. Qed.
Print Assumptions starfinder_bounds.

(* brightest = n keeps the min(n, #passing) passing rows of largest flux, in decreasing order *)
Theorem brightest_keeps_N_largest : forall c rows out n,
  c_bright c = Some n -> apply_all c rows = Some out ->
  exists dropped,
    Permutation (filter (pass c) rows) (map snd out ++ dropped) /\
    length out = Nat.min n (length (filter (pass c) rows)) /\
    (forall a b, In a (map snd out) -> In b dropped -> fkey c b <= fkey c a) /\
    StronglySorted (ge_key (fkey c)) (map snd out).
Proof. exact apply_all_brightest. Qed.
Print Assumptions brightest_keeps_N_largest.
Theorem flux_key_is_the_flux : forall c r v, attr r (c_flux c) = Some v -> fkey c r = v.
Proof. exact fkey_flux. Qed.
Print Assumptions flux_key_is_the_flux.

(* ids are 1..N in table order *)
Theorem ids_1_to_N : forall l k,
  (k < length l)%nat -> nth k (map fst (with_ids l)) 0 = Z.of_nat k + 1.
Proof. exact ids_nth. Qed.
Print Assumptions ids_1_to_N.

(* None iff no row passes every predicate *)
Theorem none_iff_empty : forall c rows,
  apply_all c rows = None <-> forall r, In r rows -> pass c r = false.
Proof. exact apply_all_none. Qed.
Print Assumptions none_iff_empty.

(* ---------------------------------------------------------------------- *)
(* a whole finder (per-source statistics [stat] are uninterpreted)         *)
(* ---------------------------------------------------------------------- *)

(* xycoords replace peak finding by exactly those positions; the same filters apply *)
Theorem xycoords_replace_peaks : forall stat ny nx conv thr kfp ms4 mask eb c xy,
  run_finder stat ny nx conv thr kfp ms4 mask eb c (Some xy) = apply_all c (map stat xy).
Proof. exact run_finder_xy. Qed.
Print Assumptions xycoords_replace_peaks.
Theorem finder_none_iff_nothing_qualifies : forall stat ny nx conv thr kfp ms4 mask eb c xy,
  run_finder stat ny nx conv thr kfp ms4 mask eb c xy = None <->
  match raw_positions ny nx conv thr kfp ms4 mask eb true true true xy with
  | None => True
  | Some pos => forall p, In p pos -> pass c (stat p) = false
  end.
Proof. exact run_finder_none. Qed.
Print Assumptions finder_none_iff_nothing_qualifies.
Theorem finder_output_is_sound : forall stat ny nx conv thr kfp ms4 mask eb c xy out,
  run_finder stat ny nx conv thr kfp ms4 mask eb c xy = Some out ->
  exists pos,
    raw_positions ny nx conv thr kfp ms4 mask eb true true true xy = Some pos /\
    map fst out = map Z.of_nat (seq 1 (length out)) /\
    forall r, In r (map snd out) -> exists p, In p pos /\ r = stat p /\ pass c r = true.
Proof. exact run_finder_sound. Qed.
Print Assumptions finder_output_is_sound.
Theorem finder_output_is_complete : forall stat ny nx conv thr kfp ms4 mask eb c xy out pos,
  c_bright c = None ->
  raw_positions ny nx conv thr kfp ms4 mask eb true true true xy = Some pos ->
  run_finder stat ny nx conv thr kfp ms4 mask eb c xy = Some out ->
  map snd out = filter (pass c) (map stat pos).
Proof. exact run_finder_conj. Qed.
Print Assumptions finder_output_is_complete.

(* ---------------------------------------------------------------------- *)
(* the code as found violates the property (repaired by fixes/C14-1..3)    *)
(* ---------------------------------------------------------------------- *)
Theorem zero_padding_refuted :
  exists ny nx data thr fp p,
    In (0, 0) (offsets fp) /\ peak_spec ny nx data thr fp None None p /\
    find_peaks ny nx data thr fp None None None false true = None.
Proof. exact zero_padding_refuted_lemma. Qed.
Print Assumptions zero_padding_refuted.
Theorem nan_pixel_refuted :
  exists ny nx data thr fp p,
    dget data p = None /\ In p (cands ny nx data thr fp None None false false) /\
    (forall q, In q (cands ny nx data thr fp None None true true) -> dget data q <> None).
Proof. exact nan_pixel_refuted_lemma. Qed.
Print Assumptions nan_pixel_refuted.
Theorem fractional_separation_refuted :
  exists ny nx conv thr kfp ms4 pos p q vp vq,
    find_stars ny nx conv thr kfp ms4 None false true true false = Some pos /\
    In (px nx p, py nx p) pos /\ In (px nx q, py nx q) pos /\
    16 * ((px nx p - px nx q) * (px nx p - px nx q) + (py nx p - py nx q) * (py nx p - py nx q))
      <= ms4 * ms4 /\
    dget conv p = Some vp /\ dget conv q = Some vq /\ vp <> vq /\
    find_stars ny nx conv thr kfp ms4 None false true true true = Some [(px nx q, py nx q)].
Proof. exact fractional_separation_refuted_lemma. Qed.
Print Assumptions fractional_separation_refuted.

(* ---------------------------------------------------------------------- *)
(* still contradicting the property text after the repairs: known findings *)
(* ---------------------------------------------------------------------- *)
Theorem constant_image_returns_none : forall ny nx data thr fp mask border npeaks cm nf,
  is_const data = true -> find_peaks ny nx data thr fp mask border npeaks cm nf = None.
Proof. exact constant_image_none_lemma. Qed.
Print Assumptions constant_image_returns_none.
Theorem constant_image_refuted :
  exists ny nx data thr fp p,
    In (0, 0) (offsets fp) /\ peak_spec ny nx data thr fp None None p /\
    find_peaks ny nx data thr fp None None None true true = None.
Proof. exact constant_image_refuted_lemma. Qed.
Print Assumptions constant_image_refuted.
Theorem min_separation_ties_refuted :
  exists ny nx conv thr kfp ms4 pos,
    find_stars ny nx conv thr kfp ms4 None false true true true = Some pos /\
    In (1, 0) pos /\ In (2, 0) pos /\ 16 * ((1 - 2) * (1 - 2) + (0 - 0) * (0 - 0)) <= ms4 * ms4.
Proof. exact separation_ties_refuted_lemma. Qed.
Print Assumptions min_separation_ties_refuted.

(* ---------------------------------------------------------------------- *)
(* non-vacuity                                                             *)
(* ---------------------------------------------------------------------- *)
(* 3x4 image, NaN at pixel 5, a plateau (7, 7), a negative peak at the frame; threshold -5 *)
Definition ex_data : list (option Z) :=
  [Some (-1); Some (-3); Some (-3); Some (-3);
   Some (-3); None;      Some 7;    Some 7;
   Some 2;    Some (-3); Some (-3); Some (-3)].
Example find_peaks_example :
  find_peaks 3 4 ex_data (TScalar (Some (-5))) (box 3 3) None None None true true
  = Some [(0, 0, -1); (2, 1, 7); (3, 1, 7); (0, 2, 2)].
Proof. vm_compute. reflexivity. Qed.
(* hypotheses of find_peaks_spec / topN_keeps_highest are satisfiable *)
Example find_peaks_spec_hyp : In (0, 0) (offsets (box 3 3)).
Proof. apply box_contains_centre; lia. Qed.
Example topN_example :
  find_peaks 3 4 ex_data (TScalar (Some (-5))) (box 3 3) None None (Some 2%nat) true true
  = Some [(2, 1, 7); (3, 1, 7)].
Proof. vm_compute. reflexivity. Qed.
(* mask, asymmetric border (1 row, 0 columns), 2-D threshold, even box *)
Example find_peaks_example2 :
  find_peaks 3 4 ex_data (TArray (map Some [0;0;0;0; 0;0;7;6; 0;0;0;0])) (box 2 2)
             (Some [false;false;false;false; false;false;false;false; false;false;false;false])
             (Some (1, 0)%nat) None true true
  = Some [(3, 1, 7)].
Proof. vm_compute. reflexivity. Qed.
(* nothing qualifies -> None; constant -> None *)
Example find_peaks_none_example :
  find_peaks 3 4 ex_data (TScalar (Some 7)) (box 3 3) None None None true true = None.
Proof. vm_compute. reflexivity. Qed.
(* min_separation = 2.5 (ms4 = 10): only the higher of two peaks 2 pixels apart *)
Example find_stars_example :
  find_stars 1 7 (map Some [0; 0; 9; 0; 10; 0; 0]) (Some 1) (box 3 3) 10 None false true true true
  = Some [(4, 0)].
Proof. vm_compute. reflexivity. Qed.
(* the no-ties hypothesis of min_separation_without_ties is satisfiable (all values distinct) *)
Example no_ties_example :
  forall p q v, (px 3 p, py 3 p) <> (px 3 q, py 3 q) ->
    dget (map Some [1; 5; 2]) p = Some v -> dget (map Some [1; 5; 2]) q = Some v -> False.
Proof.
  intros p q v Hne Hp Hq.
  destruct p as [|[|[|p]]]; destruct q as [|[|[|q]]]; cbn in Hp, Hq; try congruence;
    try (destruct p; discriminate); try (destruct q; discriminate); apply Hne; reflexivity.
Qed.
(* DAO filter: rows = xc yc hx hy sharp round1 round2 peak flux npix mag daomag (encoded);
   sharplo = 2 is inclusive (row 1 passes with sharpness 2), row 2 has a NaN roundness,
   row 3 exceeds sharphi; brightest = 1 keeps the larger flux *)
Definition ex_rows : list row :=
  [ map Some [10;10;1;1; 2;0;0; 5;100; 9;1;1];
    [Some 20;Some 20;Some 1;Some 1; Some 3;None;Some 0; Some 5;Some 300; Some 9;Some 1;Some 1];
    map Some [30;30;1;1; 9;0;0; 5;200; 9;1;1];
    map Some [40;40;1;1; 4;0;0; 5;150; 9;1;1] ].
Example filter_example :
  apply_all (dao_cfg false 2 8 (-1) 1 None None) ex_rows
  = Some [(1, nth 0 ex_rows []); (2, nth 3 ex_rows [])].
Proof. vm_compute. reflexivity. Qed.
Example brightest_example :
  apply_all (dao_cfg false 2 8 (-1) 1 None (Some 1%nat)) ex_rows = Some [(1, nth 3 ex_rows [])].
Proof. vm_compute. reflexivity. Qed.
Example filter_none_example : apply_all (dao_cfg false 2 8 (-1) 1 (Some 4) None) ex_rows = None.
Proof. vm_compute. reflexivity. Qed.
