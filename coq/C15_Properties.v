(* C15 — results do not depend on how the same numbers are represented.
   Property theorems only; each is closed by [exact] of a lemma of C15_Proofs.

   What is proved here, and about what:
   * process_quantities (model of photutils/utils/_quantity_helpers.py:10-68): full
     specification of the unit validation / stripping helper.
   * numpy's promotion and `same_kind` rule for in-place ufuncs on
     {bool,int8,uint16,int16,int32,int64,float16,float32,float64} (model K-checked against
     the installed numpy on every run): when `a op= b` raises.
   * _dtype_dispatch of photutils/utils/_stats.py: the choice ignores the byte order.
   * the representation-safety analysis of straight-line array programs: soundness,
     exactness, completeness, and (under idealised float arithmetic) independence of the
     computed values from the input dtypes.  The programs of the anchored photutils
     functions are extracted from the current source by the harness and checked with
     [analyze] on every run (`CObligation` cases).
   NOT proved: that numpy / bottleneck / scipy kernels compute the same numbers for every
   byte order, stride and container (tested by the harness product test only). *)
From Coq Require Import ZArith List Bool Arith Lia.
From PV Require Import lib.Cases C15_Model C15_Proofs.
Import ListNotations.

(* ---------------------------------------------------------------- process_quantities *)
(* For distinct names: the call returns (values with .value stripped, u) iff at least one
   input is not None and every non-None input has unit attribute u (u = None: none carries
   a unit); it raises the "must all have the same units" ValueError iff two inputs differ in
   their unit attribute (unit-ful mixed with unit-less included); set().pop() raises KeyError
   iff every input is None. *)
Theorem process_quantities_spec : forall values names,
  length values = length names -> NoDup names ->
  (forall vals u, process_quantities values names = PQ_Ok vals u <->
                  some_input values /\ carries values u /\ vals = map strip values) /\
  (process_quantities values names = PQ_Mixed <->
     exists v1 u1 v2 u2, In (Some (v1, u1)) values /\ In (Some (v2, u2)) values /\ u1 <> u2) /\
  (process_quantities values names = PQ_KeyError <-> forall a, In a values -> a = None).
Proof. exact pq_spec. Qed.
Print Assumptions process_quantities_spec.

Theorem process_quantities_length_error : forall values names,
  process_quantities values names = PQ_LenError <-> length values <> length names.
Proof. exact pq_lenerror_iff. Qed.
Print Assumptions process_quantities_length_error.

(* unit-less inputs are returned untouched *)
Theorem process_quantities_unitless_unchanged : forall values names vals,
  length values = length names -> NoDup names ->
  process_quantities values names = PQ_Ok vals None -> vals = values.
Proof. exact pq_unitless_unchanged. Qed.
Print Assumptions process_quantities_unitless_unchanged.

(* the returned values are the same arrays (payloads), position by position, without units *)
Theorem process_quantities_payloads : forall values names vals u,
  length values = length names -> NoDup names ->
  process_quantities values names = PQ_Ok vals u ->
  map (option_map fst) vals = map (option_map fst) values /\
  forall v u', In (Some (v, u')) vals -> u' = None.
Proof. exact pq_payloads. Qed.
Print Assumptions process_quantities_payloads.

Example process_quantities_same_unit :
  process_quantities [Some (1, Some 7); None; Some (2, Some 7)]%Z [10; 11; 12]%Z
  = PQ_Ok [Some (1, None); None; Some (2, None)]%Z (Some 7%Z).
Proof. vm_compute. reflexivity. Qed.
Example process_quantities_mixed :
  process_quantities [Some (1, Some 7); Some (2, None)]%Z [10; 11]%Z = PQ_Mixed.
Proof. vm_compute. reflexivity. Qed.
Example process_quantities_hyp_sat : length [Some (1, Some 7); None]%Z = length [10; 11]%Z /\ NoDup [10; 11]%Z.
Proof. split; [reflexivity|]. repeat constructor; cbn; intuition discriminate. Qed.

(* ---------------------------------------------------------------- promotion / casting *)
Theorem promotion_commutative : forall a b, promote a b = promote b a.
Proof. exact promote_comm. Qed.
Print Assumptions promotion_commutative.
Theorem promotion_idempotent : forall a, promote a a = a.
Proof. exact promote_idem. Qed.
Print Assumptions promotion_idempotent.
Theorem promotion_upper_bound : forall a b, dle a (promote a b) = true /\ dle b (promote a b) = true.
Proof. exact promote_ub. Qed.
Print Assumptions promotion_upper_bound.
Theorem promotion_order : forall a b c,
  dle a a = true /\ (dle a b = true -> dle b a = true -> a = b) /\
  (dle a b = true -> dle b c = true -> dle a c = true).
Proof. exact dle_order. Qed.
Print Assumptions promotion_order.
(* away from uint16 the dtypes form a lattice and promotion is its join: associative,
   least upper bound, monotone *)
Theorem promotion_lattice_without_uint16 : forall a b c,
  lat a = true -> lat b = true -> lat c = true ->
  lat (promote a b) = true /\
  promote a (promote b c) = promote (promote a b) c /\
  (dle a c = true -> dle b c = true -> dle (promote a b) c = true) /\
  (forall a' b', dle a a' = true -> dle b b' = true -> dle (promote a b) (promote a' b') = true).
Proof. exact promote_lattice. Qed.
Print Assumptions promotion_lattice_without_uint16.
(* ... and with uint16 numpy's promotion is neither associative nor monotone *)
Theorem promotion_assoc_refuted : exists a b c, promote a (promote b c) <> promote (promote a b) c.
Proof. exact promote_not_assoc. Qed.
Print Assumptions promotion_assoc_refuted.
Theorem promotion_mono_refuted : exists a a' b b',
  dle a a' = true /\ dle b b' = true /\ dle (promote a b) (promote a' b') = false.
Proof. exact promote_not_mono. Qed.
Print Assumptions promotion_mono_refuted.
Theorem promotion_kind : forall a b, kind_rank (promote a b) = Nat.max (kind_rank a) (kind_rank b).
Proof. exact promote_kind. Qed.
Print Assumptions promotion_kind.

(* `a /= b` (np.true_divide(a, b, out=a)) succeeds iff a is a float array, whatever b is
   (array of any dtype or Python scalar); otherwise it is the same_kind casting error *)
Theorem inplace_truediv_fails_exactly_on_nonfloat : forall t b,
  (inplace TrueDiv t b = IP_Ok <-> is_float t = true) /\
  (is_float t = false -> inplace TrueDiv t b = IP_CastError).
Proof. exact inplace_truediv_spec. Qed.
Print Assumptions inplace_truediv_fails_exactly_on_nonfloat.

(* a float array can be the target of every in-place operation *)
Theorem inplace_float_target_never_fails : forall op t b, is_float t = true -> inplace op t b = IP_Ok.
Proof. exact inplace_float_ok. Qed.
Print Assumptions inplace_float_target_never_fails.

(* +=, *=, maximum(out=) with an array operand succeed iff the operand's kind does not
   exceed the target's kind (bool < unsigned < signed < float) *)
Theorem inplace_array_operand_iff : forall op t b, op = Add \/ op = Mul \/ op = MaxMin ->
  (inplace op t (Strong b) = IP_Ok <-> kind_rank b <= kind_rank t).
Proof. exact inplace_arrays_iff. Qed.
Print Assumptions inplace_array_operand_iff.

Example int16_truediv_raises : inplace TrueDiv DI16 (Strong DF64) = IP_CastError.
Proof. reflexivity. Qed.
Example float32_truediv_float64_ok : inplace TrueDiv DF32 (Strong DF64) = IP_Ok.
Proof. reflexivity. Qed.
Example bool_subtract_no_loop : inplace Sub DBool (Strong DBool) = IP_NoLoop.
Proof. reflexivity. Qed.
Example uint16_plus_int16_raises : inplace Add DU16 (Strong DI16) = IP_CastError.
Proof. reflexivity. Qed.

(* ---------------------------------------------------------------- _dtype_dispatch *)
(* bottleneck is chosen iff the dtype is an 8-byte float; the byte order plays no role
   ('>f8' goes to bottleneck too) *)
Theorem dtype_dispatch_ignores_byte_order : forall d big,
  (dtype_dispatch (dtype_str_of d big) = Bottleneck <-> d = DF64) /\
  dtype_dispatch (dtype_str_of d big) = dtype_dispatch (dtype_str_of d (negb big)).
Proof. exact dispatch_byte_order. Qed.
Print Assumptions dtype_dispatch_ignores_byte_order.
Theorem dtype_dispatch_iff : forall s, dtype_dispatch s = Bottleneck <-> kc s = Kf /\ isz s = 8.
Proof. exact dispatch_iff. Qed.
Print Assumptions dtype_dispatch_iff.
(* partial: IF the bottleneck and numpy kernels agree extensionally (not provable here; tested),
   the dispatched function is the numpy function for every dtype string *)
Theorem dtype_dispatch_transparent_partial : forall (A B : Type) (f_bn f_np : A -> B),
  (forall x, f_bn x = f_np x) -> forall s x, dispatched A B f_bn f_np s x = f_np x.
Proof. exact dispatched_transparent. Qed.
Print Assumptions dtype_dispatch_transparent_partial.

(* ---------------------------------------------------------------- array programs *)
(* the dtype analysis decides exactly whether the concrete run is safe (no exception, not
   stuck, no value hazard), for every value domain, arithmetic and input values *)
Theorem repr_analysis_exact : forall V fop wrap cast ffun kfun vnan oval p (ins : list (dt * V)),
  accepts p (map fst ins) = safe_result V (run V fop wrap cast ffun kfun vnan oval p (init V ins)).
Proof. exact accepts_exact. Qed.
Print Assumptions repr_analysis_exact.

(* repr_safe: if the analysis accepts a program for the allowed dtypes then, for ANY
   combination of allowed input dtypes and ANY input values, the run completes: no in-place
   operation violates the casting rule, no NaN is stored into an integer array, every
   add, subtract, multiply, power is carried out in float64 (never in an integer dtype, never in float16/float32),
   no sum/mean accumulates in float16/float32,
   no lossy store, no write through a conditionally shared buffer *)
Theorem repr_safe : forall V fop wrap cast ffun kfun vnan oval p n allowed,
  analyze p n allowed = true ->
  forall ins : list (dt * V), length ins = n -> Forall (fun x => In (fst x) allowed) ins ->
  exists s', run V fop wrap cast ffun kfun vnan oval p (init V ins) = ROk s' /\ hz s' = 0.
Proof. exact analyze_sound. Qed.
Print Assumptions repr_safe.

(* the same with an individual set of possible dtypes per input (an input that another analysed
   function produces has the dtype that function returns; masks are bool; weights float64) *)
Theorem repr_safe_typed : forall V fop wrap cast ffun kfun vnan oval p sets,
  analyze_typed p sets = true ->
  forall ins : list (dt * V), Forall2 (fun x s => In (fst x) s) ins sets ->
  exists s', run V fop wrap cast ffun kfun vnan oval p (init V ins) = ROk s' /\ hz s' = 0.
Proof. exact analyze_typed_sound. Qed.
Print Assumptions repr_safe_typed.

(* composition: when the analysis says that variable v (the array a function returns) always has
   dtype d, every concrete run is safe and ends with v of dtype d *)
Theorem repr_result_dtype : forall V fop wrap cast ffun kfun vnan oval p sets v d,
  returns_dtype p sets v d = true ->
  forall ins : list (dt * V), Forall2 (fun x s => In (fst x) s) ins sets ->
  exists s' l c, run V fop wrap cast ffun kfun vnan oval p (init V ins) = ROk s' /\ hz s' = 0 /\
                 get V s' v = Some (l, c) /\ cdt c = d.
Proof. exact returns_dtype_sound. Qed.
Print Assumptions repr_result_dtype.

(* reductions: np.sum of a float32 array accumulates in float32 (rejected), of an int16 or float64
   array in int64 / float64 (accepted); after astype(float) every input is accepted *)
Example reduce_float32_rejected :
  accepts [IReduce 0] [DF32] = false /\ accepts [IReduce 0] [DI16] = true /\
  accepts [IReduce 0] [DF64] = true /\
  analyze [IAsType 1 0 DF64; IReduce 1] 1 allowed_inputs = true /\
  returns_dtype [IAsType 1 0 DF64] [allowed_inputs] 1 DF64 = true.
Proof. vm_compute. repeat split; reflexivity. Qed.

(* a rejection is never spurious: some allowed combination of input dtypes misbehaves *)
Theorem repr_analysis_complete : forall V fop wrap cast ffun kfun vnan oval p n allowed,
  analyze p n allowed = false ->
  exists tags, length tags = n /\ Forall (fun t => In t allowed) tags /\
    forall ins : list (dt * V), map fst ins = tags ->
      safe_result V (run V fop wrap cast ffun kfun vnan oval p (init V ins)) = false.
Proof. exact analyze_complete. Qed.
Print Assumptions repr_analysis_complete.

(* partial (idealised arithmetic: float dtypes hold every value exactly, conversions to a float
   dtype and to the same dtype are the identity; nothing assumed about integer dtypes):
   two representations of the same input values, both accepted, leave every program variable
   with the same value — the result is a function of the numeric content only *)
Theorem repr_value_independent_partial : forall V fop wrap cast ffun kfun vnan oval,
  (forall d v, is_float d = true -> wrap d v = v) ->
  (forall s t v, is_float t = true -> cast s t v = v) ->
  (forall d v, cast d d v = v) ->
  forall p (ins1 ins2 : list (dt * V)),
  map snd ins1 = map snd ins2 ->
  accepts p (map fst ins1) = true -> accepts p (map fst ins2) = true ->
  exists f1 f2, run V fop wrap cast ffun kfun vnan oval p (init V ins1) = ROk f1 /\
                run V fop wrap cast ffun kfun vnan oval p (init V ins2) = ROk f2 /\
                forall v, value_of V f1 v = value_of V f2 v.
Proof. exact accepted_runs_agree. Qed.
Print Assumptions repr_value_independent_partial.

(* the hypotheses are satisfiable: integers wrap, floats do not *)
Example idealised_arithmetic_instance :
  (forall d v, is_float d = true -> z_wrap d v = v) /\
  (forall s t v, is_float t = true -> z_cast s t v = v) /\
  (forall d v, z_cast d d v = v).
Proof. split; [exact z_wrap_float|]. split; [exact z_cast_float|exact z_cast_same]. Qed.

(* calc_total_error as it stands in /repo (DESIGN.md section 6, item 20): the analysis rejects
   it, and concretely int16 data raises the casting error at `source_variance /= gain` ... *)
Theorem calc_total_error_unrepaired_refuted :
  analyze calc_total_error_old 3 allowed_inputs = false /\
  z_run calc_total_error_old [(DI16, 100); (DF64, 3); (DF64, 2)]%Z = RRaise ECast /\
  (* ... and an int16 bkg_error is squared in int16: 200**2 wraps to -25536 *)
  z_value (z_run [IBin 1 Pow (OVar 0) OPyInt] [(DI16, 200%Z)]) 1 = Some (-25536)%Z /\
  z_value (z_run [IBin 1 Pow (OVar 0) OPyInt] [(DF64, 200%Z)]) 1 = Some 40000%Z.
Proof. vm_compute. repeat split; reflexivity. Qed.
Print Assumptions calc_total_error_unrepaired_refuted.

(* with fixes C15-1 and C15-2 the same function is accepted for every allowed dtype of
   data, bkg_error and effective_gain, and the int16 and float64 runs agree *)
Example calc_total_error_repaired_accepted :
  analyze calc_total_error_new 3 allowed_inputs = true /\
  z_value (z_run calc_total_error_new [(DI16, 100); (DI16, 200); (DI64, 2)]%Z) 12 =
  z_value (z_run calc_total_error_new [(DF64, 100); (DF64, 200); (DF64, 2)]%Z) 12.
Proof. vm_compute. split; reflexivity. Qed.
