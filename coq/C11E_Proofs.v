(* C11E — proofs about the exact-arithmetic estimator classes (C11E_Model.v).
   Part 1: sums, absolute deviations, the MAD (affine behaviour, constants, sign).
   Part 2: affine equivariance of every background estimator (a > 0).
   Part 3: constant lists (through the special-case branches as coded).
   Part 4: hull: mean / median / biweight location lie in [min, max]; mode / MMM / SExtractor do not
           (witnesses); the biweight quotient is defined for c > 1.
   Part 5: the squared RMS statistics: scale by a^2, shift-invariant, 0 on constants, >= 0.
   Part 6: SExtractor's switch on squares is the ratio test.
   Part 7: the instances for C11 (premises of constant_image_exact and of
           shift_scale_equivariant_partial discharged per estimator class). *)
From Coq Require Import List Arith ZArith QArith Qabs Qreduction Bool Lia Lqa Setoid Morphisms Sorted.
From PV Require Import lib.Cases C11_Model C11_Proofs C11_Properties C11S_Model C11S_Proofs C11E_Model.
Import ListNotations.
Open Scope Q_scope.

(* ================================================================== *)
(* Part 1: sums, absolute deviations, MAD                               *)
(* ================================================================== *)
Lemma sq_nonneg (x : Q) : 0 <= x * x.
Proof. nra. Qed.

Lemma sumQ_nil : sumQ [] == 0.
Proof. reflexivity. Qed.

Lemma sumQ_map_cons (f : Q -> Q) x l : sumQ (map f (x :: l)) == f x + sumQ (map f l).
Proof. cbn [map]. apply sumQ_cons. Qed.

(* g x' == k * f x for related elements *)
Lemma sumQ_map_rel (R : Q -> Q -> Prop) (f g : Q -> Q) (k : Q) l l' :
  Forall2 R l l' -> (forall x x', R x x' -> g x' == k * f x) ->
  sumQ (map g l') == k * sumQ (map f l).
Proof.
  intros H Hfg. induction H as [|x x' l l' Hx Hl IH].
  - cbn [map]. rewrite sumQ_nil. ring.
  - rewrite !sumQ_map_cons, IH, (Hfg x x' Hx). ring.
Qed.

Lemma sumQ_map_scale (f : Q -> Q) (k : Q) l :
  sumQ (map (fun x => k * f x) l) == k * sumQ (map f l).
Proof.
  induction l as [|x l IH].
  - cbn [map]. rewrite sumQ_nil. ring.
  - rewrite !sumQ_map_cons, IH. ring.
Qed.

Lemma sumQ_map_le (f g : Q -> Q) l :
  (forall x, In x l -> f x <= g x) -> sumQ (map f l) <= sumQ (map g l).
Proof.
  induction l as [|x l IH]; intros H.
  - cbn [map]. rewrite sumQ_nil. lra.
  - rewrite !sumQ_map_cons.
    pose proof (H x (or_introl eq_refl)). pose proof (IH (fun y Hy => H y (or_intror Hy))). lra.
Qed.

Lemma sumQ_map_nonneg (f : Q -> Q) l :
  (forall x, In x l -> 0 <= f x) -> 0 <= sumQ (map f l).
Proof.
  induction l as [|x l IH]; intros H.
  - cbn [map]. rewrite sumQ_nil. lra.
  - rewrite sumQ_map_cons.
    pose proof (H x (or_introl eq_refl)). pose proof (IH (fun y Hy => H y (or_intror Hy))). lra.
Qed.

Lemma sumQ_map_pos (f : Q -> Q) l x0 :
  (forall x, In x l -> 0 <= f x) -> In x0 l -> 0 < f x0 -> 0 < sumQ (map f l).
Proof.
  induction l as [|x l IH]; intros H Hin Hpos; [destruct Hin|].
  rewrite sumQ_map_cons.
  pose proof (sumQ_map_nonneg f l (fun y Hy => H y (or_intror Hy))) as Hr.
  pose proof (H x (or_introl eq_refl)) as Hx.
  destruct Hin as [->|Hin].
  - lra.
  - pose proof (IH (fun y Hy => H y (or_intror Hy)) Hin Hpos). lra.
Qed.

Lemma Qeq_bool_scale a m m' : 0 < a -> m' == a * m -> Qeq_bool m' 0 = Qeq_bool m 0.
Proof.
  intros Ha Hm. apply bool_eq_iff. rewrite !Qeq_bool_iff, Hm. split; intros H.
  - destruct (Qmult_integral _ _ H) as [E|E]; [lra|exact E].
  - rewrite H. ring.
Qed.

Lemma Qle_bool_scale a x x' y y' :
  0 < a -> x' == a * x -> y' == a * y -> Qle_bool x' y' = Qle_bool x y.
Proof.
  intros Ha Hx Hy. apply bool_eq_iff. rewrite !Qle_bool_iff, Hx, Hy.
  apply Qmult_le_l. exact Ha.
Qed.

(* ---------------- absolute deviations ---------------- *)
Lemma absdev_length m l : length (absdev m l) = length l.
Proof. apply map_length. Qed.
Lemma absdev_nonempty m l : l <> [] -> absdev m l <> [].
Proof. destruct l; [congruence|discriminate]. Qed.
Lemma absdev_in m l y : In y (absdev m l) -> exists x, In x l /\ y = Qabs (x - m).
Proof. unfold absdev. rewrite in_map_iff. intros (x & <- & Hx). now exists x. Qed.

Lemma absdev_arel a b m m' l l' :
  0 < a -> arel a b m m' -> Forall2 (arel a b) l l' ->
  Forall2 (arel a 0) (absdev m l) (absdev m' l').
Proof.
  intros Ha Hm H. unfold absdev.
  induction H as [|x x' l l' Hx Hl IH]; cbn [map]; constructor; [|exact IH].
  unfold arel in *.
  assert (E : x' - m' == a * (x - m)) by (rewrite Hx, Hm; ring).
  rewrite E, Qabs_Qmult, (Qabs_pos a) by lra. ring.
Qed.

Lemma absdev_const c m l : m == c -> allq c l -> allq 0 (absdev m l).
Proof.
  intros Hm H y Hy. apply absdev_in in Hy as (x & Hx & ->).
  rewrite (H x Hx), Hm. setoid_replace (c - c) with 0 by ring. reflexivity.
Qed.

(* ---------------- the median lies in the hull ---------------- *)
Lemma qmedian_in_hull l : l <> [] -> qminl l <= qmedian l <= qmaxl l.
Proof.
  intros Hn. rewrite qmedian_unfold.
  assert (Hlen : (0 < length (qsort l))%nat).
  { rewrite qsort_length. destruct l; [congruence|cbn; lia]. }
  assert (Hnth : forall k, (k < length (qsort l))%nat ->
                 qminl l <= nth k (qsort l) 0 <= qmaxl l).
  { intros k Hk. pose proof (qsort_in _ _ (nth_In (qsort l) 0 Hk)) as Hin.
    split; [now apply qminl_le|now apply qmaxl_ge]. }
  assert (Hhalf : (length (qsort l) / 2 < length (qsort l))%nat) by (apply Nat.div_lt; lia).
  destruct (Nat.even (length (qsort l))).
  - pose proof (Hnth (length (qsort l) / 2 - 1)%nat ltac:(lia)) as [H1 H2].
    pose proof (Hnth (length (qsort l) / 2)%nat Hhalf) as [H3 H4].
    split.
    + apply Qle_shift_div_l; lra.
    + apply Qle_shift_div_r; lra.
  - now apply Hnth.
Qed.

(* ---------------- MAD ---------------- *)
Lemma madQ_arel a b l l' :
  0 < a -> Forall2 (arel a b) l l' -> l <> [] -> madQ l' == a * madQ l.
Proof.
  intros Ha H Hn. unfold madQ.
  pose proof (qmedian_equivariant a b Ha l l' H Hn) as Hm.
  pose proof (qmedian_equivariant a 0 Ha _ _ (absdev_arel a b _ _ l l' Ha Hm H)
                (absdev_nonempty _ l Hn)) as Hd.
  unfold arel in Hd. rewrite Hd. ring.
Qed.

Lemma madQ_const c l : l <> [] -> allq c l -> madQ l == 0.
Proof.
  intros Hn H. unfold madQ. apply qmedian_const; [now apply absdev_nonempty|].
  apply (absdev_const c); [now apply qmedian_const|exact H].
Qed.

(* the MAD is at least the smallest absolute deviation, which is >= 0 and attained *)
Lemma madQ_ge_some l : l <> [] -> exists x, In x l /\ Qabs (x - qmedian l) <= madQ l.
Proof.
  intros Hn. pose proof (absdev_nonempty (qmedian l) l Hn) as Hne.
  destruct (absdev_in _ _ _ (qminl_in _ Hne)) as (x & Hx & E).
  exists x. split; [exact Hx|]. rewrite <- E.
  apply (qmedian_in_hull _ Hne).
Qed.
Lemma madQ_nonneg l : l <> [] -> 0 <= madQ l.
Proof.
  intros Hn. destruct (madQ_ge_some l Hn) as (x & _ & H).
  pose proof (Qabs_nonneg (x - qmedian l)). lra.
Qed.

(* ================================================================== *)
(* Part 2: affine equivariance of the background estimators             *)
(* ================================================================== *)
Section EstAffine.
Variables a b : Q.
Hypothesis Ha : 0 < a.
Variables l l' : list Q.
Hypothesis Hl : Forall2 (arel a b) l l'.
Hypothesis Hn : l <> [].

Lemma est_mean_arel : est_mean l' == a * est_mean l + b.
Proof. exact (meanQ_arel a b l l' Hl Hn). Qed.

Lemma est_median_arel : est_median l' == a * est_median l + b.
Proof. exact (qmedian_equivariant a b Ha l l' Hl Hn). Qed.

(* the general mode estimator picks up (mf - nf) * b *)
Lemma est_mode_arel_gen mf nf : est_mode mf nf l' == a * est_mode mf nf l + (mf - nf) * b.
Proof.
  unfold est_mode. pose proof est_mean_arel as Hm. pose proof est_median_arel as Hd.
  unfold est_mean, est_median in *. rewrite Hm, Hd. ring.
Qed.
Lemma est_mode_arel mf nf : mf - nf == 1 -> est_mode mf nf l' == a * est_mode mf nf l + b.
Proof. intros H. rewrite est_mode_arel_gen, H. ring. Qed.
Lemma est_mmm_arel : est_mmm l' == a * est_mmm l + b.
Proof. apply est_mode_arel. reflexivity. Qed.

Lemma est_sext_arel : est_sext l' == a * est_sext l + b.
Proof.
  unfold est_sext. cbv zeta.
  pose proof (meanQ_arel a b l l' Hl Hn) as Hm. unfold arel in Hm.
  pose proof (qmedian_equivariant a b Ha l l' Hl Hn) as Hd. unfold arel in Hd.
  pose proof (varQ_arel a b l l' Hl Hn) as Hv.
  assert (Haa : 0 < a * a) by nra.
  rewrite (Qeq_bool_scale (a * a) (varQ l) (varQ l') Haa Hv).
  destruct (Qeq_bool (varQ l) 0); [exact Hm|].
  rewrite (Qle_bool_scale (a * a) ((9 # 100) * varQ l) ((9 # 100) * varQ l')
             ((meanQ l - qmedian l) * (meanQ l - qmedian l))
             ((meanQ l' - qmedian l') * (meanQ l' - qmedian l')) Haa).
  - destruct (Qle_bool _ _); [exact Hd|]. rewrite Hm, Hd. ring.
  - rewrite Hv. ring.
  - rewrite Hm, Hd. ring.
Qed.

(* biweight *)
Lemma bw_u_arel M M' s s' x x' :
  arel a b M M' -> s' == a * s -> arel a b x x' -> bw_u M' s' x' == bw_u M s x.
Proof.
  unfold arel, bw_u, Qdiv. intros HM Hs Hx. rewrite HM, Hs, Hx, Qinv_mult_distr.
  setoid_replace ((a * x + b - (a * M + b)) * (/ a * / s)) with ((a * / a) * ((x - M) * / s)) by ring.
  rewrite Qmult_inv_r by lra. ring.
Qed.

Lemma bw_w_arel M M' s s' x x' :
  arel a b M M' -> s' == a * s -> arel a b x x' -> bw_w M' s' x' == bw_w M s x.
Proof.
  intros HM Hs Hx. unfold bw_w. cbv zeta. pose proof (bw_u_arel M M' s s' x x' HM Hs Hx) as E.
  replace (Qle_bool 1 (Qabs (bw_u M' s' x'))) with (Qle_bool 1 (Qabs (bw_u M s x)))
    by (now rewrite E).
  destruct (Qle_bool 1 (Qabs (bw_u M s x))); [reflexivity|]. rewrite E. reflexivity.
Qed.

Lemma bw_num_arel M M' s s' :
  arel a b M M' -> s' == a * s -> bw_num M' s' l' == a * bw_num M s l.
Proof.
  intros HM Hs. unfold bw_num. apply (sumQ_map_rel (arel a b)); [exact Hl|].
  intros x x' Hx. rewrite (bw_w_arel M M' s s' x x' HM Hs Hx).
  unfold arel in *. rewrite HM, Hx. ring.
Qed.
Lemma bw_den_arel M M' s s' :
  arel a b M M' -> s' == a * s -> bw_den M' s' l' == bw_den M s l.
Proof.
  intros HM Hs. unfold bw_den.
  rewrite (sumQ_map_rel (arel a b) (bw_w M s) (bw_w M' s') 1 l l' Hl); [ring|].
  intros x x' Hx. rewrite (bw_w_arel M M' s s' x x' HM Hs Hx). ring.
Qed.

Lemma est_biweight_arel c : est_biweight c l' == a * est_biweight c l + b.
Proof.
  unfold est_biweight. cbv zeta.
  pose proof (qmedian_equivariant a b Ha l l' Hl Hn) as HM.
  pose proof (madQ_arel a b l l' Ha Hl Hn) as Hmad.
  rewrite (Qeq_bool_scale a (madQ l) (madQ l') Ha Hmad).
  destruct (Qeq_bool (madQ l) 0); [exact HM|].
  assert (Hs : c * madQ l' == a * (c * madQ l)) by (rewrite Hmad; ring).
  rewrite (bw_num_arel _ _ _ _ HM Hs), (bw_den_arel _ _ _ _ HM Hs).
  unfold arel in HM. rewrite HM. unfold Qdiv. ring.
Qed.

Lemma biweight_defined_arel c : biweight_defined c l' = biweight_defined c l.
Proof.
  unfold biweight_defined.
  pose proof (qmedian_equivariant a b Ha l l' Hl Hn) as HM.
  pose proof (madQ_arel a b l l' Ha Hl Hn) as Hmad.
  assert (Hs : c * madQ l' == a * (c * madQ l)) by (rewrite Hmad; ring).
  rewrite (Qeq_bool_scale a (madQ l) (madQ l') Ha Hmad), (bw_den_arel _ _ _ _ HM Hs).
  reflexivity.
Qed.

Lemma est_of_class_arel B : class_equivariant B ->
  est_of_class B l' == a * est_of_class B l + b.
Proof.
  destruct B; cbn [est_of_class class_equivariant]; intros HB.
  - apply est_mean_arel.
  - apply est_median_arel.
  - now apply est_mode_arel.
  - apply est_mmm_arel.
  - apply est_sext_arel.
  - apply est_biweight_arel.
Qed.
End EstAffine.

(* on mapped lists *)
Lemma est_of_class_map B a b l : class_equivariant B -> 0 < a -> l <> [] ->
  est_of_class B (map (fun v => a * v + b) l) == a * est_of_class B l + b.
Proof. intros HB Ha Hn. exact (est_of_class_arel a b Ha l _ (Forall2_map_arel a b l) Hn B HB). Qed.

(* a ModeEstimatorBackground with median_factor - mean_factor <> 1 is NOT shift-equivariant *)
Lemma est_mode_not_equivariant :
  ~ (est_mode 3 1 (map (fun v => 1 * v + 1) [0]) == 1 * est_mode 3 1 [0] + 1).
Proof. vm_compute. discriminate. Qed.

(* ================================================================== *)
(* Part 3: constant lists                                               *)
(* ================================================================== *)
Section EstConst.
Variable c : Q.
Variable l : list Q.
Hypothesis Hn : l <> [].
Hypothesis Hc : allq c l.

Lemma est_mean_const : est_mean l == c.
Proof. now apply meanQ_const. Qed.
Lemma est_median_const : est_median l == c.
Proof. now apply qmedian_const. Qed.
Lemma est_mode_const mf nf : mf - nf == 1 -> est_mode mf nf l == c.
Proof.
  intros H. unfold est_mode. rewrite (qmedian_const c l Hn Hc), (meanQ_const c l Hn Hc).
  setoid_replace (mf * c - nf * c) with ((mf - nf) * c) by ring. rewrite H. ring.
Qed.
Lemma est_mmm_const : est_mmm l == c.
Proof. apply est_mode_const. reflexivity. Qed.
(* through the `_std == 0` branch: the result is the MEAN *)
Lemma est_sext_const : est_sext l == c /\ Qeq_bool (varQ l) 0 = true.
Proof.
  assert (E : Qeq_bool (varQ l) 0 = true) by (apply Qeq_bool_iff; now apply (varQ_const c)).
  split; [|exact E]. unfold est_sext. cbv zeta. rewrite E. now apply meanQ_const.
Qed.
(* through the `mad == 0` branch: the result is the MEDIAN *)
Lemma est_biweight_const cc : est_biweight cc l == c /\ Qeq_bool (madQ l) 0 = true.
Proof.
  assert (E : Qeq_bool (madQ l) 0 = true) by (apply Qeq_bool_iff; now apply (madQ_const c)).
  split; [|exact E]. unfold est_biweight. cbv zeta. rewrite E. now apply qmedian_const.
Qed.

Lemma est_of_class_const B : class_equivariant B -> est_of_class B l == c.
Proof.
  destruct B; cbn [est_of_class class_equivariant]; intros HB.
  - apply est_mean_const.
  - apply est_median_const.
  - now apply est_mode_const.
  - apply est_mmm_const.
  - apply est_sext_const.
  - apply est_biweight_const.
Qed.
End EstConst.

(* ================================================================== *)
(* Part 4: hull                                                         *)
(* ================================================================== *)
Lemma sumQ_ge_min l : lenQ l * qminl l <= sumQ l.
Proof.
  assert (G : forall m, (forall x, In x l -> m <= x) -> lenQ l * m <= sumQ l).
  { intros m. induction l as [|x r IH]; intros H.
    - change (0 * m <= 0). lra.
    - rewrite sumQ_cons, lenQ_cons.
      pose proof (H x (or_introl eq_refl)). pose proof (IH (fun y Hy => H y (or_intror Hy))). lra. }
  apply G. intros x Hx. now apply qminl_le.
Qed.
Lemma sumQ_le_max l : sumQ l <= lenQ l * qmaxl l.
Proof.
  assert (G : forall m, (forall x, In x l -> x <= m) -> sumQ l <= lenQ l * m).
  { intros m. induction l as [|x r IH]; intros H.
    - change (0 <= 0 * m). lra.
    - rewrite sumQ_cons, lenQ_cons.
      pose proof (H x (or_introl eq_refl)). pose proof (IH (fun y Hy => H y (or_intror Hy))). lra. }
  apply G. intros x Hx. now apply qmaxl_ge.
Qed.

Lemma est_mean_in_hull l : l <> [] -> qminl l <= est_mean l <= qmaxl l.
Proof.
  intros Hn. unfold est_mean. rewrite meanQ_eq. pose proof (lenQ_pos l Hn) as Hp.
  pose proof (sumQ_ge_min l). pose proof (sumQ_le_max l). split.
  - apply Qle_shift_div_l; [exact Hp|lra].
  - apply Qle_shift_div_r; [exact Hp|lra].
Qed.
Lemma est_median_in_hull l : l <> [] -> qminl l <= est_median l <= qmaxl l.
Proof. apply qmedian_in_hull. Qed.

Lemma bw_w_nonneg M s x : 0 <= bw_w M s x.
Proof.
  unfold bw_w. cbv zeta. destruct (Qle_bool 1 (Qabs (bw_u M s x))); [lra|apply sq_nonneg].
Qed.

(* weighted mean with the (non-negative) biweight weights *)
Lemma bw_quotient_bounds M s l lo hi :
  (forall x, In x l -> lo <= x <= hi) -> lo <= M <= hi ->
  lo <= M + bw_num M s l / bw_den M s l <= hi.
Proof.
  intros Hx HM.
  pose proof (sumQ_map_nonneg (bw_w M s) l (fun x _ => bw_w_nonneg M s x)) as Hd.
  fold (bw_den M s l) in Hd.
  destruct (Qeq_dec (bw_den M s l) 0) as [E|E].
  - rewrite E. unfold Qdiv. setoid_replace (bw_num M s l * / 0) with 0 by (cbn; ring). lra.
  - assert (Hp : 0 < bw_den M s l) by lra.
    assert (Hlo : (lo - M) * bw_den M s l <= bw_num M s l).
    { unfold bw_den, bw_num. rewrite <- sumQ_map_scale. apply sumQ_map_le. intros x Hin.
      pose proof (bw_w_nonneg M s x). pose proof (Hx x Hin). nra. }
    assert (Hhi : bw_num M s l <= (hi - M) * bw_den M s l).
    { unfold bw_den, bw_num. rewrite <- sumQ_map_scale. apply sumQ_map_le. intros x Hin.
      pose proof (bw_w_nonneg M s x). pose proof (Hx x Hin). nra. }
    assert (H1 : lo - M <= bw_num M s l / bw_den M s l) by (apply Qle_shift_div_l; assumption).
    assert (H2 : bw_num M s l / bw_den M s l <= hi - M) by (apply Qle_shift_div_r; assumption).
    lra.
Qed.

Lemma est_biweight_in_hull c l : l <> [] -> qminl l <= est_biweight c l <= qmaxl l.
Proof.
  intros Hn. unfold est_biweight. cbv zeta. pose proof (qmedian_in_hull l Hn) as HM.
  destruct (Qeq_bool (madQ l) 0); [exact HM|].
  apply bw_quotient_bounds; [|exact HM].
  intros x Hx. split; [now apply qminl_le|now apply qmaxl_ge].
Qed.

(* for c > 1 the sum of the weights is positive: some value is within one MAD of the median *)
Lemma bw_den_pos c l : 1 < c -> l <> [] -> 0 < madQ l -> 0 < bw_den (qmedian l) (c * madQ l) l.
Proof.
  intros Hc Hn Hmad. destruct (madQ_ge_some l Hn) as (x0 & Hin & Hx0).
  set (M := qmedian l) in *. set (s := c * madQ l).
  assert (Hs : 0 < s) by (unfold s; nra).
  apply (sumQ_map_pos (bw_w M s) l x0 (fun x _ => bw_w_nonneg M s x) Hin).
  assert (Hu : Qabs (bw_u M s x0) < 1).
  { unfold bw_u, Qdiv. rewrite Qabs_Qmult.
    assert (Hi : 0 < / s) by (apply Qinv_lt_0_compat; exact Hs).
    rewrite (Qabs_pos (/ s)) by lra.
    apply Qlt_shift_div_r; [exact Hs|]. unfold s. nra. }
  unfold bw_w. cbv zeta.
  destruct (Qle_bool 1 (Qabs (bw_u M s x0))) eqn:E.
  - apply Qle_bool_iff in E. lra.
  - set (u := bw_u M s x0) in *.
    assert (Huu : u * u < 1).
    { pose proof (Qabs_nonneg u) as H0.
      assert (E2 : u * u == Qabs u * Qabs u).
      { rewrite <- Qabs_Qmult. symmetry. apply Qabs_pos, sq_nonneg. }
      rewrite E2. nra. }
    nra.
Qed.
Lemma biweight_defined_lemma c l : 1 < c -> l <> [] -> biweight_defined c l = true.
Proof.
  intros Hc Hn. unfold biweight_defined. destruct (Qeq_bool (madQ l) 0) eqn:E; [reflexivity|].
  cbn [orb]. apply negb_true_iff. apply not_true_iff_false. intros E2. apply Qeq_bool_iff in E2.
  assert (Hmad : 0 < madQ l).
  { pose proof (madQ_nonneg l Hn). destruct (Qeq_dec (madQ l) 0) as [E0|E0]; [|lra].
    apply Qeq_bool_iff in E0. congruence. }
  pose proof (bw_den_pos c l Hc Hn Hmad). lra.
Qed.

(* mode / MMM / SExtractor extrapolate: they can leave [min, max] *)
Lemma est_mmm_outside_hull : est_mmm [0; 0; 1] < qminl [0; 0; 1].
Proof. vm_compute. reflexivity. Qed.
Definition sext_witness : list Q := [0; 0; 0; 0; 0; 0; 0; 0; 0; 0; 0; 0; 1].
Lemma est_sext_outside_hull :
  est_sext sext_witness < qminl sext_witness /\
  Qeq_bool (varQ sext_witness) 0 = false /\
  Qle_bool ((9 # 100) * varQ sext_witness)
           ((meanQ sext_witness - qmedian sext_witness) * (meanQ sext_witness - qmedian sext_witness)) = false.
Proof. vm_compute. repeat split; reflexivity. Qed.

(* ================================================================== *)
(* Part 5: the squared RMS statistics                                   *)
(* ================================================================== *)
Section RmsAffine.
Variables a b : Q.
Hypothesis Ha : 0 < a.
Variables l l' : list Q.
Hypothesis Hl : Forall2 (arel a b) l l'.
Hypothesis Hn : l <> [].

Lemma rms2_std_arel : rms2_std l' == a * a * rms2_std l.
Proof. exact (varQ_arel a b l l' Hl Hn). Qed.

Lemma rms2_madstd_arel kf : rms2_madstd kf l' == a * a * rms2_madstd kf l.
Proof. unfold rms2_madstd. rewrite (madQ_arel a b l l' Ha Hl Hn). ring. Qed.

Lemma bs_in_arel M M' s s' x x' :
  arel a b M M' -> s' == a * s -> arel a b x x' -> bs_in M' s' x' = bs_in M s x.
Proof.
  intros HM Hs Hx. unfold bs_in. apply Qlt_bool_comp; [|reflexivity].
  now rewrite (bw_u_arel a b Ha M M' s s' x x' HM Hs Hx).
Qed.
Lemma bs_t1_arel M M' s s' x x' :
  arel a b M M' -> s' == a * s -> arel a b x x' -> bs_t1 M' s' x' == a * a * bs_t1 M s x.
Proof.
  intros HM Hs Hx. unfold bs_t1. cbv zeta. rewrite (bs_in_arel M M' s s' x x' HM Hs Hx).
  destruct (bs_in M s x); [|ring].
  rewrite (bw_u_arel a b Ha M M' s s' x x' HM Hs Hx). unfold arel in *. rewrite HM, Hx. ring.
Qed.
Lemma bs_t2_arel M M' s s' x x' :
  arel a b M M' -> s' == a * s -> arel a b x x' -> bs_t2 M' s' x' == bs_t2 M s x.
Proof.
  intros HM Hs Hx. unfold bs_t2. cbv zeta. rewrite (bs_in_arel M M' s s' x x' HM Hs Hx).
  destruct (bs_in M s x); [|reflexivity].
  rewrite (bw_u_arel a b Ha M M' s s' x x' HM Hs Hx). reflexivity.
Qed.
Lemma bs_f1_arel M M' s s' :
  arel a b M M' -> s' == a * s -> bs_f1 M' s' l' == a * a * bs_f1 M s l.
Proof.
  intros HM Hs. unfold bs_f1. apply (sumQ_map_rel (arel a b)); [exact Hl|].
  intros x x' Hx. now apply bs_t1_arel.
Qed.
Lemma bs_s2_arel M M' s s' :
  arel a b M M' -> s' == a * s -> bs_s2 M' s' l' == bs_s2 M s l.
Proof.
  intros HM Hs. unfold bs_s2.
  rewrite (sumQ_map_rel (arel a b) (bs_t2 M s) (bs_t2 M' s') 1 l l' Hl); [ring|].
  intros x x' Hx. rewrite (bs_t2_arel M M' s s' x x' HM Hs Hx). ring.
Qed.

Lemma rms2_biweight_arel c : rms2_biweight c l' == a * a * rms2_biweight c l.
Proof.
  unfold rms2_biweight. cbv zeta.
  pose proof (qmedian_equivariant a b Ha l l' Hl Hn) as HM.
  pose proof (madQ_arel a b l l' Ha Hl Hn) as Hmad.
  rewrite (Qeq_bool_scale a (madQ l) (madQ l') Ha Hmad).
  destruct (Qeq_bool (madQ l) 0); [rewrite Hmad; ring|].
  assert (Hs : c * madQ l' == a * (c * madQ l)) by (rewrite Hmad; ring).
  rewrite (bs_f1_arel _ _ _ _ HM Hs), (bs_s2_arel _ _ _ _ HM Hs).
  rewrite <- (lenQ_len _ _ (Forall2_len _ _ _ Hl)). unfold Qdiv. ring.
Qed.

Lemma midvariance_defined_arel c : midvariance_defined c l' = midvariance_defined c l.
Proof.
  unfold midvariance_defined.
  pose proof (qmedian_equivariant a b Ha l l' Hl Hn) as HM.
  pose proof (madQ_arel a b l l' Ha Hl Hn) as Hmad.
  assert (Hs : c * madQ l' == a * (c * madQ l)) by (rewrite Hmad; ring).
  rewrite (Qeq_bool_scale a (madQ l) (madQ l') Ha Hmad), (bs_s2_arel _ _ _ _ HM Hs).
  reflexivity.
Qed.

Lemma rms2_of_class_arel R : rms2_of_class R l' == a * a * rms2_of_class R l.
Proof.
  destruct R; cbn [rms2_of_class].
  - apply rms2_std_arel.
  - apply rms2_madstd_arel.
  - apply rms2_biweight_arel.
Qed.
End RmsAffine.

Lemma rms2_of_class_map R a b l : 0 < a -> l <> [] ->
  rms2_of_class R (map (fun v => a * v + b) l) == a * a * rms2_of_class R l.
Proof. intros Ha Hn. exact (rms2_of_class_arel a b Ha l _ (Forall2_map_arel a b l) Hn R). Qed.

(* constants *)
Lemma rms2_of_class_const R c l : l <> [] -> allq c l -> rms2_of_class R l == 0.
Proof.
  intros Hn Hc. destruct R; cbn [rms2_of_class].
  - now apply (varQ_const c).
  - unfold rms2_madstd. rewrite (madQ_const c l Hn Hc). ring.
  - unfold rms2_biweight. cbv zeta.
    assert (E : Qeq_bool (madQ l) 0 = true) by (apply Qeq_bool_iff; now apply (madQ_const c)).
    rewrite E, (madQ_const c l Hn Hc). ring.
Qed.

(* non-negativity *)
Lemma bs_t1_nonneg M s x : 0 <= bs_t1 M s x.
Proof.
  unfold bs_t1. cbv zeta. destruct (bs_in M s x); [|lra].
  set (v := 1 - bw_u M s x * bw_u M s x).
  pose proof (sq_nonneg (x - M)). pose proof (sq_nonneg (v * v)). nra.
Qed.
Lemma rms2_of_class_nonneg R l : 0 <= rms2_of_class R l.
Proof.
  destruct R; cbn [rms2_of_class].
  - apply varQ_nonneg.
  - apply sq_nonneg.
  - unfold rms2_biweight. cbv zeta. destruct (Qeq_bool (madQ l) 0); [apply sq_nonneg|].
    set (S2 := bs_s2 _ _ _).
    pose proof (sumQ_map_nonneg (bs_t1 (qmedian l) (c * madQ l)) l
                  (fun x _ => bs_t1_nonneg _ _ x)) as Hf1.
    fold (bs_f1 (qmedian l) (c * madQ l) l) in Hf1.
    pose proof (lenQ_nonneg l) as Hlen. unfold Qdiv.
    apply Qmult_le_0_compat; [apply Qmult_le_0_compat; assumption|].
    apply Qinv_le_0_compat, sq_nonneg.
Qed.

(* ================================================================== *)
(* Part 6: SExtractor's switch on squares is the ratio test             *)
(* ================================================================== *)
(* whenever std = r exists in Q (r > 0, r^2 = var):  |mean - med| / r >= 3/10  <->  the model's test *)
Lemma sext_switch_spec mean med var r :
  0 < r -> r * r == var ->
  (Qle_bool ((9 # 100) * var) ((mean - med) * (mean - med)) = true <-> (3 # 10) <= Qabs (mean - med) / r).
Proof.
  intros Hr Hv. rewrite Qle_bool_iff, <- Hv.
  set (d := mean - med). pose proof (Qabs_nonneg d) as Hd.
  assert (E : d * d == Qabs d * Qabs d).
  { rewrite <- Qabs_Qmult. symmetry. apply Qabs_pos, sq_nonneg. }
  rewrite E. split; intros H.
  - apply Qle_shift_div_l; [exact Hr|]. nra.
  - assert (H' : (3 # 10) * r <= Qabs d).
    { apply (Qmult_le_r _ _ (/ r)); [now apply Qinv_lt_0_compat|].
      rewrite <- Qmult_assoc, Qmult_inv_r by lra. unfold Qdiv in H. lra. }
    nra.
Qed.

(* ================================================================== *)
(* Part 6b: the boundary of the biweight cut is immaterial              *)
(* ================================================================== *)
(* at |u| = 1 the weight (1-u^2)^2 and both midvariance terms vanish, so `|u| >= 1` vs `|u| > 1`
   (location) and `|u| < 1` vs `|u| <= 1` (scale) define the same functions: a mutation of the
   comparison operator is not observable, whatever the data *)
Definition bw_w_strict (M s x : Q) : Q :=
  let u := bw_u M s x in
  if Qlt_bool 1 (Qabs u) then 0 else (1 - u * u) * (1 - u * u).
Definition bs_in_incl (M s x : Q) : bool := Qle_bool (Qabs (bw_u M s x)) 1.
Definition bs_t1_incl (M s x : Q) : Q :=
  if bs_in_incl M s x
  then let v := 1 - bw_u M s x * bw_u M s x in (x - M) * (x - M) * ((v * v) * (v * v))
  else 0.
Definition bs_t2_incl (M s x : Q) : Q :=
  if bs_in_incl M s x
  then let u2 := bw_u M s x * bw_u M s x in (1 - u2) * (1 - 5 * u2)
  else 0.
Definition est_biweight_with (w : Q -> Q -> Q -> Q) (c : Q) (l : list Q) : Q :=
  let M := qmedian l in
  let mad := madQ l in
  if Qeq_bool mad 0 then M
  else M + sumQ (map (fun x => (x - M) * w M (c * mad) x) l) / sumQ (map (w M (c * mad)) l).

Lemma abs_one_sq u : Qabs u == 1 -> u * u == 1.
Proof.
  intros H. assert (E : u * u == Qabs u * Qabs u).
  { rewrite <- Qabs_Qmult. symmetry. apply Qabs_pos, sq_nonneg. }
  rewrite E, H. ring.
Qed.

Lemma bw_w_cut_boundary M s x : bw_w_strict M s x == bw_w M s x.
Proof.
  unfold bw_w_strict, bw_w. cbv zeta. set (u := bw_u M s x).
  destruct (Qle_bool 1 (Qabs u)) eqn:E1; destruct (Qlt_bool 1 (Qabs u)) eqn:E2; try reflexivity.
  - apply Qle_bool_iff in E1. apply Qlt_bool_false in E2.
    assert (H : Qabs u == 1) by lra. rewrite (abs_one_sq u H). ring.
  - apply Qlt_bool_iff in E2. assert (H : Qle_bool 1 (Qabs u) = true) by (apply Qle_bool_iff; lra).
    congruence.
Qed.

Lemma bs_terms_cut_boundary M s x :
  bs_t1_incl M s x == bs_t1 M s x /\ bs_t2_incl M s x == bs_t2 M s x.
Proof.
  unfold bs_t1_incl, bs_t1, bs_t2_incl, bs_t2, bs_in_incl, bs_in. cbv zeta. set (u := bw_u M s x).
  destruct (Qle_bool (Qabs u) 1) eqn:E1; destruct (Qlt_bool (Qabs u) 1) eqn:E2;
    try (split; reflexivity).
  - apply Qle_bool_iff in E1. apply Qlt_bool_false in E2.
    assert (H : Qabs u == 1) by lra. rewrite (abs_one_sq u H). split; ring.
  - apply Qlt_bool_iff in E2. assert (H : Qle_bool (Qabs u) 1 = true) by (apply Qle_bool_iff; lra).
    congruence.
Qed.

Lemma sumQ_map_ext_eq (f g : Q -> Q) l : (forall x, f x == g x) -> sumQ (map f l) == sumQ (map g l).
Proof.
  intros H. induction l as [|x l IH].
  - reflexivity.
  - now rewrite !sumQ_map_cons, IH, H.
Qed.

Lemma est_biweight_cut_boundary c l : est_biweight_with bw_w_strict c l == est_biweight c l.
Proof.
  unfold est_biweight_with, est_biweight, bw_num, bw_den. cbv zeta.
  destruct (Qeq_bool (madQ l) 0); [reflexivity|].
  rewrite (sumQ_map_ext_eq (bw_w_strict (qmedian l) (c * madQ l)) (bw_w (qmedian l) (c * madQ l)) l)
    by (intros x; apply bw_w_cut_boundary).
  rewrite (sumQ_map_ext_eq (fun x => (x - qmedian l) * bw_w_strict (qmedian l) (c * madQ l) x)
                           (fun x => (x - qmedian l) * bw_w (qmedian l) (c * madQ l) x) l)
    by (intros x; now rewrite bw_w_cut_boundary).
  reflexivity.
Qed.

(* ================================================================== *)
(* Part 7: the instances for C11                                        *)
(* ================================================================== *)
(* what is needed of the square root that turns the squared statistic into the RMS: it respects
   ==, and is positively homogeneous of degree 1/2 (sqrt(k^2 x) = k sqrt(x)) *)
Definition root_compatible (rt : Q -> Q) : Prop := forall x y, x == y -> rt x == rt y.
Definition root_homogeneous (rt : Q -> Q) : Prop :=
  root_compatible rt /\ forall k x, 0 < k -> 0 <= x -> rt (k * k * x) == k * rt x.

Lemma allq_inject c (l : list Z) : (forall v, In v l -> v = c) -> allq (inject_Z c) (map inject_Z l).
Proof. intros H q Hq. apply in_map_iff in Hq as (v & <- & Hv). now rewrite (H v Hv). Qed.
Lemma map_inject_nonempty (l : list Z) : l <> [] -> map inject_Z l <> [].
Proof. destruct l; [congruence|discriminate]. Qed.

(* the estimator premise of shift_scale_equivariant_partial *)
Lemma estZ_equivariant B k c l : class_equivariant B -> (0 < k)%Z -> l <> [] ->
  estZ B (map (fun v => (k * v + c)%Z) l) == inject_Z k * estZ B l + inject_Z c.
Proof.
  intros HB Hk Hn. unfold estZ.
  exact (est_of_class_arel _ _ (inject_Z_pos k Hk) _ _ (inject_affine k c l)
           (map_inject_nonempty l Hn) B HB).
Qed.
(* the squared statistic scales by k^2 ... *)
Lemma rms2Z_equivariant R k c l : (0 < k)%Z -> l <> [] ->
  rms2Z R (map (fun v => (k * v + c)%Z) l) == inject_Z k * inject_Z k * rms2Z R l.
Proof.
  intros Hk Hn. unfold rms2Z.
  exact (rms2_of_class_arel _ _ (inject_Z_pos k Hk) _ _ (inject_affine k c l)
           (map_inject_nonempty l Hn) R).
Qed.
(* ... so its root scales by k: the RMS premise of shift_scale_equivariant_partial *)
Lemma rmsZ_equivariant rt R k c l : root_homogeneous rt -> (0 < k)%Z -> l <> [] ->
  rmsZ rt R (map (fun v => (k * v + c)%Z) l) == inject_Z k * rmsZ rt R l.
Proof.
  intros [Hcomp Hhom] Hk Hn. unfold rmsZ.
  rewrite (Hcomp _ _ (rms2Z_equivariant R k c l Hk Hn)).
  apply Hhom; [now apply inject_Z_pos|apply rms2_of_class_nonneg].
Qed.
(* the premises of constant_image_exact *)
Lemma estZ_const B c l : class_equivariant B -> l <> [] -> (forall v, In v l -> v = c) ->
  estZ B l == inject_Z c.
Proof.
  intros HB Hn H. unfold estZ.
  apply est_of_class_const; [now apply map_inject_nonempty|now apply allq_inject|exact HB].
Qed.
Lemma rms2Z_const R c l : l <> [] -> (forall v, In v l -> v = c) -> rms2Z R l == 0.
Proof.
  intros Hn H. unfold rms2Z.
  apply (rms2_of_class_const R (inject_Z c)); [now apply map_inject_nonempty|now apply allq_inject].
Qed.
Lemma rmsZ_const rt R c l : (forall x, x == 0 -> rt x == 0) ->
  l <> [] -> (forall v, In v l -> v = c) -> rmsZ rt R l == 0.
Proof. intros Hrt Hn H. unfold rmsZ. apply Hrt. now apply (rms2Z_const R c). Qed.

(* the clip: none, or the sigma clip of C11S *)
Lemma clip_of_incl o l v : In v (clip_of o l) -> In v l.
Proof.
  destruct o as [P|]; cbn [clip_of]; [|trivial].
  unfold clipZ. intros H. now apply filter_In in H.
Qed.
Lemma clip_of_affine o k c : (0 < k)%Z -> forall l,
  clip_of o (map (fun v => (k * v + c)%Z) l) = map (fun v => (k * v + c)%Z) (clip_of o l).
Proof.
  intros Hk l. destruct o as [P|]; cbn [clip_of]; [now apply clipZ_affine|reflexivity].
Qed.

(* a root with the required properties exists over Q (the trivial one; the intended instance is
   the real square root, which is not a function Q -> Q) and the identity is compatible with 0 *)
Lemma root_homogeneous_satisfiable : root_homogeneous (fun _ => 0).
Proof. split; [intros x y _; reflexivity|intros k x _ _; ring]. Qed.
Lemma root_zero_satisfiable : forall x, x == 0 -> (fun y : Q => y) x == 0.
Proof. intros x H. exact H. Qed.
Lemma root_homogeneous_zero rt : root_homogeneous rt -> forall x, x == 0 -> rt x == 0.
Proof.
  intros [Hcomp Hhom] x Hx.
  assert (E : rt x == 2 * rt x).
  { rewrite <- (Hhom 2 x) by lra. apply Hcomp. rewrite Hx. ring. }
  lra.
Qed.

Section Instances.
Variables (ny nx by0 bx0 : nat).
Hypothesis Hny : (0 < ny)%nat.
Hypothesis Hnx : (0 < nx)%nat.
Hypothesis Hby0 : (0 < by0)%nat.
Hypothesis Hbx0 : (0 < bx0)%nat.
Variable data : img (option Z).
Variables mask cov : img bool.
Variable p : Q.
Variable B : bkg_class.
Variable R : rms_class.
Variable rt : Q -> Q.
Variable o : option params.
Variable idw : img (option Q) -> nat -> nat -> Q.
Variables (fy fx : nat) (fthr : option Q).
Hypothesis Hfy : (0 < fy)%nat.
Hypothesis Hfx : (0 < fx)%nat.
Variables (fill : Q) (do_clip : bool).
Variable interp : img Q -> nat -> nat -> Q.
Hypothesis HB : class_equivariant B.

(* constant_image_exact with every premise on the estimators, the clip and the window median
   discharged; what is asked of the root: sqrt 0 = 0 *)
Lemma b2d_constant_classes (c : Z) np nm bm rm b r :
  (forall x, x == 0 -> rt x == 0) ->
  (forall y x, (y < ny)%nat -> (x < nx)%nat ->
     pix data mask cov y x = None \/ pix data mask cov y x = Some c) ->
  background2d ny nx by0 bx0 data mask cov p (estZ B) (rmsZ rt R) (clip_of o) idw qmedian fy fx fthr
               fill do_clip interp = Maps np nm bm rm b r ->
  (forall i j, (i < nmy ny (clipbox by0 ny))%nat -> (j < nmx nx (clipbox bx0 nx))%nat ->
     get2 0 bm i j == inject_Z c /\ get2 0 rm i j == 0) /\
  (forall y x d, (y < ny)%nat -> (x < nx)%nat ->
     if get2 false cov y x then get2 d b y x = fill /\ get2 d r y x = fill
     else get2 d b y x == inject_Z c /\ get2 d r y x == 0).
Proof.
  intros Hrt Hconst E.
  eapply (b2d_constant ny nx by0 bx0 Hny Hnx Hby0 Hbx0 data mask cov p (estZ B) (rmsZ rt R) (clip_of o)
            idw qmedian fy fx fthr Hfy Hfx fill do_clip interp c Hconst); try exact E.
  - intros l v. apply clip_of_incl.
  - intros l Hn H. now apply estZ_const.
  - intros l Hn H. now apply (rmsZ_const rt R c).
  - intros q l. apply qmedian_const.
Qed.

(* shift_scale_equivariant_partial with the clip, estimator and RMS premises discharged *)
Lemma b2d_equivariant_classes (median : list Q -> Q) (k c : Z) :
  (0 < k)%Z -> root_homogeneous rt ->
  idw_equivariant idw -> median_equivariant median -> interp_equivariant interp ->
  (background2d ny nx by0 bx0 data mask cov p (estZ B) (rmsZ rt R) (clip_of o) idw median fy fx fthr fill
     do_clip interp = AllExcluded <->
   background2d ny nx by0 bx0 (map (map (option_map (fun v : Z => (k * v + c)%Z))) data) mask cov p (estZ B)
     (rmsZ rt R) (clip_of o) idw median fy fx (option_map (fun t : Q => inject_Z k * t + inject_Z c) fthr) fill
     do_clip interp = AllExcluded) /\
  (forall (np : img nat) (nm : img bool) (bm rm b r : img Q),
   background2d ny nx by0 bx0 data mask cov p (estZ B) (rmsZ rt R) (clip_of o) idw median fy fx fthr fill
     do_clip interp = Maps np nm bm rm b r ->
   exists bm' rm' b' r' : img Q,
     background2d ny nx by0 bx0 (map (map (option_map (fun v : Z => (k * v + c)%Z))) data) mask cov p
       (estZ B) (rmsZ rt R) (clip_of o) idw median fy fx
       (option_map (fun t : Q => inject_Z k * t + inject_Z c) fthr) fill do_clip interp =
       Maps np nm bm' rm' b' r' /\
     irel (arel (inject_Z k) (inject_Z c)) bm bm' /\
     irel (arel (inject_Z k) 0) rm rm' /\
     (forall (y x : nat) (d : Q), (y < ny)%nat -> (x < nx)%nat ->
        if get2 false cov y x
        then (get2 d b y x = fill /\ get2 d b' y x = fill) /\ get2 d r y x = fill /\ get2 d r' y x = fill
        else arel (inject_Z k) (inject_Z c) (get2 d b y x) (get2 d b' y x) /\
             arel (inject_Z k) 0 (get2 d r y x) (get2 d r' y x))).
Proof.
  intros Hk Hrt Hidw Hmed Hint.
  apply shift_scale_equivariant_partial; try assumption.
  - now apply clip_of_affine.
  - intros l Hn. now apply estZ_equivariant.
  - intros l Hn. now apply rmsZ_equivariant.
Qed.
End Instances.

(* the conclusions of C11's two partial theorems, named (C11E_Properties states them in full
   once, for all classes, and uses the names for the per-class corollaries) *)
Definition constant_image_conclusion (ny nx by0 bx0 : nat) (cov : img bool) (fill : Q) (c : Z)
           (bm rm b r : img Q) : Prop :=
  (forall i j, (i < nmy ny (clipbox by0 ny))%nat -> (j < nmx nx (clipbox bx0 nx))%nat ->
     get2 0 bm i j == inject_Z c /\ get2 0 rm i j == 0) /\
  (forall y x d, (y < ny)%nat -> (x < nx)%nat ->
     if get2 false cov y x then get2 d b y x = fill /\ get2 d r y x = fill
     else get2 d b y x == inject_Z c /\ get2 d r y x == 0).

Definition equivariance_conclusion (ny nx by0 bx0 : nat) (data : img (option Z)) (mask cov : img bool)
           (p : Q) (est rms : list Z -> Q) (clip : list Z -> list Z)
           (idw : img (option Q) -> nat -> nat -> Q) (median : list Q -> Q) (fy fx : nat)
           (fthr : option Q) (fill : Q) (do_clip : bool) (interp : img Q -> nat -> nat -> Q)
           (k c : Z) : Prop :=
  (background2d ny nx by0 bx0 data mask cov p est rms clip idw median fy fx fthr fill do_clip interp =
     AllExcluded <->
   background2d ny nx by0 bx0 (map (map (option_map (fun v : Z => (k * v + c)%Z))) data) mask cov p est
     rms clip idw median fy fx (option_map (fun t : Q => inject_Z k * t + inject_Z c) fthr) fill do_clip
     interp = AllExcluded) /\
  (forall (np : img nat) (nm : img bool) (bm rm b r : img Q),
   background2d ny nx by0 bx0 data mask cov p est rms clip idw median fy fx fthr fill do_clip interp =
     Maps np nm bm rm b r ->
   exists bm' rm' b' r' : img Q,
     background2d ny nx by0 bx0 (map (map (option_map (fun v : Z => (k * v + c)%Z))) data) mask cov p
       est rms clip idw median fy fx (option_map (fun t : Q => inject_Z k * t + inject_Z c) fthr) fill
       do_clip interp = Maps np nm bm' rm' b' r' /\
     irel (arel (inject_Z k) (inject_Z c)) bm bm' /\
     irel (arel (inject_Z k) 0) rm rm' /\
     (forall (y x : nat) (d : Q), (y < ny)%nat -> (x < nx)%nat ->
        if get2 false cov y x
        then (get2 d b y x = fill /\ get2 d b' y x = fill) /\ get2 d r y x = fill /\ get2 d r' y x = fill
        else arel (inject_Z k) (inject_Z c) (get2 d b y x) (get2 d b' y x) /\
             arel (inject_Z k) 0 (get2 d r y x) (get2 d r' y x))).

(* the named conclusions ARE the conclusions of C11's theorems *)
Lemma equivariance_conclusion_is_C11 : forall ny nx by0 bx0 : nat,
  (0 < ny)%nat -> (0 < nx)%nat -> (0 < by0)%nat -> (0 < bx0)%nat ->
  forall (data : img (option Z)) (mask cov : img bool) (p : Q) (est rms : list Z -> Q)
         (clip : list Z -> list Z) (idw : img (option Q) -> nat -> nat -> Q) (median : list Q -> Q)
         (fy fx : nat) (fthr : option Q),
  (0 < fy)%nat -> (0 < fx)%nat ->
  forall (fill : Q) (do_clip : bool) (interp : img Q -> nat -> nat -> Q) (k c : Z),
  (0 < k)%Z ->
  (forall l : list Z,
     clip (map (fun v : Z => (k * v + c)%Z) l) = map (fun v : Z => (k * v + c)%Z) (clip l)) ->
  (forall l : list Z,
     l <> nil -> est (map (fun v : Z => (k * v + c)%Z) l) == inject_Z k * est l + inject_Z c) ->
  (forall l : list Z, l <> nil -> rms (map (fun v : Z => (k * v + c)%Z) l) == inject_Z k * rms l) ->
  idw_equivariant idw -> median_equivariant median -> interp_equivariant interp ->
  equivariance_conclusion ny nx by0 bx0 data mask cov p est rms clip idw median fy fx fthr fill do_clip
                          interp k c.
Proof. exact shift_scale_equivariant_partial. Qed.

Lemma constant_conclusion_is_C11 : forall ny nx by0 bx0 : nat,
  (0 < ny)%nat -> (0 < nx)%nat -> (0 < by0)%nat -> (0 < bx0)%nat ->
  forall (data : img (option Z)) (mask cov : img bool) (p : Q) (est rms : list Z -> Q)
         (clip : list Z -> list Z) (idw : img (option Q) -> nat -> nat -> Q) (median : list Q -> Q)
         (fy fx : nat) (fthr : option Q),
  (0 < fy)%nat -> (0 < fx)%nat ->
  forall (fill : Q) (do_clip : bool) (interp : img Q -> nat -> nat -> Q) (c : Z),
  (forall y x : nat, (y < ny)%nat -> (x < nx)%nat ->
     pix data mask cov y x = None \/ pix data mask cov y x = Some c) ->
  (forall (l : list Z) (v : Z), In v (clip l) -> In v l) ->
  (forall l : list Z, l <> nil -> (forall v : Z, In v l -> v = c) -> est l == inject_Z c) ->
  (forall l : list Z, l <> nil -> (forall v : Z, In v l -> v = c) -> rms l == 0) ->
  (forall (q : Q) (l : list Q), l <> nil -> allq q l -> median l == q) ->
  forall (np : img nat) (nm : img bool) (bm rm b r : img Q),
  background2d ny nx by0 bx0 data mask cov p est rms clip idw median fy fx fthr fill do_clip interp =
    Maps np nm bm rm b r ->
  constant_image_conclusion ny nx by0 bx0 cov fill c bm rm b r.
Proof. exact constant_image_exact. Qed.

(* per-class forms, arguments in the order of the theorems of C11E_Properties *)
Lemma b2d_constant_class (B : bkg_class) : class_equivariant B ->
  forall (R : rms_class) (rt : Q -> Q) (o : option params) (ny nx by0 bx0 : nat),
  (0 < ny)%nat -> (0 < nx)%nat -> (0 < by0)%nat -> (0 < bx0)%nat ->
  forall (data : img (option Z)) (mask cov : img bool) (p : Q)
         (idw : img (option Q) -> nat -> nat -> Q) (fy fx : nat) (fthr : option Q),
  (0 < fy)%nat -> (0 < fx)%nat ->
  forall (fill : Q) (do_clip : bool) (interp : img Q -> nat -> nat -> Q) (c : Z),
  (forall x : Q, x == 0 -> rt x == 0) ->
  (forall y x : nat, (y < ny)%nat -> (x < nx)%nat ->
     pix data mask cov y x = None \/ pix data mask cov y x = Some c) ->
  forall (np : img nat) (nm : img bool) (bm rm b r : img Q),
  background2d ny nx by0 bx0 data mask cov p (estZ B) (rmsZ rt R) (clip_of o) idw qmedian fy fx fthr
               fill do_clip interp = Maps np nm bm rm b r ->
  constant_image_conclusion ny nx by0 bx0 cov fill c bm rm b r.
Proof.
  intros HB R rt o ny nx by0 bx0 Hny Hnx Hby Hbx data mask cov p idw fy fx fthr Hfy Hfx fill do_clip
         interp c Hrt Hconst np nm bm rm b r E.
  exact (b2d_constant_classes ny nx by0 bx0 Hny Hnx Hby Hbx data mask cov p B R rt o idw fy fx fthr
           Hfy Hfx fill do_clip interp HB c np nm bm rm b r Hrt Hconst E).
Qed.

Lemma b2d_equivariant_class (B : bkg_class) : class_equivariant B ->
  forall (R : rms_class) (rt : Q -> Q) (o : option params) (ny nx by0 bx0 : nat),
  (0 < ny)%nat -> (0 < nx)%nat -> (0 < by0)%nat -> (0 < bx0)%nat ->
  forall (data : img (option Z)) (mask cov : img bool) (p : Q)
         (idw : img (option Q) -> nat -> nat -> Q) (median : list Q -> Q) (fy fx : nat) (fthr : option Q),
  (0 < fy)%nat -> (0 < fx)%nat ->
  forall (fill : Q) (do_clip : bool) (interp : img Q -> nat -> nat -> Q) (k c : Z),
  (0 < k)%Z -> root_homogeneous rt ->
  idw_equivariant idw -> median_equivariant median -> interp_equivariant interp ->
  equivariance_conclusion ny nx by0 bx0 data mask cov p (estZ B) (rmsZ rt R) (clip_of o) idw median fy fx
                          fthr fill do_clip interp k c.
Proof.
  intros HB R rt o ny nx by0 bx0 Hny Hnx Hby Hbx data mask cov p idw median fy fx fthr Hfy Hfx fill
         do_clip interp k c Hk Hrt Hidw Hmed Hint.
  exact (b2d_equivariant_classes ny nx by0 bx0 Hny Hnx Hby Hbx data mask cov p B R rt o idw fy fx fthr
           Hfy Hfx fill do_clip interp HB median k c Hk Hrt Hidw Hmed Hint).
Qed.

(* pure shift (k = 1): "adding c adds c to the background and leaves the RMS" needs nothing of the
   root but that it is a function of the value (compatible with ==) *)
Lemma b2d_shift_class (B : bkg_class) : class_equivariant B ->
  forall (R : rms_class) (rt : Q -> Q) (o : option params) (ny nx by0 bx0 : nat),
  (0 < ny)%nat -> (0 < nx)%nat -> (0 < by0)%nat -> (0 < bx0)%nat ->
  forall (data : img (option Z)) (mask cov : img bool) (p : Q)
         (idw : img (option Q) -> nat -> nat -> Q) (median : list Q -> Q) (fy fx : nat) (fthr : option Q),
  (0 < fy)%nat -> (0 < fx)%nat ->
  forall (fill : Q) (do_clip : bool) (interp : img Q -> nat -> nat -> Q) (c : Z),
  root_compatible rt ->
  idw_equivariant idw -> median_equivariant median -> interp_equivariant interp ->
  equivariance_conclusion ny nx by0 bx0 data mask cov p (estZ B) (rmsZ rt R) (clip_of o) idw median fy fx
                          fthr fill do_clip interp 1 c.
Proof.
  intros HB R rt o ny nx by0 bx0 Hny Hnx Hby Hbx data mask cov p idw median fy fx fthr Hfy Hfx fill
         do_clip interp c Hrt Hidw Hmed Hint.
  apply equivariance_conclusion_is_C11; try assumption; try reflexivity.
  - now apply clip_of_affine.
  - intros l Hn. now apply estZ_equivariant.
  - intros l Hn. unfold rmsZ. transitivity (rt (rms2Z R l)).
    + apply Hrt. rewrite (rms2Z_equivariant R 1 c l eq_refl Hn). change (inject_Z 1) with 1. ring.
    + change (inject_Z 1) with 1. ring.
Qed.
