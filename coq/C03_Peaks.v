(* C03 -- find_peaks (the STABLE model of C14, imported read-only) under the zero-padded embedding:
   with a scalar threshold t, padding value z <= t, no border_width and a footprint containing its
   centre, the candidate peaks of the canvas are exactly the translated candidate peaks of the image.
   Proved from C14's characterisation [cands_spec] (candidates = peak_spec), with the pixel embedding
   [sigma] of C03_Detect. *)
From Coq Require Import List Arith ZArith Bool Lia.
From PV Require Import lib.Cases C03_Model C03_Proofs C03_Detect.
From PV Require Import C14_Model C14_Proofs.
Import ListNotations.
Open Scope nat_scope.

Section PeaksShift.
Variables (ny nx dy dx NY NX : nat).
Hypothesis (Hnx : 0 < nx) (HY : dy + ny <= NY) (HX : dx + nx <= NX).
Variables (data data' : list (option Z)) (mask mask' : option (list bool)) (fp : list (list bool)) (t z : Z).
Hypothesis Hz : (z <= t)%Z.
Notation sg := (sigma nx dy dx NX).
Notation n := (ny * nx).
Notation N' := (NY * NX).
Hypothesis Hd_in : forall p, p < n -> dget data' (sg p) = dget data p.
Hypothesis Hd_out : forall q, q < N' -> (forall p, p < n -> q <> sg p) -> dget data' q = Some z.
Hypothesis Hm_in : forall p, p < n -> masked mask' (sg p) = masked mask p.
Notation thr := (TScalar (Some t)).

Lemma npx_eq a b : npx a b = a * b. Proof. reflexivity. Qed.

Lemma sg_lt p : p < n -> sg p < N'.
Proof. intros Hp. apply (sigma_lt ny nx dy dx NY NX Hnx HY HX p). exact Hp. Qed.

Lemma sg_yx y x : x < nx -> sg (y * nx + x) = (y + dy) * NX + (x + dx).
Proof. intros Hx. unfold sigma. destruct (divmod_yx nx y x Hx) as [-> ->]. reflexivity. Qed.

Lemma window_dec q : q < N' -> (exists p, p < n /\ q = sg p) \/ (forall p, p < n -> q <> sg p).
Proof.
  intros Hq. assert (HNX : 0 < NX) by lia.
  pose proof (Nat.div_mod q NX ltac:(lia)) as Eq.
  assert (Hx : q mod NX < NX) by (apply Nat.mod_upper_bound; lia).
  destruct (le_lt_dec dy (q / NX)) as [H1|H1]; [destruct (le_lt_dec (dy + ny) (q / NX)) as [H2|H2]|].
  2: destruct (le_lt_dec dx (q mod NX)) as [H3|H3]; [destruct (le_lt_dec (dx + nx) (q mod NX)) as [H4|H4]|].
  3: { left. exists ((q / NX - dy) * nx + (q mod NX - dx)). split.
       - assert ((q / NX - dy + 1) * nx <= ny * nx) by (apply Nat.mul_le_mono_r; lia). lia.
       - rewrite sg_yx by lia. rewrite Eq at 1.
         replace (q / NX - dy + dy) with (q / NX) by lia. replace (q mod NX - dx + dx) with (q mod NX) by lia. lia. }
  all: right; intros p Hp E;
    pose proof (row_lt ny nx dy dx NY NX Hnx HY HX p Hp); pose proof (col_lt ny nx dy dx NY NX Hnx HY HX p);
    pose proof (sigma_div ny nx dy dx NY NX Hnx HY HX p) as E1; pose proof (sigma_mod ny nx dy dx NY NX Hnx HY HX p) as E2;
    rewrite <- E in E1, E2; lia.
Qed.

(* the in-frame neighbour (row y, column x) of the image is the canvas pixel (y + dy, x + dx) *)
Lemma pix_at_sigma y x r : pix_at ny nx y x r ->
  r < n /\ pix_at NY NX (y + Z.of_nat dy)%Z (x + Z.of_nat dx)%Z (sg r).
Proof.
  intros (Hy & Hx & ->). split.
  - assert ((Z.to_nat y + 1) * nx <= ny * nx) by (apply Nat.mul_le_mono_r; lia). lia.
  - split; [lia|]. split; [lia|]. rewrite sg_yx by lia.
    replace (Z.to_nat (y + Z.of_nat dy)) with (Z.to_nat y + dy) by lia.
    replace (Z.to_nat (x + Z.of_nat dx)) with (Z.to_nat x + dx) by lia. reflexivity.
Qed.

Lemma py_sg p : p < n -> py NX (sg p) = (py nx p + Z.of_nat dy)%Z.
Proof. intros Hp. unfold py. rewrite (sigma_div ny nx dy dx NY NX Hnx HY HX p). lia. Qed.
Lemma px_sg p : p < n -> px NX (sg p) = (px nx p + Z.of_nat dx)%Z.
Proof. intros Hp. unfold px. rewrite (sigma_mod ny nx dy dx NY NX Hnx HY HX p). lia. Qed.

Lemma peak_spec_shift q :
  peak_spec NY NX data' thr fp mask' None q <->
  exists p, p < n /\ q = sg p /\ peak_spec ny nx data thr fp mask None p.
Proof.
  split.
  - intros (Hq & v & Dv & Mq & Bq & (t0 & Et & Ht) & Hnb). cbn in Et. injection Et as <-.
    destruct (window_dec q Hq) as [(p & Hp & ->)|Hout].
    2: { rewrite (Hd_out q Hq Hout) in Dv. injection Dv as <-. lia. }
    exists p. split; [exact Hp|]. split; [reflexivity|].
    split; [exact Hp|]. exists v. rewrite Hd_in in Dv by exact Hp. rewrite Hm_in in Mq by exact Hp.
    split; [exact Dv|]. split; [exact Mq|]. split; [intros []|]. split; [exists t; split; [reflexivity|exact Ht]|].
    intros oy ox r w Hin Hpix Dr. destruct (pix_at_sigma _ _ _ Hpix) as [Hr Hpix'].
    apply (Hnb oy ox (sg r) w Hin).
    + rewrite py_sg, px_sg by exact Hp.
      replace (py nx p + Z.of_nat dy + oy)%Z with (py nx p + oy + Z.of_nat dy)%Z by lia.
      replace (px nx p + Z.of_nat dx + ox)%Z with (px nx p + ox + Z.of_nat dx)%Z by lia. exact Hpix'.
    + rewrite Hd_in by exact Hr. exact Dr.
  - intros (p & Hp & -> & (_ & v & Dv & Mp & _ & (t0 & Et & Ht) & Hnb)). cbn in Et. injection Et as <-.
    split; [apply sg_lt; exact Hp|]. exists v. rewrite Hd_in, Hm_in by exact Hp.
    split; [exact Dv|]. split; [exact Mp|]. split; [intros []|]. split; [exists t; split; [reflexivity|exact Ht]|].
    intros oy ox r' w Hin Hpix Dr'.
    assert (Hr' : r' < N').
    { destruct Hpix as (Hy & Hx & ->).
      assert ((Z.to_nat (py NX (sg p) + oy) + 1) * NX <= NY * NX) by (apply Nat.mul_le_mono_r; lia). lia. }
    destruct (window_dec r' Hr') as [(r & Hr & ->)|Hout].
    2: { rewrite (Hd_out r' Hr' Hout) in Dr'. injection Dr' as <-. lia. }
    rewrite Hd_in in Dr' by exact Hr.
    apply (Hnb oy ox r w Hin); [|exact Dr'].
    (* sg r sits at canvas (py' + oy, px' + ox): hence r at (py p + oy, px p + ox) of the image *)
    destruct Hpix as (Hy & Hx & E). rewrite py_sg, px_sg in * by exact Hp.
    pose proof (row_lt ny nx dy dx NY NX Hnx HY HX r Hr) as Hrow.
    pose proof (col_lt ny nx dy dx NY NX Hnx HY HX r) as Hcol.
    pose proof (sigma_div ny nx dy dx NY NX Hnx HY HX r) as E1.
    pose proof (sigma_mod ny nx dy dx NY NX Hnx HY HX r) as E2.
    assert (HNX : 0 < NX) by lia.
    assert (Hxx : Z.to_nat (px nx p + Z.of_nat dx + ox) < NX) by lia.
    destruct (divmod_yx NX (Z.to_nat (py nx p + Z.of_nat dy + oy)) (Z.to_nat (px nx p + Z.of_nat dx + ox)) Hxx) as [D1 D2].
    rewrite <- E in D1, D2. rewrite E1 in D1. rewrite E2 in D2.
    pose proof (Nat.div_mod r nx ltac:(lia)) as Er.
    split; [lia|]. split; [lia|].
    replace (Z.to_nat (py nx p + oy)) with (r / nx) by lia.
    replace (Z.to_nat (px nx p + ox)) with (r mod nx) by lia. lia.
Qed.

(* find_peaks' candidate pixels (before the optional npeaks cut) *)
Theorem find_peaks_candidates_shift q : In (0, 0)%Z (offsets fp) ->
  (In q (cands NY NX data' thr fp mask' None true true) <->
   exists p, p < n /\ q = sg p /\ In p (cands ny nx data thr fp mask None true true)).
Proof.
  intros H0. rewrite (cands_spec NY NX data' thr fp mask' None q H0), peak_spec_shift.
  split; intros (p & Hp & E & H); exists p; (split; [exact Hp|]); (split; [exact E|]);
    apply (cands_spec ny nx data thr fp mask None p H0); exact H.
Qed.
End PeaksShift.

(* the hypotheses hold for the concrete zero-padded canvas (flattened in raster order) *)
Lemma embed_data_hypotheses ny nx dy dx NY NX (d2 : img (option Z)) (z : Z) :
  rect ny nx d2 -> 0 < nx -> dy + ny <= NY -> dx + nx <= NX ->
  (forall p, p < ny * nx -> dget (concat (embed (Some z) dy dx NY NX d2)) (sigma nx dy dx NX p) = dget (concat d2) p) /\
  (forall y x, y < NY -> x < NX -> ~ (dy <= y < dy + ny /\ dx <= x < dx + nx) ->
     dget (concat (embed (Some z) dy dx NY NX d2)) (y * NX + x) = Some z).
Proof.
  intros Hr Hnx HY HX. pose proof (embed_rect (Some z) dy dx NY NX ny nx d2 Hr HY HX) as HR. split.
  - intros p Hp. pose proof (row_lt ny nx dy dx NY NX Hnx HY HX p Hp) as Hrow.
    pose proof (col_lt ny nx dy dx NY NX Hnx HY HX p) as Hcol. unfold dget.
    rewrite (Nat.div_mod p nx ltac:(lia)) at 2. rewrite (Nat.mul_comm nx (p / nx)).
    rewrite (nth_concat_rect None ny nx d2 _ _ Hr Hrow Hcol).
    unfold sigma. replace (p / nx + dy) with (dy + p / nx) by lia. replace (p mod nx + dx) with (dx + p mod nx) by lia.
    rewrite (nth_concat_rect None NY NX _ _ _ HR) by lia.
    destruct Hr as [Hl Hrows]. apply get_embed_in; [lia|].
    rewrite Forall_forall in Hrows. rewrite (Hrows (nth (p / nx) d2 [])); [exact Hcol|]. apply nth_In. lia.
  - intros y x Hy Hx Hout. unfold dget. rewrite (nth_concat_rect None NY NX _ y x HR Hy Hx).
    unfold get. assert (E : forall (a : img (option Z)) d1 d2', (y < length a) -> (x < length (nth y a [])) ->
                      nth x (nth y a []) d1 = nth x (nth y a []) d2') by (intros; apply nth_indep; assumption).
    destruct HR as [HRl HRr].
    rewrite (E _ None (Some z)); [apply (get_embed_out (Some z) dy dx NY NX ny nx d2 y x); try assumption; split; assumption| lia |].
    rewrite Forall_forall in HRr. rewrite (HRr (nth y (embed (Some z) dy dx NY NX d2) [])); [exact Hx|]. apply nth_In. lia.
Qed.
