(* C20H — harmonic analysis and geometry correctors of the isophote fitter
   (photutils/isophote/harmonics.py, fitter.py): theorems about the model of C20H_Model.v.
   Each theorem is closed by [exact] of a lemma of C20H_Proofs; everything is over Q and closed
   under the global context.

   (1) The linear least-squares problem behind fit_first_and_second_harmonics / fit_upper_harmonic
       (scipy's leastsq is NOT modelled: its result is specified by the normal equations).
       A coefficient vector minimises the residual sum of squares IFF it satisfies the normal
       equations (convexity identity, no reals); data exactly of the harmonic form are
       reproduced with zero residual; the solution is UNIQUE when the Gram matrix is nonsingular
       ([nonsingular], a computable predicate: a fraction-free (Bareiss) inverse that is CHECKED by
       computation); hence an exact isophote (constant intensity) has all harmonic amplitudes 0
       and exactly harmonic data are recovered.  The solver used by the correspondence is sound
       and complete under the same predicate.
   (2) The four correctors as coded: frame (only the own parameter group moves), FIXED POINT
       (a zero harmonic leaves the geometry unchanged; for the angle: 0 <= pa < pi, for the
       ellipticity: eps <= MAX_EPS), Newton-step statements (if the harmonic is the first-order
       response -gradient * d(radius) to a displacement delta of the own parameter, the corrector
       undoes exactly delta), the first-order responses themselves as polynomial identities of
       the squared elliptical radius (these are the only places where c^2+s^2 = 1 and the
       double-angle relations are used), signs for a decreasing profile.
   (3) The convergence test and THE TRUTH AS A FIXED POINT of EllipseFitter.fit for every fix
       mask that leaves a parameter free: the returned geometry is the given one, the isophote is
       valid, the stop code is 0, 1, 2 or -1; code 0 at the first iteration iff minit <= 1 and
       the test passes, which for a zero harmonic needs a NON-ZERO residual: in exact arithmetic
       an exact isophote NEVER gets stop code 0 ([..._refuted]).
   NOT proved (optimiser dynamics): that the iteration converges to the truth from a start inside
   the basin; that ">= 5 distinct angles" implies [nonsingular] (Bezout for a conic and the unit
   circle; an Example gives 7 rational angles meeting it and 4 failing it); anything about the
   finite-difference Levenberg-Marquardt iteration of leastsq. *)
From Coq Require Import List ZArith Bool QArith Qround.
From PV Require Import lib.Cases C20_Model C20H_Model C20H_Proofs.
Import ListNotations.
Local Open Scope Q_scope.

(* ------------------------------------------------------------------ *)
(* (1) least squares                                                   *)
(* ------------------------------------------------------------------ *)
(* RSS(c + d) = RSS(c) + |A d|^2 + 2 d . A^T(A c - y) *)
Theorem rss_convexity_identity : forall n k A y c d,
  rss n k A y (fun j => c j + d j) ==
  rss n k A y c + sumn n (fun i => dotr k A d i * dotr k A d i)
  + 2 * sumn k (fun j => d j * grad n k A y c j).
Proof. exact rss_expand. Qed.
Print Assumptions rss_convexity_identity.

Theorem least_squares_minimiser_iff_normal_equations : forall n k A y c,
  minimiser n k A y c <-> normal_eq n k A y c.
Proof. exact minimiser_iff_normal_eq. Qed.
Print Assumptions least_squares_minimiser_iff_normal_equations.

Theorem exact_data_satisfy_normal_equations : forall n k A y cs,
  exact_form n k A y cs -> normal_eq n k A y cs /\ rss n k A y cs == 0.
Proof. exact exact_form_both. Qed.
Print Assumptions exact_data_satisfy_normal_equations.

(* the normal equations in matrix form *)
Theorem normal_equations_matrix_form : forall n k A y c j,
  grad n k A y c j == sumn k (fun j' => gram n A j j' * c j') - rhs n A y j.
Proof. exact grad_gram. Qed.
Print Assumptions normal_equations_matrix_form.

Theorem unisolvence_from_left_inverse : forall n k A y M c c',
  (forall l j', (l < k)%nat -> (j' < k)%nat -> mmul k M (gram n A) l j' == delta l j') ->
  normal_eq n k A y c -> normal_eq n k A y c' -> forall l, (l < k)%nat -> c l == c' l.
Proof. exact left_inverse_unique. Qed.
Print Assumptions unisolvence_from_left_inverse.

(* with the computable rank condition *)
Theorem unisolvence : forall rows ys k c c',
  nonsingular rows k = true ->
  normal_eq (length rows) k (Aof rows) (vof ys) c -> normal_eq (length rows) k (Aof rows) (vof ys) c' ->
  forall l, (l < k)%nat -> c l == c' l.
Proof. exact nonsingular_unique. Qed.
Print Assumptions unisolvence.

Theorem solver_sound : forall rows ys k sol,
  ls_solve rows ys k = Some sol -> normal_eq (length rows) k (Aof rows) (vof ys) (vof sol).
Proof. exact ls_solve_sound. Qed.
Print Assumptions solver_sound.
Theorem solver_complete : forall rows ys k,
  nonsingular rows k = true -> exists sol, ls_solve rows ys k = Some sol.
Proof. exact ls_solve_complete. Qed.
Print Assumptions solver_complete.

(* the check evaluated by the correspondence is the relation (tolerance 0) / bounds every
   normal equation (tolerance tol) *)
Theorem normal_equation_check_exact : forall rows ys k c,
  ne_check rows ys k c 0 = true <-> normal_eq (length rows) k (Aof rows) (vof ys) (vof c).
Proof. exact ne_check_zero. Qed.
Print Assumptions normal_equation_check_exact.
Theorem normal_equation_check_tolerance : forall rows ys k c tol,
  ne_check rows ys k c tol = true ->
  forall j, (j < k)%nat -> - tol <= grad (length rows) k (Aof rows) (vof ys) (vof c) j <= tol.
Proof. exact ne_check_tol. Qed.
Print Assumptions normal_equation_check_tolerance.

(* first_and_second_harmonic_function is a row of the design matrix times the coefficients *)
Theorem harmonic_function_is_linear : forall samples co i, (i < length samples)%nat ->
  harm_fun (nth i samples (0, 0, 0, 0)) co == dotr 5 (Aof (map harm_row samples)) (vof co) i.
Proof. exact harm_fun_is_dotr. Qed.
Print Assumptions harmonic_function_is_linear.
Theorem upper_harmonic_function_is_linear : forall samples co i, (i < length samples)%nat ->
  upper_fun (nth i samples (0, 0)) co == dotr 3 (Aof (map upper_row samples)) (vof co) i.
Proof. exact upper_fun_is_dotr. Qed.
Print Assumptions upper_harmonic_function_is_linear.

(* an exact isophote: constant intensity ==> mean = that constant, all four amplitudes 0 *)
Theorem exact_isophote_has_zero_amplitudes : forall samples ys I c,
  nonsingular (map harm_row samples) 5 = true ->
  (forall i, (i < length samples)%nat -> vof ys i == I) ->
  minimiser (length (map harm_row samples)) 5 (Aof (map harm_row samples)) (vof ys) c ->
  c 0%nat == I /\ c 1%nat == 0 /\ c 2%nat == 0 /\ c 3%nat == 0 /\ c 4%nat == 0.
Proof. exact isophote_amplitudes_zero. Qed.
Print Assumptions exact_isophote_has_zero_amplitudes.
Theorem exact_isophote_has_zero_upper_amplitudes : forall samples ys I c,
  nonsingular (map upper_row samples) 3 = true ->
  (forall i, (i < length samples)%nat -> vof ys i == I) ->
  minimiser (length (map upper_row samples)) 3 (Aof (map upper_row samples)) (vof ys) c ->
  c 0%nat == I /\ c 1%nat == 0 /\ c 2%nat == 0.
Proof. exact isophote_upper_amplitudes_zero. Qed.
Print Assumptions exact_isophote_has_zero_upper_amplitudes.

Theorem exactly_harmonic_data_are_recovered : forall samples ys cs c,
  nonsingular (map harm_row samples) 5 = true ->
  (forall i, (i < length samples)%nat -> vof ys i == harm_fun (nth i samples (0, 0, 0, 0)) cs) ->
  minimiser (length (map harm_row samples)) 5 (Aof (map harm_row samples)) (vof ys) c ->
  forall l, (l < 5)%nat -> c l == vof cs l.
Proof. exact harmonic_data_recovered. Qed.
Print Assumptions exactly_harmonic_data_are_recovered.

(* seven distinct angles with rational cosine and sine (c^2+s^2 = 1, s2 = 2 s c, c2 = c^2-s^2)
   meet the rank condition; four angles cannot *)
Definition angle_pt (c s : Q) : Q * Q * Q * Q := (s, c, 2 * s * c, c * c - s * s).
Definition seven_angles : list (Q * Q * Q * Q) :=
  [angle_pt 1 0; angle_pt 0 1; angle_pt (-1) 0; angle_pt 0 (-1);
   angle_pt (3 # 5) (4 # 5); angle_pt (- (4 # 5)) (3 # 5); angle_pt (5 # 13) (- (12 # 13))].
Example seven_angles_on_the_circle :
  forallb (fun t => let '(s, c, s2, c2) := t in Qeq_bool (c * c + s * s) 1) seven_angles = true.
Proof. vm_compute. reflexivity. Qed.
Example seven_angles_nonsingular : nonsingular (map harm_row seven_angles) 5 = true.
Proof. vm_compute. reflexivity. Qed.
Example four_angles_singular : nonsingular (map harm_row (firstn 4 seven_angles)) 5 = false.
Proof. vm_compute. reflexivity. Qed.
Example constant_ring_solution :
  option_map (map Qred) (ls_solve (map harm_row seven_angles) [7; 7; 7; 7; 7; 7; 7] 5) = Some [7; 0; 0; 0; 0].
Proof. vm_compute. reflexivity. Qed.
Example harmonic_ring_solution :
  option_map (map Qred)
    (ls_solve (map harm_row seven_angles) (map (fun t => harm_fun t [1; 2; 3; 4; 5]) seven_angles) 5)
  = Some [1; 2; 3; 4; 5].
Proof. vm_compute. reflexivity. Qed.

(* ------------------------------------------------------------------ *)
(* (2) correctors                                                      *)
(* ------------------------------------------------------------------ *)
Theorem corrector_changes_only_its_own_group : forall max_eps pi_ sma grad_ sinpa cospa k h g,
  let r := corrector max_eps pi_ sma grad_ sinpa cospa k h g in
  match k with
  | 0%nat | 1%nat => gpa r = gpa g /\ geps r = geps g
  | 2%nat => gx r = gx g /\ gy r = gy g /\ geps r = geps g
  | _ => gx r = gx g /\ gy r = gy g /\ gpa r = gpa g
  end.
Proof. exact corrector_frame. Qed.
Print Assumptions corrector_changes_only_its_own_group.

Theorem corrector_fixed_point : forall max_eps pi_ sma grad_ sinpa cospa k h g,
  h == 0 -> 0 <= gpa g -> gpa g < pi_ -> geps g <= max_eps ->
  geq (corrector max_eps pi_ sma grad_ sinpa cospa k h g) g.
Proof. exact corrector_zero. Qed.
Print Assumptions corrector_fixed_point.
(* the position correctors need no hypothesis at all *)
Theorem position_correctors_fixed_point : forall grad_ sinpa cospa h g, h == 0 ->
  geq (pos0 grad_ sinpa cospa h g) g /\ geq (pos1 grad_ sinpa cospa h g) g.
Proof. exact position_correctors_zero. Qed.
Print Assumptions position_correctors_fixed_point.

(* Python's  % np.pi *)
Theorem pymod_in_range : forall x p, 0 < p -> 0 <= pymod x p /\ pymod x p < p.
Proof. exact pymod_range. Qed.
Print Assumptions pymod_in_range.
Theorem pymod_is_congruent : forall x p, exists m : Z, pymod x p == x - inject_Z m * p.
Proof. exact pymod_congruent. Qed.
Print Assumptions pymod_is_congruent.
Theorem pymod_identity_on_range : forall x p, 0 <= x -> x < p -> pymod x p == x.
Proof. exact pymod_small. Qed.
Print Assumptions pymod_identity_on_range.

(* Newton steps *)
Theorem major_axis_corrector_newton : forall grad_ sinpa cospa h g delta,
  ~ grad_ == 0 -> h == - grad_ * delta ->
  gx (pos1 grad_ sinpa cospa h g) == gx g + delta * cospa /\
  gy (pos1 grad_ sinpa cospa h g) == gy g + delta * sinpa.
Proof. exact pos1_newton. Qed.
Print Assumptions major_axis_corrector_newton.
Theorem minor_axis_corrector_newton : forall grad_ sinpa cospa h g delta,
  ~ grad_ == 0 -> ~ 1 - geps g == 0 -> h == - grad_ * delta / (1 - geps g) ->
  gx (pos0 grad_ sinpa cospa h g) == gx g - delta * sinpa /\
  gy (pos0 grad_ sinpa cospa h g) == gy g + delta * cospa.
Proof. exact pos0_newton. Qed.
Print Assumptions minor_axis_corrector_newton.
Theorem angle_corrector_newton : forall sma grad_ h g delta,
  ~ grad_ == 0 -> ~ sma == 0 -> ~ 1 - geps g == 0 -> ~ (1 - geps g) * (1 - geps g) - 1 == 0 ->
  h == grad_ * delta * sma * ((1 - geps g) * (1 - geps g) - 1) / (2 * (1 - geps g)) ->
  angle_correction sma grad_ h g == delta.
Proof. exact angle_newton. Qed.
Print Assumptions angle_corrector_newton.
Theorem ellipticity_corrector_newton : forall sma grad_ h g delta,
  ~ grad_ == 0 -> ~ sma == 0 -> ~ 1 - geps g == 0 ->
  h == - grad_ * sma * delta / (2 * (1 - geps g)) ->
  eps_correction sma grad_ h g == - delta.
Proof. exact eps_newton. Qed.
Print Assumptions ellipticity_corrector_newton.

(* first-order responses of the squared elliptical radius (exact identities; the terms in
   delta^2, sd^2 are the second-order remainders) *)
Theorem response_to_major_axis_shift : forall a e c s delta, ~ 1 - e == 0 -> c * c + s * s == 1 ->
  r2 e (a * c - delta) (a * (1 - e) * s) - a * a == - (2) * a * delta * c + delta * delta.
Proof. exact response_major. Qed.
Print Assumptions response_to_major_axis_shift.
Theorem response_to_minor_axis_shift : forall a e c s delta, ~ 1 - e == 0 -> c * c + s * s == 1 ->
  r2 e (a * c) (a * (1 - e) * s - delta) - a * a
  == - (2) * a * delta * s / (1 - e) + delta * delta / ((1 - e) * (1 - e)).
Proof. exact response_minor. Qed.
Print Assumptions response_to_minor_axis_shift.
Theorem response_to_ellipticity_change : forall a e e' c s c2,
  ~ 1 - e' == 0 -> c * c + s * s == 1 -> c2 == c * c - s * s ->
  r2 e' (a * c) (a * (1 - e) * s) - a * a
  == a * a * ((1 - e) * (1 - e) / ((1 - e') * (1 - e')) - 1) * ((1 - c2) / 2).
Proof. exact response_eps. Qed.
Print Assumptions response_to_ellipticity_change.
Theorem response_to_rotation : forall a e c s s2 c2 cd sd, ~ 1 - e == 0 ->
  c * c + s * s == 1 -> cd * cd + sd * sd == 1 -> s2 == 2 * s * c -> c2 == c * c - s * s ->
  let q := 1 - e in
  r2 e (a * (cd * c + sd * q * s)) (a * (- sd * c + cd * q * s)) - a * a
  == a * a * (cd * sd * s2 * (q - 1 / q)
              + sd * sd * ((q * q - 1) * (1 - c2) / 2 + (1 / (q * q) - 1) * (1 + c2) / 2)).
Proof. exact response_pa. Qed.
Print Assumptions response_to_rotation.

(* signs for a decreasing profile *)
Theorem corrector_signs : forall sma grad_ h g,
  grad_ < 0 -> 0 < sma -> 0 < geps g -> geps g < 1 -> 0 < h ->
  0 < pos1_aux grad_ h /\ 0 < pos0_aux grad_ h g /\
  0 < angle_correction sma grad_ h g /\ eps_correction sma grad_ h g < 0.
Proof. exact corrector_signs_proof. Qed.
Print Assumptions corrector_signs.

(* tie to C20_Model: the corrector FRAME of C20_Model.correct, fed with the computed
   observation, is the transcribed corrector; the index is C20_Model.argmax_masked *)
Theorem computed_observation_instantiates_C20_correct :
  forall conver max_eps pi_ sma shape_x shape_y fc fpa feps g h,
  correct Qnum max_eps (argmax_masked Qnum (hi_coeffs h) (fix_mask fc fpa feps)) g
          (obs_of conver max_eps pi_ sma shape_x shape_y (fix_mask fc fpa feps) g h)
  = corrected max_eps pi_ sma (fix_mask fc fpa feps) g h.
Proof. exact correct_obs_of. Qed.
Print Assumptions computed_observation_instantiates_C20_correct.

(* ------------------------------------------------------------------ *)
(* (3) convergence test, the truth as a fixed point                    *)
(* ------------------------------------------------------------------ *)
Theorem convergence_test_is_the_coded_one : forall conver area sd h, 0 <= sd ->
  conv_test conver area (sd * sd) h = true <-> Qabs' h < conver * area * sd.
Proof. exact conv_test_sqrt. Qed.
Print Assumptions convergence_test_is_the_coded_one.
Theorem convergence_test_zero_harmonic : forall conver area var h, h == 0 ->
  conv_test conver area var h = true <-> 0 < conver * area /\ 0 < var.
Proof. exact conv_test_zero. Qed.
Print Assumptions convergence_test_zero_harmonic.

Theorem truth_is_a_fixed_point_of_fit :
  forall conver max_eps min_eps pi2 pi_ sma shape_x shape_y fc fpa feps inw minit hs g,
  fc && fpa && feps = false ->
  0 <= gpa g -> gpa g < pi_ -> 0 < geps g -> geps g <= max_eps ->
  Forall (exact_iter fc fpa feps) hs ->
  let r := fst (hfit conver max_eps min_eps pi2 pi_ sma shape_x shape_y fc fpa feps inw minit hs g) in
  geq (snd r) g /\ snd (fst r) = true /\
  (fst (fst r) = 0 \/ fst (fst r) = 1 \/ fst (fst r) = 2 \/ fst (fst r) = -1)%Z.
Proof. exact hfit_truth_fixed. Qed.
Print Assumptions truth_is_a_fixed_point_of_fit.

Theorem truth_stops_at_first_iteration_with_code_0 :
  forall conver max_eps min_eps pi2 pi_ sma shape_x shape_y fc fpa feps inw minit h hs g,
  fc && fpa && feps = false -> exact_iter fc fpa feps h -> (minit <= 1)%nat ->
  0 < conver * hi_area h -> 0 < hi_var h ->
  hfit conver max_eps min_eps pi2 pi_ sma shape_x shape_y fc fpa feps inw minit (h :: hs) g = (0%Z, true, g, []).
Proof. exact hfit_truth_first_iteration. Qed.
Print Assumptions truth_stops_at_first_iteration_with_code_0.

(* REFUTED as a statement about exact arithmetic: "started at the truth on an exact isophote,
   fit() returns stop code 0".  The residual is exactly 0 and the test is the STRICT 0 > 0. *)
Theorem truth_gets_stop_code_0_refuted :
  forall conver max_eps min_eps pi2 pi_ sma shape_x shape_y fc fpa feps inw minit hs g,
  fc && fpa && feps = false ->
  0 <= gpa g -> gpa g < pi_ -> 0 < geps g -> geps g <= max_eps ->
  Forall (fun h => exact_iter fc fpa feps h /\ hi_var h == 0) hs ->
  fst (fst (fst (hfit conver max_eps min_eps pi2 pi_ sma shape_x shape_y fc fpa feps inw minit hs g))) <> 0%Z.
Proof. exact hfit_truth_exact_never_code0. Qed.
Print Assumptions truth_gets_stop_code_0_refuted.

(* instances: an exact iteration record; three of them run to maxit = 3 with code 2 and the
   geometry untouched; with a non-zero residual the first one stops with code 0 *)
Definition ex_iter (var : Q) : hin :=
  mkhin false false [0; 0; 0; 0] var 4 false (- (3)) (3 # 5) (4 # 5) true false.
Definition ex_geom : geomQ := mkg 50 60 (1 # 2) (3 # 10).
Example ex_iter_is_exact : exact_iter false false false (ex_iter 0).
Proof. exact (exact_iter_zero_coeffs false false false (ex_iter 0) eq_refl eq_refl eq_refl). Qed.
Example truth_runs_to_maxit_in_exact_arithmetic :
  fst (hfit (5 # 100) (95 # 100) (5 # 100) (157 # 100) (314 # 100) 20 100 100 false false false false 1
            [ex_iter 0; ex_iter 0; ex_iter 0] ex_geom) = (2%Z, true, ex_geom).
Proof. vm_compute. reflexivity. Qed.
Example truth_stops_with_code_0_on_rounding_noise :
  fst (hfit (5 # 100) (95 # 100) (5 # 100) (157 # 100) (314 # 100) 20 100 100 false true false false 1
            [ex_iter (1 # 1000000); ex_iter 0] ex_geom) = (0%Z, true, ex_geom).
Proof. vm_compute. reflexivity. Qed.
